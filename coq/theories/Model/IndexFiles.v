(** The three index files of a sealed segment and what reopening does with them (C06).

    Code modelled:
      crates/sierradb/src/bucket/event_index.rs        OpenEventIndex::close / flush_inner (background flush, one
        write, no fsync, no completion marker), ClosedEventIndex::open / load_index_from_file / get
      crates/sierradb/src/bucket/partition_index/{open,closed}.rs, stream_index/{open,closed}.rs   the same for the
        partition and stream indexes (file = header, MPHF bytes [, bloom], records array, values)
      crates/sierradb/src/database.rs                  DatabaseBuilder::open: every sealed segment's three indexes are
        opened; since the repair an index that is missing or does not validate is rebuilt from the segment's events
        (Open*Index::open + hydrate + flush) instead of aborting the open / being skipped

    A crash between the rollover and the end of the background flush leaves each file missing, empty, a proper
    prefix, or complete.  File contents are abstract: a complete file holds the entry list the writer had
    ([s_idx], layer L1), a prefix is described by its length against the file's layout (three numbers).  The MPHF /
    bloom internals are not modelled; where a lookup of the OLD code depends on the slot of a key, the end offsets
    of the key's record and values are oracle arguments.
    Definitions only; proofs are in Proofs/IndexFilesProofs.v. *)
From Coq Require Import NArith List Bool.
From SV Require Export Model.Store.
Import ListNotations.
Open Scope N_scope.

(** ** file states *)
Inductive fstate :=
  | FMissing               (* no such file *)
  | FPrefix (p : N)        (* the first p bytes of the complete file, p < its length; 0 = empty (as created at the rollover) *)
  | FComplete.

(* layout of a complete index file *)
Record layout := mkLay {
  l_hdr : N;      (* records offset: magic 4, key count 8, MPHF length 8, MPHF bytes (stream index: + bloom length 8, bloom bytes) *)
  l_recs : N;     (* end of the records array (n fixed-size records) *)
  l_total : N     (* end of the values = file length (event index: no values, = l_recs) *)
}.
Definition lay_wf (l : layout) : Prop := 20 <= l_hdr l /\ l_hdr l <= l_recs l /\ l_recs l <= l_total l.
Definition proper (l : layout) (st : fstate) : Prop := match st with FPrefix p => p < l_total l | _ => True end.

(** ** Closed*Index::open *)
(* the code as it is: header + MPHF (+ bloom) must be readable, then all n records must be present, then the values
   every record points to (validate_len); a missing file is an I/O error *)
Definition closed_open (l : layout) (st : fstate) : bool :=
  match st with
  | FMissing => false
  | FPrefix p => (l_hdr l <=? p) && (l_recs l <=? p) && (l_total l <=? p)
  | FComplete => true
  end.

(* the code before the repair: only the header part is read at open; a missing file is not even attempted
   (DatabaseBuilder::open passed None to the reader pool) *)
Inductive view := VAbsent | VPartial (p : N) | VFull.
Definition closed_open_v0 (l : layout) (st : fstate) : option view :=
  match st with
  | FMissing => Some VAbsent
  | FPrefix p => if p <? l_hdr l then None (* read_exact fails: the error aborts DatabaseBuilder::open *) else Some (VPartial p)
  | FComplete => Some VFull
  end.

(** ** a sealed segment as the reader pool holds it: the events file and three indexes *)
Record rseg := mkR { r_recs : list rec; r_e : list ientry; r_p : list ientry; r_s : list ientry }.
Definition rseg_of (g : seg) : rseg := mkR (s_recs g) (s_idx g) (s_idx g) (s_idx g).

Record ifiles := mkFiles {
  f_le : layout; f_e : fstate;     (* index.eidx *)
  f_lp : layout; f_p : fstate;     (* partition.pidx *)
  f_ls : layout; f_s : fstate      (* stream.sidx *)
}.
Definition files_wf (f : ifiles) : Prop :=
  lay_wf (f_le f) /\ lay_wf (f_lp f) /\ lay_wf (f_ls f) /\ proper (f_le f) (f_e f) /\ proper (f_lp f) (f_p f) /\ proper (f_ls f) (f_s f).

(* DatabaseBuilder::open for one index of a sealed segment [g]: the complete file holds the writer's entries
   [s_idx g]; anything that does not open is rebuilt: Open*Index::open + hydrate(events file) + flush + open again *)
Definition load_index (l : layout) (st : fstate) (g : seg) : list ientry :=
  if closed_open l st then s_idx g else hydrate_from (s_recs g) 0.
Definition open_sealed (g : seg) (f : ifiles) : rseg :=
  mkR (s_recs g) (load_index (f_le f) (f_e f) g) (load_index (f_lp f) (f_p f) g) (load_index (f_ls f) (f_s f) g).

(* the file states after the open: whatever was not valid has been rewritten completely *)
Definition files_after (f : ifiles) : ifiles :=
  mkFiles (f_le f) FComplete (f_lp f) FComplete (f_ls f) FComplete.

(* all sealed segments; [fs] gives the file states segment by segment *)
Definition open_sealed_all (gs : list seg) (fs : list ifiles) : list rseg :=
  map (fun gf => open_sealed (fst gf) (snd gf)) (combine gs fs).

(* reopening a store whose process died with the sealed segments' index files in the states [fs] and the live
   segment cut at [keep] records (C05): the store the writer and the live reads see, and the reader pool's segments *)
Definition crash_ix (s : store) (keep : nat) (fs : list ifiles) : store * list rseg :=
  (crash s keep, open_sealed_all (sealed s) fs).
Definition reopen_ix (s : store) (fs : list ifiles) : store * list rseg :=
  (reopen s, open_sealed_all (sealed s) fs).

(** ** which segments are sealed: DatabaseBuilder::open's directory scan.
    [dirs] = the segment directories of a bucket: (segment id, has an events file).  A rollover creates the next
    segment's directory first and its events file second; dying in between leaves a directory without one.  The
    writer (BucketSegmentWriter::latest) takes the newest segment WITH an events file as the live one; every other
    segment with an events file is sealed. *)
Definition newest (ids : list N) : N := fold_left N.max ids 0.
Definition scan_sealed (dirs : list (N * bool)) : list N :=
  let with_events := map fst (filter snd dirs) in
  filter (fun i => negb (i =? newest with_events)) with_events.
(* before the repair the newest DIRECTORY was taken for the live segment, events file or not: after such a crash
   the real live segment was opened as a sealed one as well *)
Definition scan_sealed_v0 (dirs : list (N * bool)) : list N :=
  filter (fun i => negb (i =? newest (map fst dirs))) (map fst (filter snd dirs)).
Definition live_of (dirs : list (N * bool)) : N := newest (map fst (filter snd dirs)).

(** ** lookups in a sealed segment (database.rs read_transaction, bucket/iter.rs try_get_from_reader_set) *)
Definition ev_eqb (a b : event) : bool :=
  (e_id a =? e_id b) && (e_pid a =? e_pid b) && (e_seq a =? e_seq b) && (e_sid a =? e_sid b) && (e_ver a =? e_ver b) &&
  (e_tx a =? e_tx b) && (e_pk a =? e_pk b) && Bool.eqb (e_flag a) (e_flag b).

Definition event_at (recs : list rec) (off : nat) (e : event) : bool :=
  match nth_error recs off with Some (REvent e') => ev_eqb e e' | _ => false end.

(* by id: event index -> offset -> read_committed_events at that offset -> first event *)
Definition find_by_id (r : rseg) (e : event) : bool :=
  match eidx_get (r_e r) (e_id e) with
  | Some off => match fst (read_committed (r_recs r) off) with
                | Some c => match hd_error (committed_events c) with Some e' => ev_eqb e e' | None => false end
                | None => false
                end
  | None => false
  end.
(* by stream / by partition: the key's offsets list holds an offset at which the event is stored *)
Definition find_by_stream (r : rseg) (e : event) : bool :=
  match sidx_get (r_s r) (e_sid e) with Some k => existsb (fun off => event_at (r_recs r) off e) (k_offs k) | None => false end.
Definition find_by_partition (r : rseg) (e : event) : bool :=
  match pidx_get (r_p r) (e_pid e) with Some k => existsb (fun off => event_at (r_recs r) off e) (k_offs k) | None => false end.

(* the acknowledged events of a sealed segment: those of its committed groups *)
Definition seg_committed (recs : list rec) : list event := concat (groups recs).

Definition count (f : event -> bool) (l : list event) : nat := length (filter f l).

(** ** the code before the repair: lookups through a partially written file.
    [rend] / [vend] = end offsets of the key's record and of its values in the complete file (oracles: they
    depend on the MPHF slot) *)
Inductive lres := LFound (off : nat) | LFoundOffs (offs : list nat) | LMiss | LErr.
(* event index: read_exact_at of the record fails beyond the prefix *)
Definition eidx_lookup_v0 (v : view) (idx : list ientry) (rend : N) (id : N) : lres :=
  match v with
  | VAbsent => LMiss
  | VPartial p => match eidx_get idx id with Some off => if p <? rend then LErr else LFound off | None => LMiss end
  | VFull => match eidx_get idx id with Some off => LFound off | None => LMiss end
  end.
(* partition index: get_key answers "not found" when the record lies beyond the file; the values read fails with an error *)
Definition pidx_lookup_v0 (v : view) (idx : list ientry) (rend vend : N) (pid : N) : lres :=
  match v with
  | VAbsent => LMiss
  | VPartial p => match pidx_get idx pid with
                  | Some k => if p <? rend then LMiss else if p <? vend then LErr else LFoundOffs (k_offs k)
                  | None => LMiss end
  | VFull => match pidx_get idx pid with Some k => LFoundOffs (k_offs k) | None => LMiss end
  end.
(* stream index: both reads fail with an error *)
Definition sidx_lookup_v0 (v : view) (idx : list ientry) (rend vend : N) (sid : N) : lres :=
  match v with
  | VAbsent => LMiss
  | VPartial p => match sidx_get idx sid with
                  | Some k => if p <? rend then LErr else if p <? vend then LErr else LFoundOffs (k_offs k)
                  | None => LMiss end
  | VFull => match sidx_get idx sid with Some k => LFoundOffs (k_offs k) | None => LMiss end
  end.
(* DatabaseBuilder::open before the repair, one sealed segment: an error of any of the three aborts the open *)
Definition open_sealed_v0 (f : ifiles) : option (view * view * view) :=
  match closed_open_v0 (f_le f) (f_e f), closed_open_v0 (f_lp f) (f_p f), closed_open_v0 (f_ls f) (f_s f) with
  | Some a, Some b, Some c => Some (a, b, c)
  | _, _, _ => None
  end.
