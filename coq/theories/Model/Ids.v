(** Model of crates/sierradb/src/id.rs (identifier layout, flag bit, routing helpers) and of the event-id validation in
    Transaction::new (crates/sierradb/src/database.rs:867). Definitions only.

    A UUID is the u128 obtained from its 16 bytes big-endian (`u128::from_be_bytes(uuid.into_bytes())`), modelled as [N]
    with the explicit bound [u < 2^128] where it matters. Byte k of the UUID holds bits 127-8k .. 120-8k, so "the first
    bit of byte 8" (set_uuid_flag) is bit 63 of the u128. Partition hashes / ids / bucket counts are u16. *)
From Coq Require Import NArith List Bool.
Import ListNotations.
Open Scope N_scope.

Definition MASK48 : N := 281474976710655.   (* 0xFFFFFFFFFFFF *)
Definition MASK12 : N := 4095.              (* 0x0FFF *)
Definition MASK46 : N := 70368744177663.    (* (1 << 46) - 1 *)
Definition MASK16 : N := 65535.             (* 0xFFFF *)
Definition U128_BOUND : N := 2 ^ 128.
Definition U16_BOUND : N := 65536.

(** id.rs:21-47 with the clock value [ts_ms] (as u64), the raw random u16 [r16] and raw random u64 [r64] as inputs;
    the masks are the ones the code applies. [h] is a u16 and is not masked by the code. *)
Definition mk_id (ts_ms r16 h r64 : N) : N :=
  N.lor (N.shiftl (N.land ts_ms MASK48) 80)
 (N.lor (N.shiftl (N.land r16 MASK12) 68)
 (N.lor (N.shiftl 7 64)
 (N.lor (N.shiftl 2 62)
 (N.lor (N.shiftl h 46)
        (N.land r64 MASK46))))).

(** id.rs:50 *)
Definition hash_of (u : N) : N := N.land (N.shiftr u 46) MASK16.
(** the other fields of the layout (used to re-compose generated ids) *)
Definition ts_of (u : N) : N := N.shiftr u 80.
Definition r12_of (u : N) : N := N.land (N.shiftr u 68) MASK12.
Definition version_of (u : N) : N := N.land (N.shiftr u 64) 15.
Definition variant_of (u : N) : N := N.land (N.shiftr u 62) 3.
Definition r46_of (u : N) : N := N.land u MASK46.

(** id.rs:71 *)
Definition validate_event_id (u h : N) : bool := hash_of u =? h.

(** id.rs:75 / :92 — `bytes[8] |= 0x80` is `u | 1<<63`, `bytes[8] &= 0x7f` is `u & !(1<<63)` *)
Definition FLAG_BIT : N := 63.
Definition set_flag (u : N) (b : bool) : N := if b then N.setbit u FLAG_BIT else N.clearbit u FLAG_BIT.
Definition get_flag (u : N) : bool := N.testbit u FLAG_BIT.

(** u16 `%`: None = panic (remainder by zero) *)
Definition rem16 (a n : N) : option N := if n =? 0 then None else Some (a mod n).
(** id.rs:55, :63; bucket/segment/reader.rs:706 (EventRecord::primary_partition_id, the same expression as in every
    request handler: `uuid_to_partition_hash(partition_key) % num_partitions`); database.rs:66 (`partition_id % total_buckets`) *)
Definition extract_event_id_bucket (u nb : N) : option N := if nb =? 1 then Some 0 else rem16 (hash_of u) nb.
Definition partition_id_to_bucket (pid nb : N) : option N := if nb =? 1 then Some 0 else rem16 pid nb.
Definition primary_partition_id (key np : N) : option N := rem16 (hash_of key) np.
Definition bucket_of_partition (pid nb : N) : option N := rem16 pid nb.

(** database.rs:867 Transaction::new: the event-id check and the single-event flag of the transaction id
    ([txid0] = the fresh v4 UUID) *)
Inductive tx_new_result := TxNewOk (transaction_id : N) | TxNewEmpty | TxNewInvalidEventId.
Definition tx_new (key : N) (event_ids : list N) (txid0 : N) : tx_new_result :=
  match event_ids with
  | [] => TxNewEmpty
  | _ => if forallb (fun ev => validate_event_id ev (hash_of key)) event_ids
         then TxNewOk (set_flag txid0 (Nat.eqb (length event_ids) 1))
         else TxNewInvalidEventId
  end.
