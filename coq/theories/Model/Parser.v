(** Model of the RESP command parsers of crates/sierradb-server (after the C21 `fix:` commits):
      src/parser.rs                        leaf recognisers (string, keyword, number_u64, stream_id, ...)
      src/request.rs:66-94                 `<Cmd>::parser().skip(eof()).parse(frame_stream(args))`
      src/request/{esub,epsub,eappend,emappend,escan,epscan,eget,esver,epseq,eack}.rs
    and of the command printers of crates/sierradb-client (commands.rs, options.rs, subscription.rs).

    Definitions only.  A token is one RESP bulk string = a Coq [string] (a list of bytes).
    The parsers are written with a faithful model of the `combine` 4.6 combinators they use, with
    combine's four outcomes (CommitOk / PeekOk / CommitErr / PeekErr).

    What comes from outside: the text of a UUID is read by the `uuid` crate (trusted).  It enters the
    model as a function argument [uo : string -> option uuid] ("the uuid crate's parse_str"); the
    theorems quantify over every such function. *)
From Coq Require Import String Ascii List NArith Bool.
Import ListNotations.
Open Scope string_scope.
Open Scope list_scope.
Open Scope N_scope.

Definition token := string.
Definition uuid := string.   (* opaque to the model: the harness prints the 32 hex digits *)

(* ------------------------------------------------------------------ bytes *)
Definition nb (c : ascii) : N := N_of_ascii c.
Definition inr (lo hi x : N) : bool := (lo <=? x) && (x <=? hi).

(** Rust's [str::from_utf8(..).is_ok()] : well-formed UTF-8 (Unicode table 3-7). *)
Fixpoint utf8_valid (s : string) : bool :=
  match s with
  | EmptyString => true
  | String c0 r0 =>
    let b0 := nb c0 in
    if b0 <? 128 then utf8_valid r0 else
    match r0 with
    | EmptyString => false
    | String c1 r1 =>
      let b1 := nb c1 in
      if inr 194 223 b0 then inr 128 191 b1 && utf8_valid r1 else
      match r1 with
      | EmptyString => false
      | String c2 r2 =>
        let b2 := nb c2 in
        if inr 224 239 b0 then
          (if b0 =? 224 then inr 160 191 b1 else if b0 =? 237 then inr 128 159 b1 else inr 128 191 b1)
          && inr 128 191 b2 && utf8_valid r2
        else
        match r2 with
        | EmptyString => false
        | String c3 r3 =>
          let b3 := nb c3 in
          if inr 240 244 b0 then
            (if b0 =? 240 then inr 144 191 b1 else if b0 =? 244 then inr 128 143 b1 else inr 128 191 b1)
            && inr 128 191 b2 && inr 128 191 b3 && utf8_valid r3
          else false
        end
      end
    end
  end.

(** ASCII upper-casing of one byte *)
Definition upc (c : ascii) : ascii :=
  let b := nb c in if inr 97 122 b then ascii_of_N (b - 32) else c.

(** U+FB00..U+FB06 (third byte 0x80..0x86 after EF AC): the Latin ligatures, whose upper-case
    expansions are ASCII. *)
Definition ligature (b2 : N) : option string :=
  if b2 =? 128 then Some "FF" else if b2 =? 129 then Some "FI" else if b2 =? 130 then Some "FL"
  else if b2 =? 131 then Some "FFI" else if b2 =? 132 then Some "FFL"
  else if b2 =? 133 then Some "ST" else if b2 =? 134 then Some "ST" else None.

(** [upper_ascii s] = [Some (s.to_uppercase())] when that string is pure ASCII, [None] when it contains
    a non-ASCII character (for well-formed UTF-8 [s]).  `keyword()` compares `s.to_uppercase()`
    with an ASCII word, so this is all it needs.  The non-ASCII characters whose upper-case expansion
    is pure ASCII are U+0131 (I), U+017F (S), U+00DF (SS) and the ligatures U+FB00..U+FB06; the
    harness checks this list against Rust's tables over every `char`. *)
Fixpoint upper_ascii (s : string) : option string :=
  match s with
  | EmptyString => Some EmptyString
  | String c0 r0 =>
    let b0 := nb c0 in
    if b0 <? 128 then option_map (String (upc c0)) (upper_ascii r0) else
    match r0 with
    | EmptyString => None
    | String c1 r1 =>
      let b1 := nb c1 in
      if (b0 =? 196) && (b1 =? 177) then option_map (append "I") (upper_ascii r1)
      else if (b0 =? 197) && (b1 =? 191) then option_map (append "S") (upper_ascii r1)
      else if (b0 =? 195) && (b1 =? 159) then option_map (append "SS") (upper_ascii r1)
      else
      match r1 with
      | EmptyString => None
      | String c2 r2 =>
        if (b0 =? 239) && (b1 =? 172) then
          match ligature (nb c2) with
          | Some e => option_map (append e) (upper_ascii r2)
          | None => None
          end
        else None
      end
    end
  end.

(** the test inside `keyword(kw)`: valid UTF-8 and `s.to_uppercase() == kw` *)
Definition is_kw (kw : string) (t : token) : bool :=
  utf8_valid t && match upper_ascii t with Some u => String.eqb u kw | None => false end.

(* bytes -> string (used to write test tokens) *)
Definition str_of_bytes (l : list N) : string := fold_right (fun b s => String (ascii_of_N b) s) EmptyString l.

(* ------------------------------------------------------------------ numbers: Rust's <uN>::from_str *)
Definition is_digit (c : ascii) : bool := inr 48 57 (nb c).
Fixpoint digits_val (s : string) (acc : N) : option N :=
  match s with
  | EmptyString => Some acc
  | String c r => if is_digit c then digits_val r (acc * 10 + (nb c - 48)) else None
  end.
(** optional single '+', then at least one digit, nothing else; the value as an unbounded number *)
Definition parse_dec (t : string) : option N :=
  let body := match t with String c r => if nb c =? 43 then r else t | EmptyString => t end in
  match body with EmptyString => None | _ => digits_val body 0 end.
Definition parse_bounded (bound : N) (t : string) : option N :=
  match parse_dec t with Some n => if n <? bound then Some n else None | None => None end.
Definition parse_u64 : string -> option N := parse_bounded 18446744073709551616.
Definition parse_u16 : string -> option N := parse_bounded 65536.

(* ------------------------------------------------------------------ str::trim (Unicode White_Space) *)
Definition ascii_ws (b : N) : bool := inr 9 13 b || (b =? 32).
(* U+0085, U+00A0 *)
Definition ws2 (b0 b1 : N) : bool := (b0 =? 194) && ((b1 =? 133) || (b1 =? 160)).
(* U+1680, U+2000..U+200A, U+2028, U+2029, U+202F, U+205F, U+3000 *)
Definition ws3 (b0 b1 b2 : N) : bool :=
  ((b0 =? 225) && (b1 =? 154) && (b2 =? 128))
  || ((b0 =? 226) && (b1 =? 128) && (inr 128 138 b2 || (b2 =? 168) || (b2 =? 169) || (b2 =? 175)))
  || ((b0 =? 226) && (b1 =? 129) && (b2 =? 159))
  || ((b0 =? 227) && (b1 =? 128) && (b2 =? 128)).

Fixpoint trim_start (s : string) : string :=
  match s with
  | EmptyString => s
  | String c0 r0 =>
    let b0 := nb c0 in
    if ascii_ws b0 then trim_start r0 else
    match r0 with
    | EmptyString => s
    | String c1 r1 =>
      let b1 := nb c1 in
      if ws2 b0 b1 then trim_start r1 else
      match r1 with
      | EmptyString => s
      | String c2 r2 => if ws3 b0 b1 (nb c2) then trim_start r2 else s
      end
    end
  end.
(* the same on the reversed string: the bytes of a trailing white-space character arrive last-first *)
Fixpoint trim_start_rev (s : string) : string :=
  match s with
  | EmptyString => s
  | String c0 r0 =>
    let b0 := nb c0 in
    if ascii_ws b0 then trim_start_rev r0 else
    match r0 with
    | EmptyString => s
    | String c1 r1 =>
      let b1 := nb c1 in
      if ws2 b1 b0 then trim_start_rev r1 else
      match r1 with
      | EmptyString => s
      | String c2 r2 => if ws3 (nb c2) b1 b0 then trim_start_rev r2 else s
      end
    end
  end.
Fixpoint srev_app (s acc : string) : string :=
  match s with EmptyString => acc | String c r => srev_app r (String c acc) end.
Definition srev (s : string) : string := srev_app s EmptyString.
Definition trim (s : string) : string := srev (trim_start_rev (srev (trim_start s))).

(* ------------------------------------------------------------------ splitting *)
(** `s.split(sep)` : always at least one piece *)
Fixpoint split_on (sep : ascii) (s : string) : list string :=
  match s with
  | EmptyString => [EmptyString]
  | String c r =>
    if Ascii.eqb c sep then EmptyString :: split_on sep r
    else match split_on sep r with
         | p :: ps => String c p :: ps
         | [] => [String c EmptyString]
         end
  end.
(** `s.split_once(sep)` *)
Fixpoint split_once (sep : ascii) (s : string) : option (string * string) :=
  match s with
  | EmptyString => None
  | String c r =>
    if Ascii.eqb c sep then Some (EmptyString, r)
    else match split_once sep r with Some (a, b) => Some (String c a, b) | None => None end
  end.
Fixpoint all_some {A} (l : list (option A)) : option (list A) :=
  match l with
  | [] => Some []
  | Some a :: r => match all_some r with Some x => Some (a :: x) | None => None end
  | None :: _ => None
  end.
Fixpoint has_nul (s : string) : bool :=
  match s with EmptyString => false | String c r => (nb c =? 0) || has_nul r end.
(** sierradb::StreamId::new : 1..=64 bytes, no NUL *)
Definition stream_id_ok (s : string) : bool :=
  let n := String.length s in (Nat.leb 1 n && Nat.leb n 64) && negb (has_nul s).

(* ------------------------------------------------------------------ combine's combinators *)
Inductive pres (A : Type) : Type :=
| COk (a : A) (rest : list token)     (* CommitOk: succeeded and consumed input *)
| POk (a : A) (rest : list token)     (* PeekOk: succeeded without consuming *)
| CErr                                (* CommitErr: failed after consuming: no alternative is tried *)
| PErr.                               (* PeekErr: failed without consuming (callers rewind) *)
Arguments COk {A}. Arguments POk {A}. Arguments CErr {A}. Arguments PErr {A}.
Definition parser (A : Type) := list token -> pres A.

Definition satisfy_map {A} (f : token -> option A) : parser A := fun i =>
  match i with
  | [] => PErr
  | t :: r => match f t with Some a => COk a r | None => PErr end
  end.
Definition pmap {A B} (f : A -> B) (p : parser A) : parser B := fun i =>
  match p i with COk a r => COk (f a) r | POk a r => POk (f a) r | CErr => CErr | PErr => PErr end.
(* combinator.rs AndThen (the stream is never partial) *)
Definition and_then {A B} (p : parser A) (f : A -> option B) : parser B := fun i =>
  match p i with
  | COk a r => match f a with Some b => COk b r | None => CErr end
  | POk a r => match f a with Some b => POk b r | None => PErr end
  | CErr => CErr | PErr => PErr
  end.
(* sequence.rs tuple parser *)
Definition pseq {A B} (p : parser A) (q : parser B) : parser (A * B) := fun i =>
  match p i with
  | COk a r => match q r with COk b r' | POk b r' => COk (a, b) r' | CErr | PErr => CErr end
  | POk a r => match q r with COk b r' => COk (a, b) r' | POk b r' => POk (a, b) r' | CErr => CErr | PErr => PErr end
  | CErr => CErr | PErr => PErr
  end.
Definition pwith {A B} (p : parser A) (q : parser B) : parser B := pmap snd (pseq p q).
Definition pskip {A B} (p : parser A) (q : parser B) : parser A := pmap fst (pseq p q).
Definition optional {A} (p : parser A) : parser (option A) := fun i =>
  match p i with COk a r => COk (Some a) r | POk a r => POk (Some a) r | CErr => CErr | PErr => POk None i end.
(* choice.rs: the next alternative is tried only after PeekErr *)
Definition por {A} (p q : parser A) : parser A := fun i =>
  match p i with PErr => q i | x => x end.
Definition attempt {A} (p : parser A) : parser A := fun i =>
  match p i with CErr => PErr | x => x end.
Definition not_followed_by {A} (p : parser A) : parser unit := fun i =>
  match p i with COk _ _ | POk _ _ => PErr | CErr | PErr => POk tt i end.
Definition eof : parser unit := fun i => match i with [] => POk tt [] | _ => PErr end.

(* repeat.rs Iter/Many: stop at the first PeekErr, fail on CommitErr, committed iff an item consumed.
   [fuel] exists only to make the definition structural: every item parser used below consumes at
   least one token, so [S (length i)] rounds are never exhausted (combine itself would loop). *)
Fixpoint many_f {A} (fuel : nat) (p : parser A) (i : list token) : pres (list A) :=
  match fuel with
  | O => CErr
  | S f =>
    match p i with
    | PErr => POk [] i
    | CErr => CErr
    | COk a r => match many_f f p r with COk l r' | POk l r' => COk (a :: l) r' | CErr | PErr => CErr end
    | POk a r => match many_f f p r with COk l r' => COk (a :: l) r' | POk l r' => POk (a :: l) r' | CErr | PErr => CErr end
    end
  end.
Definition many {A} (p : parser A) : parser (list A) := fun i => many_f (S (length i)) p i.
Definition many1 {A} (p : parser A) : parser (list A) := fun i =>
  match p i with
  | PErr => PErr
  | CErr => CErr
  | COk a r => match many p r with COk l r' | POk l r' => COk (a :: l) r' | CErr | PErr => CErr end
  | POk a r => match many p r with COk l r' => COk (a :: l) r' | POk l r' => POk (a :: l) r' | CErr | PErr => CErr end
  end.

(** request.rs:73  `parser().skip(eof()).parse(stream)` : Ok iff the parser succeeds and all input is used *)
Definition run {A} (p : parser A) (i : list token) : option A :=
  match pskip p eof i with COk a _ | POk a _ => Some a | CErr | PErr => None end.

(* ------------------------------------------------------------------ parser.rs *)
Definition string_p : parser string := satisfy_map (fun t => if utf8_valid t then Some t else None).
Definition data_p : parser string := satisfy_map (fun t => Some t).
Definition keyword (kw : string) : parser string := satisfy_map (fun t => if is_kw kw t then Some t else None).
Definition number_u64 : parser N := satisfy_map parse_u64.
Definition number_u64_min (m : N) : parser N := and_then number_u64 (fun n => if n <? m then None else Some n).
Definition partition_id : parser N := satisfy_map parse_u16.
Definition stream_id : parser string := and_then string_p (fun s => if stream_id_ok s then Some s else None).

Inductive expver := EvAny | EvExists | EvEmpty | EvExact (n : N).
Inductive rangev := RStart | REnd | RVal (n : N).
Inductive psel := ById (p : N) | ByKey (u : uuid).

Definition expected_version : parser expver :=
  por (pmap EvExact number_u64)
      (por (pmap (fun _ => EvAny) (keyword "ANY"))
      (por (pmap (fun _ => EvExists) (keyword "EXISTS"))
           (pmap (fun _ => EvEmpty) (keyword "EMPTY")))).
Definition range_value : parser rangev :=
  por (pmap (fun _ => RStart) (keyword "-"))
  (por (pmap (fun _ => REnd) (keyword "+"))
       (pmap RVal number_u64)).
(* <p>=<s> *)
Definition pid_seq_of (t : token) : option (N * N) :=
  if utf8_valid t then
    match split_once "=" t with
    | Some (p, s) => match parse_u16 p, parse_u64 s with Some p', Some s' => Some (p', s') | _, _ => None end
    | None => None
    end
  else None.
Definition partition_id_sequence : parser (N * N) := satisfy_map pid_seq_of.
(* <stream>=<ver> *)
Definition sid_ver_of (s : string) : option (string * N) :=
  match split_once "=" s with
  | Some (sid, v) => if stream_id_ok sid then match parse_u64 v with Some n => Some (sid, n) | None => None end else None
  | None => None
  end.
Definition stream_id_version : parser (string * N) := and_then string_p sid_ver_of.
(* "1,2,3" : every piece trimmed and read as u16 *)
Definition pids_of (t : token) : option (list N) :=
  if utf8_valid t then all_some (map (fun part => parse_u16 (trim part)) (split_on "," t)) else None.
Definition partition_ids : parser (list N) := satisfy_map pids_of.
Definition all_selector : parser string := keyword "*".

Section WithUuidOracle.
  (** the uuid crate's `Uuid::parse_str` *)
  Variable uo : string -> option uuid.

  (* parser.rs:371 : string().and_then(|s| Uuid::parse_str(s.trim())) *)
  Definition uuid_p : parser uuid := and_then string_p (fun s => uo (trim s)).
  Definition partition_selector : parser psel :=
    por (attempt (pmap ByKey uuid_p)) (pmap ById partition_id).
  Definition pk_clause : parser uuid := pwith (keyword "PARTITION_KEY") uuid_p.

  (* ---------------------------------------------------------------- ESUB (esub.rs) *)
  Inductive fv_arg := FvLatest | FvAll (n : N) | FvMap (l : list (string * N)).
  Definition esub_reserved : parser string :=
    por (keyword "PARTITION_KEY") (por (keyword "FROM") (keyword "WINDOW")).
  Definition esub_item : parser (string * option uuid) :=
    pseq (pwith (not_followed_by esub_reserved) stream_id) (optional pk_clause).
  Definition from_versions : parser fv_arg :=
    pwith (keyword "FROM")
      (por (pmap (fun _ => FvLatest) (keyword "LATEST"))
      (por (pmap FvAll number_u64)
           (pmap FvMap (pwith (keyword "MAP") (many1 (attempt stream_id_version)))))).
  Definition window : parser N := pwith (keyword "WINDOW") (number_u64_min 1).
  (** the syntax tree before it is resolved into a SubscriptionMatcher *)
  Record esub_ast := { es_streams : list (string * option uuid); es_from : option fv_arg; es_window : option N }.
  Definition esub_raw : parser esub_ast :=
    pmap (fun x => {| es_streams := fst x; es_from := fst (snd x); es_window := snd (snd x) |})
      (pseq (many1 esub_item) (pseq (optional from_versions) (optional window))).

  (* ---------------------------------------------------------------- EPSUB (epsub.rs) *)
  Inductive epsub_sel := SelAll | SelPart (p : N) | SelParts (l : list N).
  Inductive fs_arg := FsLatest | FsAll (n : N) | FsMap (l : list (N * N)) (fallback : option N).
  Definition epsub_selector : parser epsub_sel :=
    por (pmap (fun _ => SelAll) all_selector)
    (por (pmap SelPart partition_id)
         (pmap SelParts partition_ids)).
  Definition from_sequences : parser fs_arg :=
    pwith (keyword "FROM")
      (por (pmap (fun _ => FsLatest) (keyword "LATEST"))
      (por (pmap FsAll number_u64)
           (pmap (fun x => FsMap (fst x) (snd x))
              (pwith (keyword "MAP")
                 (pseq (many1 partition_id_sequence) (optional (pwith (keyword "DEFAULT") number_u64))))))).
  Record epsub_ast := { ep_sel : epsub_sel; ep_from : option fs_arg; ep_window : option N }.
  Definition epsub_raw : parser epsub_ast :=
    pmap (fun x => {| ep_sel := fst x; ep_from := fst (snd x); ep_window := snd (snd x) |})
      (pseq epsub_selector (pseq (optional from_sequences) (optional window))).

  (* ---------------------------------------------------------------- EAPPEND / EMAPPEND *)
  Inductive aopt :=
  | OEventId (u : uuid) | OPartitionKey (u : uuid) | OExpected (e : expver)
  | OTimestamp (n : N) | OPayload (d : string) | OMetadata (d : string).
  Definition o_event_id := pmap OEventId (pwith (keyword "EVENT_ID") uuid_p).
  Definition o_partition_key := pmap OPartitionKey (pwith (keyword "PARTITION_KEY") uuid_p).
  Definition o_expected := pmap OExpected (pwith (keyword "EXPECTED_VERSION") expected_version).
  Definition o_timestamp := pmap OTimestamp (pwith (keyword "TIMESTAMP") number_u64).
  Definition o_payload := pmap OPayload (pwith (keyword "PAYLOAD") data_p).
  Definition o_metadata := pmap OMetadata (pwith (keyword "METADATA") data_p).
  Definition eappend_opt : parser aopt :=
    por (attempt o_event_id) (por (attempt o_partition_key) (por (attempt o_expected)
    (por (attempt o_timestamp) (por (attempt o_payload) (attempt o_metadata))))).
  Definition emappend_opt : parser aopt :=
    por (attempt o_event_id) (por (attempt o_expected)
    (por (attempt o_timestamp) (por (attempt o_payload) (attempt o_metadata)))).

  Record append_ev := {
    ae_stream : string; ae_name : string; ae_event_id : option uuid; ae_partition_key : option uuid;
    ae_expected : option expver;      (* None = not given (the request then carries `any`) *)
    ae_timestamp : option N;
    ae_payload : option string; ae_metadata : option string (* None = not given (empty) *) }.
  (** the `for arg in args` loop of EAppend::parser / Event::parser: every option at most once *)
  Definition add_opt (e : append_ev) (o : aopt) : option append_ev :=
    match o with
    | OEventId u => match ae_event_id e with Some _ => None | None =>
        Some {| ae_stream := ae_stream e; ae_name := ae_name e; ae_event_id := Some u; ae_partition_key := ae_partition_key e;
                ae_expected := ae_expected e; ae_timestamp := ae_timestamp e; ae_payload := ae_payload e; ae_metadata := ae_metadata e |} end
    | OPartitionKey u => match ae_partition_key e with Some _ => None | None =>
        Some {| ae_stream := ae_stream e; ae_name := ae_name e; ae_event_id := ae_event_id e; ae_partition_key := Some u;
                ae_expected := ae_expected e; ae_timestamp := ae_timestamp e; ae_payload := ae_payload e; ae_metadata := ae_metadata e |} end
    | OExpected v => match ae_expected e with Some _ => None | None =>
        Some {| ae_stream := ae_stream e; ae_name := ae_name e; ae_event_id := ae_event_id e; ae_partition_key := ae_partition_key e;
                ae_expected := Some v; ae_timestamp := ae_timestamp e; ae_payload := ae_payload e; ae_metadata := ae_metadata e |} end
    | OTimestamp n => match ae_timestamp e with Some _ => None | None =>
        Some {| ae_stream := ae_stream e; ae_name := ae_name e; ae_event_id := ae_event_id e; ae_partition_key := ae_partition_key e;
                ae_expected := ae_expected e; ae_timestamp := Some n; ae_payload := ae_payload e; ae_metadata := ae_metadata e |} end
    | OPayload d => match ae_payload e with Some _ => None | None =>
        Some {| ae_stream := ae_stream e; ae_name := ae_name e; ae_event_id := ae_event_id e; ae_partition_key := ae_partition_key e;
                ae_expected := ae_expected e; ae_timestamp := ae_timestamp e; ae_payload := Some d; ae_metadata := ae_metadata e |} end
    | OMetadata d => match ae_metadata e with Some _ => None | None =>
        Some {| ae_stream := ae_stream e; ae_name := ae_name e; ae_event_id := ae_event_id e; ae_partition_key := ae_partition_key e;
                ae_expected := ae_expected e; ae_timestamp := ae_timestamp e; ae_payload := ae_payload e; ae_metadata := Some d |} end
    end.
  Fixpoint add_opts (e : append_ev) (l : list aopt) : option append_ev :=
    match l with [] => Some e | o :: r => match add_opt e o with Some e' => add_opts e' r | None => None end end.
  Definition new_ev (sid name : string) : append_ev :=
    {| ae_stream := sid; ae_name := name; ae_event_id := None; ae_partition_key := None; ae_expected := None;
       ae_timestamp := None; ae_payload := None; ae_metadata := None |}.
  Definition build_ev (x : string * (string * list aopt)) : option append_ev :=
    add_opts (new_ev (fst x) (fst (snd x))) (snd (snd x)).

  Definition eappend_p : parser append_ev :=
    and_then (pseq stream_id (pseq string_p (many eappend_opt))) build_ev.

  Definition emappend_reserved : parser string :=
    por (keyword "EVENT_ID") (por (keyword "EXPECTED_VERSION") (por (keyword "TIMESTAMP")
    (por (keyword "PAYLOAD") (keyword "METADATA")))).
  Definition emappend_event : parser append_ev :=
    and_then (pseq (pwith (not_followed_by emappend_reserved) stream_id) (pseq string_p (many emappend_opt))) build_ev.
  Definition emappend_p : parser (uuid * list append_ev) := pseq uuid_p (many1 emappend_event).

  (* ---------------------------------------------------------------- ESCAN / EPSCAN / EGET / ESVER / EPSEQ / EACK *)
  Inductive sopt := SPartitionKey (u : uuid) | SCount (n : N).
  Definition escan_opt : parser sopt :=
    por (attempt (pmap SPartitionKey pk_clause)) (attempt (pmap SCount (pwith (keyword "COUNT") number_u64))).
  Record scan_req := { sc_stream : string; sc_start : rangev; sc_end : rangev; sc_pk : option uuid; sc_count : option N }.
  Definition scan_add (c : scan_req) (o : sopt) : option scan_req :=
    match o with
    | SPartitionKey u => match sc_pk c with Some _ => None | None =>
        Some {| sc_stream := sc_stream c; sc_start := sc_start c; sc_end := sc_end c; sc_pk := Some u; sc_count := sc_count c |} end
    | SCount n => match sc_count c with Some _ => None | None =>
        Some {| sc_stream := sc_stream c; sc_start := sc_start c; sc_end := sc_end c; sc_pk := sc_pk c; sc_count := Some n |} end
    end.
  Fixpoint scan_adds (c : scan_req) (l : list sopt) : option scan_req :=
    match l with [] => Some c | o :: r => match scan_add c o with Some c' => scan_adds c' r | None => None end end.
  Definition escan_p : parser scan_req :=
    and_then (pseq stream_id (pseq range_value (pseq range_value (many escan_opt))))
      (fun x => scan_adds {| sc_stream := fst x; sc_start := fst (snd x); sc_end := fst (snd (snd x)); sc_pk := None; sc_count := None |}
                          (snd (snd (snd x)))).

  Record pscan_req := { ps_part : psel; ps_start : rangev; ps_end : rangev; ps_count : option N }.
  Fixpoint pscan_adds (c : pscan_req) (l : list N) : option pscan_req :=
    match l with
    | [] => Some c
    | n :: r => match ps_count c with Some _ => None | None =>
        pscan_adds {| ps_part := ps_part c; ps_start := ps_start c; ps_end := ps_end c; ps_count := Some n |} r end
    end.
  Definition epscan_p : parser pscan_req :=
    and_then (pseq partition_selector (pseq range_value (pseq range_value (many (pwith (keyword "COUNT") number_u64)))))
      (fun x => pscan_adds {| ps_part := fst x; ps_start := fst (snd x); ps_end := fst (snd (snd x)); ps_count := None |}
                           (snd (snd (snd x)))).

  Definition eget_p : parser uuid := uuid_p.
  Definition esver_p : parser (string * option uuid) := pseq stream_id (optional pk_clause).
  Definition epseq_p : parser psel := partition_selector.
  Definition eack_p : parser (uuid * N) := pseq uuid_p number_u64.
End WithUuidOracle.

(* ------------------------------------------------------------------ history: ESUB as it was before the `fix:` commits
   (esub.rs at 5c0d3d9: the stream list accepts any stream id, the MAP pairs are not wrapped in `attempt`).
   Kept only for the theorem that records the original defect. *)
Definition esub_item_orig (uo : string -> option uuid) : parser (string * option uuid) :=
  pseq stream_id (optional (pk_clause uo)).
Definition from_versions_orig : parser fv_arg :=
  pwith (keyword "FROM")
    (por (pmap (fun _ => FvLatest) (keyword "LATEST"))
    (por (pmap FvAll number_u64)
         (pmap FvMap (pwith (keyword "MAP") (many1 stream_id_version))))).
Definition esub_raw_orig (uo : string -> option uuid) : parser esub_ast :=
  pmap (fun x => {| es_streams := fst x; es_from := fst (snd x); es_window := snd (snd x) |})
    (pseq (many1 (esub_item_orig uo)) (pseq (optional from_versions_orig) (optional window))).

(* ------------------------------------------------------------------ resolution of the subscription syntax trees
   (the `.map(|(selector, from, window)| ...)` closures of ESub::parser / EPSub::parser).
   HashSet / HashMap are modelled as duplicate-free lists in first-occurrence order; the driver sorts
   them for printing.  A missing PARTITION_KEY is kept as [None] (the code derives a v5 uuid from the
   stream id; the harness prints such a key as "d"). *)
Definition pair_eqb (a b : string * option uuid) : bool :=
  String.eqb (fst a) (fst b) &&
  match snd a, snd b with Some x, Some y => String.eqb x y | None, None => true | _, _ => false end.
Fixpoint dedup_from {A} (eqb : A -> A -> bool) (seen l : list A) : list A :=
  match l with
  | [] => []
  | a :: r => if existsb (eqb a) seen then dedup_from eqb seen r else a :: dedup_from eqb (a :: seen) r
  end.
Definition dedup {A} (eqb : A -> A -> bool) (l : list A) : list A := dedup_from eqb [] l.
(* HashMap insert in order: a later binding of the same key replaces the earlier one *)
Fixpoint map_of {K V} (eqb : K -> K -> bool) (l : list (K * V)) (acc : list (K * V)) {struct l} : list (K * V) :=
  match l with
  | [] => acc
  | (k, v) :: r => map_of eqb r (filter (fun kv => negb (eqb k (fst kv))) acc ++ [(k, v)])
  end.
Fixpoint assoc {K V} (eqb : K -> K -> bool) (k : K) (l : list (K * V)) : option V :=
  match l with [] => None | (k', v) :: r => if eqb k k' then Some v else assoc eqb k r end.

Inductive fv_res := RvLatest | RvAll (n : N) | RvMap (l : list ((string * option uuid) * N)).
Inductive esub_req :=
| EsStream (sid : string) (pk : option uuid) (from : option N) (win : option N)
| EsStreams (ids : list (string * option uuid)) (from : fv_res) (win : option N).

Definition esub_resolve (a : esub_ast) : esub_req :=
  let ids := dedup pair_eqb (es_streams a) in
  match ids with
  | [(sid, pk)] =>
    EsStream sid pk
      (match es_from a with
       | None | Some FvLatest => None
       | Some (FvAll n) => Some n
       | Some (FvMap l) => assoc String.eqb sid (map_of String.eqb l [])
       end) (es_window a)
  | _ =>
    EsStreams ids
      (match es_from a with
       | None | Some FvLatest => RvLatest
       | Some (FvAll n) => RvAll n
       | Some (FvMap l) =>
         (* every (partition key, stream) pair of the set whose stream id has a version in the map *)
         let m := map_of String.eqb l [] in
         RvMap (flat_map (fun id => match assoc String.eqb (fst id) m with Some v => [(id, v)] | None => [] end) ids)
       end) (es_window a)
  end.

Inductive epsub_req :=
| EpAll (from : fs_arg) (win : option N)
| EpPart (p : N) (from : option N) (win : option N)
| EpParts (l : list N) (from : fs_arg) (win : option N).
Definition fs_norm (f : fs_arg) : fs_arg :=
  match f with FsMap l d => FsMap (map_of N.eqb l []) d | x => x end.
Definition epsub_resolve (a : epsub_ast) : epsub_req :=
  let from := option_map fs_norm (ep_from a) in
  match ep_sel a with
  | SelAll => EpAll (match from with Some f => f | None => FsLatest end) (ep_window a)
  | SelPart p =>
    EpPart p (match from with
              | None | Some FsLatest => None
              | Some (FsAll n) => Some n
              | Some (FsMap l d) => match assoc N.eqb p l with Some s => Some s | None => d end
              end) (ep_window a)
  | SelParts l => EpParts (dedup N.eqb l) (match from with Some f => f | None => FsLatest end) (ep_window a)
  end.

(* ------------------------------------------------------------------ the commands as request.rs runs them *)
Inductive request :=
| RESub (r : esub_req) | REPSub (r : epsub_req)
| REAppend (e : append_ev) | REMAppend (pk : uuid) (evs : list append_ev)
| REScan (r : scan_req) | REPScan (r : pscan_req)
| REGet (id : uuid) | RESVer (sid : string) (pk : option uuid) | REPSeq (p : psel) | REAck (id : uuid) (cursor : N).

Inductive command := CESub | CEPSub | CEAppend | CEMAppend | CEScan | CEPScan | CEGet | CESVer | CEPSeq | CEAck.

Definition parse_command (uo : string -> option uuid) (c : command) (toks : list token) : option request :=
  match c with
  | CESub => option_map (fun a => RESub (esub_resolve a)) (run (esub_raw uo) toks)
  | CEPSub => option_map (fun a => REPSub (epsub_resolve a)) (run epsub_raw toks)
  | CEAppend => option_map REAppend (run (eappend_p uo) toks)
  | CEMAppend => option_map (fun x => REMAppend (fst x) (snd x)) (run (emappend_p uo) toks)
  | CEScan => option_map REScan (run (escan_p uo) toks)
  | CEPScan => option_map REPScan (run (epscan_p uo) toks)
  | CEGet => option_map REGet (run (eget_p uo) toks)
  | CESVer => option_map (fun x => RESVer (fst x) (snd x)) (run (esver_p uo) toks)
  | CEPSeq => option_map REPSeq (run (epseq_p uo) toks)
  | CEAck => option_map (fun x => REAck (fst x) (snd x)) (run (eack_p uo) toks)
  end.

(* ------------------------------------------------------------------ the documented grammar
   Transcribed from the `# Syntax` doc comments of request/*.rs and the command reference in README.md
   (optional clauses of ESUB/EPSUB in the documented order; the option clauses of EAPPEND / EMAPPEND /
   ESCAN in any order, each at most once; keywords in any letter case).  This is the specification
   the parsers are compared with; [Doc c r toks] reads "the argument list [toks] is a documented form
   of command [c] and denotes request [r]".  Where the documentation leaves a choice open the relation
   says which reading is meant (a side condition on the token), so that no token list has two readings. *)
Section Doc.
  Variable uo : string -> option uuid.

  Definition Kw (k : string) (t : token) : Prop := is_kw k t = true.
  (* <partition_key>, <event_id>, <subscription_id> : text the uuid crate reads, white space around it ignored *)
  Definition UuidT (t : token) (u : uuid) : Prop := utf8_valid t = true /\ uo (trim t) = Some u.
  (* <stream_id> : 1..64 bytes of UTF-8 without NUL *)
  Definition StreamT (t : token) : Prop := utf8_valid t = true /\ stream_id_ok t = true.
  (* <event_name> : any UTF-8 text *)
  Definition NameT (t : token) : Prop := utf8_valid t = true.

  Inductive DocOpt {A} (D : A -> list token -> Prop) : option A -> list token -> Prop :=
  | DocNone : DocOpt D None []
  | DocSome a l : D a l -> DocOpt D (Some a) l.

  (* [PARTITION_KEY <partition_key>] *)
  Inductive DocPkClause : uuid -> list token -> Prop :=
  | DocPk k v u : Kw "PARTITION_KEY" k -> UuidT v u -> DocPkClause u [k; v].
  (* [WINDOW <size>], size >= 1 *)
  Inductive DocWindow : N -> list token -> Prop :=
  | DocWin w v n : Kw "WINDOW" w -> parse_u64 v = Some n -> 1 <= n -> DocWindow n [w; v].

  (** ESUB <stream_id> [PARTITION_KEY <pk>] ... [FROM LATEST | FROM <version> | FROM MAP <stream>=<ver>...] [WINDOW <size>]
      A word that starts a clause of the command is not a stream id. *)
  Definition esub_word (t : token) : bool := is_kw "PARTITION_KEY" t || is_kw "FROM" t || is_kw "WINDOW" t.
  Inductive DocStream : string * option uuid -> list token -> Prop :=
  | DocStream_plain s : StreamT s -> esub_word s = false -> DocStream (s, None) [s]
  | DocStream_pk s l u : StreamT s -> esub_word s = false -> DocPkClause u l -> DocStream (s, Some u) (s :: l).
  Inductive DocPair : string * N -> list token -> Prop :=
  | DocPair_intro t p : utf8_valid t = true -> sid_ver_of t = Some p -> DocPair p [t].
  Inductive DocFromVersions : fv_arg -> list token -> Prop :=
  | DocFV_latest f l : Kw "FROM" f -> Kw "LATEST" l -> DocFromVersions FvLatest [f; l]
  | DocFV_all f v n : Kw "FROM" f -> parse_u64 v = Some n -> DocFromVersions (FvAll n) [f; v]
  | DocFV_map f m pairs ps : Kw "FROM" f -> Kw "MAP" m -> pairs <> [] -> Forall2 DocPair pairs ps ->
      DocFromVersions (FvMap pairs) (f :: m :: concat ps).
  Definition DocESub (a : esub_ast) (toks : list token) : Prop :=
    exists ss fs ws, es_streams a <> [] /\ Forall2 DocStream (es_streams a) ss /\
      DocOpt DocFromVersions (es_from a) fs /\ DocOpt DocWindow (es_window a) ws /\ toks = concat ss ++ fs ++ ws.

  (** EPSUB * | <partition_id> | <p1>,<p2>,...  [FROM LATEST | FROM <sequence> | FROM MAP <p>=<s>... [DEFAULT <seq>]] [WINDOW <size>] *)
  Inductive DocSelector : epsub_sel -> token -> Prop :=
  | DocSel_all t : Kw "*" t -> DocSelector SelAll t
  | DocSel_one t p : parse_u16 t = Some p -> DocSelector (SelPart p) t
  | DocSel_list t l : pids_of t = Some l -> parse_u16 t = None -> is_kw "*" t = false -> DocSelector (SelParts l) t.
  Inductive DocPidSeq : N * N -> list token -> Prop :=
  | DocPidSeq_intro t p : pid_seq_of t = Some p -> DocPidSeq p [t].
  Inductive DocDefault : N -> list token -> Prop :=
  | DocDef k v n : Kw "DEFAULT" k -> parse_u64 v = Some n -> DocDefault n [k; v].
  Inductive DocFromSequences : fs_arg -> list token -> Prop :=
  | DocFS_latest f l : Kw "FROM" f -> Kw "LATEST" l -> DocFromSequences FsLatest [f; l]
  | DocFS_all f v n : Kw "FROM" f -> parse_u64 v = Some n -> DocFromSequences (FsAll n) [f; v]
  | DocFS_map f m pairs ps d ds : Kw "FROM" f -> Kw "MAP" m -> pairs <> [] -> Forall2 DocPidSeq pairs ps ->
      DocOpt DocDefault d ds -> DocFromSequences (FsMap pairs d) (f :: m :: concat ps ++ ds).
  Definition DocEPSub (a : epsub_ast) (toks : list token) : Prop :=
    exists s fs ws, DocSelector (ep_sel a) s /\ DocOpt DocFromSequences (ep_from a) fs /\
      DocOpt DocWindow (ep_window a) ws /\ toks = s :: fs ++ ws.

  (** EAPPEND <stream_id> <event_name> [EVENT_ID <id>] [PARTITION_KEY <pk>] [EXPECTED_VERSION <version>]
              [TIMESTAMP <ms>] [PAYLOAD <bytes>] [METADATA <bytes>]      (any order, each at most once) *)
  Inductive DocExpected : expver -> token -> Prop :=
  | DocEv_exact t n : parse_u64 t = Some n -> DocExpected (EvExact n) t
  | DocEv_any t : Kw "ANY" t -> DocExpected EvAny t
  | DocEv_exists t : Kw "EXISTS" t -> DocExpected EvExists t
  | DocEv_empty t : Kw "EMPTY" t -> DocExpected EvEmpty t.
  Inductive DocAOpt : aopt -> list token -> Prop :=
  | DocA_event_id k v u : Kw "EVENT_ID" k -> UuidT v u -> DocAOpt (OEventId u) [k; v]
  | DocA_partition_key k v u : Kw "PARTITION_KEY" k -> UuidT v u -> DocAOpt (OPartitionKey u) [k; v]
  | DocA_expected k v e : Kw "EXPECTED_VERSION" k -> DocExpected e v -> DocAOpt (OExpected e) [k; v]
  | DocA_timestamp k v n : Kw "TIMESTAMP" k -> parse_u64 v = Some n -> DocAOpt (OTimestamp n) [k; v]
  | DocA_payload k v : Kw "PAYLOAD" k -> DocAOpt (OPayload v) [k; v]
  | DocA_metadata k v : Kw "METADATA" k -> DocAOpt (OMetadata v) [k; v].
  (* [add_opts] = every option at most once; it also assembles the request *)
  Definition DocEAppend (e : append_ev) (toks : list token) : Prop :=
    exists s n opts os, StreamT s /\ NameT n /\ Forall2 DocAOpt opts os /\
      add_opts (new_ev s n) opts = Some e /\ toks = s :: n :: concat os.

  (** EMAPPEND <partition_key> (<stream_id> <event_name> [EVENT_ID ..] [EXPECTED_VERSION ..] [TIMESTAMP ..] [PAYLOAD ..] [METADATA ..])+
      An option keyword of the command is not a stream id. *)
  Definition emappend_word (t : token) : bool :=
    is_kw "EVENT_ID" t || is_kw "EXPECTED_VERSION" t || is_kw "TIMESTAMP" t || is_kw "PAYLOAD" t || is_kw "METADATA" t.
  Definition not_pk_opt (o : aopt) : Prop := match o with OPartitionKey _ => False | _ => True end.
  Definition DocEvent (e : append_ev) (l : list token) : Prop :=
    exists s n opts os, StreamT s /\ emappend_word s = false /\ NameT n /\ Forall2 DocAOpt opts os /\
      Forall not_pk_opt opts /\ add_opts (new_ev s n) opts = Some e /\ l = s :: n :: concat os.
  Definition DocEMAppend (x : uuid * list append_ev) (toks : list token) : Prop :=
    exists k es, UuidT k (fst x) /\ snd x <> [] /\ Forall2 DocEvent (snd x) es /\ toks = k :: concat es.

  (** ESCAN <stream_id> <start_version> <end_version> [PARTITION_KEY <pk>] [COUNT <count>] *)
  Inductive DocRange : rangev -> token -> Prop :=
  | DocRange_start t : Kw "-" t -> DocRange RStart t
  | DocRange_end t : Kw "+" t -> DocRange REnd t
  | DocRange_val t n : parse_u64 t = Some n -> DocRange (RVal n) t.
  Inductive DocSOpt : sopt -> list token -> Prop :=
  | DocS_pk l u : DocPkClause u l -> DocSOpt (SPartitionKey u) l
  | DocS_count k v n : Kw "COUNT" k -> parse_u64 v = Some n -> DocSOpt (SCount n) [k; v].
  Definition DocEScan (c : scan_req) (toks : list token) : Prop :=
    exists s a b ra rb opts os, StreamT s /\ DocRange ra a /\ DocRange rb b /\ Forall2 DocSOpt opts os /\
      scan_adds {| sc_stream := s; sc_start := ra; sc_end := rb; sc_pk := None; sc_count := None |} opts = Some c /\
      toks = s :: a :: b :: concat os.

  (** EPSCAN <partition> <start_sequence> <end_sequence> [COUNT <count>];  <partition> = UUID key or id 0..65535
      (a token that is both is a key) *)
  Inductive DocPSel : psel -> token -> Prop :=
  | DocPSel_key t u : UuidT t u -> DocPSel (ByKey u) t
  | DocPSel_id t p : parse_u16 t = Some p -> uo (trim t) = None -> DocPSel (ById p) t.
  Inductive DocCount : N -> list token -> Prop :=
  | DocCount_intro k v n : Kw "COUNT" k -> parse_u64 v = Some n -> DocCount n [k; v].
  Definition DocEPScan (c : pscan_req) (toks : list token) : Prop :=
    exists p a b sel ra rb ns os, DocPSel sel p /\ DocRange ra a /\ DocRange rb b /\ Forall2 DocCount ns os /\
      pscan_adds {| ps_part := sel; ps_start := ra; ps_end := rb; ps_count := None |} ns = Some c /\
      toks = p :: a :: b :: concat os.

  (** the whole command reference *)
  Inductive Doc : command -> request -> list token -> Prop :=
  | Doc_esub a toks : DocESub a toks -> Doc CESub (RESub (esub_resolve a)) toks
  | Doc_epsub a toks : DocEPSub a toks -> Doc CEPSub (REPSub (epsub_resolve a)) toks
  | Doc_eappend e toks : DocEAppend e toks -> Doc CEAppend (REAppend e) toks
  | Doc_emappend pk evs toks : DocEMAppend (pk, evs) toks -> Doc CEMAppend (REMAppend pk evs) toks
  | Doc_escan c toks : DocEScan c toks -> Doc CEScan (REScan c) toks
  | Doc_epscan c toks : DocEPScan c toks -> Doc CEPScan (REPScan c) toks
  | Doc_eget t u : UuidT t u -> Doc CEGet (REGet u) [t]                                   (* EGET <event_id> *)
  | Doc_esver s pk l : StreamT s -> DocOpt DocPkClause pk l -> Doc CESVer (RESVer s pk) (s :: l)  (* ESVER <stream_id> [PARTITION_KEY <pk>] *)
  | Doc_epseq t p : DocPSel p t -> Doc CEPSeq (REPSeq p) [t]                               (* EPSEQ <partition> *)
  | Doc_eack t v u n : UuidT t u -> parse_u64 v = Some n -> Doc CEAck (REAck u n) [t; v]. (* EACK <subscription_id> <cursor> *)
End Doc.

(* ------------------------------------------------------------------ the client's printers *)
(** decimal text of a number (`to_string()` / redis' integer argument formatting) *)
Fixpoint dec_digits (fuel : nat) (n : N) (acc : string) : string :=
  match fuel with
  | O => acc
  | S f =>
    let acc' := String (ascii_of_N (48 + n mod 10)) acc in
    if n <? 10 then acc' else dec_digits f (n / 10) acc'
  end.
Definition dec (n : N) : string := dec_digits (S (N.to_nat (N.log2 n))) n EmptyString.

(* `list.join(",")` *)
Fixpoint join_commas (l : list string) : string :=
  match l with
  | [] => EmptyString
  | [a] => a
  | a :: r => (a ++ String "," (join_commas r))%string
  end.

(** The command printers of the Rust client: what `cmd(..).arg(..)` puts on the wire after the command name.
    commands.rs:32-425, options.rs:71-112 and 175-214, types.rs:549-559 (RangeValue), subscription.rs:118-140,
    341-362, 426-440, 484-515, 583-592, 622-630, 715-759.  Integer arguments are written in decimal
    (redis' ToRedisArgs for integers), uuids with `Uuid::to_string()` = [uprint]. *)
Section Client.
  Variable uprint : uuid -> string.

  Definition cl_opt {A} (o : option A) (f : A -> list token) : list token := match o with Some a => f a | None => [] end.
  Definition cl_expected (e : expver) : list token :=
    match e with
    | EvAny => []
    | EvExists => ["EXPECTED_VERSION"; "EXISTS"]
    | EvEmpty => ["EXPECTED_VERSION"; "EMPTY"]
    | EvExact n => ["EXPECTED_VERSION"; dec n]
    end.
  (* `if !self.payload.is_empty() { PAYLOAD <payload> }` *)
  Definition cl_bytes (k d : string) : list token := match d with EmptyString => [] | _ => [k; d] end.
  Record cl_opts := { co_event_id : option uuid; co_partition_key : option uuid; co_expected : expver;
                      co_timestamp : option N; co_payload : string; co_metadata : string }.
  Definition cl_eappend_opts (o : cl_opts) : list token :=
    cl_opt (co_event_id o) (fun u => ["EVENT_ID"; uprint u]) ++
    cl_opt (co_partition_key o) (fun u => ["PARTITION_KEY"; uprint u]) ++
    cl_expected (co_expected o) ++
    cl_opt (co_timestamp o) (fun n => ["TIMESTAMP"; dec n]) ++
    cl_bytes "PAYLOAD" (co_payload o) ++ cl_bytes "METADATA" (co_metadata o).
  (* EMAppendEvent has no partition key: [co_partition_key] is not printed *)
  Record cl_event := { ce_stream : string; ce_name : string; ce_opts : cl_opts }.
  Definition cl_event_tokens (e : cl_event) : list token :=
    ce_stream e :: ce_name e ::
    cl_opt (co_event_id (ce_opts e)) (fun u => ["EVENT_ID"; uprint u]) ++
    cl_expected (co_expected (ce_opts e)) ++
    cl_opt (co_timestamp (ce_opts e)) (fun n => ["TIMESTAMP"; dec n]) ++
    cl_bytes "PAYLOAD" (co_payload (ce_opts e)) ++ cl_bytes "METADATA" (co_metadata (ce_opts e)).
  Definition cl_end (e : option N) : token := match e with Some n => dec n | None => "+" end.
  Definition cl_count (c : option N) : N := match c with Some n => n | None => 100 end.
  Definition cl_window (w : option N) : list token := cl_opt w (fun n => ["WINDOW"; dec n]).
  Definition cl_from (f : option N) : list token := cl_opt f (fun n => ["FROM"; dec n]).
  Definition cl_pairs (m : list (N * N)) : list token := map (fun ps => (dec (fst ps) ++ String "=" (dec (snd ps)))%string) m.

  Inductive cl_psel := CPid (p : N) | CPkey (u : uuid).
  Definition cl_psel_token (p : cl_psel) : token := match p with CPid n => dec n | CPkey u => uprint u end.

  Inductive client_call :=
  | CallEAppend (sid name : string) (o : cl_opts)                                   (* eappend *)
  | CallEMAppend (pk : uuid) (evs : list cl_event)                                  (* emappend *)
  | CallEGet (id : uuid)                                                            (* eget *)
  | CallEPScan (p : cl_psel) (start : N) (end_ : option N) (count : option N)       (* epscan_by_key, epscan_by_id *)
  | CallEScan (sid : string) (pk : option uuid) (start : N) (end_ : option N) (count : option N) (* escan, escan_with_partition_key *)
  | CallEPSeq (p : cl_psel)                                                         (* epseq_by_key, epseq_by_id *)
  | CallESVer (sid : string) (pk : option uuid)                                     (* esver, esver_with_partition_key *)
  | CallESub (sid : string) (pk : option uuid) (from : option N) (win : option N)   (* esub*, subscribe_to_stream_with_options *)
  | CallESubLatest (sid : string)                                                   (* subscribe_to_stream_from_latest *)
  | CallEPSubId (p : N) (from : option N) (win : option N)                          (* epsub_by_id*, subscribe_to_partition_with_options(Id) *)
  | CallEPSubKey (u : uuid) (from : option N) (win : option N)                      (* epsub_by_key*, subscribe_to_partition_with_options(Key) *)
  | CallEPSubAllLatest                                                              (* subscribe_to_all_partitions_from_latest *)
  | CallEPSubAll (m : list (N * N)) (fallback : option N) (win : option N)          (* subscribe_to_all_partitions_flexible *)
  | CallEPSubSeqs (m : list (N * N)) (win : option N)                               (* subscribe_to_partitions_with_sequences *)
  | CallEPSubText (sel : string) (from : N) (win : option N)                        (* subscribe_to_partitions(partition_range, ..) *)
  | CallEAck (id : uuid) (cursor : N).                                              (* eack, acknowledge_up_to_cursor *)

  Definition client_command (c : client_call) : command :=
    match c with
    | CallEAppend _ _ _ => CEAppend | CallEMAppend _ _ => CEMAppend | CallEGet _ => CEGet | CallEPScan _ _ _ _ => CEPScan
    | CallEScan _ _ _ _ _ => CEScan | CallEPSeq _ => CEPSeq | CallESVer _ _ => CESVer
    | CallESub _ _ _ _ | CallESubLatest _ => CESub
    | CallEPSubId _ _ _ | CallEPSubKey _ _ _ | CallEPSubAllLatest | CallEPSubAll _ _ _ | CallEPSubSeqs _ _ | CallEPSubText _ _ _ => CEPSub
    | CallEAck _ _ => CEAck
    end.
  Definition client_tokens (c : client_call) : list token :=
    match c with
    | CallEAppend sid name o => sid :: name :: cl_eappend_opts o
    | CallEMAppend pk evs => uprint pk :: flat_map cl_event_tokens evs
    | CallEGet id => [uprint id]
    | CallEPScan p a b c => [cl_psel_token p; dec a; cl_end b; "COUNT"; dec (cl_count c)]
    | CallEScan sid pk a b c => [sid; dec a; cl_end b; "COUNT"; dec (cl_count c)] ++ cl_opt pk (fun u => ["PARTITION_KEY"; uprint u])
    | CallEPSeq p => [cl_psel_token p]
    | CallESVer sid pk => sid :: cl_opt pk (fun u => ["PARTITION_KEY"; uprint u])
    | CallESub sid pk from win => sid :: cl_opt pk (fun u => ["PARTITION_KEY"; uprint u]) ++ cl_from from ++ cl_window win
    | CallESubLatest sid => [sid; "FROM"; "LATEST"]
    | CallEPSubId p from win => dec p :: cl_from from ++ cl_window win
    | CallEPSubKey u from win => uprint u :: cl_from from ++ cl_window win
    | CallEPSubAllLatest => ["*"; "FROM"; "LATEST"]
    | CallEPSubAll m fallback win =>
      "*" :: (match m with
              | [] => match fallback with None => ["FROM"; "LATEST"] | Some f => ["FROM"; dec f] end
              | _ => "FROM" :: "MAP" :: cl_pairs m ++ cl_opt fallback (fun f => ["DEFAULT"; dec f])
              end) ++ cl_window win
    | CallEPSubSeqs m win => join_commas (map (fun ps => dec (fst ps)) m) :: "FROM" :: "MAP" :: cl_pairs m ++ cl_window win
    | CallEPSubText sel from win => sel :: "FROM" :: dec from :: cl_window win
    | CallEAck id cursor => [uprint id; dec cursor]
    end.
End Client.

(** What each client call means (the request the caller asks for), and when the call is well-formed.
    [None]: no claim is made (CallEPSubKey: the server has no `EPSUB <uuid>` form - a known finding;
    CallEPSubText: the partition text is the caller's, see C21_client_text). *)
Section ClientMeaning.
  Definition cl_bytes_opt (d : string) : option string := match d with EmptyString => None | _ => Some d end.
  Definition cl_expected_opt (e : expver) : option expver := match e with EvAny => None | _ => Some e end.
  Definition cl_ev (sid name : string) (o : cl_opts) (with_pk : bool) : append_ev :=
    {| ae_stream := sid; ae_name := name; ae_event_id := co_event_id o;
       ae_partition_key := if with_pk then co_partition_key o else None;
       ae_expected := cl_expected_opt (co_expected o); ae_timestamp := co_timestamp o;
       ae_payload := cl_bytes_opt (co_payload o); ae_metadata := cl_bytes_opt (co_metadata o) |}.
  Definition cl_sel (p : cl_psel) : psel := match p with CPid n => ById n | CPkey u => ByKey u end.
  Definition cl_range_end (e : option N) : rangev := match e with Some n => RVal n | None => REnd end.

  Definition client_denotes (c : client_call) : option request :=
    match c with
    | CallEAppend sid name o => Some (REAppend (cl_ev sid name o true))
    | CallEMAppend pk evs => Some (REMAppend pk (map (fun e => cl_ev (ce_stream e) (ce_name e) (ce_opts e) false) evs))
    | CallEGet id => Some (REGet id)
    | CallEPScan p a b c =>
      Some (REPScan {| ps_part := cl_sel p; ps_start := RVal a; ps_end := cl_range_end b; ps_count := Some (cl_count c) |})
    | CallEScan sid pk a b c =>
      Some (REScan {| sc_stream := sid; sc_start := RVal a; sc_end := cl_range_end b; sc_pk := pk; sc_count := Some (cl_count c) |})
    | CallEPSeq p => Some (REPSeq (cl_sel p))
    | CallESVer sid pk => Some (RESVer sid pk)
    | CallESub sid pk from win => Some (RESub (EsStream sid pk from win))
    | CallESubLatest sid => Some (RESub (EsStream sid None None None))
    | CallEPSubId p from win => Some (REPSub (EpPart p from win))
    | CallEPSubKey _ _ _ => None
    | CallEPSubAllLatest => Some (REPSub (EpAll FsLatest None))
    | CallEPSubAll m fallback win =>
      Some (REPSub (EpAll (match m with
                           | [] => match fallback with None => FsLatest | Some f => FsAll f end
                           | _ => FsMap (map_of N.eqb m []) fallback
                           end) win))
    | CallEPSubSeqs m win =>
      Some (REPSub (epsub_resolve {| ep_sel := match m with [ps] => SelPart (fst ps) | _ => SelParts (map fst m) end;
                                     ep_from := Some (FsMap m None); ep_window := win |}))
    | CallEPSubText _ _ _ => None
    | CallEAck id cursor => Some (REAck id cursor)
    end.

  Definition is_u64 (n : N) : Prop := n < 18446744073709551616.
  Definition is_u16 (n : N) : Prop := n < 65536.
  Definition opt_ok (P : N -> Prop) (o : option N) : Prop := match o with Some n => P n | None => True end.
  (* window_size: u32, and the server wants at least 1 *)
  Definition win_ok (w : option N) : Prop := opt_ok (fun n => 1 <= n /\ n < 4294967296) w.
  Definition opts_ok (o : cl_opts) : Prop :=
    opt_ok is_u64 (co_timestamp o) /\ match co_expected o with EvExact n => is_u64 n | _ => True end.
  Definition psel_ok (p : cl_psel) : Prop := match p with CPid n => is_u16 n | CPkey _ => True end.
  Definition pairs_ok (m : list (N * N)) : Prop := Forall (fun ps => is_u16 (fst ps) /\ is_u64 (snd ps)) m.
  Definition client_ok (c : client_call) : Prop :=
    match c with
    | CallEAppend sid name o => StreamT sid /\ NameT name /\ opts_ok o
    | CallEMAppend pk evs =>
      evs <> [] /\ Forall (fun e => StreamT (ce_stream e) /\ emappend_word (ce_stream e) = false /\ NameT (ce_name e) /\ opts_ok (ce_opts e)) evs
    | CallEGet _ => True
    | CallEPScan p a b c => psel_ok p /\ is_u64 a /\ opt_ok is_u64 b /\ opt_ok is_u64 c
    | CallEScan sid pk a b c => StreamT sid /\ is_u64 a /\ opt_ok is_u64 b /\ opt_ok is_u64 c
    | CallEPSeq p => psel_ok p
    | CallESVer sid pk => StreamT sid
    | CallESub sid pk from win => StreamT sid /\ esub_word sid = false /\ opt_ok is_u64 from /\ win_ok win
    | CallESubLatest sid => StreamT sid /\ esub_word sid = false
    | CallEPSubId p from win => is_u16 p /\ opt_ok is_u64 from /\ win_ok win
    | CallEPSubKey _ _ _ => False
    | CallEPSubAllLatest => True
    | CallEPSubAll m fallback win => pairs_ok m /\ opt_ok is_u64 fallback /\ win_ok win
    | CallEPSubSeqs m win => m <> [] /\ pairs_ok m /\ win_ok win
    | CallEPSubText _ _ _ => False
    | CallEAck _ cursor => is_u64 cursor
    end.
End ClientMeaning.
