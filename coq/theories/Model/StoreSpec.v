(** Abstract event store: the reference the storage engine is proved to refine.
    Meant to be read in minutes.  One *bucket* of the database (the unit of serialisation:
    one writer thread owns it); a database is a finite product of independent buckets.

    The abstract state is the list of committed transactions, oldest first. Every read
    is a filter over that list.  Identifiers are numbers (N): the harness maps uuids /
    stream names to first-occurrence indices. *)
From Coq Require Import NArith List Bool.
Import ListNotations.
Open Scope N_scope.

(** expected version / expected partition sequence (sierradb-protocol ExpectedVersion) *)
Inductive expect := XAny | XExists | XEmpty | XExact (v : N).

(** a stored event *)
Record event := mkEvent {
  e_id : N;        (* event id *)
  e_pk : N;        (* partition key *)
  e_pid : N;       (* partition id *)
  e_tx : N;        (* transaction id *)
  e_flag : bool;   (* transaction id's single-event flag *)
  e_seq : N;       (* partition sequence *)
  e_sid : N;       (* stream id *)
  e_ver : N        (* stream version *)
}.

(** an event as submitted by a client *)
Record new_event := mkNew {
  n_id : N; n_sid : N; n_expect : expect;
  n_ts_ok : bool   (* timestamp < 2^63; a bad timestamp makes the write of that event fail *)
}.

Record txn := mkTxn {
  t_pk : N; t_pid : N; t_tx : N; t_flag : bool;
  t_events : list new_event;
  t_xseq : expect
}.

Definition alog := list (list event).      (* committed transactions, oldest first *)
Definition all_events (l : alog) : list event := concat l.

Inductive reject :=
  | WrongVersion (sid : N) (current : option N) (expected : expect)
  | KeyMismatch (existing_pk new_pk : N)
  | WrongSequence (pid : N) (current : option N) (expected : expect)
  | BadTimestamp
  | TooBig.          (* the transaction does not fit into an empty segment *)

(** latest version and partition key of a stream: last event of that stream in the log *)
Definition stream_state (evs : list event) (sid : N) : option (N * N) :=
  match filter (fun e => e_sid e =? sid) evs with
  | [] => None
  | x :: r => let l := last r x in Some (e_pk l, e_ver l)
  end.

Definition partition_last (evs : list event) (pid : N) : option N :=
  match filter (fun e => e_pid e =? pid) evs with
  | [] => None
  | x :: r => Some (e_seq (last r x))
  end.

(** does expectation [x] hold for a stream/partition whose latest position is [cur]? *)
Definition holds (x : expect) (cur : option N) : bool :=
  match x, cur with
  | XAny, _ => true
  | XExists, Some _ => true
  | XExists, None => false
  | XEmpty, None => true
  | XEmpty, Some _ => false
  | XExact v, Some c => c =? v
  | XExact _, None => false
  end.

(** sequential validation of the events of one transaction against the log [evs];
    [acc] = events of this transaction already accepted (they count as stream state).
    Returns the new events (with versions; sequences are filled in afterwards). *)
Fixpoint assign_versions (evs : list event) (t : txn) (seq : N) (acc : list event)
         (news : list new_event) : list event + reject :=
  match news with
  | [] => inl acc
  | n :: rest =>
      let cur := stream_state (evs ++ acc) (n_sid n) in
      match cur with
      | Some (pk, v) =>
          if negb (pk =? t_pk t) then inr (KeyMismatch pk (t_pk t))
          else if holds (n_expect n) (Some v)
          then assign_versions evs t (seq + 1)
                 (acc ++ [mkEvent (n_id n) (t_pk t) (t_pid t) (t_tx t) (t_flag t) seq (n_sid n) (v + 1)]) rest
          else inr (WrongVersion (n_sid n) (Some v) (n_expect n))
      | None =>
          if holds (n_expect n) None
          then assign_versions evs t (seq + 1)
                 (acc ++ [mkEvent (n_id n) (t_pk t) (t_pid t) (t_tx t) (t_flag t) seq (n_sid n) 0]) rest
          else inr (WrongVersion (n_sid n) None (n_expect n))
      end
  end.

(** the reference append: accepted iff every version expectation holds (counting earlier
    events of the same transaction), the stream's partition key matches, the expected
    partition sequence holds, every timestamp is valid and the transaction fits into an empty
    segment ([fits], decided from sizes: C19); a rejected append changes nothing *)
Definition spec_append (l : alog) (t : txn) (fits : bool) : alog * (list event + reject) :=
  let evs := all_events l in
  let next := match partition_last evs (t_pid t) with Some s => s + 1 | None => 0 end in
  match assign_versions evs t next [] (t_events t) with
  | inr r => (l, inr r)
  | inl news =>
      if negb fits then (l, inr TooBig) else
      if negb (holds (t_xseq t) (partition_last evs (t_pid t)))
      then (l, inr (WrongSequence (t_pid t) (partition_last evs (t_pid t)) (t_xseq t)))
      else if negb (forallb n_ts_ok (t_events t)) then (l, inr BadTimestamp)
      else (l ++ [news], inl news)
  end.

(** reads *)
Definition spec_read_event (l : alog) (id : N) : option event :=
  find (fun e => e_id e =? id) (all_events l).

Definition spec_stream_version (l : alog) (sid : N) : option (N * N) :=
  stream_state (all_events l) sid.

Definition spec_partition_sequence (l : alog) (pid : N) : option N :=
  partition_last (all_events l) pid.

(** forward scans: every stored event of the stream/partition at or after [from], in order *)
Definition spec_scan_stream_fwd (l : alog) (sid from : N) : list event :=
  filter (fun e => (e_sid e =? sid) && (from <=? e_ver e)) (all_events l).
Definition spec_scan_partition_fwd (l : alog) (pid from : N) : list event :=
  filter (fun e => (e_pid e =? pid) && (from <=? e_seq e)) (all_events l).
(** reverse scans: the same set at or before [from] (as a set; order/grouping is stated in C03) *)
Definition spec_scan_stream_rev (l : alog) (sid from : N) : list event :=
  filter (fun e => (e_sid e =? sid) && (e_ver e <=? from)) (all_events l).
Definition spec_scan_partition_rev (l : alog) (pid from : N) : list event :=
  filter (fun e => (e_pid e =? pid) && (e_seq e <=? from)) (all_events l).
