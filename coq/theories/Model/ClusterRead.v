(** Model of the cluster read paths (crates/sierradb-cluster/src/read.rs, after the `fix:` commits for C07).

    - [partition_read]   handle_partition_read_locally   (:451-563)
    - [stream_read]      handle_stream_read_locally      (:596-715)
    - [read_event]       handle_local_read               (:119-249), single node: no other replica to ask
    - [stream_version]   Message<GetStreamVersion>       (:1019-1103)
    - [partition_sequence] Message<GetPartitionSequence> (:952-1011)

    [W] is the partition's confirmed watermark = the NUMBER of leading confirmed events (Model/Watermark.v),
    so exactly the events with partition sequence < W may be revealed.

    The storage iterator is modelled by what it yields: a list of commits (`Vec<CommittedEvents>` flattened
    to the fields the read paths look at), delivered in batches.  `next_batch(limit)` returns None for
    limit = 0 or when nothing is left, otherwise between 1 and [limit] commits; how many (segment ends cut a
    batch short) is an oracle input [orc], so every theorem holds for every batching.
    Definitions only; proofs are in Proofs/ClusterReadProofs.v. *)
From Coq Require Import NArith List Bool.
From SV Require Import Model.Watermark.
Import ListNotations.
Open Scope N_scope.

Definition cr_batch : N := 50.          (* DEFAULT_BATCH_SIZE *)

(** size of the next batch: the oracle's wish clamped to 1..limit; without oracle the full limit *)
Definition cr_next_k (orc : list N) (limit : N) : N * list N :=
  match orc with
  | [] => (limit, [])
  | o :: r => (N.max 1 (N.min o limit), r)
  end.

(** ---- ReadPartition ------------------------------------------------------------------------------------- *)
(** events are identified by their partition sequence *)
Record pr_state := mkPr { pr_acc : list N; pr_collected : N; pr_last : N }.

Definition pr_push (e : N) (st : pr_state) : pr_state :=
  mkPr (pr_acc st ++ [e]) (pr_collected st + 1) (e + 1).

(** `for event in commit { if collected >= count {break 'iter}; if seq >= effective_end {break 'iter}; push }`;
    the flag says whether 'iter was broken *)
Fixpoint pr_events (evs : list N) (count eff : N) (st : pr_state) : pr_state * bool :=
  match evs with
  | [] => (st, false)
  | e :: t =>
      if count <=? pr_collected st then (st, true)
      else if eff <=? e then (st, true)
      else pr_events t count eff (pr_push e st)
  end.

(** the `'iter: while let Some(commits) = iter.next_batch(min(eff - last_read, 50))` loop.
    [left] = commits still to come from the current batch; 0 = a new batch has to be requested *)
Fixpoint pr_loop (cs : list (list N)) (left : N) (orc : list N) (count eff : N) (st : pr_state) : pr_state :=
  match cs with
  | [] => st
  | c :: t =>
      let continue_with := pr_loop t in
      let go (left : N) (orc : list N) :=
        let '(st', broke) := pr_events c count eff st in
        if broke then st'
        else if left - 1 =? 0 then
          (* the batch is used up: the checks after the `for commit in commits` loop *)
          if count <=? pr_collected st' then st'
          else if eff <=? pr_last st' then st'
          else continue_with 0 orc count eff st'
        else continue_with (left - 1) orc count eff st' in
      if left =? 0 then
        let limit := N.min (eff - pr_last st) cr_batch in      (* saturating_sub *)
        if limit =? 0 then st                                  (* next_batch(0) = None *)
        else let '(k, orc') := cr_next_k orc limit in go k orc'
      else go left orc
  end.

(** exclusive bound: `end.saturating_add(1).min(watermark)` / `watermark`
    (for end = u64::MAX the saturation is invisible: the minimum with W < 2^64 is W either way) *)
Definition pr_eff (W : N) (endo : option N) : N :=
  match endo with Some e => N.min (e + 1) W | None => W end.

(** [cs] = the commits `read_partition(partition, start, Forward)` yields *)
Definition partition_read (cs : list (list N)) (orc : list N) (W start : N) (endo : option N) (count : N)
  : list N * bool :=
  if W <=? start then ([], false)
  else
    let st := pr_loop cs 0 orc count (pr_eff W endo) (mkPr [] 0 start) in
    (pr_acc st, pr_last st <? W).       (* has_more = last_read_sequence <= watermark - 1 *)

(** ---- ReadStream ---------------------------------------------------------------------------------------- *)
(** a stream event as the loop sees it: (stream version, partition sequence) *)
Record sr_state := mkSr { sr_acc : list (N * N); sr_collected : N; sr_last : N; sr_more : bool }.
Inductive sr_brk := SrNone | SrInner | SrIter.

Definition sr_push (e : N * N) (st : sr_state) : sr_state :=
  mkSr (sr_acc st ++ [e]) (sr_collected st + 1) (fst e) (sr_more st).
Definition sr_set_more (st : sr_state) : sr_state := mkSr (sr_acc st) (sr_collected st) (sr_last st) true.

Definition sr_over (endo : option N) (ver : N) : bool := match endo with Some e => e <? ver | None => false end.
Definition sr_reached (endo : option N) (last : N) : bool := match endo with Some e => e <=? last | None => false end.

Fixpoint sr_events (evs : list (N * N)) (count W : N) (endo : option N) (st : sr_state) : sr_state * sr_brk :=
  match evs with
  | [] => (st, SrNone)
  | e :: t =>
      if count <=? sr_collected st then (sr_set_more st, SrIter)
      else if W <=? snd e then (st, SrIter)                       (* at or beyond the watermark *)
      else if sr_over endo (fst e) then (sr_set_more st, SrInner)  (* beyond end_version: `break` of the inner loop *)
      else sr_events t count W endo (sr_push e st)
  end.

(** `end.map(|e| (e - last_read_version).clamp(1, 50)).unwrap_or(50)` — never 0 *)
Definition sr_limit (endo : option N) (last : N) : N :=
  match endo with Some e => N.max 1 (N.min (e - last) cr_batch) | None => cr_batch end.

Fixpoint sr_loop (cs : list (list (N * N))) (left : N) (orc : list N) (count W : N) (endo : option N)
  (st : sr_state) : sr_state :=
  match cs with
  | [] => st
  | c :: t =>
      let continue_with := sr_loop t in
      let go (left : N) (orc : list N) :=
        let '(st', b) := sr_events c count W endo st in
        match b with
        | SrIter => st'
        | _ =>
            (* after the events of one commit *)
            if count <=? sr_collected st' then sr_set_more st'
            else if sr_reached endo (sr_last st') then st'        (* events.last().stream_version (or 0) >= end *)
            else continue_with (left - 1) orc count W endo st'
        end in
      if left =? 0 then
        let limit := sr_limit endo (sr_last st) in
        if limit =? 0 then st
        else let '(k, orc') := cr_next_k orc limit in go k orc'
      else go left orc
  end.

(** [cs] = the commits `read_stream(partition, stream, start_version, Forward)` yields *)
Definition stream_read (cs : list (list (N * N))) (orc : list N) (W : N) (endo : option N) (count : N)
  : list (N * N) * bool :=
  let st := sr_loop cs 0 orc count W endo (mkSr [] 0 0 false) in
  (sr_acc st, sr_more st).

(** ---- ReadEvent (single node) --------------------------------------------------------------------------- *)
(** [ev] = the stored event (partition sequence, on-disk confirmation count) if the id exists *)
Definition read_event (ev : option (N * N)) (q W : N) : option N :=
  match ev with
  | None => None
  | Some (s, c) => if c <? q then None else if W <? s + 1 then None else Some s
  end.

(** ---- GetStreamVersion ---------------------------------------------------------------------------------- *)
(** [rcs] = the commits `read_stream(.., u64::MAX, Reverse)` yields; batches of 50 until one contains a hit *)
Definition stream_version (rcs : list (list (N * N))) (W : N) : option N :=
  match find (fun e => snd e <? W) (concat rcs) with
  | Some e => Some (fst e)
  | None => None
  end.

(** ---- GetPartitionSequence ------------------------------------------------------------------------------ *)
Definition partition_sequence (W : N) : option N := if W =? 0 then None else Some (W - 1).

(** ---- what the storage iterators yield, from a partition log ------------------------------------------- *)
(** a log = the committed transactions in order; an event = (stream, on-disk confirmation count);
    partition sequences are positions, stream versions are ranks within the stream *)
Definition cr_log := list (list (N * N)).

Definition cr_counts (log : cr_log) : list N := map snd (concat log).

Fixpoint cr_range (s : N) (n : nat) : list N :=
  match n with O => [] | S m => s :: cr_range (s + 1) m end.

Definition cr_nonempty {A} (l : list (list A)) : list (list A) :=
  filter (fun g => match g with [] => false | _ => true end) l.

(** read_partition from [start]: the first commit is the suffix of its transaction from [start] on *)
Fixpoint cr_pcommits (log : cr_log) (seq start : N) : list (list N) :=
  match log with
  | [] => []
  | c :: t => filter (fun e => start <=? e) (cr_range seq (length c)) :: cr_pcommits t (seq + N.of_nat (length c)) start
  end.
Definition cr_partition_commits (log : cr_log) (start : N) : list (list N) := cr_nonempty (cr_pcommits log 0 start).

(** the events of stream [x] per transaction, as (version, sequence) *)
Fixpoint cr_sview_commit (x : N) (c : list (N * N)) (ver seq : N) : list (N * N) * N :=
  match c with
  | [] => ([], ver)
  | (s, _) :: t =>
      if s =? x then let '(r, v') := cr_sview_commit x t (ver + 1) (seq + 1) in ((ver, seq) :: r, v')
      else cr_sview_commit x t ver (seq + 1)
  end.
Fixpoint cr_sview (x : N) (log : cr_log) (ver seq : N) : list (list (N * N)) :=
  match log with
  | [] => []
  | c :: t => let '(g, v') := cr_sview_commit x c ver seq in g :: cr_sview x t v' (seq + N.of_nat (length c))
  end.

(** read_stream forward from version [start] *)
Definition cr_stream_commits (x : N) (log : cr_log) (start : N) : list (list (N * N)) :=
  cr_nonempty (map (filter (fun e => start <=? fst e)) (cr_sview x log 0 0)).

(** read_stream in reverse from the end: one commit per event, newest first, each the SUFFIX of its
    transaction from that event on (read_committed_events collects from the offset to the commit record) *)
Fixpoint cr_tails {A} (l : list A) : list (list A) :=
  match l with [] => [] | _ :: t => l :: cr_tails t end.
Definition cr_rev_commits (groups : list (list (N * N))) : list (list (N * N)) :=
  concat (map (fun g => rev (cr_tails g)) (rev groups)).
Definition cr_stream_rev_commits (x : N) (log : cr_log) : list (list (N * N)) :=
  cr_rev_commits (cr_sview x log 0 0).

(** the stored event at partition sequence [s] *)
Definition cr_event_at (log : cr_log) (s : N) : option (N * N) :=
  match nth_error (cr_counts log) (N.to_nat s) with Some c => Some (s, c) | None => None end.

(** ---- the watermark of a running node ------------------------------------------------------------------- *)
(** the node starts on [log] (ConfirmationActor::new = wm_initialize on the on-disk counts, no state file) and
    then receives confirmation reports (UpdateConfirmation, one (version, count) per event of each confirmed
    transaction, in delivery order) *)
Definition cr_live_state (rf : N) (log : cr_log) (reports : list (N * N)) : wm_state :=
  fold_left (wm_step rf) reports (wm_initialize rf wm_init (cr_counts log)).
Definition cr_live_watermark (rf : N) (log : cr_log) (reports : list (N * N)) : N :=
  wm_mark (cr_live_state rf log reports).

(** the reports one ConfirmTransaction for the transaction at sequences first .. first+n-1 produces *)
Fixpoint cr_confirm_reports (first : N) (n : nat) (count : N) : list (N * N) :=
  match n with O => [] | S m => (first + 1, count) :: cr_confirm_reports (first + 1) m count end.
