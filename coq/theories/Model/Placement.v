(** Model of where data is placed and routed (C13, C14). Definitions only.

    - server side:   crates/sierradb-server/src/config.rs  AppConfig::validate (the placement-relevant
                     checks), assigned_buckets, assigned_partitions           [cfg_*]
    - topology side: crates/sierradb-topology/src/manager.rs  calculate_assigned_partitions,
                     calculate_partition_replicas, recalculate_partition_assignments, new,
                     on_node_connected, on_heartbeat, on_node_disconnected, check_heartbeat_timeouts,
                     handle_ownership_response, get_available_replicas       [topo_*, t_*]

    The model is of the code as it is now (after the `fix:` commits e9e9dab, 11300b6, 2b81139, aacd385).
    What the code did before is kept behind three switches so that the history can be stated:
      [RfU8]      effective rf = rf.min(N as u8)          (now [RfWide]: (rf as usize).min(N))
      [RespKeep]  an ownership response replaces the replica lists and nothing is recalculated
                                                          (now [RespRecalc])
      [cfg_buckets_contig]  contiguous bucket ranges      (now [cfg_buckets]: the topology's modulo rule)

    Numbers are [N]; the code's u16/u8/usize never overflow on these paths (sums stay below 2^33).
    A panic of the code (division by zero, ArrayVec overflow) is [None].
    Peers, cluster refs: a peer is a number; the cluster ref of a peer is identified with the peer (one
    ClusterActor per process, fresh keypair per process), and the order of refs is the order of the numbers
    (the harness names peers by the rank of their ActorId). HashMaps are association lists / lists. *)
From Coq Require Import NArith List Bool.
From SV Require Import Model.Topology.
Import ListNotations.
Open Scope N_scope.

(** [0; 1; ..; n-1] *)
Fixpoint nrange_from (fuel : nat) (start : N) : list N :=
  match fuel with O => [] | S f => start :: nrange_from f (N.succ start) end.
Definition nrange (n : N) : list N := nrange_from (N.to_nat n) 0.

Definition nmem (x : N) (l : list N) : bool := existsb (N.eqb x) l.

Inductive rfmode := RfWide | RfU8.
Definition eff_rf (m : rfmode) (rf n : N) : N :=
  match m with RfWide => N.min rf n | RfU8 => N.min rf (n mod 256) end.

(** * topology side, pure part (manager.rs:102-161) *)

(* `for replica_offset in 0..erf { if (primary + replica_offset) % n == i {..} }` *)
Definition in_window (n erf primary i : N) : bool :=
  existsb (fun k => (primary + k) mod n =? i) (nrange erf).

(* bucket [bk] is in the node's `assigned_buckets` set: bk ranges over 0..b *)
Definition topo_bucket_owned (m : rfmode) (n b rf i bk : N) : bool :=
  (bk <? b) && in_window n (eff_rf m rf n) (bk mod n) i.

Definition topo_buckets (m : rfmode) (n b rf i : N) : list N :=
  filter (topo_bucket_owned m n b rf i) (nrange b).

(* calculate_assigned_partitions; None = `% 0` *)
Definition topo_assigned_gen (m : rfmode) (n b p rf i : N) : option (list N) :=
  if (0 <? b) && (n =? 0) then None
  else if (0 <? p) && (b =? 0) then None
  else Some (filter (fun q => topo_bucket_owned m n b rf i (q mod b)) (nrange p)).

Definition topo_assigned (n b p rf i : N) : list N :=
  match topo_assigned_gen RfWide n b p rf i with Some l => l | None => [] end.

(* the configured node indices that calculate_partition_replicas walks for partition q *)
Definition replica_indices (m : rfmode) (n b rf q : N) : list N :=
  map (fun k => ((q mod b) mod n + k) mod n) (nrange (eff_rf m rf n)).

(** * server side (config.rs) *)

(* the checks of AppConfig::validate that involve node.count, node.index, bucket.count, partition.count,
   replication.factor (all other settings valid, bucket.ids / partition.ids not given) *)
Definition cfg_validate (n idx b p rf : N) : bool :=
  (0 <? b) && (0 <? n) && (idx <? n) && (0 <? p) && (0 <? rf) && (rf <=? MAX_RF) && (rf <=? n)
  && (n <=? p) && (b <=? p).

Definition cfg_bucket_owned (n idx b rf bk : N) : bool :=
  (bk <? b) && ((idx + n - bk mod n) mod n <? N.min rf n).

Definition cfg_buckets (n idx b rf : N) : list N := filter (cfg_bucket_owned n idx b rf) (nrange b).

(* assigned_partitions(&assigned_buckets) *)
Definition cfg_partitions (n idx b p rf : N) : list N :=
  filter (fun q => cfg_bucket_owned n idx b rf (q mod b)) (nrange p).

(* history: the contiguous-range rule of the original assigned_buckets *)
Definition cfg_buckets_contig (n idx b rf : N) : list N :=
  let per := b / n in
  let extra := b mod n in
  flat_map (fun k =>
      let prim := (idx + n - k) mod n in
      let start := prim * per + N.min prim extra in
      let cnt := per + (if prim <? extra then 1 else 0) in
      map (fun d => start + d) (nrange cnt))
    (nrange (N.min rf n)).

(** * topology side, membership state *)

Definition amap := list (N * (N * N)).      (* peer -> (alive_since, node_index) *)

Fixpoint alookup (k : N) (l : amap) : option (N * N) :=
  match l with
  | [] => None
  | (k', v) :: r => if k' =? k then Some v else alookup k r
  end.
Definition aremove (k : N) (l : amap) : amap := filter (fun e => negb (fst e =? k)) l.
Definition aset (k : N) (v : N * N) (l : amap) : amap := (k, v) :: aremove k l.

Definition cl_add (x : N) (cl : list N) : list N := if nmem x cl then cl else x :: cl.
Definition cl_remove (x : N) (cl : list N) : list N := filter (fun y => negb (y =? x)) cl.

Inductive respmode := RespRecalc | RespKeep.

Record tcfg := { c_n : N; c_b : N; c_p : N; c_rf : N; c_mode : rfmode; c_resp : respmode }.
Record tlocal := { l_peer : N; l_alive : N; l_idx : N }.
Record tstate := { ts_active : amap; ts_cluster : list N; ts_replicas : list (list N) }.

(* `known_nodes`: configured index -> cluster ref, for active peers whose cluster ref is known *)
Fixpoint known_at (act : amap) (cl : list N) (i : N) : option N :=
  match act with
  | [] => None
  | (x, (_, j)) :: r => if (j =? i) && nmem x cl then Some x else known_at r cl i
  end.
Definition known_empty (act : amap) (cl : list N) : bool :=
  forallb (fun e => negb (nmem (fst e) cl)) act.

(* calculate_partition_replicas; None = `% 0` or a push onto a full ArrayVec *)
Definition calc_replicas (c : tcfg) (act : amap) (cl : list N) (q : N) : option (list N) :=
  if known_empty act cl then Some []
  else if (c_b c =? 0) || (c_n c =? 0) then None
  else
    let r := flat_map (fun i => match known_at act cl i with Some x => [x] | None => [] end)
                      (replica_indices (c_mode c) (c_n c) (c_b c) (c_rf c) q) in
    if MAX_RF <? N.of_nat (length r) then None else Some r.

Fixpoint all_some {A} (l : list (option A)) : option (list A) :=
  match l with
  | [] => Some []
  | None :: _ => None
  | Some x :: r => match all_some r with Some t => Some (x :: t) | None => None end
  end.

(* recalculate_partition_assignments *)
Definition recalc (c : tcfg) (act : amap) (cl : list N) : option (list (list N)) :=
  all_some (map (calc_replicas c act cl) (nrange (c_p c))).

Definition mk_recalc (c : tcfg) (act : amap) (cl : list N) : option tstate :=
  match recalc c act cl with
  | Some r => Some {| ts_active := act; ts_cluster := cl; ts_replicas := r |}
  | None => None
  end.

(* TopologyManager::new *)
Definition t_init (c : tcfg) (l : tlocal) : option tstate :=
  match topo_assigned_gen (c_mode c) (c_n c) (c_b c) (c_p c) (c_rf c) (l_idx l) with
  | None => None
  | Some _ => mk_recalc c [(l_peer l, (l_alive l, l_idx l))] [l_peer l]
  end.

(* on_node_connected *)
Definition t_connect (c : tcfg) (s : tstate) (x a i : N) : option tstate :=
  mk_recalc c (aset x (a, i) (ts_active s)) (cl_add x (ts_cluster s)).

(* on_heartbeat *)
Definition t_heartbeat (c : tcfg) (s : tstate) (x a i : N) : option tstate :=
  let cl := cl_add x (ts_cluster s) in
  match alookup x (ts_active s) with
  | Some (_, i0) =>
      if i0 =? i then Some {| ts_active := ts_active s; ts_cluster := cl; ts_replicas := ts_replicas s |}
      else mk_recalc c (aset x (a, i) (ts_active s)) cl
  | None => mk_recalc c (aset x (a, i) (ts_active s)) cl
  end.

(* on_node_disconnected *)
Definition t_disconnect (c : tcfg) (s : tstate) (x : N) : option tstate :=
  mk_recalc c (aremove x (ts_active s)) (cl_remove x (ts_cluster s)).

(* check_heartbeat_timeouts when exactly peer x's heartbeat is overdue *)
Definition t_timeout (c : tcfg) (l : tlocal) (s : tstate) (x : N) : option tstate :=
  if x =? l_peer l then Some s else
  match alookup x (ts_active s) with
  | None => Some s
  | Some _ => mk_recalc c (aremove x (ts_active s)) (cl_remove x (ts_cluster s))
  end.

(* what a node publishes after on_node_connected: its replica lists and its active nodes *)
Definition view_of (s : tstate) : list (list N) * amap := (ts_replicas s, ts_active s).

(* handle_ownership_response *)
Definition t_response (c : tcfg) (l : tlocal) (s : tstate) (v : list (list N) * amap) : option tstate :=
  let act := aset (l_peer l) (l_alive l, l_idx l) (snd v) in
  let cl := fold_left (fun acc x => cl_add x acc) (concat (fst v)) (ts_cluster s) in
  match c_resp c with
  | RespRecalc => mk_recalc c act cl
  | RespKeep => Some {| ts_active := act; ts_cluster := cl; ts_replicas := fst v |}
  end.

(** get_available_replicas: the live replicas of q with their alive_since, sorted by (alive_since, ref) *)
Definition av_le (x y : N * N) : bool :=
  (snd x <? snd y) || ((snd x =? snd y) && (fst x <=? fst y)).
Fixpoint av_insert (x : N * N) (l : list (N * N)) : list (N * N) :=
  match l with
  | [] => [x]
  | y :: r => if av_le x y then x :: l else y :: av_insert x r
  end.
Definition av_sort (l : list (N * N)) : list (N * N) := fold_right av_insert [] l.

Definition available (s : tstate) (q : N) : list (N * N) :=
  av_sort (flat_map (fun x => match alookup x (ts_active s) with Some (a, _) => [(x, a)] | None => [] end)
                    (nth (N.to_nat q) (ts_replicas s) [])).

(* the cluster as the configuration describes it: every node is up, node i is peer [peer_of i] *)
Definition full_members (n : N) (peer_of alive_of : N -> N) : amap :=
  map (fun i => (peer_of i, (alive_of i, i))) (nrange n).

(** * the cluster as a transition system (used by the statements of C14; nothing below is extracted)

    A world fixes the configuration every node was started with and, for every peer that ever takes
    part, its configured index and its start time (what its heartbeats and ownership requests carry).
    [Reach W l s]: [s] is a state the manager of peer [l] can be in after any finite sequence of
    membership events, where an ownership response may come from ANY reachable state of ANY node
    (the real node only publishes right after on_node_connected; allowing more only strengthens the
    theorems), arbitrarily delayed, duplicated or reordered. *)
Record world := { w_cfg : tcfg; w_peers : list N; w_idx : N -> N; w_alive : N -> N }.

Definition local_of (W : world) (x : N) : tlocal :=
  {| l_peer := x; l_alive := w_alive W x; l_idx := w_idx W x |}.

Inductive Reach (W : world) : N -> tstate -> Prop :=
| R_init l s : In l (w_peers W) -> t_init (w_cfg W) (local_of W l) = Some s -> Reach W l s
| R_connect l s x s' : Reach W l s -> In x (w_peers W) -> x <> l ->
    t_connect (w_cfg W) s x (w_alive W x) (w_idx W x) = Some s' -> Reach W l s'
| R_heartbeat l s x s' : Reach W l s -> In x (w_peers W) -> x <> l ->
    t_heartbeat (w_cfg W) s x (w_alive W x) (w_idx W x) = Some s' -> Reach W l s'
| R_disconnect l s x s' : Reach W l s -> x <> l ->
    t_disconnect (w_cfg W) s x = Some s' -> Reach W l s'
| R_timeout l s x s' : Reach W l s ->
    t_timeout (w_cfg W) (local_of W l) s x = Some s' -> Reach W l s'
| R_response l s l' s0 s' : Reach W l s -> Reach W l' s0 ->
    t_response (w_cfg W) (local_of W l) s (view_of s0) = Some s' -> Reach W l s'.

(* distinct peers are configured with distinct node indices *)
Definition wf_world (W : world) : Prop :=
  0 < c_n (w_cfg W) /\ 0 < c_b (w_cfg W) /\
  (forall x y, In x (w_peers W) -> In y (w_peers W) -> w_idx W x = w_idx W y -> x = y).

Definition current_code (c : tcfg) : Prop := c_mode c = RfWide /\ c_resp c = RespRecalc.

(* the two nodes know the same live members (same peers, same start times, same indices) *)
Definition same_members (s1 s2 : tstate) : Prop :=
  forall x, alookup x (ts_active s1) = alookup x (ts_active s2).

(* the partitions whose replica walk reaches node [i]: what `partition_replicas[q].contains(me)` is once
   every node of the cluster is known (C14_count ties the two) *)
Definition topo_routed (m : rfmode) (n b p rf i : N) : list N :=
  filter (fun q => nmem i (replica_indices m n b rf q)) (nrange p).

(* a three-node world (peer i has index i, all started at time 5), with the original and with the current
   handling of ownership responses; used by the witnesses and examples in Props/C14.v *)
Definition W_keep : world :=
  {| w_cfg := {| c_n := 3; c_b := 2; c_p := 4; c_rf := 3; c_mode := RfWide; c_resp := RespKeep |};
     w_peers := [0; 1; 2]; w_idx := fun x => x; w_alive := fun _ => 5 |}.
Definition W_now : world :=
  {| w_cfg := {| c_n := 3; c_b := 2; c_p := 4; c_rf := 3; c_mode := RfWide; c_resp := RespRecalc |};
     w_peers := [0; 1; 2]; w_idx := fun x => x; w_alive := fun _ => 5 |}.
