(** Model of the confirmed watermark of a partition
    (crates/sierradb-cluster/src/confirmation.rs, after the `fix:` commits for C08).

    - [wm_update]      PartitionConfirmationState::update_confirmation   (:83-156)
    - [wm_persist_steps] BucketConfirmationManager::persist_bucket_state (:412-462), one directory state per
                       point at which the process can die
    - [wm_load]        load_bucket_state / load_state_file              (:336-375)
    - [wm_initialize]  BucketConfirmationManager::initialize: load, then re-report the on-disk confirmation
                       counts of every event at or after the loaded watermark (:250-300)
    - [mg_update]      BucketConfirmationManager::update_confirmation + persist_bucket_if_needed (:378-409, 465-493)

    Versions are 1-based (version = partition sequence + 1); the watermark is the number of leading confirmed
    events.  Numbers are [N]; the u64 version / u8 count ranges are not modelled (2^64 events are out of reach,
    the quorum of a u8 replication factor is at most 128).  The `first_seen/last_attempt/attempts` bookkeeping of
    an unconfirmed entry does not influence the watermark and is not modelled.
    Definitions only; proofs are in Proofs/WatermarkProofs.v. *)
From Coq Require Import NArith List Bool.
Import ListNotations.
Open Scope N_scope.

(** the BTreeMap<u64, UnconfirmedEventInfo>, as a list of (version, count) kept in key order *)
Definition wm_map := list (N * N).

Fixpoint wm_get (m : wm_map) (k : N) : option N :=
  match m with
  | [] => None
  | (k', c) :: t => if k =? k' then Some c else wm_get t k
  end.

Fixpoint wm_set (m : wm_map) (k c : N) : wm_map :=
  match m with
  | [] => [(k, c)]
  | (k', c') :: t =>
      if k <? k' then (k, c) :: (k', c') :: t
      else if k =? k' then (k, c) :: t
      else (k', c') :: wm_set t k c
  end.

(** `unconfirmed_events.retain(|&ver, _| ver > w)` *)
Definition wm_retain_gt (m : wm_map) (w : N) : wm_map := filter (fun kc => w <? fst kc) m.

Record wm_state := mkWm { wm_mark : N; wm_high : N; wm_unconf : wm_map }.
Definition wm_init : wm_state := mkWm 0 0 [].

(** `(replication_factor / 2) + 1` *)
Definition wm_quorum (rf : N) : N := rf / 2 + 1.

(** `while let Some(event) = unconfirmed.get(&next_expected) { if event.count >= quorum { advance } else break }`.
    Every iteration consumes a different key of the map, so [length m] iterations always suffice
    (proved: [wm_scan_stops]). *)
Fixpoint wm_scan (m : wm_map) (q w : N) (fuel : nat) : N :=
  match fuel with
  | O => w
  | S f => match wm_get m (w + 1) with
           | Some c => if q <=? c then wm_scan m q (w + 1) f else w
           | None => w
           end
  end.

(** how a report meets an existing entry: the repaired code keeps the larger count,
    the original code (`event.confirmation_count = confirmation_count`) overwrote it *)
Inductive wm_mode := WmKeepMax | WmOverwrite.

Definition wm_update_gen (md : wm_mode) (rf : N) (s : wm_state) (v c : N) : wm_state * bool :=
  let hv := N.max (wm_high s) v in
  let w := wm_mark s in
  if v <=? w then (mkWm w hv (wm_unconf s), false)
  else
    let old := match wm_get (wm_unconf s) v with Some o => o | None => 0 end in
    let nc := match md with WmKeepMax => N.max old c | WmOverwrite => c end in
    let un := wm_set (wm_unconf s) v nc in
    let w' := wm_scan un (wm_quorum rf) w (length un) in
    if w <? w' then (mkWm w' hv (wm_retain_gt un w'), true)
    else (mkWm w hv un, false).

Definition wm_update := wm_update_gen WmKeepMax.

Definition wm_step_gen md rf (s : wm_state) (r : N * N) : wm_state := fst (wm_update_gen md rf s (fst r) (snd r)).
Definition wm_run_gen md rf (rs : list (N * N)) : wm_state := fold_left (wm_step_gen md rf) rs wm_init.
Definition wm_step := wm_step_gen WmKeepMax.
Definition wm_run := wm_run_gen WmKeepMax.

(** the run with everything a caller can observe: per report the watermark afterwards and the returned flag *)
Fixpoint wm_trace_gen md rf (s : wm_state) (rs : list (N * N)) : wm_state * list (N * bool) :=
  match rs with
  | [] => (s, [])
  | (v, c) :: t =>
      let '(s1, a) := wm_update_gen md rf s v c in
      let '(s2, tr) := wm_trace_gen md rf s1 t in
      (s2, (wm_mark s1, a) :: tr)
  end.

(** ---- the specification side: best reported count per version ------------------------------------ *)
Definition wm_best (rs : list (N * N)) (v : N) : N :=
  fold_right (fun r acc => if fst r =? v then N.max (snd r) acc else acc) 0 rs.

(** [k] is the length of the longest prefix 1..k of versions whose count [f] reaches [q] *)
Definition wm_is_prefix (q : N) (f : N -> N) (k : N) : Prop :=
  (forall i, 1 <= i -> i <= k -> q <= f i) /\ f (k + 1) < q.

(** executable form, for checking examples and for the driver: count leading versions 1.. with f >= q *)
Fixpoint wm_prefix_upto (q : N) (f : N -> N) (w : N) (fuel : nat) : N :=
  match fuel with
  | O => w
  | S n => if q <=? f (w + 1) then wm_prefix_upto q f (w + 1) n else w
  end.

(** ---- persistence ------------------------------------------------------------------------------------ *)
(** a state file: missing, present but not decodable (truncated / checksum mismatch), or a valid snapshot *)
Inductive wm_file := WfMissing | WfBad | WfGood (s : wm_state).
Record wm_dir := mkDir { d_cur : wm_file; d_prev : wm_file; d_tmp : wm_file }.
Definition wm_dir_empty := mkDir WfMissing WfMissing WfMissing.

Definition wf_exists (f : wm_file) : bool := match f with WfMissing => false | _ => true end.

(** persist_bucket_state, as the list of directory states after each file-system effect:
    temp created (partial), temp complete, previous removed, current renamed to previous, temp renamed to current *)
Definition wm_persist_steps (d : wm_dir) (s : wm_state) : list wm_dir :=
  let d1 := mkDir (d_cur d) (d_prev d) WfBad in
  let d2 := mkDir (d_cur d) (d_prev d) (WfGood s) in
  if wf_exists (d_cur d) then
    let d3 := mkDir (d_cur d) WfMissing (WfGood s) in          (* remove_file(previous) (if it exists) *)
    let d4 := mkDir WfMissing (d_cur d) (WfGood s) in          (* rename(current, previous) *)
    let d5 := mkDir (WfGood s) (d_cur d) WfMissing in          (* rename(temp, current) *)
    [d1; d2; d3; d4; d5]
  else
    [d1; d2; mkDir (WfGood s) (d_prev d) WfMissing].

Definition wm_persist (d : wm_dir) (s : wm_state) : wm_dir := last (wm_persist_steps d s) d.

(** load_bucket_state: current, else previous, else a fresh state; the temp file is never read *)
Definition wm_load (d : wm_dir) : wm_state :=
  match d_cur d with
  | WfGood s => s
  | _ => match d_prev d with WfGood s => s | _ => wm_init end
  end.

(** the rescan of `initialize`: every on-disk event with sequence >= the loaded watermark is re-reported
    with its on-disk count; [disk] lists the on-disk counts by partition sequence *)
Fixpoint wm_rescan (rf : N) (s : wm_state) (i : N) (cs : list N) : wm_state :=
  match cs with
  | [] => s
  | c :: t => wm_rescan rf (fst (wm_update rf s (i + 1) c)) (i + 1) t
  end.

Definition wm_initialize (rf : N) (loaded : wm_state) (disk : list N) : wm_state :=
  wm_rescan rf loaded (wm_mark loaded) (skipn (N.to_nat (wm_mark loaded)) disk).

Definition wm_restart (rf : N) (d : wm_dir) (disk : list N) : wm_state := wm_initialize rf (wm_load d) disk.

(** ---- the manager: update + persist_bucket_if_needed (first update persists, then every 101st change;
         the 5 s timer is not modelled) ------------------------------------------------------------------ *)
Record wm_mgr := mkMgr { mg_state : wm_state; mg_dir : wm_dir; mg_changes : option N }.
Definition mg_init := mkMgr wm_init wm_dir_empty None.

Definition mg_update (rf : N) (m : wm_mgr) (v c : N) : wm_mgr :=
  let s := fst (wm_update rf (mg_state m) v c) in
  match mg_changes m with
  | None => mkMgr s (wm_persist (mg_dir m) s) (Some 0)
  | Some n => if 100 <? n + 1 then mkMgr s (wm_persist (mg_dir m) s) (Some 0)
              else mkMgr s (mg_dir m) (Some (n + 1))
  end.

Definition mg_force_persist (m : wm_mgr) : wm_mgr :=
  mkMgr (mg_state m) (wm_persist (mg_dir m) (mg_state m)) (mg_changes m).

Inductive mg_op := MgReport (v c : N) | MgPersist.
Definition mg_step rf (m : wm_mgr) (o : mg_op) : wm_mgr :=
  match o with MgReport v c => mg_update rf m v c | MgPersist => mg_force_persist m end.
Definition mg_run rf (ops : list mg_op) : wm_mgr := fold_left (mg_step rf) ops mg_init.

(** ---- a node: on-disk counts + in-memory confirmation state, and the three things the code does to them --- *)
Record wm_node := mkNode { nd_mem : wm_state; nd_disk : list N }.

Fixpoint wm_disk_set (d : list N) (i : nat) (c : N) : list N :=
  match d, i with
  | [], _ => []
  | _ :: t, O => c :: t
  | x :: t, S j => x :: wm_disk_set t j c
  end.

Inductive nd_op :=
| NdAppend (c : N)        (* an event is appended with confirmation count c *)
| NdSetDisk (v c : N)     (* Database::set_confirmations rewrites the on-disk count of version v *)
| NdReport (v c : N).     (* the confirmation actor is told (v, c) *)

(** what the calling code guarantees (transaction.rs:75-110, confirm.rs:88-105, replicate.rs:288-336,
    confirmation.rs:281-296): counts are only ever re-written to quorum counts, and a quorum report is
    sent only after the on-disk count of that version is a quorum count *)
Definition nd_op_ok (rf : N) (n : wm_node) (o : nd_op) : Prop :=
  match o with
  | NdAppend _ => True
  | NdSetDisk v c => wm_quorum rf <= c
  | NdReport v c => wm_quorum rf <= c ->
                    1 <= v /\ v <= N.of_nat (length (nd_disk n)) /\
                    wm_quorum rf <= nth (N.to_nat (v - 1)) (nd_disk n) 0
  end.

Definition nd_step (rf : N) (n : wm_node) (o : nd_op) : wm_node :=
  match o with
  | NdAppend c => mkNode (nd_mem n) (nd_disk n ++ [c])
  | NdSetDisk v c => if (1 <=? v) then mkNode (nd_mem n) (wm_disk_set (nd_disk n) (N.to_nat (v - 1)) c) else n
  | NdReport v c => mkNode (fst (wm_update rf (nd_mem n) v c)) (nd_disk n)
  end.

Inductive nd_reach (rf : N) : wm_node -> Prop :=
| nd_reach_init : nd_reach rf (mkNode wm_init [])
| nd_reach_step : forall n o, nd_reach rf n -> nd_op_ok rf n o -> nd_reach rf (nd_step rf n o).
