(** Model of crates/sierradb-protocol/src/lib.rs (ExpectedVersion, CurrentVersion, VersionGap, FromStr/Display)
    and of the store-side acceptance rules in crates/sierradb/src/writer_thread_pool.rs
    (validate_event_versions :795-1046, validate_partition_sequence :1208-1255, the result of handle_write).
    Definitions only.

    Integers: every version is a Rust u64, modelled as [N] with the explicit bound [n <= U64_MAX] (= n < 2^64) in the
    well-formedness predicates. Arithmetic that Rust compiles to a checked operation (debug build: `+`, `+=`) is
    modelled as [option]: [None] = panic. Strings are lists of bytes ([ascii] = 8 bits). *)
From Coq Require Import NArith ZArith List Bool Ascii.
Import ListNotations.
Open Scope N_scope.

Definition U64_MAX : N := 18446744073709551615.

Inductive expected_version := EvAny | EvExists | EvEmpty | EvExact (v : N).
Inductive current_version := CvEmpty | CvCurrent (v : N).
Inductive version_gap := GapNone | GapAhead (n : N) | GapBehind (n : N) | GapIncompatible.

Definition wf_ev (e : expected_version) : Prop := match e with EvExact v => v <= U64_MAX | _ => True end.
Definition wf_cv (c : current_version) : Prop := match c with CvCurrent v => v <= U64_MAX | _ => True end.

(** u64 `a + b` in the three ways it can be compiled / written *)
Inductive add_mode := AddChecked | AddWrapping | AddSaturating.
Definition u64_add (m : add_mode) (a b : N) : option N :=
  match m with
  | AddChecked => if a + b <=? U64_MAX then Some (a + b) else None
  | AddWrapping => Some ((a + b) mod (U64_MAX + 1))
  | AddSaturating => Some (N.min (a + b) U64_MAX)
  end.

(** lib.rs:29 *)
Definition from_next_version (v : N) : expected_version :=
  if v =? 0 then EvEmpty else EvExact (v - 1).

(** lib.rs:37 — outer [None] = the explicit `panic!("expected no stream or exact version")`;
    inner option = the `Option<u64>` of `checked_add` *)
Definition into_next_version (e : expected_version) : option (option N) :=
  match e with
  | EvEmpty => Some (Some 0)
  | EvExact v => Some (if v + 1 <=? U64_MAX then Some (v + 1) else None)
  | _ => None
  end.

(** lib.rs:47 — parameterised by how the two `+ 1` are evaluated ([AddChecked] = the original code in a debug build,
    [AddWrapping] = the original code in a release build, [AddSaturating] = the code after the `fix:` commit) *)
Definition gap_from_gen (m : add_mode) (e : expected_version) (c : current_version) : option version_gap :=
  match e, c with
  | EvAny, _ => Some GapNone
  | EvExists, CvEmpty => Some GapIncompatible
  | EvExists, CvCurrent _ => Some GapNone
  | EvEmpty, CvEmpty => Some GapNone
  | EvEmpty, CvCurrent n => option_map GapAhead (u64_add m n 1)
  | EvExact x, CvEmpty => option_map GapBehind (u64_add m x 1)
  | EvExact x, CvCurrent v =>
      Some (match x ?= v with Eq => GapNone | Gt => GapBehind (x - v) | Lt => GapAhead (v - x) end)
  end.

(** the code as it is now *)
Definition gap_from (e : expected_version) (c : current_version) : version_gap :=
  match gap_from_gen AddSaturating e c with Some g => g | None => GapNone end.

(** lib.rs:75 *)
Definition is_satisfied_by (e : expected_version) (c : current_version) : bool :=
  match gap_from e c with GapNone => true | _ => false end.

(** CurrentVersion::next (lib.rs:124), as_expected_version (:131), AddAssign<u64> (:162); None = overflow panic *)
Definition cv_next (c : current_version) : option N :=
  match c with CvCurrent v => u64_add AddChecked v 1 | CvEmpty => Some 0 end.
Definition as_expected_version (c : current_version) : expected_version :=
  match c with CvCurrent v => EvExact v | CvEmpty => EvEmpty end.
Definition cv_add (c : current_version) (k : N) : option current_version :=
  match c with
  | CvCurrent v => option_map CvCurrent (u64_add AddChecked v k)
  | CvEmpty => Some (if 0 <? k then CvCurrent (k - 1) else CvEmpty)
  end.

(** * Specification side *)

(** number of events a stream/partition holds / is expected to hold *)
Definition cv_count (c : current_version) : Z :=
  match c with CvEmpty => 0%Z | CvCurrent v => (Z.of_N v + 1)%Z end.
Definition cv_of_count (n : N) : current_version := if n =? 0 then CvEmpty else CvCurrent (n - 1).

(** the signed distance "events present minus events expected" clamped to what a u64 magnitude can carry *)
Definition clamp64 (z : Z) : N := N.min (Z.to_N z) U64_MAX.
Definition gap_of_distance (d : Z) : version_gap :=
  if (d =? 0)%Z then GapNone else if (0 <? d)%Z then GapAhead (clamp64 d) else GapBehind (clamp64 (- d)).
Definition gap_spec (e : expected_version) (c : current_version) : version_gap :=
  match e with
  | EvAny => GapNone
  | EvExists => match c with CvEmpty => GapIncompatible | CvCurrent _ => GapNone end
  | EvEmpty => gap_of_distance (cv_count c)
  | EvExact x => gap_of_distance (cv_count c - (Z.of_N x + 1))
  end.

(** the acceptance rule as a specification: what an expectation means *)
Definition accepts (e : expected_version) (c : current_version) : bool :=
  match e, c with
  | EvAny, _ => true
  | EvExists, CvCurrent _ => true
  | EvExists, CvEmpty => false
  | EvEmpty, CvEmpty => true
  | EvEmpty, CvCurrent _ => false
  | EvExact x, CvCurrent v => x =? v
  | EvExact _, CvEmpty => false
  end.

(** * The store's rules, transcribed branch by branch *)

(** validate_event_versions, `Entry::Vacant` arm (:838-1040): [latest] is what pending_indexes / the stream index
    report for the stream (None = no event yet); the partition key is assumed to match. true = no error returned *)
Definition store_stream_first (e : expected_version) (latest : option N) : bool :=
  match e with
  | EvAny => true
  | EvExists => match latest with Some _ => true | None => false end
  | EvEmpty => match latest with Some _ => false | None => true end
  | EvExact x => match latest with Some v => v =? x | None => false end
  end.
(** `Entry::Occupied` arm (:805-837): [entry] = version the stream has after the earlier events of this transaction *)
Definition store_stream_again (e : expected_version) (entry : N) : bool :=
  match e with
  | EvAny => true
  | EvExists => true
  | EvEmpty => false
  | EvExact x => entry =? x
  end.
(** validate_partition_sequence (:1208): [next] = next partition sequence = number of events in the partition *)
Definition store_partition (e : expected_version) (next : N) : bool :=
  match e with
  | EvAny => true
  | EvExists => negb (next =? 0)
  | EvEmpty => next =? 0
  | EvExact s => if next =? 0 then false else (next - 1 =? s)
  end.

(** the whole of validate_event_versions over the events of one transaction.
    [db s] = latest version of stream [s] in the store; [m] = the local HashMap (association list, newest first). *)
Fixpoint assoc_get (k : N) (m : list (N * N)) : option N :=
  match m with [] => None | (k', v) :: r => if k' =? k then Some v else assoc_get k r end.

Inductive tx_result :=
  | TxOk (versions : list current_version)
  | TxWrongVersion (stream : N) (current : current_version) (expected : expected_version)
  | TxPanic.

Fixpoint validate_events (db : N -> option N) (m : list (N * N)) (evs : list (N * expected_version))
         (acc : list current_version) : tx_result :=
  match evs with
  | [] => TxOk (rev acc)
  | (s, e) :: rest =>
      match assoc_get s m with
      | Some entry =>
          if store_stream_again e entry then
            match u64_add AddChecked entry 1 with
            | Some entry' => validate_events db ((s, entry') :: m) rest (CvCurrent entry :: acc)
            | None => TxPanic
            end
          else TxWrongVersion s (CvCurrent entry) e
      | None =>
          if store_stream_first e (db s) then
            match db s with
            | Some v =>
                match u64_add AddChecked v 1 with
                | Some v' => validate_events db ((s, v') :: m) rest (CvCurrent v :: acc)
                | None => TxPanic
                end
            | None => validate_events db ((s, 0) :: m) rest (CvEmpty :: acc)
            end
          else TxWrongVersion s (match db s with Some v => CvCurrent v | None => CvEmpty end) e
      end
  end.

(** outcome of Database::append_events for one transaction on a partition with [pnext] events:
    stream check first (handle_append_events), then the partition check and the numbering (handle_write). *)
Inductive append_result :=
  | ApOk (first last : N) (stream_versions : list (N * N))   (* per event, in order: (stream, version it received) *)
  | ApWrongVersion (stream : N) (current : current_version) (expected : expected_version)
  | ApWrongSequence (current : current_version) (expected : expected_version)
  | ApPanic.

Definition cv_next_total (c : current_version) : N := match c with CvEmpty => 0 | CvCurrent v => v + 1 end.

Definition append_tx (db : N -> option N) (pnext : N) (epart : expected_version) (evs : list (N * expected_version))
  : append_result :=
  match validate_events db [] evs [] with
  | TxOk cs =>
      if store_partition epart pnext
      then ApOk pnext (pnext + N.of_nat (length evs) - 1) (combine (map fst evs) (map cv_next_total cs))
      else ApWrongSequence (cv_of_count pnext) epart
  | TxWrongVersion s c e => ApWrongVersion s c e
  | TxPanic => ApPanic
  end.

(** specification of the same: every event's expectation must be satisfied by the version its stream has at that
    point, the running version of a stream advancing by one per accepted event *)
Definition cv_succ (c : current_version) : current_version := CvCurrent (cv_next_total c).
Definition upd (f : N -> current_version) (s : N) (c : current_version) : N -> current_version :=
  fun s' => if s' =? s then c else f s'.
Fixpoint tx_spec (cur : N -> current_version) (evs : list (N * expected_version)) : tx_result :=
  match evs with
  | [] => TxOk []
  | (s, e) :: rest =>
      if is_satisfied_by e (cur s)
      then match tx_spec (upd cur s (cv_succ (cur s))) rest with
           | TxOk l => TxOk (cur s :: l)
           | r => r
           end
      else TxWrongVersion s (cur s) e
  end.
Definition cv_of_latest (o : option N) : current_version := match o with Some v => CvCurrent v | None => CvEmpty end.
Definition db_of_list (l : list (N * N)) : N -> option N := fun s => assoc_get s l.

(** * Text: Display / FromStr *)

Definition byte (n : N) : ascii := ascii_of_N n.
Definition lit_any : list ascii := [byte 97; byte 110; byte 121].                          (* "any" *)
Definition lit_exists : list ascii := [byte 101; byte 120; byte 105; byte 115; byte 116; byte 115].  (* "exists" *)
Definition lit_empty : list ascii := [byte 101; byte 109; byte 112; byte 116; byte 121].   (* "empty" *)
Definition PLUS : ascii := byte 43.

Fixpoint bytes_eqb (a b : list ascii) : bool :=
  match a, b with
  | [], [] => true
  | x :: a', y :: b' => Ascii.eqb x y && bytes_eqb a' b'
  | _, _ => false
  end.

(** `(c as char).to_digit(10)` on a byte *)
Definition digit_of_byte (c : ascii) : option N :=
  let n := N_of_ascii c in if (48 <=? n) && (n <=? 57) then Some (n - 48) else None.
Definition byte_of_digit (d : N) : ascii := ascii_of_N (48 + d).

Inductive parse_error := PeEmpty | PeInvalidDigit | PePosOverflow.
Inductive parse_result (A : Type) := POk (a : A) | PErr (e : parse_error).
Arguments POk {A} a. Arguments PErr {A} e.

(** core::num `from_str_radix(_, 10)` for u64: digit loop; an invalid digit is reported before the overflow of the same step *)
Fixpoint parse_digits (acc : N) (s : list ascii) : parse_result N :=
  match s with
  | [] => POk acc
  | c :: r =>
      match digit_of_byte c with
      | None => PErr PeInvalidDigit
      | Some d => if acc * 10 + d <=? U64_MAX then parse_digits (acc * 10 + d) r else PErr PePosOverflow
      end
  end.
Definition parse_u64 (s : list ascii) : parse_result N :=
  match s with
  | [] => PErr PeEmpty
  | [c] => if Ascii.eqb c PLUS then PErr PeInvalidDigit else parse_digits 0 s
  | c :: r => if Ascii.eqb c PLUS then parse_digits 0 r else parse_digits 0 s
  end.

(** decimal printing of a u64 (`u64 as Display`): no sign, no leading zeros, "0" for zero *)
Fixpoint dec_digits (fuel : nat) (n : N) : list ascii :=
  match fuel with
  | O => []
  | S f => if n =? 0 then [] else dec_digits f (n / 10) ++ [byte_of_digit (n mod 10)]
  end.
Definition display_u64 (n : N) : list ascii :=
  if n =? 0 then [byte_of_digit 0] else dec_digits (N.to_nat (N.size n)) n.

(** lib.rs:86 / :97 *)
Definition display_ev (e : expected_version) : list ascii :=
  match e with EvAny => lit_any | EvExists => lit_exists | EvEmpty => lit_empty | EvExact v => display_u64 v end.
Definition parse_ev (s : list ascii) : parse_result expected_version :=
  if bytes_eqb s lit_empty then POk EvEmpty
  else if bytes_eqb s lit_any then POk EvAny
  else if bytes_eqb s lit_exists then POk EvExists
  else match parse_u64 s with POk n => POk (EvExact n) | PErr e => PErr e end.
(** lib.rs:139 / :148 *)
Definition display_cv (c : current_version) : list ascii :=
  match c with CvEmpty => lit_empty | CvCurrent v => display_u64 v end.
Definition parse_cv (s : list ascii) : parse_result current_version :=
  if bytes_eqb s lit_empty then POk CvEmpty
  else match parse_u64 s with POk n => POk (CvCurrent n) | PErr e => PErr e end.

(** canonical texts: the three keywords, or a non-empty digit string without a leading zero (except "0" itself) *)
Definition is_digit (c : ascii) : bool := match digit_of_byte c with Some _ => true | None => false end.
Definition canonical_number (s : list ascii) : bool :=
  match s with
  | [] => false
  | [c] => is_digit c
  | c :: r => is_digit c && negb (Ascii.eqb c (byte_of_digit 0)) && forallb is_digit r
  end.
Definition canonical_ev (s : list ascii) : bool :=
  bytes_eqb s lit_any || bytes_eqb s lit_exists || bytes_eqb s lit_empty || canonical_number s.
Definition canonical_cv (s : list ascii) : bool := bytes_eqb s lit_empty || canonical_number s.
