(** Concrete model (layer L1, record granularity) of one bucket of the storage engine:
    crates/sierradb/src/writer_thread_pool.rs (validate_event_versions, handle_write, sync,
    rollover, Worker::new hydration), bucket/segment/reader.rs (read_committed_events),
    bucket/{event_index,partition_index,stream_index} (open/closed lookups),
    database.rs (read_transaction, get_stream_version, get_partition_sequence).

    A record's "offset" is its index in its segment. Byte sizes, the rollover *decision*
    and what survives a crash are inputs (oracles) of the operations, so the theorems hold
    for every placement of segment boundaries and every crash cut.
    Definitions only; proofs are in Proofs/StoreProofs.v. *)
From Coq Require Import NArith List Bool.
From SV Require Export Model.StoreSpec.
Import ListNotations.
Open Scope N_scope.

Inductive rec := REvent (e : event) | RCommit (tx : N) (count : N).

(** an index entry = what Open*Index::insert receives: the event's fields and its offset *)
Record ientry := mkEntry { i_ev : event; i_off : nat }.

Record seg := mkSeg {
  s_recs : list rec;      (* the segment file, record by record *)
  s_idx : list ientry     (* published index entries, in insertion order *)
}.

Record store := mkStore {
  sealed : list seg;          (* closed segments, oldest first *)
  live : seg;                 (* open segment: records written so far + published index entries *)
  pending : list ientry;      (* appended but not yet synced (pending_indexes) *)
  nextseq : list (N * N);     (* next_partition_sequences cache: pid -> next sequence *)
  synced : nat;               (* records of the live segment below the flushed offset (readable) *)
  published : nat             (* records of the live segment whose index entries are published *)
}.

Definition empty_seg := mkSeg [] [].
Definition store_init := mkStore [] empty_seg [] [] 0 0.

(** ** reading committed events at an offset (reader.rs read_committed_events) *)
Inductive committed :=
  | CSingle (off : nat) (e : event)
  | CTxn (es : list (nat * event)) (tx : N) (count : N).   (* events with their offsets *)

Definition committed_events (c : committed) : list event :=
  match c with CSingle _ e => [e] | CTxn es _ _ => map snd es end.

(* the loop: [events] collected so far, [ptx] pending transaction id (None = Uuid::nil, which
   no real transaction carries).  Returns the result and the next offset as the code does. *)
Fixpoint rc_loop (recs : list rec) (off : nat) (events : list (nat * event)) (ptx : option N)
  : option committed * option nat :=
  match recs with
  | [] => (None, None)
  | REvent e :: rest =>
      if e_flag e then
        match events with
        | [] => (Some (CSingle off e), Some (S off))
        | _ => rc_loop rest (S off) (events ++ [(off, e)]) ptx
        end
      else if match ptx with Some p => e_tx e =? p | None => false end
      then rc_loop rest (S off) (events ++ [(off, e)]) ptx
      else rc_loop rest (S off) [(off, e)] (Some (e_tx e))
  | RCommit tx count :: _ =>
      if match ptx with Some p => tx =? p | None => false end && negb (match events with [] => true | _ => false end)
      then (Some (CTxn events tx count), Some (S off))
      else (None, Some (S off))
  end.

Definition read_committed (recs : list rec) (off : nat) : option committed * option nat :=
  rc_loop (skipn off recs) off [] None.

(** ** index lookups over entry lists *)
(* event index: HashMap insert, last insert wins *)
Definition eidx_get (idx : list ientry) (id : N) : option nat :=
  match filter (fun en => e_id (i_ev en) =? id) idx with
  | [] => None
  | x :: r => Some (i_off (last r x))
  end.

Record keyrec := mkKey { k_pk : N; k_min : N; k_max : N; k_offs : list nat }.

Definition fold_min (l : list N) (d : N) := fold_left N.min l d.
Definition fold_max (l : list N) (d : N) := fold_left N.max l d.

(* stream index: partition key of the first entry, min/max version, offsets in insertion order *)
Definition sidx_get (idx : list ientry) (sid : N) : option keyrec :=
  match filter (fun en => e_sid (i_ev en) =? sid) idx with
  | [] => None
  | x :: r =>
      let vs := map (fun en => e_ver (i_ev en)) (x :: r) in
      Some (mkKey (e_pk (i_ev x)) (fold_min vs (e_ver (i_ev x))) (fold_max vs (e_ver (i_ev x)))
                  (map i_off (x :: r)))
  end.

Definition pidx_get (idx : list ientry) (pid : N) : option keyrec :=
  match filter (fun en => e_pid (i_ev en) =? pid) idx with
  | [] => None
  | x :: r =>
      let vs := map (fun en => e_seq (i_ev en)) (x :: r) in
      Some (mkKey (e_pk (i_ev x)) (fold_min vs (e_seq (i_ev x))) (fold_max vs (e_seq (i_ev x)))
                  (map i_off (x :: r)))
  end.

(* first hit, newest segment first *)
Fixpoint newest_first {A} (f : seg -> option A) (segs_rev : list seg) : option A :=
  match segs_rev with
  | [] => None
  | s :: r => match f s with Some a => Some a | None => newest_first f r end
  end.

(** ** the writer's view of a stream / partition (validate_event_versions' lookup chain:
       pending newest first, then the live index, then closed indexes newest first) *)
Definition pending_stream (p : list ientry) (sid : N) : option (N * N) :=
  match filter (fun en => e_sid (i_ev en) =? sid) p with
  | [] => None
  | x :: r => let l := last r x in Some (e_pk (i_ev l), e_ver (i_ev l))
  end.

Definition indexed_stream (s : store) (sid : N) : option (N * N) :=
  match sidx_get (s_idx (live s)) sid with
  | Some k => Some (k_pk k, k_max k)
  | None => newest_first (fun g => match sidx_get (s_idx g) sid with
                                   | Some k => Some (k_pk k, k_max k) | None => None end)
                         (rev (sealed s))
  end.

Definition writer_stream (s : store) (sid : N) : option (N * N) :=
  match pending_stream (pending s) sid with
  | Some r => Some r
  | None => indexed_stream s sid
  end.

Definition indexed_partition (s : store) (pid : N) : option N :=
  match pidx_get (s_idx (live s)) pid with
  | Some k => Some (k_max k)
  | None => newest_first (fun g => match pidx_get (s_idx g) pid with
                                   | Some k => Some (k_max k) | None => None end)
                         (rev (sealed s))
  end.

Fixpoint assoc (l : list (N * N)) (k : N) : option N :=
  match l with [] => None | (a, b) :: r => if a =? k then Some b else assoc r k end.
Definition assoc_set (l : list (N * N)) (k v : N) : list (N * N) :=
  (k, v) :: filter (fun ab => negb (fst ab =? k)) l.

Definition writer_next_seq (s : store) (pid : N) : N :=
  match assoc (nextseq s) pid with
  | Some n => n
  | None => match indexed_partition s pid with Some m => m + 1 | None => 0 end
  end.

(** ** validation (validate_event_versions): [intx] is the in-transaction map
       stream -> current version after the earlier events of this transaction.
       Result: for each event the stream's current version before it (None = Empty). *)
Fixpoint validate (s : store) (pk : N) (intx : list (N * N)) (news : list new_event)
  : list (option N) + reject :=
  match news with
  | [] => inl []
  | n :: rest =>
      let continue (cur : option N) (after : N) :=
        match validate s pk (assoc_set intx (n_sid n) after) rest with
        | inl l => inl (cur :: l)
        | inr r => inr r
        end in
      match assoc intx (n_sid n) with
      | Some c =>
          match n_expect n with
          | XAny | XExists => continue (Some c) (c + 1)
          | XEmpty => inr (WrongVersion (n_sid n) (Some c) XEmpty)
          | XExact v => if c =? v then continue (Some c) (c + 1)
                        else inr (WrongVersion (n_sid n) (Some c) (XExact v))
          end
      | None =>
          match writer_stream s (n_sid n) with
          | Some (epk, v) =>
              if negb (epk =? pk) then inr (KeyMismatch epk pk)
              else match n_expect n with
                   | XAny | XExists => continue (Some v) (v + 1)
                   | XEmpty => inr (WrongVersion (n_sid n) (Some v) XEmpty)
                   | XExact x => if v =? x then continue (Some v) (v + 1)
                                 else inr (WrongVersion (n_sid n) (Some v) (XExact x))
                   end
          | None =>
              match n_expect n with
              | XAny | XEmpty => continue None 0
              | XExists => inr (WrongVersion (n_sid n) None XExists)
              | XExact x => inr (WrongVersion (n_sid n) None (XExact x))
              end
          end
      end
  end.

Definition next_version (cur : option N) : N := match cur with Some v => v + 1 | None => 0 end.

(** validate_partition_sequence *)
Definition check_xseq (x : expect) (next : N) : bool :=
  match x with
  | XAny => true
  | XExists => negb (next =? 0)
  | XEmpty => next =? 0
  | XExact v => negb (next =? 0) && (next - 1 =? v)
  end.

(** ** operations *)
Definition publish (s : store) : store :=     (* WriterSet::sync: fsync, pending entries -> live index *)
  mkStore (sealed s) (mkSeg (s_recs (live s)) (s_idx (live s) ++ pending s)) [] (nextseq s)
          (length (s_recs (live s))) (length (s_recs (live s))).

Definition rollover (s : store) : store :=    (* WriterSet::rollover *)
  let s1 := publish s in
  mkStore (sealed s1 ++ [live s1]) empty_seg [] (nextseq s1) 0 0.

(* the events of a transaction as written, given the validated current versions *)
Fixpoint build_events (t : txn) (seq : N) (news : list new_event) (curs : list (option N)) : list event :=
  match news, curs with
  | n :: nr, c :: cr =>
      mkEvent (n_id n) (t_pk t) (t_pid t) (t_tx t) (t_flag t) seq (n_sid n) (next_version c)
      :: build_events t (seq + 1) nr cr
  | _, _ => []
  end.

Fixpoint entries_from (evs : list event) (off : nat) : list ientry :=
  match evs with [] => [] | e :: r => mkEntry e off :: entries_from r (S off) end.

Definition last_seq (first : N) (n : nat) : N := first + N.of_nat n - 1.

(** Worker::handle_append_events. [roll] = the size-based rollover decision (oracle).
    A failed write (bad timestamp on some event) is truncated away by set_len and leaves
    the store unchanged apart from a rollover that already happened and from the flushed
    offset: set_len syncs the file first, so everything written before this transaction
    becomes readable (its index entries stay pending). *)
Fixpoint first_bad (news : list new_event) : nat :=
  match news with [] => 0%nat | n :: r => if n_ts_ok n then S (first_bad r) else 0%nat end.
Definition append (s : store) (t : txn) (roll big : bool) : store * (list event + reject) :=
  match validate s (t_pk t) [] (t_events t) with
  | inr r => (s, inr r)
  | inl curs =>
      if big then (s, inr TooBig) else      (* EventsExceedSegmentSize, decided from sizes (oracle) *)
      let s := if roll then rollover s else s in
      let next := writer_next_seq s (t_pid t) in
      if negb (check_xseq (t_xseq t) next)
      then (s, inr (WrongSequence (t_pid t) (if next =? 0 then None else Some (next - 1)) (t_xseq t)))
      else if negb (forallb n_ts_ok (t_events t))
      then (mkStore (sealed s) (live s) (pending s) (nextseq s)
                    (if Nat.eqb (first_bad (t_events t)) 0 then synced s else length (s_recs (live s)))
                    (published s), inr BadTimestamp)
      else
        let evs := build_events t next (t_events t) curs in
        let off := length (s_recs (live s)) in
        let recs := map REvent evs ++
                    (if t_flag t then [] else [RCommit (t_tx t) (N.of_nat (length evs))]) in
        (mkStore (sealed s)
                 (mkSeg (s_recs (live s) ++ recs) (s_idx (live s)))
                 (pending s ++ entries_from evs off)
                 (assoc_set (nextseq s) (t_pid t) (next + N.of_nat (length evs)))
                 (synced s) (published s),
         inl evs)
  end.

(** ** reopening (Worker::new): the live segment's tail that does not end in a complete
       committed group is discarded, then every event record is indexed.
       [complete_prefix recs] = number of leading records that form whole groups. *)
Fixpoint cp_loop (recs : list rec) (off : nat) (good : nat) (open_tx : option (N * nat)) : nat :=
  match recs with
  | [] => good
  | REvent e :: rest =>
      if e_flag e then cp_loop rest (S off) (S off) None   (* a flagged event is complete by itself *)
      else match open_tx with
           | Some (tx, n) => if e_tx e =? tx then cp_loop rest (S off) good (Some (tx, S n))
                             else cp_loop rest (S off) good (Some (e_tx e, 1%nat))
           | None => cp_loop rest (S off) good (Some (e_tx e, 1%nat))
           end
  | RCommit tx count :: rest =>
      match open_tx with
      | Some (otx, n) => if (tx =? otx) then cp_loop rest (S off) (S off) None
                         else cp_loop rest (S off) good None
      | None => cp_loop rest (S off) good None
      end
  end.
Definition complete_prefix (recs : list rec) : nat := cp_loop recs 0 0 None.

Fixpoint hydrate_from (recs : list rec) (off : nat) : list ientry :=
  match recs with
  | [] => []
  | REvent e :: r => mkEntry e off :: hydrate_from r (S off)
  | RCommit _ _ :: r => hydrate_from r (S off)
  end.

Definition reopen (s : store) : store :=
  let recs := firstn (complete_prefix (s_recs (live s))) (s_recs (live s)) in
  mkStore (sealed s) (mkSeg recs (hydrate_from recs 0)) [] [] (length recs) (length recs).

(** a crash: only the first [keep] records of the live segment survive (keep is never below
    what an acknowledged append wrote; that is a hypothesis of the theorems, not of the model) *)
Definition crash (s : store) (keep : nat) : store :=
  reopen (mkStore (sealed s) (mkSeg (firstn keep (s_recs (live s))) (s_idx (live s))) (pending s) (nextseq s)
                  (synced s) (published s)).

(** ** reads (database.rs) *)
Definition read_transaction (s : store) (id : N) : option committed :=
  match eidx_get (s_idx (live s)) id with
  | Some off => fst (read_committed (firstn (synced s) (s_recs (live s))) off)
  | None =>
      match newest_first (fun g => match eidx_get (s_idx g) id with
                                   | Some off => Some (fst (read_committed (s_recs g) off))
                                   | None => None end) (rev (sealed s)) with
      | Some r => r
      | None => None
      end
  end.

Definition read_event (s : store) (id : N) : option event :=
  match read_transaction s id with
  | Some c => hd_error (committed_events c)
  | None => None
  end.

Definition get_stream_version (s : store) (sid : N) : option (N * N) := indexed_stream s sid.
Definition get_partition_sequence (s : store) (pid : N) : option N := indexed_partition s pid.

(** ** abstraction: what the store holds *)
(* committed groups of a record list, in order *)
Fixpoint groups_loop (recs : list rec) (cur : list event) (ptx : option N) : list (list event) :=
  match recs with
  | [] => []
  | REvent e :: rest =>
      if e_flag e then
        match cur with
        | [] => [e] :: groups_loop rest [] None
        | _ => groups_loop rest (cur ++ [e]) ptx
        end
      else if match ptx with Some p => e_tx e =? p | None => false end
      then groups_loop rest (cur ++ [e]) ptx
      else groups_loop rest [e] (Some (e_tx e))
  | RCommit tx _ :: rest =>
      if match ptx with Some p => tx =? p | None => false end && negb (match cur with [] => true | _ => false end)
      then cur :: groups_loop rest [] None
      else groups_loop rest [] None
  end.
Definition groups (recs : list rec) : list (list event) := groups_loop recs [] None.

(* everything written (what the writer validates against) *)
Definition abs_all (s : store) : alog := concat (map (fun g => groups (s_recs g)) (sealed s)) ++ groups (s_recs (live s)).

(* what readers can see: sealed segments and the published part of the live segment *)
Definition abs_visible (s : store) : alog :=
  concat (map (fun g => groups (s_recs g)) (sealed s)) ++ groups (firstn (published s) (s_recs (live s))).

(** ** operation lists *)
Inductive op :=
  | OAppend (t : txn) (roll big : bool)
  | OSync
  | OReopen
  | OCrash (keep : nat).

Definition step (s : store) (o : op) : store :=
  match o with
  | OAppend t roll big => fst (append s t roll big)
  | OSync => publish s
  | OReopen => reopen (publish s)          (* clean shutdown syncs first (handle_shutdown) *)
  | OCrash keep => crash s keep
  end.
Definition run (ops : list op) : store := fold_left step ops store_init.
