(** Model of the replica side of replication (C12):
      crates/sierradb-cluster/src/write/ordered_queue.rs          OrderedQueue::{insert,pop,progress_to}
      crates/sierradb-cluster/src/write/timeout_ordered_queue.rs  TimeoutOrderedQueue (the catch-up timer)
      crates/sierradb-cluster/src/write/replicate.rs              PartitionReplicatorActor:
          buffer_write, pop_next_buffered_write, write_buffered, write_transaction,
          detect_and_handle_gaps, the ReplicateWrite and PartitionSyncResponse handlers.
    Definitions only (no proofs) so the model keeps running when a proof breaks.

    This is the code AFTER the two `fix:` commits of C12:
      - `progress_to` removes and returns the entries whose key is below the new `next`
        (the caller answers them StaleWrite); [rq_progress_orig] is the original.
      - `insert` looks at an occupied slot (merge / conflict) BEFORE it decides to evict;
        [rq_insert_orig] is the original (evict first).

    What is abstracted:
      - a value (BufferedWrite) is [rentry]: transaction id, the sequence its transaction expects
        (ExpectedVersion -> into_next_version, i.e. the key it is buffered under), number of events
        beyond the first, whether the database's OTHER checks (stream versions, ...) accept it
        (an oracle input: the theorems hold for every value), and the reply senders
        (reply id, received_at) in order.
      - time is an explicit [now] carried by every operation (milliseconds; Instant arithmetic saturates,
        as N subtraction does).
      - the database is (log, next sequence): an append with expected sequence [Some k] is accepted
        iff k = next sequence and the oracle bit is set; with [None] (ExpectedVersion::Any) iff the
        oracle bit is set. Both paths pass [Some]: a ReplicateWrite carries the coordinator's expectation,
        a catch-up commit the sequence it has on the node it was copied from (commit 28b51ee).
      - a dropped reply sender (expired / dropped write) is the answer [OExpired]. *)
From Coq Require Import NArith List Bool.
Import ListNotations.
Open Scope N_scope.

(* ------------------------------------------------------------------ values *)
Record rentry := mk_rentry {
  e_tx : N;                       (* transaction id (key_eq compares it) *)
  e_seq : N;                      (* expected_partition_sequence.into_next_version() *)
  e_more : N;                     (* events beyond the first: the append covers e_seq .. e_seq+e_more *)
  e_ok : bool;                    (* oracle: the database accepts it if the sequence matches *)
  e_replies : list (N * N)        (* (reply id, received_at) *)
}.

Definition e_with_replies (e : rentry) (r : list (N * N)) : rentry :=
  mk_rentry (e_tx e) (e_seq e) (e_more e) (e_ok e) r.
(* OrderedValue::merge for BufferedWrite: keep the buffered transaction, append the reply senders *)
Definition e_merge (ex v : rentry) : rentry := e_with_replies ex (e_replies ex ++ e_replies v).
Definition e_key_eq (a b : rentry) : bool := e_tx a =? e_tx b.
(* TimedOrderedValue::received_at: reply_senders.first().unwrap().received_at *)
Definition e_recv (e : rentry) : N := match e_replies e with (_, t) :: _ => t | [] => 0 end.

(* ------------------------------------------------------------------ BTreeMap<u64, V> as an ordered association list *)
Definition rmap := list (N * rentry).

Fixpoint m_find (k : N) (m : rmap) : option rentry :=
  match m with
  | [] => None
  | (k', v) :: t => if k =? k' then Some v else m_find k t
  end.
Fixpoint m_remove (k : N) (m : rmap) : rmap :=
  match m with
  | [] => []
  | (k', v) :: t => if k =? k' then t else (k', v) :: m_remove k t
  end.
Fixpoint m_set (k : N) (v : rentry) (m : rmap) : rmap :=
  match m with
  | [] => []
  | (k', v') :: t => if k =? k' then (k, v) :: t else (k', v') :: m_set k v t
  end.
(* insert a key that is not present, keeping the list ordered *)
Fixpoint m_put (k : N) (v : rentry) (m : rmap) : rmap :=
  match m with
  | [] => [(k, v)]
  | (k', v') :: t => if k <? k' then (k, v) :: m else (k', v') :: m_put k v t
  end.
Fixpoint m_last (m : rmap) : option (N * rentry) :=
  match m with
  | [] => None
  | [p] => Some p
  | _ :: t => m_last t
  end.
Definition m_below (n : N) (m : rmap) : rmap := filter (fun p => fst p <? n) m.
Definition m_from (n : N) (m : rmap) : rmap := filter (fun p => negb (fst p <? n)) m.

(* ------------------------------------------------------------------ OrderedQueue *)
Record oqueue := mk_oq { q_map : rmap; q_next : N; q_limit : N }.

Definition rq_new (next limit : N) : oqueue := mk_oq [] next limit.
Definition q_with_map (q : oqueue) (m : rmap) : oqueue := mk_oq m (q_next q) (q_limit q).

Inductive ins_result :=
| InsReady (v : rentry) (merged : bool)                 (* Ok { next: Some v, merged, evicted: None } *)
| InsBuffered (merged : bool) (ev : option (N * rentry)) (* Ok { next: None, merged, evicted } *)
| InsConflict (v : rentry)
| InsFull (k : N) (v : rentry)
| InsStale (k : N) (v : rentry).

Definition rq_full (q : oqueue) : bool := q_limit q <=? N.of_nat (length (q_map q)).

(* ordered_queue.rs insert, repaired: occupied slot first, eviction only for a new key *)
Definition rq_insert (q : oqueue) (k : N) (v : rentry) : oqueue * ins_result :=
  if k =? q_next q then
    match m_find k (q_map q) with
    | None => (q, InsReady v false)
    | Some ex =>
        if e_key_eq v ex then (q_with_map q (m_remove k (q_map q)), InsReady (e_merge ex v) true)
        else (q, InsConflict v)
    end
  else if k <? q_next q then (q, InsStale k v)
  else
    match m_find k (q_map q) with
    | Some ex =>
        if e_key_eq v ex then (q_with_map q (m_set k (e_merge ex v) (q_map q)), InsBuffered true None)
        else (q, InsConflict v)
    | None =>
        if rq_full q then
          match m_last (q_map q) with
          | Some (lk, lv) =>
              if k <? lk then (q_with_map q (m_put k v (removelast (q_map q))), InsBuffered false (Some (lk, lv)))
              else (q, InsFull k v)
          | None => (q, InsFull k v)   (* limit = 0: excluded by the assert in OrderedQueue::new *)
          end
        else (q_with_map q (m_put k v (q_map q)), InsBuffered false None)
    end.

(* the ORIGINAL insert: the eviction is decided before the slot is looked at, and an evicted entry is
   lost when the insert then ends in Conflict *)
Definition rq_insert_orig (q : oqueue) (k : N) (v : rentry) : oqueue * ins_result :=
  if k =? q_next q then
    match m_find k (q_map q) with
    | None => (q, InsReady v false)
    | Some ex =>
        if e_key_eq v ex then (q_with_map q (m_remove k (q_map q)), InsReady (e_merge ex v) true)
        else (q, InsConflict v)
    end
  else if k <? q_next q then (q, InsStale k v)
  else
    let full := rq_full q in
    match (if full then m_last (q_map q) else None) with
    | Some (lk, lv) =>
        if k <? lk then
          let m1 := removelast (q_map q) in
          match m_find k m1 with
          | Some ex => if e_key_eq v ex then (q_with_map q (m_set k (e_merge ex v) m1), InsBuffered true (Some (lk, lv)))
                       else (q_with_map q m1, InsConflict v)          (* (lk, lv) is dropped *)
          | None => (q_with_map q (m_put k v m1), InsBuffered false (Some (lk, lv)))
          end
        else (q, InsFull k v)
    | None =>
        if full then (q, InsFull k v) else
        match m_find k (q_map q) with
        | Some ex => if e_key_eq v ex then (q_with_map q (m_set k (e_merge ex v) (q_map q)), InsBuffered true None)
                     else (q, InsConflict v)
        | None => (q_with_map q (m_put k v (q_map q)), InsBuffered false None)
        end
    end.

Definition rq_pop (q : oqueue) : oqueue * option rentry :=
  match m_find (q_next q) (q_map q) with
  | Some v => (q_with_map q (m_remove (q_next q) (q_map q)), Some v)
  | None => (q, None)
  end.

(* repaired progress_to: split_off(&next); the entries below are handed back *)
Definition rq_progress (q : oqueue) (n : N) : oqueue * rmap :=
  (mk_oq (m_from n (q_map q)) n (q_limit q), m_below n (q_map q)).
(* the ORIGINAL progress_to: self.next = next *)
Definition rq_progress_orig (q : oqueue) (n : N) : oqueue := mk_oq (q_map q) n (q_limit q).

(* ------------------------------------------------------------------ TimeoutOrderedQueue *)
Record tqueue := mk_tq {
  tq_q : oqueue;
  tq_timeout : N;                      (* timeout_duration (the replicator passes catchup_timeout) *)
  tq_timer : option (N * N)            (* (current_timeout_key, deadline of current_timeout) *)
}.
Definition rtq_new (next limit timeout : N) : tqueue := mk_tq (rq_new next limit) timeout None.
Definition tq_with_q (t : tqueue) (q : oqueue) : tqueue := mk_tq q (tq_timeout t) (tq_timer t).

Definition rtq_update (now : N) (t : tqueue) : tqueue :=
  match q_map (tq_q t) with
  | (k, v) :: _ => mk_tq (tq_q t) (tq_timeout t) (Some (k, N.max (e_recv v + tq_timeout t) now))
  | [] => mk_tq (tq_q t) (tq_timeout t) None
  end.

Definition rtq_insert (now : N) (t : tqueue) (k : N) (v : rentry) : tqueue * ins_result :=
  let '(q', r) := rq_insert (tq_q t) k v in
  let upd := match r with
             | InsReady _ _ => true
             | InsBuffered merged _ =>
                 merged || match tq_timer t with None => true | Some (ck, _) => k <? ck end
             | _ => false
             end in
  let t' := tq_with_q t q' in
  ((if upd then rtq_update now t' else t'), r).

Definition rtq_pop (now : N) (t : tqueue) : tqueue * option rentry :=
  let '(q', r) := rq_pop (tq_q t) in
  let t' := tq_with_q t q' in
  (match r with Some _ => rtq_update now t' | None => t' end, r).

Definition rtq_progress (now : N) (t : tqueue) (n : N) : tqueue * rmap :=
  let '(q', st) := rq_progress (tq_q t) n in
  (rtq_update now (tq_with_q t q'), st).

(* handle_timeout: extract_if(now - received_at >= timeout) *)
Definition e_timed_out (now timeout : N) (p : N * rentry) : bool := timeout <=? now - e_recv (snd p).
Definition rtq_handle_timeout (now : N) (t : tqueue) : tqueue * rmap :=
  let m := q_map (tq_q t) in
  let expired := filter (e_timed_out now (tq_timeout t)) m in
  let rest := filter (fun p => negb (e_timed_out now (tq_timeout t) p)) m in
  (rtq_update now (tq_with_q t (q_with_map (tq_q t) rest)), expired).

(* ------------------------------------------------------------------ the replicator *)
Inductive rerr := EConflict | EFull | EStale | EEvicted | EDb | EWrongSeq.
Inductive routcome := OApplied (pos : N) | OErr (e : rerr) | OExpired.
Inductive revent :=
| EvAns (rid : N) (o : routcome)        (* a reply sender is used (or dropped: OExpired) *)
| EvCatchUp (from to : N)               (* trigger_catch_up(from_seq, to_seq) *)
| EvGapPanic.                           (* u64 underflow in detect_and_handle_gaps (debug build panics) *)

Record logent := mk_logent { l_pos : N; l_tx : N; l_cnt : N; l_assigned : option N }.

Record rstate := mk_rs {
  r_tq : tqueue;
  r_log : list logent;                  (* what this replicator appended, in order *)
  r_dbnext : N;                         (* the database's next partition sequence *)
  r_catching : bool;
  r_buftimeout : N                      (* buffer_timeout *)
}.
Definition rs_with_tq (s : rstate) (t : tqueue) : rstate :=
  mk_rs t (r_log s) (r_dbnext s) (r_catching s) (r_buftimeout s).
Definition rs_with_catching (s : rstate) (b : bool) : rstate :=
  mk_rs (r_tq s) (r_log s) (r_dbnext s) b (r_buftimeout s).
Definition r_map (s : rstate) : rmap := q_map (tq_q (r_tq s)).
Definition r_next (s : rstate) : N := q_next (tq_q (r_tq s)).

(* on_start: next = the database's next sequence *)
Definition r_init (n0 limit buftimeout catchuptimeout : N) : rstate :=
  mk_rs (rtq_new n0 limit catchuptimeout) [] n0 false buftimeout.

Definition ans_all (o : routcome) (rs : list (N * N)) : list revent := map (fun r => EvAns (fst r) o) rs.

(* BufferedWrite::garbage_collect: retain(|r| r.received_at.elapsed() <= buffer_timeout) *)
Definition r_alive (now T : N) (r : N * N) : bool := now - snd r <=? T.
Definition gc_alive (now T : N) (e : rentry) : list (N * N) := filter (r_alive now T) (e_replies e).
Definition gc_dead (now T : N) (e : rentry) : list (N * N) := filter (fun r => negb (r_alive now T r)) (e_replies e).

Inductive wres := WOk (pos : N) | WErr (e : rerr).
Definition wres_outcome (r : wres) : routcome := match r with WOk p => OApplied p | WErr e => OErr e end.

Definition db_check (dbnext : N) (expected : option N) (ok : bool) : option rerr :=
  match expected with
  | Some k => if k =? dbnext then (if ok then None else Some EDb) else Some EWrongSeq
  | None => if ok then None else Some EDb
  end.

Definition stale_events (st : rmap) : list revent :=
  flat_map (fun p => ans_all (OErr EStale) (e_replies (snd p))) st.

(* write_transaction *)
Definition r_write_tx (now : N) (s : rstate) (tx more : N) (ok : bool) (expected : option N)
  : rstate * wres * list revent :=
  match db_check (r_dbnext s) expected ok with
  | Some e => (s, WErr e, [])
  | None =>
      let pos := r_dbnext s in
      let nxt := pos + more + 1 in
      let '(t', st) := rtq_progress now (r_tq s) nxt in
      (mk_rs t' (r_log s ++ [mk_logent pos tx (more + 1) expected]) nxt (r_catching s) (r_buftimeout s),
       WOk pos, stale_events st)
  end.

(* write_buffered *)
Definition r_write_buffered (now : N) (s : rstate) (w : rentry) : rstate * wres * list revent :=
  let '(s', r, evs) := r_write_tx now s (e_tx w) (e_more w) (e_ok w) (Some (e_seq w)) in
  (s', r, evs ++ ans_all (wres_outcome r) (e_replies w)).

(* pop_next_buffered_write: the second turn of its loop always finds the slot empty *)
Definition r_pop_next (now : N) (s : rstate) : rstate * option rentry * list revent :=
  let '(t', r) := rtq_pop now (r_tq s) in
  let s' := rs_with_tq s t' in
  match r with
  | None => (s', None, [])
  | Some w =>
      let dead := ans_all OExpired (gc_dead now (r_buftimeout s) w) in
      match gc_alive now (r_buftimeout s) w with
      | [] => (s', None, dead)
      | al => (s', Some (e_with_replies w al), dead)
      end
  end.

(* `while let Some(write) = next_write { match write_buffered(write) { Ok => next = pop_next(), Err => break } }` *)
Fixpoint r_drain (fuel : nat) (now : N) (s : rstate) (w : option rentry) : rstate * list revent :=
  match w with
  | None => (s, [])
  | Some w =>
      match fuel with
      | O => (s, [])                     (* never reached with the fuel used below (C12_answered would fail) *)
      | S f =>
          let '(s1, r, evs) := r_write_buffered now s w in
          match r with
          | WErr _ => (s1, evs)
          | WOk _ =>
              let '(s2, w2, evs2) := r_pop_next now s1 in
              let '(s3, evs3) := r_drain f now s2 w2 in
              (s3, evs ++ evs2 ++ evs3)
          end
      end
  end.
Definition r_fuel (s : rstate) : nat := S (length (r_map s)).

Definition first_reply_err (v : rentry) (e : rerr) : list revent :=
  match e_replies v with
  | [] => []
  | r :: rest => EvAns (fst r) (OErr e) :: ans_all OExpired rest
  end.

(* Message<ReplicateWrite> for PartitionReplicatorActor (buffer_write + the loop) *)
Definition r_deliver (now : N) (s : rstate) (rid key tx more : N) (ok : bool) : rstate * list revent :=
  let v := mk_rentry tx key more ok [(rid, now)] in
  let '(t1, res) := rtq_insert now (r_tq s) key v in
  let s1 := rs_with_tq s t1 in
  let T := r_buftimeout s in
  match res with
  | InsConflict v' => (s1, first_reply_err v' EConflict)
  | InsFull _ v' => (s1, first_reply_err v' EFull)
  | InsStale _ v' => (s1, first_reply_err v' EStale)
  | InsBuffered _ ev =>
      let evs0 := match ev with
                  | Some (_, w) => ans_all (OErr EEvicted) (gc_alive now T w) ++ ans_all OExpired (gc_dead now T w)
                  | None => []
                  end in
      let '(s2, w2, evs2) := r_pop_next now s1 in
      let '(s3, evs3) := r_drain (r_fuel s2) now s2 w2 in
      (s3, evs0 ++ evs2 ++ evs3)
  | InsReady w _ =>
      let dead := ans_all OExpired (gc_dead now T w) in
      match gc_alive now T w with
      | [] =>
          let '(s2, w2, evs2) := r_pop_next now s1 in
          let '(s3, evs3) := r_drain (r_fuel s2) now s2 w2 in
          (s3, dead ++ evs2 ++ evs3)
      | al =>
          let '(s3, evs3) := r_drain (r_fuel s1) now s1 (Some (e_with_replies w al)) in
          (s3, dead ++ evs3)
      end
  end.

(* the expiry loop at the head of detect_and_handle_gaps *)
Fixpoint r_expire_front (now T : N) (m : rmap) : rmap * bool * list revent :=
  match m with
  | [] => ([], false, [])
  | (k, e) :: t =>
      let dead := ans_all OExpired (gc_dead now T e) in
      match gc_alive now T e with
      | [] => let '(m', _, evs) := r_expire_front now T t in (m', true, dead ++ evs)
      | al => ((k, e_with_replies e al) :: t, false, dead)
      end
  end.

(* detect_and_handle_gaps; [permitted] = breaker.is_call_permitted() *)
Definition r_tick (now : N) (s : rstate) (permitted : bool) : rstate * list revent :=
  let t := r_tq s in
  let '(m', deleted, evs) := r_expire_front now (r_buftimeout s) (q_map (tq_q t)) in
  let t1 := tq_with_q t (q_with_map (tq_q t) m') in
  let t2 := if deleted then rtq_update now t1 else t1 in
  let s1 := rs_with_tq s t2 in
  if negb permitted then (s1, evs) else
  match m' with
  | [] => (s1, evs)
  | (oldest, _) :: _ =>
      let from := q_next (tq_q t) in
      if (oldest =? 0) || (oldest <? from) then (s1, evs ++ [EvGapPanic])
      else if (0 <? oldest - from) && negb (r_catching s)
           then (rs_with_catching s1 true, evs ++ [EvCatchUp from (oldest - 1)])
           else (s1, evs)
  end.

(* one commit of a PartitionSyncResponse: rebuilt with Transaction::new and
   expected_partition_sequence(from_next_version(first.partition_sequence)) *)
Record rcommit := mk_commit { c_tx : N; c_seq : N; c_more : N; c_ok : bool }.

Fixpoint r_apply_commits (now : N) (s : rstate) (cs : list rcommit) : rstate * bool * list revent :=
  match cs with
  | [] => (s, true, [])
  | c :: t =>
      let '(s1, r, evs) := r_write_tx now s (c_tx c) (c_more c) (c_ok c) (Some (c_seq c)) in
      match r with
      | WErr _ => (s1, false, evs)
      | WOk _ => let '(s2, b, evs2) := r_apply_commits now s1 t in (s2, b, evs ++ evs2)
      end
  end.

Definition rs_update_timer (now : N) (s : rstate) : rstate := rs_with_tq s (rtq_update now (r_tq s)).

(* Message<PartitionSyncResponse>; [None] = the request failed *)
Definition r_sync (now : N) (s : rstate) (res : option (list rcommit)) : rstate * list revent :=
  let s0 := rs_with_catching s false in
  match res with
  | None => (rs_update_timer now s0, [])
  | Some cs =>
      let '(s1, allok, evs) := r_apply_commits now s0 cs in
      if allok then
        let '(s2, w2, evs2) := r_pop_next now s1 in
        let '(s3, evs3) := r_drain (r_fuel s2) now s2 w2 in
        (rs_update_timer now s3, evs ++ evs2 ++ evs3)
      else (rs_update_timer now s1, evs)
  end.

Inductive rop :=
| OpDeliver (now rid key tx more : N) (ok : bool)
| OpTick (now : N) (permitted : bool)
| OpSync (now : N) (res : option (list rcommit)).

Definition r_step (s : rstate) (o : rop) : rstate * list revent :=
  match o with
  | OpDeliver now rid key tx more ok => r_deliver now s rid key tx more ok
  | OpTick now permitted => r_tick now s permitted
  | OpSync now res => r_sync now s res
  end.

Fixpoint r_run (s : rstate) (ops : list rop) : rstate * list revent :=
  match ops with
  | [] => (s, [])
  | o :: t => let '(s1, evs) := r_step s o in let '(s2, evs2) := r_run s1 t in (s2, evs ++ evs2)
  end.

(* ------------------------------------------------------------------ what the theorems talk about *)
Definition e_rids (e : rentry) : list N := map fst (e_replies e).
Definition m_rids (m : rmap) : list N := flat_map (fun p => e_rids (snd p)) m.
Fixpoint ev_rids (evs : list revent) : list N :=
  match evs with
  | [] => []
  | EvAns r _ :: t => r :: ev_rids t
  | _ :: t => ev_rids t
  end.
Definition op_rids (o : rop) : list N := match o with OpDeliver _ rid _ _ _ _ => [rid] | _ => [] end.
Definition ops_rids (ops : list rop) : list N := flat_map op_rids ops.

Definition op_delivery (o : rop) : list (N * N) :=
  match o with OpDeliver _ rid key _ _ _ => [(rid, key)] | _ => [] end.
Definition ops_deliveries (ops : list rop) : list (N * N) := flat_map op_delivery ops.

(* nothing applicable is waiting: no buffered entry sits at the next expected sequence *)
Definition r_drained (s : rstate) : Prop := m_find (r_next s) (r_map s) = None.
(* the queue took the write (applied it or buffered it) rather than rejecting it *)
Definition ins_accepted (r : ins_result) : bool :=
  match r with InsReady _ _ | InsBuffered _ _ => true | _ => false end.
(* the step is not a catch-up answer that the database aborts half way (an honest coordinator's answer is
   applied completely: its commits continue the replica's log) *)
Definition step_clean (s : rstate) (o : rop) : Prop :=
  match o with
  | OpSync now (Some cs) => snd (fst (r_apply_commits now (rs_with_catching s false) cs)) = true
  | _ => True
  end.
Fixpoint run_clean (s : rstate) (ops : list rop) : Prop :=
  match ops with
  | [] => True
  | o :: t => step_clean s o /\ run_clean (fst (r_step s o)) t
  end.
(* the log is a gap-free run of appends from [start] to [fin] *)
Fixpoint log_contig (start : N) (log : list logent) (fin : N) : Prop :=
  match log with
  | [] => fin = start
  | le :: t => l_pos le = start /\ 1 <= l_cnt le /\ log_contig (start + l_cnt le) t fin
  end.
Definition r_run0 (n0 limit T Tc : N) (ops : list rop) : rstate * list revent := r_run (r_init n0 limit T Tc) ops.
