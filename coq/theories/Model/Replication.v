(** Model of the distributed write protocol of one partition (C10, C11):
      crates/sierradb-cluster/src/write/transaction.rs   spawn / run / set_confirmations_with_retry (coordinator)
      crates/sierradb-cluster/src/write/execute.rs       resolve_write_destination / route_write_request
      crates/sierradb-cluster/src/write/replicate.rs     ReplicateWrite on ClusterActor (sender / staleness checks),
                                                         PartitionReplicatorActor (ordered buffer, write_transaction,
                                                         detect_and_handle_gaps), PartitionSyncRequest / Response
      crates/sierradb-cluster/src/write/confirm.rs       ConfirmTransaction
      crates/sierradb/src/writer_thread_pool.rs          validate_partition_sequence (expected sequence = next)
    Definitions only.  This is the code AFTER `fix:` 28b51ee (a catch-up commit is appended only at the
    sequence it has on the source); [c_cufix = false] is the original (ExpectedVersion::Any).

    Shape: per-node handlers ([n_replicate], [n_confirm], [n_sync_serve], [n_sync_resp], [n_tick], [n_client], ..)
    are total executable functions; they are what is extracted and compared with the real node.  The
    global transition system [g_step] only routes messages between these handlers.

    Where the code differs from docs/Distributed Write Protocol Specification.md (the model follows the code):
      - coordinator: the document elects "the oldest running node" and has replicas check the sender against it; the code
        lets any replica that finds itself first in ITS OWN list of available replicas coordinate, and a replica only
        checks that the sender is among its own available replicas of the partition and that the message's alive_since
        is not older than the one it recorded (InvalidSender / StaleWrite) - two coordinators can coexist;
      - a write ahead of the replica's next sequence is buffered (bounded, highest key evicted) and answered only when
        it is applied, evicted, overtaken (StaleWrite) or expired; the document answers SequenceGap at once and
        re-buffers failed writes with a retry count (the code answers the error and drops the write);
      - catch-up: requested from the coordinator of the OLDEST BUFFERED write for [next, oldest - 1], served only below
        the source's watermark (first sequence < watermark), a request that starts inside a transaction is answered
        with the tail of that transaction; the document asks the elected coordinator for "all available";
      - ConfirmTransaction carries transaction id, event ids, versions and a count; a single-event record is not checked
        against the versions; the document's ConfirmWrite carries a sequence only;
      - "writes either succeed on quorum or fail completely": nothing is rolled back - the coordinator's local append and
        the appends of the replicas that answered stay (unconfirmed) when the quorum fails or the coordinator dies, and
        there is no coordinator-failover state assessment (handle_coordinator_failure does not exist);
      - the coordinator's set_confirmations covers the event records only (append.offsets), the replicas' also the commit
        record: on the coordinator a multi-event transaction's commit record keeps the count it was appended with.

    What is abstracted (said once):
      - one partition; its replica set [c_reps] is the same on every node (static configuration: node count,
        partition count, replication factor; a node IS its configured index); what diverges between nodes is the
        VIEW of which replicas are available ([ns_view], set to anything by [AView]) and the alive_since values;
      - a transaction is (id, number of events); ids are fresh per client request (Uuid::new_v4 in Transaction::new);
        event ids are identified with (transaction id, index);
      - the log is a list of entries (tx, first sequence, number of events, offset of the first stored event inside
        the transaction, confirmation count): [en_off > 0] only for the tail of a transaction that a catch-up
        request starting inside it copied; counts are per entry (set_confirmations all-or-nothing);
      - the database's OTHER checks (stream versions, sizes, ..) are an oracle [orc catchup log tx];
      - time: timers are actions ([ATick], [ATimeout], [AExpire]); retries/backoff are not modelled;
      - the network is a set of sent messages, never removed: delivery in any order, any number of times, or never;
      - the watermark is a volatile number that [AWm] may set to anything not beyond the confirmed prefix of the
        disk (C08 relates the confirmation actor to that bound). *)
From Coq Require Import NArith List Bool.
Import ListNotations.
Open Scope N_scope.

Definition node := N.

(* ------------------------------------------------------------------ the disk: one partition's log, newest first *)
Record ent := mk_ent { en_tx : N; en_first : N; en_nev : N; en_off : N; en_cnt : N }.
Definition log := list ent.
Definition log_next (l : log) : N := match l with [] => 0 | e :: _ => en_first e + en_nev e end.

Definition quorum (rf : N) : N := rf / 2 + 1.
(* transaction.rs:219-223: the coordinator's append carries count 1 when one node is already a quorum *)
Definition cnt0 (rf : N) : N := if quorum rf <=? 1 then 1 else 0.

(* validate_partition_sequence for Any ([None]) and Empty / Exact(s-1) ([Some s]) *)
Definition exp_ok (ex : option N) (l : log) : bool :=
  match ex with None => true | Some s => s =? log_next l end.

Definition db_append (l : log) (ex : option N) (ok : bool) (T k off c : N) : option log :=
  if ok && (1 <=? k) && exp_ok ex l then Some (mk_ent T (log_next l) k off c :: l) else None.

Definition ent_setcnt (e : ent) (c : N) : ent := mk_ent (en_tx e) (en_first e) (en_nev e) (en_off e) c.
Definition ent_is (T : N) (e : ent) : bool := (en_tx e =? T) && (en_off e =? 0).
(* read_transaction(first event id): the event index answers with the newest record of that id *)
Definition db_find (l : log) (T : N) : option ent := find (ent_is T) l.
(* set_confirmations at the offsets of that record *)
Fixpoint db_setcnt (l : log) (T c : N) : log :=
  match l with
  | [] => []
  | e :: t => if ent_is T e then ent_setcnt e c :: t else e :: db_setcnt t T c
  end.

(* the ideal watermark: first sequence not covered by the confirmed prefix (what the confirmation actor computes
   from the disk at start) *)
Fixpoint wm_old (q : N) (l : list ent) (* oldest first *) : N :=
  match l with
  | [] => 0
  | e :: t => if q <=? en_cnt e then (match t with [] => en_first e + en_nev e | _ => wm_old q t end)
              else en_first e
  end.
Definition wm_ideal (q : N) (l : log) : N :=
  match l with [] => 0 | _ => wm_old q (rev l) end.

(* ------------------------------------------------------------------ messages *)
Inductive werr := WConflict | WFull | WStale | WEvicted | WWrongSeq | WDb | WMissing | WInvalid | WNotOwned
                | WInsufficient | WQuorumFailed | WConfirmFailed | WTimeout | WNotLeader.
Inductive ares := AOk (first : N) | AErr (e : werr).
Inductive cres := COk | CNotFound | CLenMis | CSeqMis | CIdMis | CWrite.
Inductive rexp := RxAny | RxAt (s : N).

Inductive msg :=
| MRep (c r : node) (alive rid T : N) (ex : rexp) (k cnt : N)   (* ReplicateWrite; rid identifies the ask *)
| MRepAns (r c : node) (rid T : N) (res : ares)                 (* its reply *)
| MConf (c r : node) (T s k cnt : N) (idsok : bool)             (* ConfirmTransaction: versions s+1 .. s+k *)
| MSyncReq (r c : node) (from to : N)
| MSyncResp (c r : node) (cs : option (list ent))               (* None: the request failed *)
| MClient (c : node) (T : N) (res : ares).                      (* reply to the client *)

(* ------------------------------------------------------------------ the replicator's ordered buffer *)
Record bwrite := mk_bw { bw_key : N; bw_tx : N; bw_nev : N; bw_cnt : N; bw_coord : node; bw_rids : list N }.
Record repl := mk_repl { rp_next : N; rp_limit : N; rp_buf : list bwrite (* ascending keys *); rp_catching : bool }.

Definition rp_with_buf (rp : repl) (b : list bwrite) : repl := mk_repl (rp_next rp) (rp_limit rp) b (rp_catching rp).
Definition rp_with_catching (rp : repl) (c : bool) : repl := mk_repl (rp_next rp) (rp_limit rp) (rp_buf rp) c.

Fixpoint b_find (k : N) (b : list bwrite) : option bwrite :=
  match b with [] => None | w :: t => if bw_key w =? k then Some w else b_find k t end.
Fixpoint b_remove (k : N) (b : list bwrite) : list bwrite :=
  match b with [] => [] | w :: t => if bw_key w =? k then t else w :: b_remove k t end.
Fixpoint b_put (w : bwrite) (b : list bwrite) : list bwrite :=
  match b with [] => [w] | w' :: t => if bw_key w <? bw_key w' then w :: b else w' :: b_put w t end.
Fixpoint b_set (w : bwrite) (b : list bwrite) : list bwrite :=
  match b with [] => [] | w' :: t => if bw_key w' =? bw_key w then w :: t else w' :: b_set w t end.
Definition bw_merge (ex v : bwrite) : bwrite :=
  mk_bw (bw_key ex) (bw_tx ex) (bw_nev ex) (bw_cnt ex) (bw_coord ex) (bw_rids ex ++ bw_rids v).

Inductive ins_res :=
| IReady (w : bwrite)
| IBuffered (evicted : option bwrite)
| IErr (e : werr).

(* OrderedQueue::insert (after C12's fixes: occupied slot first, eviction only for a new key) *)
Definition rp_insert (rp : repl) (w : bwrite) : repl * ins_res :=
  let k := bw_key w in
  if k =? rp_next rp then
    match b_find k (rp_buf rp) with
    | None => (rp, IReady w)
    | Some ex => if bw_tx w =? bw_tx ex then (rp_with_buf rp (b_remove k (rp_buf rp)), IReady (bw_merge ex w))
                 else (rp, IErr WConflict)
    end
  else if k <? rp_next rp then (rp, IErr WStale)
  else
    match b_find k (rp_buf rp) with
    | Some ex => if bw_tx w =? bw_tx ex then (rp_with_buf rp (b_set (bw_merge ex w) (rp_buf rp)), IBuffered None)
                 else (rp, IErr WConflict)
    | None =>
        if rp_limit rp <=? N.of_nat (length (rp_buf rp)) then
          match rev (rp_buf rp) with
          | lw :: _ => if k <? bw_key lw
                       then (rp_with_buf rp (b_put w (removelast (rp_buf rp))), IBuffered (Some lw))
                       else (rp, IErr WFull)
          | [] => (rp, IErr WFull)
          end
        else (rp_with_buf rp (b_put w (rp_buf rp)), IBuffered None)
    end.

Definition rp_pop (rp : repl) : repl * option bwrite :=
  match b_find (rp_next rp) (rp_buf rp) with
  | Some w => (rp_with_buf rp (b_remove (rp_next rp) (rp_buf rp)), Some w)
  | None => (rp, None)
  end.

(* progress_to (after C12's fix): next := n, entries below n are handed back *)
Definition rp_progress (rp : repl) (n : N) : repl * list bwrite :=
  (mk_repl n (rp_limit rp) (filter (fun w => negb (bw_key w <? n)) (rp_buf rp)) (rp_catching rp),
   filter (fun w => bw_key w <? n) (rp_buf rp)).

Definition ans_all (self : node) (w : bwrite) (res : ares) : list msg :=
  map (fun rid => MRepAns self (bw_coord w) rid (bw_tx w) res) (bw_rids w).

(* the database's other checks: [orc catchup log tx] *)
Definition oracle := bool -> log -> N -> bool.

(* write_transaction: append, then progress_to(last + 1) answering the overtaken writes StaleWrite *)
Definition rp_write (self : node) (orc : oracle) (cu : bool) (rp : repl) (l : log) (ex : option N) (T k off c : N)
  : repl * log * option werr * list msg :=
  match db_append l ex (orc cu l T) T k off c with
  | None => (rp, l, Some (if orc cu l T then WWrongSeq else WDb), [])
  | Some l' =>
      let '(rp', st) := rp_progress rp (log_next l') in
      (rp', l', None, flat_map (fun w => ans_all self w (AErr WStale)) st)
  end.

(* write_buffered *)
Definition rp_write_buffered (self : node) (orc : oracle) (rp : repl) (l : log) (w : bwrite)
  : repl * log * option werr * list msg :=
  let first := log_next l in
  let '(rp', l', err, outs) := rp_write self orc false rp l (Some (bw_key w)) (bw_tx w) (bw_nev w) 0 (bw_cnt w) in
  (rp', l', err, outs ++ ans_all self w (match err with None => AOk first | Some e => AErr e end)).

(* `while let Some(write) = next_write { match write_buffered(write) { Ok => next = pop(), Err => break } }` *)
Fixpoint rp_drain (fuel : nat) (self : node) (orc : oracle) (rp : repl) (l : log) (w : option bwrite)
  : repl * log * list msg :=
  match w with
  | None => (rp, l, [])
  | Some w =>
      match fuel with
      | O => (rp, l, [])
      | S f =>
          let '(rp1, l1, err, outs) := rp_write_buffered self orc rp l w in
          match err with
          | Some _ => (rp1, l1, outs)
          | None =>
              let '(rp2, w2) := rp_pop rp1 in
              let '(rp3, l3, outs3) := rp_drain f self orc rp2 l1 w2 in
              (rp3, l3, outs ++ outs3)
          end
      end
  end.
Definition rp_fuel (rp : repl) : nat := S (S (length (rp_buf rp))).

(* Message<ReplicateWrite> for PartitionReplicatorActor *)
Definition rp_deliver (self : node) (orc : oracle) (rp : repl) (l : log) (w : bwrite) : repl * log * list msg :=
  let '(rp1, res) := rp_insert rp w in
  match res with
  | IErr e => (rp1, l, ans_all self w (AErr e))
  | IBuffered ev =>
      let evo := match ev with Some lw => ans_all self lw (AErr WEvicted) | None => [] end in
      let '(rp2, w2) := rp_pop rp1 in
      let '(rp3, l3, outs) := rp_drain (rp_fuel rp2) self orc rp2 l w2 in
      (rp3, l3, evo ++ outs)
  | IReady w1 => rp_drain (rp_fuel rp1) self orc rp1 l (Some w1)
  end.

(* detect_and_handle_gaps (expiry and the failsafe breaker left out) *)
Definition rp_tick (self : node) (rp : repl) : repl * list msg :=
  match rp_buf rp with
  | [] => (rp, [])
  | w :: _ =>
      if (rp_next rp <? bw_key w) && negb (rp_catching rp)
      then (rp_with_catching rp true, [MSyncReq self (bw_coord w) (rp_next rp) (bw_key w - 1)])
      else (rp, [])
  end.

(* Message<PartitionSyncResponse>: [fixed] = the commit is appended at the sequence it has on the source *)
Fixpoint rp_apply_commits (fixed : bool) (self : node) (orc : oracle) (rp : repl) (l : log) (cs : list ent)
  : repl * log * bool * list msg :=
  match cs with
  | [] => (rp, l, true, [])
  | e :: t =>
      let ex := if fixed then Some (en_first e) else None in
      let '(rp1, l1, err, outs) := rp_write self orc true rp l ex (en_tx e) (en_nev e) (en_off e) (en_cnt e) in
      match err with
      | Some _ => (rp1, l1, false, outs)
      | None => let '(rp2, l2, b, outs2) := rp_apply_commits fixed self orc rp1 l1 t in (rp2, l2, b, outs ++ outs2)
      end
  end.

Definition rp_sync (fixed : bool) (self : node) (orc : oracle) (rp : repl) (l : log) (cs : option (list ent))
  : repl * log * list msg :=
  let rp0 := rp_with_catching rp false in
  match cs with
  | None => (rp0, l, [])
  | Some cs =>
      let '(rp1, l1, allok, outs) := rp_apply_commits fixed self orc rp0 l cs in
      if allok then
        let '(rp2, w2) := rp_pop rp1 in
        let '(rp3, l3, outs3) := rp_drain (rp_fuel rp2) self orc rp2 l1 w2 in
        (rp3, l3, outs ++ outs3)
      else (rp1, l1, outs)
  end.

(* ------------------------------------------------------------------ a node *)
Inductive phase := PhCollect | PhQuorum | PhConfirmed | PhLate (cnt : N).
Record ctask := mk_ct { ct_tx : N; ct_first : N; ct_nev : N; ct_pending : list node; ct_confirmed : list node;
                        ct_phase : phase }.

Record nstate := mk_ns {
  ns_log : log;                         (* disk *)
  ns_alive : N;                         (* alive_since of this incarnation *)
  ns_view : list (node * N);            (* get_available_replicas(partition): (replica, alive_since), in its order *)
  ns_rp : option repl;                  (* the partition's replicator; None: partition not assigned to this node *)
  ns_tasks : list ctask;                (* running transaction::spawn tasks *)
  ns_wm : N                             (* in-memory watermark *)
}.
Definition ns_with_log (ns : nstate) (l : log) : nstate :=
  mk_ns l (ns_alive ns) (ns_view ns) (ns_rp ns) (ns_tasks ns) (ns_wm ns).
Definition ns_with_rp_log (ns : nstate) (rp : repl) (l : log) : nstate :=
  mk_ns l (ns_alive ns) (ns_view ns) (Some rp) (ns_tasks ns) (ns_wm ns).
Definition ns_with_tasks (ns : nstate) (ts : list ctask) : nstate :=
  mk_ns (ns_log ns) (ns_alive ns) (ns_view ns) (ns_rp ns) ts (ns_wm ns).
Definition ns_with_view (ns : nstate) (v : list (node * N)) : nstate :=
  mk_ns (ns_log ns) (ns_alive ns) v (ns_rp ns) (ns_tasks ns) (ns_wm ns).
Definition ns_with_wm (ns : nstate) (w : N) : nstate :=
  mk_ns (ns_log ns) (ns_alive ns) (ns_view ns) (ns_rp ns) (ns_tasks ns) w.

Record config := mk_cfg { c_rf : N; c_reps : list node; c_limit : N; c_cufix : bool }.
Definition c_q (cfg : config) : N := quorum (c_rf cfg).

Definition memb (n : node) (l : list node) : bool := existsb (N.eqb n) l.

(* a node as it is after start: memory empty, replicator positioned at the end of the disk, view = itself *)
Definition ns_boot (cfg : config) (self : node) (l : log) (alive : N) : nstate :=
  mk_ns l alive [(self, alive)]
        (if memb self (c_reps cfg) then Some (mk_repl (log_next l) (c_limit cfg) [] false) else None)
        [] (wm_ideal (c_q cfg) l).

(* Message<ReplicateWrite> for ClusterActor (replicate.rs:443-482) *)
Definition n_replicate (self : node) (orc : oracle) (ns : nstate) (c : node) (alive rid T : N) (ex : rexp) (k cnt : N)
  : nstate * list msg :=
  let err e := (ns, [MRepAns self c rid T (AErr e)]) in
  match ex with
  | RxAny => err WMissing
  | RxAt s =>
      match find (fun p => fst p =? c) (ns_view ns) with
      | None => err WInvalid
      | Some (_, a) =>
          if alive <? a then err WStale else
          match ns_rp ns with
          | None => err WNotOwned
          | Some rp =>
              let '(rp', l', outs) := rp_deliver self orc rp (ns_log ns) (mk_bw s T k cnt c [rid]) in
              (ns_with_rp_log ns rp' l', outs)
          end
      end
  end.

(* Message<ConfirmTransaction> (confirm.rs): a Single record (one event) is not checked against the sequences *)
Definition n_confirm (ns : nstate) (T s k cnt : N) (idsok dbok : bool) : nstate * cres :=
  match db_find (ns_log ns) T with
  | None => (ns, CNotFound)
  | Some e =>
      let doit := if dbok then (ns_with_log ns (db_setcnt (ns_log ns) T cnt), COk) else (ns, CWrite) in
      if en_nev e =? 1 then doit
      else if negb (en_nev e =? k) then (ns, CLenMis)
      else if negb (en_first e =? s) then (ns, CSeqMis)
      else if negb idsok then (ns, CIdMis)
      else doit
  end.

(* Message<PartitionSyncRequest> (replicate.rs:535-596): commits from [from] on (the first one cut at [from] when the
   request starts inside it), while first < watermark and first <= to *)
Definition cut_ent (from : N) (e : ent) : ent :=
  if en_first e <? from then mk_ent (en_tx e) from (en_first e + en_nev e - from) (en_off e + (from - en_first e)) (en_cnt e)
  else e.
Fixpoint serve_old (w from to : N) (l : list ent) (* oldest first *) : list ent :=
  match l with
  | [] => []
  | e :: t =>
      if en_first e + en_nev e <=? from then serve_old w from to t
      else let e' := cut_ent from e in
           if (en_first e' <? w) && (en_first e' <=? to) then e' :: serve_old w from to t else []
  end.
(* the handler reads the commits with a partition scan, and a scan can show an OLDER confirmation count than the disk
   holds (the segment block cache is not invalidated by set_confirmations - known finding stale-scan-count): the served
   copy carries min(count on disk, [seen e]) for an arbitrary [seen] *)
Definition n_sync_serve (ns : nstate) (seen : ent -> N) (from to : N) : list ent :=
  map (fun e => ent_setcnt e (N.min (en_cnt e) (seen e))) (serve_old (ns_wm ns) from to (rev (ns_log ns))).
Definition seen_exact : ent -> N := en_cnt.

Definition n_sync_resp (cfg : config) (self : node) (orc : oracle) (ns : nstate) (cs : option (list ent))
  : nstate * list msg :=
  match ns_rp ns with
  | None => (ns, [])
  | Some rp => let '(rp', l', outs) := rp_sync (c_cufix cfg) self orc rp (ns_log ns) cs in (ns_with_rp_log ns rp' l', outs)
  end.

Definition n_tick (self : node) (ns : nstate) : nstate * list msg :=
  match ns_rp ns with
  | None => (ns, [])
  | Some rp => let '(rp', outs) := rp_tick self rp in (ns_with_rp_log ns rp' (ns_log ns), outs)
  end.

(* ---- the coordinator (execute.rs resolve_write_destination, transaction.rs run / spawn) *)
Definition has_quorum (cfg : config) (t : ctask) : bool := c_q cfg <=? N.of_nat (length (ct_confirmed t)).

Definition n_client (cfg : config) (self : node) (orc : oracle) (ns : nstate) (T k : N) : nstate * list msg :=
  let q := c_q cfg in
  if N.of_nat (length (ns_view ns)) <? q then (ns, [MClient self T (AErr WInsufficient)]) else
  match ns_view ns, ns_rp ns with
  | (p, _) :: rest, Some _ =>
      if negb (p =? self) then (ns, [MClient self T (AErr WNotLeader)]) (* forwarded to p: not this node's write *)
      else
        match db_append (ns_log ns) None (orc false (ns_log ns) T) T k 0 (cnt0 (c_rf cfg)) with
        | None => (ns, [MClient self T (AErr WDb)])
        | Some l' =>
            let s := log_next (ns_log ns) in
            let targets := map fst rest in
            let t0 := mk_ct T s k targets [self] PhCollect in
            let sends := map (fun r => MRep self r (ns_alive ns) 0 T (RxAt s) k (cnt0 (c_rf cfg))) targets in
            match targets with
            | [] => if has_quorum cfg t0
                    then (mk_ns l' (ns_alive ns) (ns_view ns) (ns_rp ns) (mk_ct T s k [] [self] PhQuorum :: ns_tasks ns) (ns_wm ns), sends)
                    else (ns_with_log ns l', [MClient self T (AErr WQuorumFailed)])
            | _ => (mk_ns l' (ns_alive ns) (ns_view ns) (ns_rp ns) (t0 :: ns_tasks ns) (ns_wm ns), sends)
            end
        end
  | _, _ => (ns, [MClient self T (AErr WNotLeader)])
  end.

Fixpoint t_find (T : N) (ts : list ctask) : option ctask :=
  match ts with [] => None | t :: r => if ct_tx t =? T then Some t else t_find T r end.
Fixpoint t_remove (T : N) (ts : list ctask) : list ctask :=
  match ts with [] => [] | t :: r => if ct_tx t =? T then r else t :: t_remove T r end.
Fixpoint t_set (t : ctask) (ts : list ctask) : list ctask :=
  match ts with [] => [] | t' :: r => if ct_tx t' =? ct_tx t then t :: r else t' :: t_set t r end.
Definition l_remove (n : node) (l : list node) : list node := filter (fun x => negb (x =? n)) l.

(* a reply of a ReplicateWrite ask reaches the coordinator task (run's loop, or the late loop of spawn) *)
Definition n_rep_reply (cfg : config) (self : node) (ns : nstate) (r : node) (T : N) (res : ares) : nstate * list msg :=
  match t_find T (ns_tasks ns) with
  | None => (ns, [])
  | Some t =>
      if negb (memb r (ct_pending t)) then (ns, []) else
      let pend := l_remove r (ct_pending t) in
      match ct_phase t, res with
      | PhCollect, AOk _ =>
          let t1 := mk_ct T (ct_first t) (ct_nev t) pend (ct_confirmed t ++ [r]) PhCollect in
          let t2 := if has_quorum cfg t1 then mk_ct T (ct_first t) (ct_nev t) pend (ct_confirmed t1) PhQuorum else t1 in
          if negb (has_quorum cfg t1) && match pend with [] => true | _ => false end
          then (ns_with_tasks ns (t_remove T (ns_tasks ns)), [MClient self T (AErr WQuorumFailed)])
          else (ns_with_tasks ns (t_set t2 (ns_tasks ns)), [])
      | PhCollect, AErr _ =>
          let t1 := mk_ct T (ct_first t) (ct_nev t) pend (ct_confirmed t) PhCollect in
          if (N.of_nat (length (ct_confirmed t) + length pend) <? c_q cfg) || match pend with [] => true | _ => false end
          then (ns_with_tasks ns (t_remove T (ns_tasks ns)), [MClient self T (AErr WQuorumFailed)])
          else (ns_with_tasks ns (t_set t1 (ns_tasks ns)), [])
      | PhLate cnt, AOk _ =>
          let t1 := mk_ct T (ct_first t) (ct_nev t) pend (ct_confirmed t) (PhLate (cnt + 1)) in
          (ns_with_tasks ns (t_set t1 (ns_tasks ns)), [MConf self r T (ct_first t) (ct_nev t) (cnt + 1) true])
      | PhLate cnt, AErr _ =>
          (ns_with_tasks ns (t_set (mk_ct T (ct_first t) (ct_nev t) pend (ct_confirmed t) (PhLate cnt)) (ns_tasks ns)), [])
      | _, _ => (ns, [])        (* the reply stays unread until the late loop *)
      end
  end.

(* spawn after run returned Ok: set_confirmations_with_retry(count = confirmed_replicas.len()) *)
Definition n_finish1 (cfg : config) (self : node) (ns : nstate) (T : N) (dbok : bool) : nstate * list msg :=
  match t_find T (ns_tasks ns) with
  | Some t =>
      match ct_phase t with
      | PhQuorum =>
          if dbok then
            let c := N.of_nat (length (ct_confirmed t)) in
            let t1 := mk_ct T (ct_first t) (ct_nev t) (ct_pending t) (ct_confirmed t) PhConfirmed in
            (mk_ns (db_setcnt (ns_log ns) T c) (ns_alive ns) (ns_view ns) (ns_rp ns) (t_set t1 (ns_tasks ns)) (ns_wm ns), [])
          else (ns_with_tasks ns (t_remove T (ns_tasks ns)), [MClient self T (AErr WConfirmFailed)])
      | _ => (ns, [])
      end
  | None => (ns, [])
  end.

(* .. then ConfirmTransaction to the confirmed replicas, then the client's Ok, then the late loop *)
Definition n_finish2 (cfg : config) (self : node) (ns : nstate) (T : N) : nstate * list msg :=
  match t_find T (ns_tasks ns) with
  | Some t =>
      match ct_phase t with
      | PhConfirmed =>
          let c := N.of_nat (length (ct_confirmed t)) in
          let t1 := mk_ct T (ct_first t) (ct_nev t) (ct_pending t) (ct_confirmed t) (PhLate c) in
          (ns_with_tasks ns (t_set t1 (ns_tasks ns)),
           map (fun r => MConf self r T (ct_first t) (ct_nev t) c true) (l_remove self (ct_confirmed t))
           ++ [MClient self T (AOk (ct_first t))])
      | _ => (ns, [])
      end
  | None => (ns, [])
  end.

(* the 10 s timeout around run (only while collecting), or the end of the late loop *)
Definition n_timeout (self : node) (ns : nstate) (T : N) : nstate * list msg :=
  match t_find T (ns_tasks ns) with
  | Some t =>
      match ct_phase t with
      | PhCollect => (ns_with_tasks ns (t_remove T (ns_tasks ns)), [MClient self T (AErr WTimeout)])
      | PhLate _ => (ns_with_tasks ns (t_remove T (ns_tasks ns)), [])
      | _ => (ns, [])
      end
  | None => (ns, [])
  end.

(* all reply senders of a buffered write expired: the write is dropped *)
Definition n_expire (ns : nstate) (key : N) : nstate :=
  match ns_rp ns with
  | None => ns
  | Some rp => ns_with_rp_log ns (rp_with_buf rp (b_remove key (rp_buf rp))) (ns_log ns)
  end.

(* ------------------------------------------------------------------ the global transition system *)
Record gstate := mk_gs {
  g_nodes : node -> nstate;
  g_net : list msg;
  g_orig : list (N * (node * N * N))     (* ghost: transaction -> (coordinator, first sequence, events) *)
}.
Definition upd (f : node -> nstate) (n : node) (v : nstate) : node -> nstate := fun m => if m =? n then v else f m.
Fixpoint orig_of (o : list (N * (node * N * N))) (T : N) : option (node * N * N) :=
  match o with [] => None | (T', v) :: t => if T' =? T then Some v else orig_of t T end.

Inductive action :=
| AView (n : node) (v : list (node * N))               (* membership gossip: any view of the partition's replicas *)
| AClient (c : node) (T k : N) (orc : oracle)          (* a client write that reaches c *)
| ADeliver (i : nat) (orc : oracle) (dbok : bool) (seen : ent -> N)   (* the i-th sent message is delivered (again) *)
| AFinish1 (c : node) (T : N) (dbok : bool)
| AFinish2 (c : node) (T : N)
| ATimeout (c : node) (T : N)
| ATick (r : node)                                     (* the catch-up timer *)
| AExpire (r : node) (key : N)
| AWm (n : node) (w : N)                               (* the confirmation actor catches up with the disk *)
| ACrash (n : node) (alive : N).                       (* crash + restart: memory lost, disk kept *)

Definition view_ok (cfg : config) (self : node) (v : list (node * N)) : bool :=
  let ns := map fst v in
  forallb (fun x => memb x (c_reps cfg)) ns && memb self ns
  && (fix nodup (l : list node) := match l with [] => true | x :: t => negb (memb x t) && nodup t end) ns.

Definition deliver (cfg : config) (orc : oracle) (dbok : bool) (seen : ent -> N) (st : gstate) (m : msg) : gstate :=
  let nd := g_nodes st in
  match m with
  | MRep c r alive rid T ex k cnt =>
      let '(ns', outs) := n_replicate r orc (nd r) c alive rid T ex k cnt in
      mk_gs (upd nd r ns') (g_net st ++ outs) (g_orig st)
  | MRepAns r c rid T res =>
      let '(ns', outs) := n_rep_reply cfg c (nd c) r T res in
      mk_gs (upd nd c ns') (g_net st ++ outs) (g_orig st)
  | MConf c r T s k cnt idsok =>
      let '(ns', _) := n_confirm (nd r) T s k cnt idsok dbok in
      mk_gs (upd nd r ns') (g_net st) (g_orig st)
  | MSyncReq r c from to =>
      mk_gs nd (g_net st ++ [MSyncResp c r (if dbok then Some (n_sync_serve (nd c) seen from to) else None)]) (g_orig st)
  | MSyncResp c r cs =>
      let '(ns', outs) := n_sync_resp cfg r orc (nd r) cs in
      mk_gs (upd nd r ns') (g_net st ++ outs) (g_orig st)
  | MClient _ _ _ => st
  end.

Definition g_step (cfg : config) (st : gstate) (a : action) : gstate :=
  let nd := g_nodes st in
  match a with
  | AView n v => if view_ok cfg n v then mk_gs (upd nd n (ns_with_view (nd n) v)) (g_net st) (g_orig st) else st
  | AClient c T k orc =>
      match orig_of (g_orig st) T with
      | Some _ => st                                       (* ids are fresh *)
      | None =>
          let '(ns', outs) := n_client cfg c orc (nd c) T k in
          mk_gs (upd nd c ns') (g_net st ++ outs) ((T, (c, log_next (ns_log (nd c)), k)) :: g_orig st)
      end
  | ADeliver i orc dbok seen => match nth_error (g_net st) i with Some m => deliver cfg orc dbok seen st m | None => st end
  | AFinish1 c T dbok => let '(ns', outs) := n_finish1 cfg c (nd c) T dbok in mk_gs (upd nd c ns') (g_net st ++ outs) (g_orig st)
  | AFinish2 c T => let '(ns', outs) := n_finish2 cfg c (nd c) T in mk_gs (upd nd c ns') (g_net st ++ outs) (g_orig st)
  | ATimeout c T => let '(ns', outs) := n_timeout c (nd c) T in mk_gs (upd nd c ns') (g_net st ++ outs) (g_orig st)
  | ATick r => let '(ns', outs) := n_tick r (nd r) in mk_gs (upd nd r ns') (g_net st ++ outs) (g_orig st)
  | AExpire r key => mk_gs (upd nd r (n_expire (nd r) key)) (g_net st) (g_orig st)
  | AWm n w => if w <=? wm_ideal (c_q cfg) (ns_log (nd n)) then mk_gs (upd nd n (ns_with_wm (nd n) w)) (g_net st) (g_orig st) else st
  | ACrash n alive =>
      if ns_alive (nd n) <=? alive then mk_gs (upd nd n (ns_boot cfg n (ns_log (nd n)) alive)) (g_net st) (g_orig st) else st
  end.

Definition g_init (cfg : config) : gstate := mk_gs (fun n => ns_boot cfg n [] 0) [] [].
Definition g_run (cfg : config) (acts : list action) : gstate := fold_left (g_step cfg) acts (g_init cfg).

(* ------------------------------------------------------------------ what the theorems talk about *)
(* the entry covers sequence x *)
Definition covers (e : ent) (x : N) : bool := (en_first e <=? x) && (x <? en_first e + en_nev e).
(* the node stores the whole transaction T (from its first event) *)
Definition holds_whole (l : log) (T : N) : bool := existsb (ent_is T) l.
Definition holders (cfg : config) (st : gstate) (T : N) : list node :=
  filter (fun n => holds_whole (ns_log (g_nodes st n)) T) (c_reps cfg).
(* a client was answered Ok for T *)
Definition acked (st : gstate) (c : node) (T s : N) : Prop := In (MClient c T (AOk s)) (g_net st).
(* the confirmed prefix of a disk, oldest first *)
Fixpoint conf_prefix (q : N) (l : list ent) : list ent :=
  match l with [] => [] | e :: t => if q <=? en_cnt e then e :: conf_prefix q t else [] end.
Definition ent_same (a b : ent) : Prop :=
  en_tx a = en_tx b /\ en_first a = en_first b /\ en_nev a = en_nev b /\ en_off a = en_off b.

(* ------------------------------------------------------------------ helpers for the harness runs (one node X, one replica Y) *)
(* the harness gives every transaction its own streams: a catch-up copy (stream versions Exact/Empty) is rejected
   exactly when the transaction's first stored event is already there; [bad] = built with a failing expectation *)
Definition orc_harness (bad : list N) : oracle :=
  fun cu l T => negb (memb T bad) && (if cu then negb (existsb (fun e => en_tx e =? T) l) else true).

(* Y's catch-up, run to quiescence against X: tick, serve, apply, until nothing is requested or nothing changes *)
Fixpoint y_settle (fuel : nat) (cfg : config) (orc : oracle) (x : nstate) (ynode : node) (y : nstate) : nstate * list msg :=
  match fuel with
  | O => (y, [])
  | S f =>
      let '(y1, reqs) := n_tick ynode y in
      match reqs with
      | MSyncReq _ _ from to :: _ =>
          let '(y2, outs) := n_sync_resp cfg ynode orc y1 (Some (n_sync_serve x seen_exact from to)) in
          if (log_next (ns_log y2) =? log_next (ns_log y)) then (y2, outs)
          else let '(y3, outs3) := y_settle f cfg orc x ynode y2 in (y3, outs ++ outs3)
      | _ => (y1, [])
      end
  end.
