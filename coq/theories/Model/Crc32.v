(** Bit-serial reflected CRC-32 (IEEE 802.3: polynomial 0xEDB88320, init 0xFFFFFFFF, xorout 0xFFFFFFFF)
    — the function computed by the `crc32fast` crate that seglog's `calculate_crc32c` calls
    (crates/seglog/src/lib.rs:246-252; despite the name it is CRC-32/IEEE, not Castagnoli).
    Definitions only. Bytes are [N] below 256; a message is a [list N]. *)
From Coq Require Import NArith List Bool.
Import ListNotations.
Open Scope N_scope.

Definition crc_poly : N := 0xEDB88320.

(* one shift of the register: divide by x, subtract the polynomial when a one falls out *)
Definition crc_step (x : N) : N :=
  N.lxor (N.shiftr x 1) (if N.testbit x 0 then crc_poly else 0).

Fixpoint crc_steps (n : nat) (x : N) : N :=
  match n with O => x | S n' => crc_steps n' (crc_step x) end.

(* byte-at-a-time form: xor the byte into the low 8 bits, shift 8 times *)
Definition crc_byte (s b : N) : N := crc_steps 8 (N.lxor s b).

Definition crc_update (s : N) (bs : list N) : N := fold_left crc_byte bs s.

Definition crc_init : N := 0xFFFFFFFF.

Definition crc32 (bs : list N) : N := N.lxor (crc_update crc_init bs) 0xFFFFFFFF.

(* seglog: hasher.update(len_bytes); hasher.update(header); hasher.update(data); finalize() *)
Definition calculate_crc (len_bytes header data : list N) : N :=
  N.lxor (crc_update (crc_update (crc_update crc_init len_bytes) header) data) 0xFFFFFFFF.

(** bit-level view used by the burst theorem: a message as a list of bits, least significant
    bit of each byte first (the order in which the reflected CRC consumes them) *)
Definition crc_feed (s : N) (b : bool) : N := crc_step (N.lxor s (if b then 1 else 0)).
Definition crc_run (s : N) (bs : list bool) : N := fold_left crc_feed bs s.

Fixpoint bits_of (k : nat) (b : N) : list bool :=
  match k with O => [] | S k' => N.testbit b 0 :: bits_of k' (N.shiftr b 1) end.

Definition byte_bits (b : N) : list bool := bits_of 8 b.
Definition bytes_bits (bs : list N) : list bool := flat_map byte_bits bs.

Fixpoint xor_bits (bs es : list bool) : list bool :=
  match bs, es with b :: bs', e :: es' => xorb b e :: xor_bits bs' es' | _, _ => [] end.

Fixpoint xor_bytes (bs es : list N) : list N :=
  match bs, es with b :: bs', e :: es' => N.lxor b e :: xor_bytes bs' es' | _, _ => [] end.

Definition is_byte (b : N) : Prop := b < 256.
Definition all_bytes (l : list N) : Prop := Forall is_byte l.

(** an error pattern (as bits) that is non-zero and confined to a window of at most 32 consecutive bits *)
Definition burst32_bits (e : list bool) : Prop :=
  exists pre rest post, e = repeat false pre ++ (true :: rest) ++ repeat false post /\ (length rest <= 31)%nat.

Definition burst32 (e : list N) : Prop := burst32_bits (bytes_bits e).
