(** Model of the acknowledgement path of an append (C20):
    crates/sierradb/src/writer_thread_pool.rs
      - Worker::handle_append_events: the reply carries [write_offset] (the segment's write offset
        after the transaction) and [sync_tx.subscribe()] (a receiver of the CURRENT watch channel);
      - WriterThreadPool::append_events: after the reply, [sync_rx.wait_for(|w| *w >= write_offset)];
      - WriterSet::sync: fsync, publish the index entries, [sync_tx.send_replace(write_offset)];
      - WriterSet::rollover: [sync], new segment, and (after the fix 9690820) a NEW watch channel
        whose initial value is the new segment's write offset (the segment header size).
    The mode [Shared] is the code before that fix: one watch value across rollovers.
    Definitions only; proofs are in Proofs/SyncWatchProofs.v. *)
From Coq Require Import NArith List Bool.
Import ListNotations.
Open Scope N_scope.

Inductive wmode := PerSegment | Shared.

Definition seg_header : N := 48.            (* SEGMENT_HEADER_SIZE: write offset of a fresh segment *)

(** what a client holds after the reply: the channel it subscribed to and its target offset *)
Record waiter := mkWaiter { w_chan : nat; w_target : N }.

Record sw := mkSw {
  sw_seg : nat;               (* id of the live segment *)
  sw_off : N;                 (* its write offset *)
  sw_vals : list N;           (* current value of watch channel i *)
  sw_waiters : list waiter    (* in reply order: waiter w is the w-th successful reply *)
}.

Definition chan_of (m : wmode) (seg : nat) : nat :=
  match m with PerSegment => seg | Shared => 0%nat end.

Definition sw_init : sw := mkSw 0 seg_header [seg_header] [].

Definition set_nth (l : list N) (i : nat) (v : N) : list N := firstn i l ++ v :: skipn (S i) l.

Definition chan_val (s : sw) (c : nat) : N := nth c (sw_vals s) 0.

(** worker steps (program order of handle_append_events: [SRoll]; SWrite; [SSync]; SReply) and the client's poll *)
Inductive sstep :=
  | SWrite (n : N)      (* handle_write appended a transaction of n bytes *)
  | SReply              (* the reply: the client gets (current channel, current write offset) *)
  | SSync               (* WriterSet::sync (from FlushPoll, or sync_if_necessary at the end of handle_write,
                           i.e. possibly between a transaction's write and its reply) *)
  | SRoll               (* WriterSet::rollover *)
  | SPoll (w : nat).    (* waiter w looks at the latest value of ITS channel *)

Definition sw_publish (m : wmode) (s : sw) : sw :=
  mkSw (sw_seg s) (sw_off s) (set_nth (sw_vals s) (chan_of m (sw_seg s)) (sw_off s)) (sw_waiters s).

Definition sw_step (m : wmode) (s : sw) (st : sstep) : sw :=
  match st with
  | SWrite n => mkSw (sw_seg s) (sw_off s + n) (sw_vals s) (sw_waiters s)
  | SReply => mkSw (sw_seg s) (sw_off s) (sw_vals s) (sw_waiters s ++ [mkWaiter (chan_of m (sw_seg s)) (sw_off s)])
  | SSync => sw_publish m s
  | SRoll =>
      let s1 := sw_publish m s in
      mkSw (S (sw_seg s1)) seg_header
           (match m with PerSegment => sw_vals s1 ++ [seg_header] | Shared => sw_vals s1 end)
           (sw_waiters s1)
  | SPoll _ => s
  end.

Definition sw_run_from (m : wmode) (s : sw) (tr : list sstep) : sw := fold_left (sw_step m) tr s.
Definition sw_run (m : wmode) (tr : list sstep) : sw := sw_run_from m sw_init tr.

(** would a poll of waiter w succeed now (wait_for's predicate on the latest value)? *)
Definition covered (s : sw) (wt : waiter) : bool := w_target wt <=? chan_val s (w_chan wt).
Definition poll_ok (s : sw) (w : nat) : bool :=
  match nth_error (sw_waiters s) w with Some wt => covered s wt | None => false end.

Definition is_sync (st : sstep) : bool := match st with SSync | SRoll => true | _ => false end.

(** the index the next reply's waiter gets *)
Definition next_waiter (m : wmode) (pre : list sstep) : nat := length (sw_waiters (sw_run m pre)).

(** fairness: every window of k consecutive worker steps contains a sync (the syncer thread's
    FlushPoll reaches the worker at least every k steps) *)
Definition fair (k : nat) (tr : list sstep) : Prop :=
  forall a b c, tr = a ++ b ++ c -> length b = k -> exists st, In st b /\ is_sync st = true.

(** replay support for the trace validation (ocaml/d_conc.ml): the published value after a step *)
Definition sw_cur_val (m : wmode) (s : sw) : N := chan_val s (chan_of m (sw_seg s)).
