(** Byte-level model of the `seglog` crate (crates/seglog/src/{lib,write,read,parse}.rs) as it is after the
    `fix:` commits ca96f8d (set_len seeks the writer), 140c4e4 (payload_len < H is reported, not a panic),
    461b593 (the read-ahead window is clamped to the flushed offset) and 64fd9e7 (offset overflow).
    Definitions only.

    * a file is a [list N] of bytes; offsets and lengths are [N];
    * every Rust slice-index expression that can panic is an explicit bounds test whose failure is the
      outcome [RPanic] (see [idx]) — C17_total proves that outcome unreachable;
    * zstd is NOT modelled: [compress]/[decompress] are section variables; the theorems assume only
      [decompress (compress x) = Some x];
    * `crc32fast` is modelled by Crc32.v. *)
From Coq Require Import NArith List Bool.
From SV Require Import Model.Crc32.
Import ListNotations.
Open Scope N_scope.

(** ** N-indexed list helpers (structural on the list, so the extracted code is linear) *)
Fixpoint dropN {A} (n : N) (l : list A) : list A :=
  match l with [] => [] | _ :: t => if n =? 0 then l else dropN (N.pred n) t end.
Fixpoint takeN {A} (n : N) (l : list A) : list A :=
  match l with [] => [] | x :: t => if n =? 0 then [] else x :: takeN (N.pred n) t end.
Definition lenN {A} (l : list A) : N := fold_left (fun a _ => N.succ a) l 0.
Definition sliceN {A} (l : list A) (off len : N) : list A := takeN len (dropN off l).
Definition zerosN (n : N) : list N := N.iter n (cons 0) [].

(* pwrite(bs, off): overwrite, extending the file (zero-filled hole) when needed *)
Definition write_at (f : list N) (off : N) (bs : list N) : list N :=
  takeN off f ++ zerosN (off - lenN f) ++ bs ++ dropN (off + lenN bs) f.

(* Rust `l[a..b]`: panics unless a <= b <= l.len() *)
Definition idx (l : list N) (a b : N) : option (list N) :=
  if (a <=? b) && (b <=? lenN l) then Some (sliceN l a (b - a)) else None.

(** ** constants (lib.rs:205-222, read.rs:15-18, write.rs:16) *)
Definition RECORD_HEAD : N := 8.
Definition COMPRESSION_FLAG : N := 0x80000000.
Definition MIN_COMPRESSION_SIZE : N := 128.
Definition OPTIMISTIC_DATA_SIZE : N := 2048.
Definition FALLBACK_BUF_SIZE : N := 4096.
Definition READ_AHEAD_SIZE : N := 65536.
Definition PAGE_SIZE : N := 4096.
Definition WRITE_BUF_SIZE : N := 16384.

(* u32::to_le_bytes / from_le_bytes *)
Definition le32 (x : N) : list N :=
  [x mod 256; (x / 256) mod 256; (x / 65536) mod 256; (x / 16777216) mod 256].
Definition of_le32 (l : list N) : N :=
  match l with a :: b :: c :: d :: _ => a + 256 * b + 65536 * c + 16777216 * d | _ => 0 end.

Definition all_zero (l : list N) : bool := forallb (N.eqb 0) l.

(** ** results *)
Inductive rerr := EOob (len : N) | ETrunc | ECrc | EIo.
Inductive res (A : Type) := ROk (a : A) | RErr (e : rerr) | RPanic.
Arguments ROk {A}. Arguments RErr {A}. Arguments RPanic {A}.

(* read::Record: header, (decompressed) data, compressed_data, len   (offset is the argument) *)
Record rrec := { r_hdr : list N; r_data : list N; r_cdata : option (list N); r_len : N }.

Definition res_map {A B} (f : A -> B) (r : res A) : res B :=
  match r with ROk a => ROk (f a) | RErr e => RErr e | RPanic => RPanic end.

Section Seglog.
Variable H : N.                                  (* the const generic header size *)
Variable compress : list N -> list N.            (* zstd::bulk::compress, level 3 *)
Variable decompress : list N -> option (list N). (* zstd::stream::copy_decode; None = error *)

(** ** record encoding (write.rs:269-295, 359-382) *)
Definition prepare_data (comp : bool) (data : list N) : list N * N :=
  if comp && (MIN_COMPRESSION_SIZE <=? lenN data) then
    let fd := le32 (lenN data) ++ compress data in
    (fd, N.lor ((H + lenN fd) mod 2^32) COMPRESSION_FLAG)
  else (data, (H + lenN data) mod 2^32).

Definition encode_record (lw : N) (hdr fd : list N) : list N :=
  let lb := le32 lw in lb ++ le32 (calculate_crc lb hdr fd) ++ hdr ++ fd.

(** ** the validation/decoding tail shared by all read paths: CRC check, then decompression *)
Definition check_decode (lb : list N) (crc : N) (comp : bool) (plen : N) (hdr sd : list N) : res rrec :=
  if crc =? calculate_crc lb hdr sd then
    if comp then
      if lenN sd <? 4 then RErr EIo
      else match idx sd 0 4, idx sd 4 (lenN sd) with
           | Some _, Some z =>
             match decompress z with
             | Some d => ROk {| r_hdr := hdr; r_data := d; r_cdata := Some sd; r_len := RECORD_HEAD + plen |}
             | None => RErr EIo
             end
           | _, _ => RPanic
           end
    else ROk {| r_hdr := hdr; r_data := sd; r_cdata := None; r_len := RECORD_HEAD + plen |}
  else RErr ECrc.

(* `payload[..H]`, `payload[H..]` *)
Definition split_payload (lb : list N) (crc : N) (comp : bool) (plen : N) (payload : list N) : res rrec :=
  match idx payload 0 H, idx payload H (lenN payload) with
  | Some hdr, Some sd => check_decode lb crc comp plen hdr sd
  | _, _ => RPanic
  end.

(** ** specification of a read: what every read path must return, as a function of the bytes visible
    from the record start (the flushed prefix of the file from `off`, or the buffer given to parse_record
    from `off`). No slice-index can fail here: it is a plain function on lists. *)
Definition check_spec (lb : list N) (crc : N) (comp : bool) (plen : N) (hdr sd : list N) : res rrec :=
  if crc =? calculate_crc lb hdr sd then
    if comp then
      if lenN sd <? 4 then RErr EIo
      else match decompress (dropN 4 sd) with
           | Some d => ROk {| r_hdr := hdr; r_data := d; r_cdata := Some sd; r_len := RECORD_HEAD + plen |}
           | None => RErr EIo
           end
    else ROk {| r_hdr := hdr; r_data := sd; r_cdata := None; r_len := RECORD_HEAD + plen |}
  else RErr ECrc.

Definition decode_view (v : list N) : res rrec :=
  if lenN v <? RECORD_HEAD then RErr (EOob RECORD_HEAD) else
  if all_zero (sliceN v 0 RECORD_HEAD) then RErr ETrunc else
  let lb := sliceN v 0 4 in
  let lw := of_le32 lb in
  let comp := COMPRESSION_FLAG <=? lw in
  let plen := lw mod COMPRESSION_FLAG in
  let crc := of_le32 (sliceN v 4 4) in
  if lenN v <? RECORD_HEAD + plen then RErr (EOob (RECORD_HEAD + plen)) else
  if plen <? H then RErr ECrc else
  let payload := sliceN v RECORD_HEAD plen in
  check_spec lb crc comp plen (takeN H payload) (dropN H payload).

(** ** vocabulary of the C17 theorems *)
(* the only things assumed about zstd *)
Definition codec_ok : Prop :=
  (forall x, decompress (compress x) = Some x) /\ (forall x, all_bytes x -> all_bytes (compress x)).

(* the length word for a payload of plen bytes *)
Definition lw_of (plen : N) (flag : bool) : N := plen + (if flag then COMPRESSION_FLAG else 0).

(* what an append stores for (hdr, data): prepare_data, then encode_record *)
Definition stored_record (comp : bool) (hdr data : list N) : list N :=
  let (fd, lw) := prepare_data comp data in encode_record lw hdr fd.

Definition stored_len (comp : bool) (data : list N) : N :=
  RECORD_HEAD + H + lenN (fst (prepare_data comp data)).

(* a well-typed append: H header bytes, everything is a byte, the payload fits the 31-bit length field *)
Definition wf_rec (comp : bool) (hdr data : list N) : Prop :=
  lenN hdr = H /\ all_bytes hdr /\ all_bytes data /\
  H + lenN (fst (prepare_data comp data)) < COMPRESSION_FLAG.

Definition is_compressed (comp : bool) (data : list N) : bool := comp && (MIN_COMPRESSION_SIZE <=? lenN data).

(* the shape of a stored record: 4 length bytes A, 4 crc bytes B, then the payload P of the stated length *)
Definition rec_bytes (A B P : list N) : Prop :=
  lenN A = 4 /\ lenN B = 4 /\ all_bytes A /\ all_bytes B /\ all_bytes P /\
  lenN P = of_le32 A mod COMPRESSION_FLAG.

(* a valid record (however it was produced) followed by anything *)
Definition valid_at (A B P rest : list N) (r : rrec) : Prop :=
  rec_bytes A B P /\ decode_view (A ++ B ++ P ++ rest) = ROk r.

(* a byte string that decodes to r whatever follows it, and is exactly as long as r says *)
Definition enc_ok (enc : list N) (r : rrec) : Prop :=
  8 <= lenN enc /\ r_len r = lenN enc /\ forall rest, decode_view (enc ++ rest) = ROk r.

Fixpoint with_offsets (off : N) (rs : list rrec) : list (N * rrec) :=
  match rs with [] => [] | r :: t => (off, r) :: with_offsets (off + r_len r) t end.

(** ** parse::parse_record (parse.rs:29-112) — returns (header, data, consumed) *)
Definition parse_record_full (bs : list N) (off : N) : res rrec :=
  if lenN bs - off <? RECORD_HEAD then RErr (EOob RECORD_HEAD) else
  match idx bs off (off + RECORD_HEAD) with None => RPanic | Some hd =>
    if all_zero hd then RErr ETrunc else
    match idx hd 0 4, idx hd 4 8 with
    | Some lb, Some cb =>
      let lw := of_le32 lb in
      let comp := COMPRESSION_FLAG <=? lw in
      let plen := lw mod COMPRESSION_FLAG in
      let crc := of_le32 cb in
      if lenN bs <? off + RECORD_HEAD + plen then RErr (EOob (RECORD_HEAD + plen)) else
      if plen <? H then RErr ECrc else
      match idx bs (off + RECORD_HEAD) (off + RECORD_HEAD + plen) with
      | None => RPanic
      | Some payload => split_payload lb crc comp plen payload
      end
    | _, _ => RPanic
    end
  end.

Definition parse_record (bs : list N) (off : N) : res (list N * list N * N) :=
  res_map (fun r => (r_hdr r, r_data r, r_len r)) (parse_record_full bs off).

(* the code before 140c4e4: no `payload_len < H` test (kept to state what the defect was) *)
Definition parse_record_orig (bs : list N) (off : N) : res (list N * list N * N) :=
  if lenN bs - off <? RECORD_HEAD then RErr (EOob RECORD_HEAD) else
  match idx bs off (off + RECORD_HEAD) with None => RPanic | Some hd =>
    if all_zero hd then RErr ETrunc else
    match idx hd 0 4, idx hd 4 8 with
    | Some lb, Some cb =>
      let lw := of_le32 lb in
      let comp := COMPRESSION_FLAG <=? lw in
      let plen := lw mod COMPRESSION_FLAG in
      let crc := of_le32 cb in
      if lenN bs <? off + RECORD_HEAD + plen then RErr (EOob (RECORD_HEAD + plen)) else
      match idx bs (off + RECORD_HEAD) (off + RECORD_HEAD + plen) with
      | None => RPanic
      | Some payload => res_map (fun r => (r_hdr r, r_data r, r_len r)) (split_payload lb crc comp plen payload)
      end
    | _, _ => RPanic
    end
  end.

(** ** Reader::read_record, random access (read.rs:184-312) *)
(* File::read_exact_at: Err(UnexpectedEof) when the file is too short *)
Definition read_exact_at (file : list N) (off len : N) : option (list N) :=
  if off + len <=? lenN file then Some (sliceN file off len) else None.

(* optimistic path: the payload is already in optimistic_buf *)
Definition path_optimistic (ob lb : list N) (crc : N) (comp : bool) (plen : N) : res rrec :=
  match idx ob RECORD_HEAD (RECORD_HEAD + plen) with
  | None => RPanic
  | Some payload =>
    match idx payload 0 H, idx payload H (lenN payload) with
    | Some hdr, Some sd => check_decode lb crc comp plen hdr sd
    | _, _ => RPanic
    end
  end.

(* fallback path: second read into fallback_buf[..payload_len]; header = fb[..H], data = fb[H..payload_len] *)
Definition path_fallback (file : list N) (off : N) (lb : list N) (crc : N) (comp : bool) (plen : N) : res rrec :=
  match read_exact_at file (off + RECORD_HEAD) plen with
  | None => RErr EIo
  | Some fb =>
    match idx fb 0 H, idx fb H plen with
    | Some hdr, Some sd => check_decode lb crc comp plen hdr sd
    | _, _ => RPanic
    end
  end.

(* large path: vec![0; payload_len]; data = buf[H..].to_vec(); buf.truncate(H) *)
Definition path_large (file : list N) (off : N) (lb : list N) (crc : N) (comp : bool) (plen : N) : res rrec :=
  match read_exact_at file (off + RECORD_HEAD) plen with
  | None => RErr EIo
  | Some buf =>
    match idx buf H (lenN buf) with
    | Some sd => check_decode lb crc comp plen (takeN H buf) sd
    | None => RPanic
    end
  end.

Definition read_random (file : list N) (flushed off : N) : res rrec :=
  if flushed - off <? RECORD_HEAD then RErr (EOob RECORD_HEAD) else
  let optlen := N.min (RECORD_HEAD + OPTIMISTIC_DATA_SIZE) (flushed - off) in
  match read_exact_at file off optlen with None => RErr EIo | Some ob =>
    match idx ob 0 RECORD_HEAD with None => RPanic | Some hd =>
      if all_zero hd then RErr ETrunc else
      match idx hd 0 4, idx hd 4 8 with
      | Some lb, Some cb =>
        let lw := of_le32 lb in
        let comp := COMPRESSION_FLAG <=? lw in
        let plen := lw mod COMPRESSION_FLAG in
        let crc := of_le32 cb in
        if flushed <? off + RECORD_HEAD + plen then RErr (EOob (RECORD_HEAD + plen)) else
        if plen <? H then RErr ECrc else
        if (plen <=? OPTIMISTIC_DATA_SIZE) && (RECORD_HEAD + plen <=? optlen) then
          path_optimistic ob lb crc comp plen
        else if plen <=? FALLBACK_BUF_SIZE then path_fallback file off lb crc comp plen
        else path_large file off lb crc comp plen
      | _, _ => RPanic
      end
    end
  end.

(** ** ReadAheadBuf (read.rs:564-670): window start and the VALID bytes of the buffer *)
Record rabuf := { ra_off : N; ra_bytes : list N }.
Definition ra_empty : rabuf := {| ra_off := 0; ra_bytes := [] |}.
Definition ra_end (ra : rabuf) : N := ra_off ra + lenN (ra_bytes ra).

Definition ra_fill (file : list N) (flushed off len : N) : rabuf :=
  let o := off - off mod READ_AHEAD_SIZE in
  let length := off + len - o in
  let required := ((N.max length READ_AHEAD_SIZE + (PAGE_SIZE - 1)) / PAGE_SIZE) * PAGE_SIZE in
  let limit := N.min required (flushed - o) in
  {| ra_off := o; ra_bytes := sliceN file o limit |}.   (* read_at until `limit` bytes or EOF *)

Definition ra_read (file : list N) (flushed : N) (ra : rabuf) (off len : N) : rabuf * res (list N) :=
  if (ra_off ra <=? off) && (off + len <=? ra_end ra) then
    (ra, match idx (ra_bytes ra) (off - ra_off ra) (off - ra_off ra + len) with Some b => ROk b | None => RPanic end)
  else
    let ra' := ra_fill file flushed off len in
    if (off <? ra_off ra') || (ra_end ra' <? off + len) then (ra', RErr EIo)
    else (ra', match idx (ra_bytes ra') (off - ra_off ra') (off - ra_off ra' + len) with Some b => ROk b | None => RPanic end).

Definition ra_overlaps (ra : rabuf) (off len : N) : bool :=
  if lenN (ra_bytes ra) =? 0 then false else (off <? ra_end ra) && (ra_off ra <? off + len).
Definition ra_invalidate (ra : rabuf) : rabuf := {| ra_off := ra_off ra; ra_bytes := [] |}.

(** ** Reader::read_record, sequential (read.rs:314-394) *)
Definition read_seq (file : list N) (flushed : N) (ra : rabuf) (off : N) : rabuf * res rrec :=
  if flushed - off <? RECORD_HEAD then (ra, RErr (EOob RECORD_HEAD)) else
  let (ra1, r1) := ra_read file flushed ra off RECORD_HEAD in
  match r1 with
  | RErr e => (ra1, RErr e) | RPanic => (ra1, RPanic)
  | ROk hd0 =>
    match idx hd0 0 RECORD_HEAD with None => (ra1, RPanic) | Some hd =>
      if all_zero hd then (ra1, RErr ETrunc) else
      match idx hd0 0 4, idx hd0 4 8 with
      | Some lb, Some cb =>
        let lw := of_le32 lb in
        let comp := COMPRESSION_FLAG <=? lw in
        let plen := lw mod COMPRESSION_FLAG in
        let crc := of_le32 cb in
        if flushed <? off + RECORD_HEAD + plen then (ra1, RErr (EOob (RECORD_HEAD + plen))) else
        if plen <? H then (ra1, RErr ECrc) else
        let (ra2, r2) := ra_read file flushed ra1 (off + RECORD_HEAD) plen in
        match r2 with
        | RErr e => (ra2, RErr e) | RPanic => (ra2, RPanic)
        | ROk payload => (ra2, split_payload lb crc comp plen payload)
        end
      | _, _ => (ra1, RPanic)
      end
    end
  end.

Definition read_record (file : list N) (flushed : N) (ra : rabuf) (off : N) (seq : bool) : rabuf * res rrec :=
  if seq then read_seq file flushed ra off else (ra, read_random file flushed off).

(** ** Iter::next_record driven to the end (read.rs:549-566), and Writer::open's scan (write.rs:170-229) *)
Inductive term := TEnd | TErr (e : rerr) | TPanic | TFuel.

(* returns the reader's buffer, the records with their offsets, the offset reached and how the loop ended *)
Fixpoint scan (fuel : nat) (file : list N) (flushed : N) (ra : rabuf) (off : N)
  : rabuf * list (N * rrec) * N * term :=
  match fuel with
  | O => (ra, [], off, TFuel)
  | S fuel' =>
    match read_seq file flushed ra off with
    | (ra', ROk r) =>
      let '(ra'', recs, o, t) := scan fuel' file flushed ra' (off + r_len r) in
      (ra'', (off, r) :: recs, o, t)
    | (ra', RErr (EOob _)) => (ra', [], off, TEnd)
    | (ra', RErr ETrunc) => (ra', [], off, TEnd)
    | (ra', RErr e) => (ra', [], off, TErr e)
    | (ra', RPanic) => (ra', [], off, TPanic)
    end
  end.

Definition scan_fuel (flushed : N) : nat := S (N.to_nat (flushed / RECORD_HEAD)).

Definition iter_all (file : list N) (flushed : N) (ra : rabuf) (off : N) :=
  scan (scan_fuel flushed) file flushed ra off.

(* Writer::open: a fresh Reader with flushed = file length scans from start_offset; the write offset is
   where the first unreadable record starts; only an I/O (or decompression) error makes open fail *)
Definition writer_open_offset (file : list N) (start : N) : res N :=
  let '(_, _, o, t) := iter_all file (lenN file) ra_empty start in
  match t with
  | TEnd => ROk o
  | TErr ECrc => ROk o
  | TErr e => RErr e
  | TPanic => RPanic
  | TFuel => RErr EIo
  end.

(** ** Writer (write.rs:39-383) with std's BufWriter made explicit *)
Record writer := {
  w_file : list N;      (* the segment file (pre-allocated, zero-filled) *)
  w_cursor : N;         (* file position of the BufWriter's inner File *)
  w_buf : list N;       (* bytes buffered in the BufWriter *)
  w_off : N;            (* write_offset *)
  w_flushed : N;        (* FlushedOffset (shared with the readers) *)
  w_dirty : bool;
  w_comp : bool;        (* compression_enabled *)
  w_size : N }.

Definition writer_create (size start : N) : writer :=
  {| w_file := zerosN size; w_cursor := start; w_buf := []; w_off := start; w_flushed := start;
     w_dirty := false; w_comp := false; w_size := size |}.

Definition bw_flush (w : writer) : writer :=
  {| w_file := write_at (w_file w) (w_cursor w) (w_buf w); w_cursor := w_cursor w + lenN (w_buf w); w_buf := [];
     w_off := w_off w; w_flushed := w_flushed w; w_dirty := w_dirty w; w_comp := w_comp w; w_size := w_size w |}.

Definition bw_push (w : writer) (bs : list N) : writer :=
  {| w_file := w_file w; w_cursor := w_cursor w; w_buf := w_buf w ++ bs;
     w_off := w_off w; w_flushed := w_flushed w; w_dirty := w_dirty w; w_comp := w_comp w; w_size := w_size w |}.

Definition bw_direct (w : writer) (bs : list N) : writer :=
  {| w_file := write_at (w_file w) (w_cursor w) bs; w_cursor := w_cursor w + lenN bs; w_buf := w_buf w;
     w_off := w_off w; w_flushed := w_flushed w; w_dirty := w_dirty w; w_comp := w_comp w; w_size := w_size w |}.

(* BufWriter::write_all / write_all_cold *)
Definition bw_write (w : writer) (bs : list N) : writer :=
  let spare := WRITE_BUF_SIZE - lenN (w_buf w) in
  if lenN bs <? spare then bw_push w bs
  else
    let w1 := if spare <? lenN bs then bw_flush w else w in
    if WRITE_BUF_SIZE <=? lenN bs then bw_direct w1 bs else bw_push w1 bs.

Definition w_set (w : writer) (off flushed : N) (dirty : bool) : writer :=
  {| w_file := w_file w; w_cursor := w_cursor w; w_buf := w_buf w;
     w_off := off; w_flushed := flushed; w_dirty := dirty; w_comp := w_comp w; w_size := w_size w |}.

Definition writer_append (w : writer) (hdr data : list N) : writer * option (N * N) :=
  let (fd, lw) := prepare_data (w_comp w) data in
  let total := RECORD_HEAD + H + lenN fd in
  if w_size w <? w_off w + total then (w, None)             (* SegmentFull *)
  else
    let lb := le32 lw in
    let crc := calculate_crc lb hdr fd in
    let w1 := bw_write (bw_write (bw_write (bw_write (w_set w (w_off w) (w_flushed w) true) lb) (le32 crc)) hdr) fd in
    (w_set w1 (w_off w + total) (w_flushed w1) true, Some (w_off w, total)).

Definition writer_sync (w : writer) : writer :=
  if w_dirty w then let w1 := bw_flush w in w_set w1 (w_off w1) (w_off w1) false else w.

Definition writer_set_len (w : writer) (o : N) : writer :=
  if w_off w <=? o then w
  else
    let w1 := writer_sync w in
    let w2 := w_set w1 o o (w_dirty w1) in
    (* writer.seek(Start(o)): flush_buf, then move the file cursor *)
    let w3 := bw_flush w2 in
    {| w_file := write_at (w_file w3) o (zerosN RECORD_HEAD); w_cursor := o; w_buf := w_buf w3;
       w_off := o; w_flushed := o; w_dirty := w_dirty w3; w_comp := w_comp w3; w_size := w_size w3 |}.

Definition writer_set_comp (w : writer) (b : bool) : writer :=
  {| w_file := w_file w; w_cursor := w_cursor w; w_buf := w_buf w;
     w_off := w_off w; w_flushed := w_flushed w; w_dirty := w_dirty w; w_comp := b; w_size := w_size w |}.

Definition writer_set_file (w : writer) (f : list N) : writer :=
  {| w_file := f; w_cursor := w_cursor w; w_buf := w_buf w;
     w_off := w_off w; w_flushed := w_flushed w; w_dirty := w_dirty w; w_comp := w_comp w; w_size := w_size w |}.

(** ** Reader::replace_header (read.rs:438-540) on the shared file *)
(* returns the new file and the reader's buffer, or the read error *)
Definition replace_header (file : list N) (flushed : N) (ra : rabuf) (off : N) (newhdr : list N)
  : list N * rabuf * res bool :=
  match read_random file flushed off with
  | RErr e => (file, ra, RErr e)
  | RPanic => (file, ra, RPanic)
  | ROk r =>
    if r_len r <? RECORD_HEAD then (file, ra, RPanic) else      (* `record.len - RECORD_HEAD_SIZE` *)
    let plen := r_len r - RECORD_HEAD in
    let lw := match r_cdata r with Some _ => N.lor (plen mod 2^32) COMPRESSION_FLAG | None => plen mod 2^32 end in
    let lb := le32 lw in
    let sd := match r_cdata r with Some c => c | None => r_data r end in
    let crc := calculate_crc lb newhdr sd in
    let file' := write_at file (off + 4) (le32 crc ++ newhdr) in
    let ra' := if ra_overlaps ra off (RECORD_HEAD + plen) then ra_invalidate ra else ra in
    (file', ra', ROk true)
  end.

(** ** one writer, any number of readers sharing its FlushedOffset: operations and their outputs *)
Inductive sl_op :=
| OAppend (hdr data : list N)
| OFlush | OSync | OSetLen (o : N) | OComp (b : bool)
| ONewReader                         (* Reader::open(path, Some(writer.flushed_offset())) *)
| OClone (r : nat)                   (* Reader::try_clone *)
| ORead (r : nat) (off : N) (seq : bool)
| OIter (r : nat) (off : N)
| OReplace (r : nat) (off : N) (hdr : list N).

Inductive sl_out :=
| UAppend (r : option (N * N))
| UUnit
| USync (off : N)
| UReader (r : nat)
| URead (r : res rrec)
| UIter (recs : list (N * rrec)) (t : term)
| UReplace (r : res bool)
| UBad.                              (* no such reader *)

Record sl_state := { s_w : writer; s_readers : list rabuf }.

Definition sl_init (size start : N) : sl_state := {| s_w := writer_create size start; s_readers := [] |}.

Fixpoint set_nth {A} (n : nat) (x : A) (l : list A) : list A :=
  match l, n with
  | [], _ => []
  | _ :: t, O => x :: t
  | y :: t, S n' => y :: set_nth n' x t
  end.

Definition sl_step (s : sl_state) (op : sl_op) : sl_state * sl_out :=
  let w := s_w s in
  match op with
  | OAppend hdr data =>
    let (w', r) := writer_append w hdr data in ({| s_w := w'; s_readers := s_readers s |}, UAppend r)
  | OFlush => ({| s_w := bw_flush w; s_readers := s_readers s |}, UUnit)
  | OSync => let w' := writer_sync w in ({| s_w := w'; s_readers := s_readers s |}, USync (w_off w'))
  | OSetLen o => ({| s_w := writer_set_len w o; s_readers := s_readers s |}, UUnit)
  | OComp b => ({| s_w := writer_set_comp w b; s_readers := s_readers s |}, UUnit)
  | ONewReader => ({| s_w := w; s_readers := s_readers s ++ [ra_empty] |}, UReader (length (s_readers s)))
  | OClone r =>
    match nth_error (s_readers s) r with
    | None => (s, UBad)
    | Some _ => ({| s_w := w; s_readers := s_readers s ++ [ra_empty] |}, UReader (length (s_readers s)))
    end
  | ORead r off seq =>
    match nth_error (s_readers s) r with
    | None => (s, UBad)
    | Some ra =>
      let (ra', out) := read_record (w_file w) (w_flushed w) ra off seq in
      ({| s_w := w; s_readers := set_nth r ra' (s_readers s) |}, URead out)
    end
  | OIter r off =>
    match nth_error (s_readers s) r with
    | None => (s, UBad)
    | Some ra =>
      let '(ra', recs, _, t) := iter_all (w_file w) (w_flushed w) ra off in
      ({| s_w := w; s_readers := set_nth r ra' (s_readers s) |}, UIter recs t)
    end
  | OReplace r off hdr =>
    match nth_error (s_readers s) r with
    | None => (s, UBad)
    | Some ra =>
      let '(f', ra', out) := replace_header (w_file w) (w_flushed w) ra off hdr in
      ({| s_w := writer_set_file w f'; s_readers := set_nth r ra' (s_readers s) |}, UReplace out)
    end
  end.

Fixpoint sl_run (s : sl_state) (ops : list sl_op) : sl_state * list sl_out :=
  match ops with
  | [] => (s, [])
  | op :: ops' =>
    let (s1, o) := sl_step s op in
    let (s2, os) := sl_run s1 ops' in (s2, o :: os)
  end.

(** ** the two situations that remain stale on the repaired tree (known findings, C18):
    an operation is [op_known] in a state when
    - it is a truncation to an offset below the end of some reader's cached window, or
    - it replaces a header through one reader while ANOTHER reader's cached window overlaps the bytes written. *)
Definition ranges_overlap (a alen b blen : N) : bool := (a <? b + blen) && (b <? a + alen).

Fixpoint other_cached (r i : nat) (off len : N) (l : list rabuf) : bool :=
  match l with
  | [] => false
  | ra :: t =>
    (negb (Nat.eqb i r) && negb (lenN (ra_bytes ra) =? 0)
     && ranges_overlap (ra_off ra) (lenN (ra_bytes ra)) off len)
    || other_cached r (S i) off len t
  end.

Definition cached_beyond (o : N) (ra : rabuf) : bool :=
  negb (lenN (ra_bytes ra) =? 0) && (o <? ra_end ra).

Definition op_known (s : sl_state) (op : sl_op) : bool :=
  match op with
  | OSetLen o => (o <? w_off (s_w s)) && existsb (cached_beyond o) (s_readers s)
  | OReplace r off hdr => other_cached r O (off + 4) (4 + lenN hdr) (s_readers s)
  | _ => false
  end.

Fixpoint known_free (s : sl_state) (ops : list sl_op) : bool :=
  match ops with
  | [] => true
  | op :: ops' => negb (op_known s op) && known_free (fst (sl_step s op)) ops'
  end.

(* the bytes a reader may look at: the flushed prefix of the file, from the record start *)
Definition view (file : list N) (flushed off : N) : list N := dropN off (takeN flushed file).

(* a read-ahead buffer that agrees with the file (and, unless empty, lies below the flushed offset) *)
Definition coherent (file : list N) (flushed : N) (ra : rabuf) : Prop :=
  (lenN (ra_bytes ra) = 0 \/ ra_end ra <= flushed) /\ ra_bytes ra = sliceN file (ra_off ra) (lenN (ra_bytes ra)).

(* how an iteration ends on a read error *)
Definition term_of (e : rerr) : term := match e with EOob _ => TEnd | ETrunc => TEnd | _ => TErr e end.

(** ** abstract specification of the segment (C18): the records currently in the log, the write offset
    and the flushed offset — a function of the operations alone (no bytes, no buffers, no caches) *)
Record arec := { a_off : N; a_comp : bool; a_hdr : list N; a_data : list N }.

Definition a_stored (r : arec) : list N := fst (prepare_data (a_comp r) (a_data r)).
Definition a_len (r : arec) : N := RECORD_HEAD + H + lenN (a_stored r).
Definition a_end (r : arec) : N := a_off r + a_len r.
Definition a_compressed (r : arec) : bool := a_comp r && (MIN_COMPRESSION_SIZE <=? lenN (a_data r)).
(* what a read of this record must return *)
Definition a_expect (r : arec) : rrec :=
  {| r_hdr := a_hdr r; r_data := a_data r;
     r_cdata := if a_compressed r then Some (a_stored r) else None; r_len := a_len r |}.

Record spec := { sp_log : list arec; sp_off : N; sp_flushed : N; sp_comp : bool; sp_size : N; sp_nr : nat (* readers opened so far *) }.

Definition spec_init (size start : N) : spec :=
  {| sp_log := []; sp_off := start; sp_flushed := start; sp_comp := false; sp_size := size; sp_nr := O |}.

Definition set_hdr (off : N) (hdr : list N) (r : arec) : arec :=
  if a_off r =? off then {| a_off := a_off r; a_comp := a_comp r; a_hdr := hdr; a_data := a_data r |} else r.

Definition spec_step (sp : spec) (op : sl_op) : spec :=
  match op with
  | OAppend hdr data =>
    let r := {| a_off := sp_off sp; a_comp := sp_comp sp; a_hdr := hdr; a_data := data |} in
    if sp_size sp <? a_end r then sp
    else {| sp_log := sp_log sp ++ [r]; sp_off := a_end r; sp_flushed := sp_flushed sp;
            sp_comp := sp_comp sp; sp_size := sp_size sp; sp_nr := sp_nr sp |}
  | OSync => {| sp_log := sp_log sp; sp_off := sp_off sp; sp_flushed := sp_off sp;
                sp_comp := sp_comp sp; sp_size := sp_size sp; sp_nr := sp_nr sp |}
  | OSetLen o =>
    if sp_off sp <=? o then sp
    else {| sp_log := filter (fun r => a_end r <=? o) (sp_log sp); sp_off := o; sp_flushed := o;
            sp_comp := sp_comp sp; sp_size := sp_size sp; sp_nr := sp_nr sp |}
  | OComp b => {| sp_log := sp_log sp; sp_off := sp_off sp; sp_flushed := sp_flushed sp;
                  sp_comp := b; sp_size := sp_size sp; sp_nr := sp_nr sp |}
  | ONewReader => {| sp_log := sp_log sp; sp_off := sp_off sp; sp_flushed := sp_flushed sp;
                     sp_comp := sp_comp sp; sp_size := sp_size sp; sp_nr := S (sp_nr sp) |}
  | OClone r => if Nat.ltb r (sp_nr sp)
                then {| sp_log := sp_log sp; sp_off := sp_off sp; sp_flushed := sp_flushed sp;
                        sp_comp := sp_comp sp; sp_size := sp_size sp; sp_nr := S (sp_nr sp) |}
                else sp
  | OReplace rd off hdr =>
    (* succeeds exactly when the reader exists and the record at `off` is fully flushed *)
    if Nat.ltb rd (sp_nr sp) &&
       existsb (fun r => (a_off r =? off) && (a_end r <=? sp_flushed sp)) (sp_log sp)
    then {| sp_log := map (set_hdr off hdr) (sp_log sp); sp_off := sp_off sp; sp_flushed := sp_flushed sp;
            sp_comp := sp_comp sp; sp_size := sp_size sp; sp_nr := sp_nr sp |}
    else sp
  | _ => sp
  end.

Definition spec_run (sp : spec) (ops : list sl_op) : spec := fold_left spec_step ops sp.

(* what a read at the start of a live record must return, given the flushed offset *)
Definition spec_read (sp : spec) (r : arec) : res rrec :=
  if sp_flushed sp - a_off r <? RECORD_HEAD then RErr (EOob RECORD_HEAD)
  else if sp_flushed sp <? a_end r then RErr (EOob (a_len r))
  else ROk (a_expect r).

(* what an iteration from `off` must yield: follow the live records from `off` while each is fully flushed;
   [Some l]: the iteration yields exactly l and ends cleanly; [None]: the walk left the live records (possible
   only after a truncation to an offset that is not a record start) and nothing is claimed *)
Fixpoint spec_iter (fuel : nat) (sp : spec) (off : N) : option (list (N * rrec)) :=
  match fuel with
  | O => None
  | S f =>
    if sp_flushed sp - off <? RECORD_HEAD then Some []
    else match find (fun r => a_off r =? off) (sp_log sp) with
         | None => None
         | Some r =>
           if sp_flushed sp <? a_end r then Some []
           else match spec_iter f sp (a_end r) with
                | Some l => Some ((off, a_expect r) :: l)
                | None => None
                end
         end
  end.

(* the flushed records from `off` on, in log order *)
Definition flushed_from (sp : spec) (off : N) : list (N * rrec) :=
  map (fun r => (a_off r, a_expect r))
      (filter (fun r => (off <=? a_off r) && (a_end r <=? sp_flushed sp)) (sp_log sp)).

(* truncation aimed at the start of a live record (what sierradb does), or a no-op *)
Definition boundary_op (sp : spec) (op : sl_op) : Prop :=
  match op with
  | OSetLen o => sp_off sp <= o \/ exists r, In r (sp_log sp) /\ a_off r = o
  | _ => True
  end.
Fixpoint boundary_ops (sp : spec) (ops : list sl_op) : Prop :=
  match ops with
  | [] => True
  | op :: ops' => boundary_op sp op /\ boundary_ops (spec_step sp op) ops'
  end.

(* histories the theorems talk about: well-typed appends (the header has H bytes, everything is a byte, the
   stored length fits the 31-bit length field) and header replacement aimed at the start of a live record *)
Definition wf_op (sp : spec) (op : sl_op) : Prop :=
  match op with
  | OAppend hdr data =>
    lenN hdr = H /\ all_bytes hdr /\ all_bytes data /\
    H + lenN (fst (prepare_data (sp_comp sp) data)) < COMPRESSION_FLAG
  | OReplace _ off hdr =>
    lenN hdr = H /\ all_bytes hdr /\ exists r, In r (sp_log sp) /\ a_off r = off
  | _ => True
  end.

Fixpoint wf_ops (sp : spec) (ops : list sl_op) : Prop :=
  match ops with
  | [] => True
  | op :: ops' => wf_op sp op /\ wf_ops (spec_step sp op) ops'
  end.

End Seglog.
