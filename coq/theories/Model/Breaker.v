(** Model of crates/sierradb-cluster/src/circuit_breaker.rs (WriteCircuitBreaker) as a small-step
    transition system: every public method is a sequence of atomic steps (atomic load / store /
    fetch_add / compare_exchange / clock read) with thread-local registers kept in the program
    counter. Any number of threads (thread ids are [nat]); a schedule is a list of items
    (thread, method to start when the thread is idle, clock advance before the step).

    The code modelled is the code after the two [fix:] commits (saturating_sub; the transitioning
    request is counted and only the winner of the compare_exchange resets the half-open counters).
    The two flags [fx_sat] / [fx_cnt] switch each repair off, which gives the original code; the
    refutation theorems of Props/C26.v use them.

    Definitions only; proofs are in Proofs/BreakerProofs.v. *)
From Coq Require Import NArith List Bool.
Import ListNotations.
Open Scope N_scope.

Definition U32 : N := 4294967296.

(** configuration: failure_threshold, recovery_timeout (whole ms), half_open_max_calls,
    half_open_success_threshold; and which repairs are present *)
Record bcfg := mkCfg { b_thr : N; b_tmo : N; b_max : N; b_sthr : N; fx_sat : bool; fx_cnt : bool }.

Inductive bmethod := MAllow | MSuccess | MFailure | MEstimate.

(** ghost history of the closed-state accounting: F = a failure was counted
    (failure_count.fetch_add), S = the count was reset (failure_count.store(0)) *)
Inductive bev := EvF | EvS.

(** program counters = "blocked before this atomic operation"; registers are arguments *)
Inductive bpc :=
| PIdle
(* should_allow_request *)
| PA_state | PA_clock | PA_lft (now : N) | PA_cas | PA_rcalls | PA_rsucc | PA_tcount | PA_hcount
(* record_success *)
| PS_clock | PS_lst (now : N) | PS_state | PS_fc | PS_hs
| PS_cstate | PS_cfc | PS_ccalls | PS_csucc | PS_cas | PS_rcalls | PS_rsucc
(* record_failure; PF_ostate carries the ghost history at this thread's counted failure when it
   came through the Closed branch, None when it came through the HalfOpen branch *)
| PF_clock | PF_lft (now : N) | PF_state | PF_fc | PF_ostate (snap : option (list bev)) | PF_ocalls | PF_osucc
(* estimated_recovery_time *)
| PE_state | PE_clock | PE_lft (now : N).

(** what a thread does after its step: blocked before the next operation, returned, panicked *)
Inductive barr :=
| AAt (p : bpc) | ARetB (b : bool) | ARetU | ARetNone | ARetSome (ms : N) | APanic | AIdle.

(** the six atomics *)
Record bsh := mkSh { s_st : N; s_fc : N; s_lft : N; s_lst : N; s_hc : N; s_hs : N }.

(** ghost state (never read by the code):
    admits  = requests admitted in the current half-open episode,
    lost    = a reset of half_open_call_count landed inside the current episode after a probe had
              been admitted (the residual race of the repaired code: known finding),
    peak    = largest [admits] reached in an episode while [lost] was false,
    kpeak   = largest [admits] reached in an episode after a lost reset,
    wrapped = some u32 counter wrapped, panicked = some step panicked,
    hist    = closed-state accounting events, newest first,
    opens   = for every Closed->Open decision, the history at the deciding thread's own failure *)
Record bgh := mkGh { g_admits : N; g_lost : bool; g_peak : N; g_kpeak : N;
                     g_wrapped : bool; g_panicked : bool; g_hist : list bev; g_opens : list (list bev) }.

Definition set_st v m := mkSh v (s_fc m) (s_lft m) (s_lst m) (s_hc m) (s_hs m).
Definition set_fc v m := mkSh (s_st m) v (s_lft m) (s_lst m) (s_hc m) (s_hs m).
Definition set_lft v m := mkSh (s_st m) (s_fc m) v (s_lst m) (s_hc m) (s_hs m).
Definition set_lst v m := mkSh (s_st m) (s_fc m) (s_lft m) v (s_hc m) (s_hs m).
Definition set_hc v m := mkSh (s_st m) (s_fc m) (s_lft m) (s_lst m) v (s_hs m).
Definition set_hs v m := mkSh (s_st m) (s_fc m) (s_lft m) (s_lst m) (s_hc m) v.

Definition g_panic g := mkGh (g_admits g) (g_lost g) (g_peak g) (g_kpeak g) (g_wrapped g) true (g_hist g) (g_opens g).
Definition g_wrap (b : bool) g :=
  mkGh (g_admits g) (g_lost g) (g_peak g) (g_kpeak g) (g_wrapped g || b) (g_panicked g) (g_hist g) (g_opens g).
Definition g_ev e g :=
  mkGh (g_admits g) (g_lost g) (g_peak g) (g_kpeak g) (g_wrapped g) (g_panicked g) (e :: g_hist g) (g_opens g).
Definition g_open (snap : option (list bev)) g :=
  mkGh (g_admits g) (g_lost g) (g_peak g) (g_kpeak g) (g_wrapped g) (g_panicked g) (g_hist g)
       (match snap with Some h => h :: g_opens g | None => g_opens g end).
(** a new half-open episode starts *)
Definition g_episode g :=
  mkGh 0 false (g_peak g) (g_kpeak g) (g_wrapped g) (g_panicked g) (g_hist g) (g_opens g).
(** a request is admitted while the breaker is half-open *)
Definition g_admit g :=
  let a := g_admits g + 1 in
  mkGh a (g_lost g) (if g_lost g then g_peak g else N.max (g_peak g) a)
       (if g_lost g then N.max (g_kpeak g) a else g_kpeak g)
       (g_wrapped g) (g_panicked g) (g_hist g) (g_opens g).
Definition g_lose (b : bool) g :=
  mkGh (g_admits g) (g_lost g || b) (g_peak g) (g_kpeak g) (g_wrapped g) (g_panicked g) (g_hist g) (g_opens g).

(** state.compare_exchange(Open, HalfOpen) *)
Definition do_cas (m : bsh) (g : bgh) : bsh * bgh * bool :=
  if s_st m =? 1 then (set_st 2 m, g_episode g, true) else (m, g, false).

(** half_open_call_count.store(0) *)
Definition do_reset_calls (m : bsh) (g : bgh) : bsh * bgh :=
  (set_hc 0 m, g_lose ((s_st m =? 2) && (0 <? g_admits g)) g).

(** half_open_call_count.fetch_add(1) < half_open_max_calls, the admission decision *)
Definition do_count (c : bcfg) (m : bsh) (g : bgh) : bsh * bgh * barr :=
  let old := s_hc m in
  let m' := set_hc ((old + 1) mod U32) m in
  let g1 := g_wrap (U32 <=? old + 1) g in
  let adm := old <? b_max c in
  (m', if adm && (s_st m =? 2) then g_admit g1 else g1, ARetB adm).

(** CircuitState::from(u8): 1 = Open, 2 = HalfOpen, anything else = Closed *)
Definition op_step (c : bcfg) (p : bpc) (clk : N) (m : bsh) (g : bgh) : bsh * bgh * barr :=
  match p with
  | PIdle => (m, g, AIdle)
  (* ---- should_allow_request *)
  | PA_state => (m, g, if s_st m =? 1 then AAt PA_clock else if s_st m =? 2 then AAt PA_hcount else ARetB true)
  | PA_clock => (m, g, AAt (PA_lft clk))
  | PA_lft now =>
      let lf := s_lft m in
      if negb (fx_sat c) && (now <? lf) then (m, g_panic g, APanic)   (* `now - last_failure` *)
      else if b_tmo c <=? now - lf then (m, g, AAt PA_cas) else (m, g, ARetB false)
  | PA_cas =>
      let '(m', g', won) := do_cas m g in
      (m', g', if fx_cnt c then (if won then AAt PA_rcalls else AAt PA_tcount) else AAt PA_rcalls)
  | PA_rcalls => let '(m', g') := do_reset_calls m g in (m', g', AAt PA_rsucc)
  | PA_rsucc =>
      let m' := set_hs 0 m in
      if fx_cnt c then (m', g, AAt PA_tcount)
      else (m', if s_st m =? 2 then g_admit g else g, ARetB true)    (* original: `true`, not counted *)
  | PA_tcount => do_count c m g
  | PA_hcount => do_count c m g
  (* ---- record_success *)
  | PS_clock => (m, g, AAt (PS_lst clk))
  | PS_lst now => (set_lst now m, g, AAt PS_state)
  | PS_state => (m, g, if s_st m =? 1 then AAt PS_cas else if s_st m =? 2 then AAt PS_hs else AAt PS_fc)
  | PS_fc => (set_fc 0 m, g_ev EvS g, ARetU)
  | PS_hs =>
      let old := s_hs m in
      let m' := set_hs ((old + 1) mod U32) m in
      let g' := g_wrap (U32 <=? old + 1) g in
      if U32 <=? old + 1 then (m', g_panic g', APanic)               (* `fetch_add(1) + 1` overflows *)
      else if b_sthr c <=? old + 1 then (m', g', AAt PS_cstate) else (m', g', ARetU)
  | PS_cstate => (set_st 0 m, g, AAt PS_cfc)
  | PS_cfc => (set_fc 0 m, g_ev EvS g, AAt PS_ccalls)
  | PS_ccalls => let '(m', g') := do_reset_calls m g in (m', g', AAt PS_csucc)
  | PS_csucc => (set_hs 0 m, g, ARetU)
  | PS_cas =>
      let '(m', g', won) := do_cas m g in
      (m', g', if fx_cnt c then (if won then AAt PS_rcalls else ARetU) else AAt PS_rcalls)
  | PS_rcalls => let '(m', g') := do_reset_calls m g in (m', g', AAt PS_rsucc)
  | PS_rsucc => (set_hs 0 m, g, ARetU)
  (* ---- record_failure *)
  | PF_clock => (m, g, AAt (PF_lft clk))
  | PF_lft now => (set_lft now m, g, AAt PF_state)
  | PF_state => (m, g, if s_st m =? 1 then ARetU else if s_st m =? 2 then AAt (PF_ostate None) else AAt PF_fc)
  | PF_fc =>
      let old := s_fc m in
      let m' := set_fc ((old + 1) mod U32) m in
      let g' := g_ev EvF (g_wrap (U32 <=? old + 1) g) in
      if U32 <=? old + 1 then (m', g_panic g', APanic)
      else if b_thr c <=? old + 1 then (m', g', AAt (PF_ostate (Some (g_hist g')))) else (m', g', ARetU)
  | PF_ostate snap => (set_st 1 m, g_open snap g, AAt PF_ocalls)
  | PF_ocalls => let '(m', g') := do_reset_calls m g in (m', g', AAt PF_osucc)
  | PF_osucc => (set_hs 0 m, g, ARetU)
  (* ---- estimated_recovery_time *)
  | PE_state => (m, g, if s_st m =? 1 then AAt PE_clock else if s_st m =? 2 then ARetSome 0 else ARetNone)
  | PE_clock => (m, g, AAt (PE_lft clk))
  | PE_lft now =>
      let lf := s_lft m in
      if negb (fx_sat c) && (now <? lf) then (m, g_panic g, APanic)
      else let el := now - lf in
           (m, g, if b_tmo c <=? el then ARetSome 0 else ARetSome (b_tmo c - el))
  end.

Definition first_pc (me : bmethod) : bpc :=
  match me with MAllow => PA_state | MSuccess => PS_clock | MFailure => PF_clock | MEstimate => PE_state end.

Record bitem := mkItem { i_tid : nat; i_m : option bmethod; i_dt : N }.

Record bstate := mkB { b_sh : bsh; b_gh : bgh; b_clock : N; b_pcs : nat -> bpc }.

Definition upd_pc (f : nat -> bpc) (t : nat) (p : bpc) : nat -> bpc :=
  fun u => if Nat.eqb u t then p else f u.

(** one schedule item: advance the clock, then thread [i_tid] performs its pending atomic
    operation (an idle thread first starts method [i_m]) and runs up to its next one *)
Definition bstep (c : bcfg) (s : bstate) (it : bitem) : bstate * barr :=
  let clk := b_clock s + i_dt it in
  let p0 := b_pcs s (i_tid it) in
  let p := match p0 with
           | PIdle => match i_m it with Some me => first_pc me | None => PIdle end
           | _ => p0
           end in
  let '(m, g, a) := op_step c p clk (b_sh s) (b_gh s) in
  (mkB m g clk (upd_pc (b_pcs s) (i_tid it) (match a with AAt q => q | _ => PIdle end)), a).

Definition binit (t0 : N) : bstate :=
  mkB (mkSh 0 0 0 t0 0 0) (mkGh 0 false 0 0 false false [] []) t0 (fun _ => PIdle).

Definition bexec (c : bcfg) (sched : list bitem) (s : bstate) : bstate :=
  fold_left (fun s it => fst (bstep c s it)) sched s.

(** the observable trace: per step the arrival and the public getters
    (current_state, failure_count, last_failure_time in ms) *)
Fixpoint brun (c : bcfg) (s : bstate) (sched : list bitem) : list (barr * N * N * N) :=
  match sched with
  | [] => []
  | it :: r => let '(s', a) := bstep c s it in
               (a, s_st (b_sh s'), s_fc (b_sh s'), s_lft (b_sh s')) :: brun c s' r
  end.

(** length of the trailing run of failures *)
Fixpoint trailing_failures (h : list bev) : N :=
  match h with EvF :: r => 1 + trailing_failures r | _ => 0 end.

Definition opens_ok (c : bcfg) (g : bgh) : bool :=
  forallb (fun h => b_thr c <=? trailing_failures h) (g_opens g).

(** numeric code of an arrival, for the extraction cross-check *)
Definition pc_code (p : bpc) : N :=
  match p with
  | PIdle => 0 | PA_state => 1 | PA_clock => 2 | PA_lft _ => 3 | PA_cas => 4 | PA_rcalls => 5 | PA_rsucc => 6
  | PA_tcount => 7 | PA_hcount => 8
  | PS_clock => 10 | PS_lst _ => 11 | PS_state => 12 | PS_fc => 13 | PS_hs => 14 | PS_cstate => 15 | PS_cfc => 16
  | PS_ccalls => 17 | PS_csucc => 18 | PS_cas => 19 | PS_rcalls => 20 | PS_rsucc => 21
  | PF_clock => 30 | PF_lft _ => 31 | PF_state => 32 | PF_fc => 33 | PF_ostate _ => 34 | PF_ocalls => 35 | PF_osucc => 36
  | PE_state => 40 | PE_clock => 41 | PE_lft _ => 42
  end.
Definition arr_code (a : barr) : N :=
  match a with
  | AAt p => pc_code p | ARetB true => 101 | ARetB false => 100 | ARetU => 102 | ARetNone => 103
  | ARetSome ms => 1000 + ms | APanic => 104 | AIdle => 105
  end.
Definition brun_codes (c : bcfg) (t0 : N) (sched : list bitem) : list (N * N * N * N) :=
  map (fun '(a, x, y, z) => (arr_code a, x, y, z)) (brun c (binit t0) sched).
