(** Model of the scan iterators: bucket/iter.rs (BucketIter::new_inner, next_batch, rollover)
    and bucket/segment/iter.rs (SegmentIter::new, next, advance_offsets_index).
    The block cache and the reader thread pool are not modelled (they must not change results;
    the correspondence check covers both paths). Definitions only. *)
From Coq Require Import NArith List Bool.
From SV Require Export Model.Store.
Import ListNotations.
Open Scope N_scope.

Inductive dir := Fwd | Rev.
Inductive skey := KStream (sid : N) | KPartition (pid : N).

Definition U64MAX : N := 18446744073709551615.

Definition key_get (k : skey) (idx : list ientry) : option keyrec :=
  match k with KStream sid => sidx_get idx sid | KPartition pid => pidx_get idx pid end.

Definition key_matches (k : skey) (e : event) : bool :=
  match k with KStream sid => e_sid e =? sid | KPartition pid => true end.

Definition key_pos (k : skey) (e : event) : N :=
  match k with KStream _ => e_ver e | KPartition _ => e_seq e end.

(* number of segments known to the reader pool: the sealed ones and the live one *)
Definition nsegs (s : store) : nat := S (length (sealed s)).
Definition live_id (s : store) : nat := length (sealed s).

(* records of segment [i] as a reader sees them *)
Definition seg_recs (s : store) (i : nat) : list rec :=
  if Nat.eqb i (live_id s) then firstn (synced s) (s_recs (live s))
  else match nth_error (sealed s) i with Some g => s_recs g | None => [] end.

(* min(from - kmin, len) computed without building a huge unary number *)
Definition clamp_sub (from kmin : N) (len : nat) : nat :=
  if N.of_nat len <=? from - kmin then len else N.to_nat (from - kmin).

Definition offsets_index (d : dir) (from kmin : N) (len : nat) : nat :=
  match d with
  | Rev => if from =? U64MAX then len else clamp_sub from kmin len
  | Fwd => clamp_sub from kmin len
  end.

(* try_get_from_live_indexes *)
Definition try_live (s : store) (k : skey) (from : N) (d : dir) : option (list nat * nat) :=
  match key_get k (s_idx (live s)) with
  | Some kr => if from <? k_min kr then None
               else Some (k_offs kr, offsets_index d from (k_min kr) (length (k_offs kr)))
  | None => None
  end.

(* try_get_from_reader_set for sealed segment [i] (the live segment's reader set has no indexes) *)
Definition try_closed (s : store) (k : skey) (from : N) (d : dir) (i : nat) : option (list nat * nat) :=
  match nth_error (sealed s) i with
  | None => None
  | Some g =>
      match key_get k (s_idx g) with
      | Some kr =>
          if (k_min kr <=? from) || Nat.eqb i 0
             || (match d with Rev => Nat.eqb i (nsegs s - 1) | Fwd => false end)
          then Some (k_offs kr, offsets_index d from (k_min kr) (length (k_offs kr)))
          else None
      | None => None
      end
  end.

Record segiter := mkSI { si_seg : nat; si_offs : list nat; si_idx : nat }.

(* SegmentIter::new *)
Definition segiter_new (seg : nat) (offs : list nat) (oi : nat) (d : dir) : segiter :=
  match d with
  | Fwd => mkSI seg offs oi
  | Rev =>
      let len := length offs in
      mkSI seg (rev offs)
           (if Nat.ltb oi len then (len - 1 - oi)%nat else 0%nat)
  end.

Record biter := mkBI {
  b_seg : option segiter; b_last : N; b_live : bool; b_next : bool
}.

(* search closed segments newest first: candidates i = hi, hi-1, .., 0 *)
Fixpoint closed_search (s : store) (k : skey) (from : N) (d : dir) (next_seg : nat) (cnt : nat)
  : option (nat * list nat * nat) :=
  match cnt with
  | O => None
  | S i =>
      let skip := match d with Fwd => Nat.ltb i next_seg | Rev => Nat.ltb next_seg i end in
      if skip then closed_search s k from d next_seg i
      else match try_closed s k from d i with
           | Some (offs, oi) => Some (i, offs, oi)
           | None => closed_search s k from d next_seg i
           end
  end.

(* BucketIter::new_inner *)
Definition new_inner (s : store) (k : skey) (from : N) (d : dir) (next_seg : nat) (check_closed : bool) : biter :=
  let lid := live_id s in
  let matches := match d with Fwd => Nat.leb next_seg lid | Rev => Nat.leb lid next_seg end in
  match (if matches then try_live s k from d else None) with
  | Some (offs, oi) =>
      mkBI (Some (segiter_new lid offs oi d)) from true
           (match d with Fwd => false | Rev => Nat.ltb 0 lid end)
  | None =>
      if negb check_closed then mkBI None from false false
      else match closed_search s k from d next_seg (nsegs s) with
           | Some (i, offs, oi) =>
               mkBI (Some (segiter_new i offs oi d)) from false
                    (match d with Fwd => Nat.ltb i (nsegs s - 1) | Rev => Nat.ltb 0 i end)
           | None =>
               match (if matches then try_live s k from d else None) with
               | Some (offs, oi) => mkBI (Some (segiter_new lid offs oi d)) from true false
               | None => mkBI None from false false
               end
           end
  end.

Definition iter_new (s : store) (k : skey) (from : N) (d : dir) : biter :=
  new_inner s k from d (match d with Fwd => 0%nat | Rev => nsegs s end)
  (* the code passes u32::MAX for Rev; it is only compared with segment ids, all < nsegs s *) true.

(* advance_offsets_index: how many offsets the returned commit consumes *)
Fixpoint take_while_in (lo hi : nat) (l : list nat) : nat :=
  match l with
  | [] => 0%nat
  | o :: r => if Nat.leb lo o && Nat.leb o hi then S (take_while_in lo hi r) else 0%nat
  end.

Definition advance (c : committed) (rest : list nat) : nat :=
  match c with
  | CSingle _ _ => 1%nat
  | CTxn es _ _ =>
      match es with
      | [] => 1%nat
      | (o, _) :: r =>
          let lo := fold_left Nat.min (map fst r) o in
          let hi := fold_left Nat.max (map fst r) o in
          S (take_while_in lo hi rest)
      end
  end.

(* SegmentIter::next: None = nothing left; Some (inl commits); Some (inr tt) = read error
   ("event not found at offset") *)
Fixpoint seg_next (recs : list rec) (offs : list nat) (limit : nat) (fuel : nat)
  : (list committed * nat) + unit :=       (* commits read, offsets consumed *)
  match fuel, offs with
  | O, _ => inl ([], 0%nat)
  | _, [] => inl ([], 0%nat)
  | S f, off :: rest =>
      match fst (read_committed recs off) with
      | None => inr tt
      | Some c =>
          let adv := advance c rest in
          if Nat.leb limit 1 then inl ([c], adv)
          else match seg_next recs (skipn (adv - 1) rest) (limit - 1) f with
               | inl (cs, n) => inl (c :: cs, (adv + n)%nat)
               | inr e => inr e
               end
      end
  end.

Definition filter_commit (k : skey) (c : committed) : option committed :=
  match c with
  | CSingle _ e => if key_matches k e then Some c else None
  | CTxn es tx n =>
      match filter (fun oe => key_matches k (snd oe)) es with
      | [] => None
      | es' => Some (CTxn es' tx n)
      end
  end.

Definition last_pos (k : skey) (c : committed) : option N :=
  match rev (committed_events c) with
  | e :: _ => Some (key_pos k e)
  | [] => None
  end.

Fixpoint filter_map {A B} (f : A -> option B) (l : list A) : list B :=
  match l with [] => [] | x :: r => match f x with Some y => y :: filter_map f r | None => filter_map f r end end.

Inductive batch_result :=
  | BDone                                     (* Ok(None) *)
  | BBatch (cs : list committed) (it : biter) (* Ok(Some(commits)) and the iterator afterwards *)
  | BError.

(* BucketIter::next_batch; [fuel] bounds the loop (segments to cross + empty batches) *)
Fixpoint next_batch (s : store) (k : skey) (d : dir) (limit : nat) (it : biter) (fuel : nat) : batch_result :=
  match fuel with
  | O => BError
  | S f =>
      match b_seg it with
      | None => BDone
      | Some si =>
          let remaining := skipn (si_idx si) (si_offs si) in
          match remaining with
          | [] =>
              (* segment_iter.next returned None *)
              if b_live it && negb (b_next it) then BDone
              else
                (* rollover *)
                match d, si_seg si with
                | Rev, O => BDone
                | _, cur =>
                    let next_seg := match d with Fwd => S cur | Rev => (cur - 1)%nat end in
                    next_batch s k d limit (new_inner s k (b_last it) d next_seg (b_next it)) f
                end
          | _ =>
              match seg_next (seg_recs s (si_seg si)) remaining limit (length remaining) with
              | inr _ => BError
              | inl (cs, n) =>
                  let cs' := filter_map (filter_commit k) cs in
                  let lastp := match rev cs' with
                               | c :: _ => match last_pos k c with
                                           | Some v => match d with Fwd => v + 1 | Rev => v - 1 end
                                           | None => b_last it
                                           end
                               | [] => b_last it
                               end in
                  let it' := mkBI (Some (mkSI (si_seg si) (si_offs si) (si_idx si + n))) lastp (b_live it) (b_next it) in
                  match cs' with
                  | [] => next_batch s k d limit it' f
                  | _ => BBatch cs' it'
                  end
              end
          end
      end
  end.

(* a whole scan: call next_batch(limit) until it returns None *)
Fixpoint scan_loop (s : store) (k : skey) (d : dir) (limit : nat) (it : biter) (fuel : nat)
  : option (list (list committed)) :=     (* None = error *)
  match fuel with
  | O => None
  | S f =>
      match next_batch s k d limit it (S (S (nsegs s + length (concat (map (fun g => s_recs g) (sealed s))) + length (s_recs (live s))))) with
      | BDone => Some []
      | BError => None
      | BBatch cs it' =>
          match scan_loop s k d limit it' f with
          | Some r => Some (cs :: r)
          | None => None
          end
      end
  end.

Definition scan (s : store) (k : skey) (from : N) (d : dir) (limit : nat) : option (list (list committed)) :=
  if Nat.eqb limit 0 then Some []
  else scan_loop s k d limit (iter_new s k from d)
                 (S (length (concat (map (fun g => s_recs g) (sealed s))) + length (s_recs (live s)))).

Definition scan_events (r : list (list committed)) : list event :=
  concat (map committed_events (concat r)).
