(** Model of crates/sierradb-topology/src/lib.rs: distribute_partition.
    Definitions only (no proofs) so the model keeps running when a proof breaks.

    Integers: partition_hash, num_partitions are u16, replication_factor is u8.
    The model is parameterised by how `current + jump` is evaluated:
      - [Wide]    : the addition is done in a wider type (repaired code, u32)
      - [Wrap16]  : u16 addition that wraps (release build of the original code)
      - [Panic16] : u16 addition that panics on overflow (debug build of the original code)
    The harness tells the driver which arithmetic the build under test uses
    only through what it observes; the model of the *current* code is [Wide]. *)
From Coq Require Import NArith List Bool.
Import ListNotations.
Open Scope N_scope.

Inductive arith := Wide | Wrap16 | Panic16.

Definition MAX_RF : N := 12.

Definition jump (n : N) : N :=
  if n <=? 2 then 1
  else let c := n / 2 + 1 in
       if N.even n && N.even c then c + 1 else c.

(* None = panic *)
Definition add16 (a : arith) (x y : N) : option N :=
  match a with
  | Wide => Some (x + y)
  | Wrap16 => Some ((x + y) mod 65536)
  | Panic16 => if x + y <? 65536 then Some (x + y) else None
  end.

(* the `for _ in 1..actual` loop; [acc] is the ArrayVec in order *)
Fixpoint walk (a : arith) (fuel : nat) (n j cur : N) (acc : list N) : option (list N) :=
  match fuel with
  | O => Some acc
  | S f =>
      match add16 a cur j with
      | None => None
      | Some s =>
          let c := s mod n in
          if existsb (N.eqb c) acc || (MAX_RF <=? N.of_nat (length acc))
          then Some acc
          else walk a f n j c (acc ++ [c])
      end
  end.

Definition distribute_gen (a : arith) (h n rf : N) : option (list N) :=
  if n =? 0 then Some [] else
  let actual := N.min rf (N.min n MAX_RF) in
  if actual =? 0 then Some [] else
  let p := h mod n in
  if 1 <? actual then walk a (N.to_nat (actual - 1)) n (jump n) p [p] else Some [p].

(** the code as it is now (after `fix:` widening the addition) *)
Definition distribute (h n rf : N) : list N :=
  match distribute_gen Wide h n rf with Some l => l | None => [] end.

(** closed form used by the specification *)
Definition distribute_spec (h n rf : N) : list N :=
  map (fun i => (h mod n + N.of_nat i * jump n) mod n)
      (seq 0 (N.to_nat (N.min rf (N.min n MAX_RF)))).
