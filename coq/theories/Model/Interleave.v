(** Interleaving models of the writer pool and its readers (C15, C16).

    Code: crates/sierradb/src/writer_thread_pool.rs
      - WriterThreadPool::append_events / Database::append_events: [bucket = partition_id % total_buckets],
        [bucket_id_to_thread_id] picks the worker, the request goes into that worker's mpsc FIFO;
      - Worker::run: ONE thread per worker pops requests in FIFO order; handle_append_events runs
        validate_event_versions + (rollover) + handle_write on the bucket's WriterSet (Model/Store.v [append]);
      - WriterSet::sync ([publish]) and WriterSet::rollover: sync; new writer/reader; under the index
        write lock: publish pending, swap the live indexes for empty ones, store index_segment_id,
        install the sealed indexes and the new segment in the reader pool (ReaderThreadPool::
        add_bucket_segment = one job per reader thread, rayon broadcast); release the lock.
        (The code before the C15 fix released the lock BEFORE the reader-pool installation:
        mode [InstallAfterRelease].)
      - database.rs get_stream_version / get_partition_sequence / read_transaction: first the live
        index under the read lock, then (a task on some reader-pool thread) the closed indexes that
        thread holds, newest first.
    The bucket's state is Model/Store.v's [store]; its sequential operations are reused unchanged.
    Definitions only; proofs are in Proofs/InterleaveProofs.v. *)
From Coq Require Import NArith List Bool Arith.
From SV Require Export Model.Store.
Import ListNotations.
Open Scope N_scope.

(** * Routing (C16) *)
Definition bucket_of (nb pid : N) : N := pid mod nb.

(** bucket_id_to_thread_id, by the bucket's position in bucket_ids (u16 arithmetic never wraps:
    (per+1)*extra <= nb <= 65535) *)
Definition thread_of (nb nt pos : N) : N :=
  if nt =? 1 then 0 else
  let per := nb / nt in
  let extra := nb mod nt in
  if pos <? (per + 1) * extra then pos / (per + 1)
  else extra + (pos - (per + 1) * extra) / per.

(** the positions routed to thread t form the interval [fib_lo, fib_lo + fib_size) *)
Definition fib_size (nb nt t : N) : N := nb / nt + (if t <? nb mod nt then 1 else 0).
Definition fib_lo (nb nt t : N) : N :=
  if t <? nb mod nt then t * (nb / nt + 1)
  else (nb mod nt) * (nb / nt + 1) + (t - nb mod nt) * (nb / nt).

(** * Concurrent appenders (C16) *)
Record request := mkReq { rq_id : nat; rq_txn : txn; rq_big : bool }.

Record done := mkDone { d_req : request; d_roll : bool; d_res : list event + reject }.

Record csys := mkSys {
  cs_queues : list (list request);   (* one FIFO per worker thread *)
  cs_stores : list store;            (* one store per bucket *)
  cs_sent : list request;            (* ghost: all requests in the order they entered a FIFO *)
  cs_done : list done                (* ghost: handled requests with their results, in handling order *)
}.

Definition upd {A} (l : list A) (i : nat) (x : A) : list A :=
  firstn i l ++ match skipn i l with [] => [] | _ :: r => x :: r end.

Definition rq_bucket (nb : N) (rq : request) : nat := N.to_nat (bucket_of nb (t_pid (rq_txn rq))).
Definition bucket_thread (nb nt : N) (b : nat) : nat := N.to_nat (thread_of nb nt (N.of_nat b)).

Inductive cstep :=
  | CSend (rq : request)                 (* a client's request enters its worker's FIFO *)
  | CWork (th : nat) (roll : bool)       (* worker th handles the head of its FIFO; roll = size-based rollover decision *)
  | CSync (b : nat).                     (* sync of bucket b (sync_if_necessary / FlushPoll) *)

Definition csys_init (nb nt : N) : csys :=
  mkSys (repeat [] (N.to_nat nt)) (repeat store_init (N.to_nat nb)) [] [].

Definition csys_step (nb nt : N) (c : csys) (st : cstep) : csys :=
  match st with
  | CSend rq =>
      let th := bucket_thread nb nt (rq_bucket nb rq) in
      mkSys (upd (cs_queues c) th (nth th (cs_queues c) [] ++ [rq])) (cs_stores c) (cs_sent c ++ [rq]) (cs_done c)
  | CWork th roll =>
      match nth th (cs_queues c) [] with
      | [] => c
      | rq :: rest =>
          let b := rq_bucket nb rq in
          let (s', r) := append (nth b (cs_stores c) store_init) (rq_txn rq) roll (rq_big rq) in
          mkSys (upd (cs_queues c) th rest) (upd (cs_stores c) b s') (cs_sent c) (cs_done c ++ [mkDone rq roll r])
      end
  | CSync b => mkSys (cs_queues c) (upd (cs_stores c) b (publish (nth b (cs_stores c) store_init))) (cs_sent c) (cs_done c)
  end.

Definition csys_run (nb nt : N) (steps : list cstep) : csys := fold_left (csys_step nb nt) steps (csys_init nb nt).

(** the serial reference: fold [spec_append] over a request list *)
Fixpoint spec_serial (l : alog) (reqs : list request) : alog * list (list event + reject) :=
  match reqs with
  | [] => (l, [])
  | rq :: rest =>
      let (l1, r) := spec_append l (rq_txn rq) (negb (rq_big rq)) in
      let (l2, rs) := spec_serial l1 rest in (l2, r :: rs)
  end.

Definition of_bucket (nb : N) (b : nat) (rq : request) : bool := Nat.eqb (rq_bucket nb rq) b.
Definition sent_to (nb : N) (b : nat) (c : csys) : list request := filter (of_bucket nb b) (cs_sent c).
Definition done_of (nb : N) (b : nat) (c : csys) : list done := filter (fun d => of_bucket nb b (d_req d)) (cs_done c).
Definition queued_of (nb nt : N) (b : nat) (c : csys) : list request :=
  filter (of_bucket nb b) (nth (bucket_thread nb nt b) (cs_queues c) []).

(** the expectation a transaction puts on a stream: that of its first event on the stream *)
Definition first_expect (t : txn) (sid : N) : option expect :=
  match find (fun n => n_sid n =? sid) (t_events t) with Some n => Some (n_expect n) | None => None end.

(** * A writer with concurrent readers (C15) *)
Inductive rmode := InstallUnderLock | InstallAfterRelease.

Record rsys := mkRsys {
  rs_store : store;          (* the bucket *)
  rs_inst : list nat;        (* per reader-pool thread: how many sealed segments' closed indexes it holds *)
  rs_todo : list nat         (* reader-pool threads that have not yet run the installation job of the rollover in progress *)
}.

Inductive wstep :=
  | WAppend (t : txn) (big : bool)   (* handle_write: records + pending index entries *)
  | WSync                            (* sync: fsync, publish pending under the write lock *)
  | WRoll                            (* rollover up to the index swap and the store of index_segment_id *)
  | WInstall (th : nat).             (* reader-pool thread th runs the installation job *)

Definition rsys_init (nr : nat) : rsys := mkRsys store_init (repeat 0%nat nr) [].

Definition is_nil {A} (l : list A) : bool := match l with [] => true | _ => false end.

(** the writer thread is inside [rollover] (blocked in the broadcast) while rs_todo is not empty *)
Definition rsys_step (nr : nat) (s : rsys) (st : wstep) : rsys :=
  match st with
  | WAppend t big => if is_nil (rs_todo s) then mkRsys (fst (append (rs_store s) t false big)) (rs_inst s) [] else s
  | WSync => if is_nil (rs_todo s) then mkRsys (publish (rs_store s)) (rs_inst s) [] else s
  | WRoll => if is_nil (rs_todo s) then mkRsys (rollover (rs_store s)) (rs_inst s) (seq 0 nr) else s
  | WInstall th =>
      if existsb (Nat.eqb th) (rs_todo s)
      then mkRsys (rs_store s) (upd (rs_inst s) th (length (sealed (rs_store s))))
                  (filter (fun x => negb (Nat.eqb th x)) (rs_todo s))
      else s
  end.

Definition rsys_run (nr : nat) (steps : list wstep) : rsys := fold_left (rsys_step nr) steps (rsys_init nr).

(** can a reader take the index read lock? *)
Definition rs_locked (m : rmode) (s : rsys) : bool :=
  match m with InstallUnderLock => negb (is_nil (rs_todo s)) | InstallAfterRelease => false end.

(** what reader-pool thread th holds of the bucket: the closed indexes of the first n sealed segments *)
Definition sealed_view (s : store) (n : nat) : store := mkStore (firstn n (sealed s)) empty_seg [] [] 0 0.
Definition rs_view (s : rsys) (th : nat) : store := sealed_view (rs_store s) (nth th (rs_inst s) 0%nat).

(** A read = a live-index lookup in state [a] (under the read lock) followed, on a miss, by a
    closed-index lookup by a reader-pool thread whose view, at that later time, is [v]. *)
Definition read_version (a v : store) (sid : N) : option (N * N) :=
  match sidx_get (s_idx (live a)) sid with
  | Some k => Some (k_pk k, k_max k)
  | None => get_stream_version v sid
  end.

Definition read_sequence (a v : store) (pid : N) : option N :=
  match pidx_get (s_idx (live a)) pid with
  | Some k => Some (k_max k)
  | None => get_partition_sequence v pid
  end.

(** the records a reader-pool reader of segment k can read in state b *)
Definition seg_recs (b : store) (k : nat) : list rec :=
  if (k <? length (sealed b))%nat then s_recs (nth k (sealed b) empty_seg)
  else if (k =? length (sealed b))%nat then firstn (synced b) (s_recs (live b)) else [].

(** read_transaction/read_event: a live hit yields (index_segment_id, offset), read later from
    that segment by a reader-pool thread (state b); a miss goes to the thread's closed indexes *)
Definition read_event2 (a b v : store) (id : N) : option event :=
  match eidx_get (s_idx (live a)) id with
  | Some off =>
      match fst (read_committed (seg_recs b (length (sealed a))) off) with
      | Some c => hd_error (committed_events c)
      | None => None
      end
  | None => read_event v id
  end.

(** witness schedule for the code before the fix *)
Definition c15_t1 : txn := mkTxn 7 1 100 true [mkNew 1 10 XEmpty true] XAny.
Definition c15_window : list wstep := [WAppend c15_t1 false; WSync; WRoll].
