(** Model of the subscription machinery of sierradb-cluster (definitions only):
      crates/sierradb-cluster/src/subscription.rs   SubscriptionMatcher::has_seen / update_state (103-292),
                                                     Subscription::run / send_record (402-461),
                                                     read_history and the four history readers (463-742)
      crates/sierradb-cluster/src/confirmation/actor.rs  UpdateConfirmationWithBroadcast (161-262): the
                                                     broadcast of the events between next_broadcast_seq and
                                                     the watermark
    as they are after the two `fix:` commits 6d8d4bd (labelled break in read_stream_history) and de080bc
    (the watermark is checked for every event of a history batch).  [c_brk = false] is the stream reader
    before 6d8d4bd.

    A transition system: one subscription (the one under observation), an optional second subscriber
    ([sb_bg], it only makes broadcasts happen before the observed one subscribes), per partition the log,
    the confirmed watermark W (events with sequence < W are confirmed) and next_broadcast_seq.
    Everything is [nat]; partitions are 0..c_np-1, stream [s] lives in partition [s / c_spp].

    What is modelled of the parts the code takes from elsewhere:
    - the storage iterators (C03/C04's subject) by what they yield: the events of the partition (resp. of
      the stream) from the start position up to the END OF THE SNAPSHOT taken when the iterator was created
      (bucket/iter.rs clones the live index offsets), in batches of arbitrary size ([OHistBatch k n]: the
      size is an input, every theorem holds for every batching); [OExtend] lets an iterator see up to the
      current end (segment rollover re-snapshots; also covers the lazily created stream iterators);
    - tokio's broadcast channel: a bounded queue per receiver; when more than [c_cap] values are waiting the
      oldest is dropped and the next receive reports Lagged(number dropped);
    - the watermark only through [OAdvance] (any advance up to the end of the log: C08's subject);
    - the acknowledgement watch channel: [OAck c] for a cursor that was delivered. *)
From Coq Require Import List Bool Arith PeanoNat.
Import ListNotations.

Record sevent := mkSev { e_pid : nat; e_seq : nat; e_sid : nat; e_ver : nat }.

Inductive hkey := KP (p : nat) | KS (s : nat).
Definition hkey_eqb (a b : hkey) : bool :=
  match a, b with KP x, KP y => x =? y | KS x, KS y => x =? y | _, _ => false end.

Record sbcfg := mkSbCfg { c_np : nat; c_spp : nat; c_cap : nat; c_brk : bool }.
Definition spid (c : sbcfg) (s : nat) : nat := s / c_spp c.

(* ---- association lists (HashMap<PartitionId,u64> / HashMap<(Uuid,StreamId),u64>) *)
Fixpoint alookup (k : nat) (m : list (nat * nat)) : option nat :=
  match m with [] => None | (k', v) :: r => if k =? k' then Some v else alookup k r end.
Fixpoint ainsert (k v : nat) (m : list (nat * nat)) : list (nat * nat) :=
  match m with [] => [(k, v)] | (k', v') :: r => if k =? k' then (k, v) :: r else (k', v') :: ainsert k v r end.
Definition memb (x : nat) (l : list nat) : bool := existsb (Nat.eqb x) l.

(* FromSequences / FromVersions (the latter has no fallback: [fb = None]) *)
Inductive fromspec := FLatest | FMap (m : list (nat * nat)) (fb : option nat) | FAll (n : nat).

Inductive matcher :=
| MAllP (fs : fromspec)
| MPart (p : nat) (from : option nat)
| MParts (ps : list nat) (fs : fromspec)
| MStream (s : nat) (from : option nat)
| MStreams (ss : list nat) (fs : fromspec).

Definition opt_lt (x : nat) (o : option nat) : bool := match o with Some n => x <? n | None => false end.

(* has_seen, subscription.rs:103-199 *)
Definition fs_seen (fs : fromspec) (k x : nat) : bool :=
  match fs with
  | FLatest => false
  | FMap m fb => opt_lt x (match alookup k m with Some n => Some n | None => fb end)
  | FAll n => x <? n
  end.
Definition has_seen (m : matcher) (e : sevent) : bool :=
  match m with
  | MAllP fs => fs_seen fs (e_pid e) (e_seq e)
  | MPart p from => if negb (e_pid e =? p) then true else opt_lt (e_seq e) from
  | MParts ps fs => if negb (memb (e_pid e) ps) then true else fs_seen fs (e_pid e) (e_seq e)
  | MStream s from => if negb (e_sid e =? s) then true else opt_lt (e_ver e) from
  | MStreams ss fs => if negb (memb (e_sid e) ss) then true else fs_seen fs (e_sid e) (e_ver e)
  end.

(* update_state / update_from_sequences, subscription.rs:201-292 *)
Definition fs_update (fs : fromspec) (k x : nat) : fromspec :=
  match fs with
  | FLatest => FMap [(k, S x)] None
  | FMap m fb => FMap (ainsert k (S x) m) fb
  | FAll _ => FMap [(k, S x)] None
  end.
Definition update_state (m : matcher) (e : sevent) : matcher :=
  match m with
  | MAllP fs => MAllP (fs_update fs (e_pid e) (e_seq e))
  | MPart p from => if e_pid e =? p then MPart p (Some (S (e_seq e))) else m
  | MParts ps fs => if memb (e_pid e) ps then MParts ps (fs_update fs (e_pid e) (e_seq e)) else m
  | MStream s from => if e_sid e =? s then MStream s (Some (S (e_ver e))) else m
  | MStreams ss fs => if memb (e_sid e) ss then MStreams ss (fs_update fs (e_sid e) (e_ver e)) else m
  end.

(* the history readers write the next position straight into the map entry / the Option they iterate
   over (`*from_sequence = sequence + 1`), without the membership test of update_state *)
Definition fs_set (fs : fromspec) (k x : nat) : fromspec :=
  match fs with FMap m fb => FMap (ainsert k (S x) m) fb | _ => fs end.
Definition hist_update (m : matcher) (k : hkey) (x : nat) : matcher :=
  match m, k with
  | MAllP fs, KP p => MAllP (fs_set fs p x)
  | MPart p from, KP _ => MPart p (Some (S x))
  | MParts ps fs, KP p => MParts ps (fs_set fs p x)
  | MStream s from, KS _ => MStream s (Some (S x))
  | MStreams ss fs, KS s => MStreams ss (fs_set fs s x)
  | _, _ => m
  end.

(* read_partitions_history / read_streams_history: Latest stays; a fallback or AllPartitions(n) /
   AllStreams(n) is replaced by an explicit map over the ids *)
Definition fs_hydrate (ids : list nat) (fs : fromspec) : fromspec :=
  match fs with
  | FLatest => FLatest
  | FMap m (Some fb) => FMap (map (fun k => (k, match alookup k m with Some n => n | None => fb end)) ids) None
  | FMap m None => fs
  | FAll n => FMap (map (fun k => (k, n)) ids) None
  end.

Record hiter := mkIt { h_key : hkey; h_pos : nat; h_end : nat }.
Inductive phase := PHist (pend : list hiter) (cur : option (hkey * nat)) | PLive.
Record deliv := mkD { d_ev : sevent; d_wm : nat; d_cur : nat; d_ack : option nat }.

Record subst := mkSub {
  u_m0 : matcher;            (* ghost: the matcher given to Subscribe *)
  u_m : matcher;
  u_win : nat;
  u_cur : nat;               (* cursor = number of records sent *)
  u_ack : option nat;        (* last value of the acknowledgement watch *)
  u_ph : phase;
  u_hold : option sevent;    (* live: record received from the channel, waiting for the window *)
  u_q : list sevent;         (* the receiver's part of the broadcast channel, oldest first *)
  u_lagn : nat;              (* values dropped since the last receive (> 0: next receive is Lagged) *)
  u_out : list deliv;        (* ghost: records sent, newest first *)
  u_lags : list nat          (* ghost: Lagged(n) results, newest first *)
}.

Record sbstate := mkSb {
  sb_log : nat -> list sevent;
  sb_wm : nat -> nat;
  sb_nb : nat -> nat;        (* next_broadcast_seq *)
  sb_bg : bool;
  sb_sub : option subst
}.

Definition fupd {A} (f : nat -> A) (k : nat) (v : A) : nat -> A := fun x => if x =? k then v else f x.

Definition sb_init (bg : bool) : sbstate := mkSb (fun _ => []) (fun _ => 0) (fun _ => 0) bg None.

Definition ev_in_stream (s : nat) (e : sevent) : bool := e_sid e =? s.
Definition klog (c : sbcfg) (st : sbstate) (k : hkey) : list sevent :=
  match k with
  | KP p => sb_log st p
  | KS s => filter (ev_in_stream s) (sb_log st (spid c s))
  end.
Definition kpos (k : hkey) (e : sevent) : nat := match k with KP _ => e_seq e | KS _ => e_ver e end.

(* ---- setters *)
Definition set_sub (st : sbstate) (u : subst) : sbstate :=
  mkSb (sb_log st) (sb_wm st) (sb_nb st) (sb_bg st) (Some u).
Definition u_set_ph (u : subst) (ph : phase) : subst :=
  mkSub (u_m0 u) (u_m u) (u_win u) (u_cur u) (u_ack u) ph (u_hold u) (u_q u) (u_lagn u) (u_out u) (u_lags u).
Definition u_set_m_ph (u : subst) (m : matcher) (ph : phase) : subst :=
  mkSub (u_m0 u) m (u_win u) (u_cur u) (u_ack u) ph (u_hold u) (u_q u) (u_lagn u) (u_out u) (u_lags u).
Definition u_set_ack (u : subst) (a : option nat) : subst :=
  mkSub (u_m0 u) (u_m u) (u_win u) (u_cur u) a (u_ph u) (u_hold u) (u_q u) (u_lagn u) (u_out u) (u_lags u).
Definition u_set_q (u : subst) (h : option sevent) (q : list sevent) (lagn : nat) : subst :=
  mkSub (u_m0 u) (u_m u) (u_win u) (u_cur u) (u_ack u) (u_ph u) h q lagn (u_out u) (u_lags u).

(* send_record's window test, subscription.rs:441-450 *)
Definition win_open (u : subst) : bool :=
  match u_ack u with Some a => u_cur u - a <=? u_win u | None => u_cur u + 1 <=? u_win u end.

(* the record goes out: cursor + 1; the ghost remembers the watermark of its partition at that moment *)
Definition deliver (st : sbstate) (u : subst) (e : sevent) (m' : matcher) (ph : phase) (h : option sevent) : subst :=
  mkSub (u_m0 u) m' (u_win u) (S (u_cur u)) (u_ack u) ph h (u_q u) (u_lagn u)
        (mkD e (sb_wm st (e_pid e)) (u_cur u) (u_ack u) :: u_out u) (u_lags u).

(* ---- start of a history read (read_history, subscription.rs:463-505) *)
Definition owned (c : sbcfg) : list nat := seq 0 (c_np c).

Definition mk_iter (c : sbcfg) (st : sbstate) (k : hkey) (from : nat) : hiter :=
  mkIt k from (length (klog c st k)).

Definition fs_iters (c : sbcfg) (st : sbstate) (mk : nat -> hkey) (keep : nat -> bool) (fs : fromspec) : list hiter :=
  match fs with
  | FMap m None => map (fun kv => mk_iter c st (mk (fst kv)) (snd kv)) (filter (fun kv => keep (fst kv)) m)
  | _ => []
  end.

Definition start_history (c : sbcfg) (st : sbstate) (m : matcher) : matcher * list hiter :=
  match m with
  | MAllP fs => let fs' := fs_hydrate (owned c) fs in
                (MAllP fs', fs_iters c st KP (fun p => memb p (owned c)) fs')
  | MPart p (Some n) => (m, if n <? sb_wm st p then [mk_iter c st (KP p) n] else [])
  | MPart p None => (m, [])
  | MParts ps fs => let fs' := fs_hydrate ps fs in (MParts ps fs', fs_iters c st KP (fun p => memb p ps) fs')
  | MStream s (Some n) => (m, [mk_iter c st (KS s) n])
  | MStream s None => (m, [])
  | MStreams ss fs => let fs' := fs_hydrate ss fs in (MStreams ss fs', fs_iters c st KS (fun _ => true) fs')
  end.

Definition mk_phase (pend : list hiter) (cur : option (hkey * nat)) : phase :=
  match pend with [] => PLive | _ => PHist pend cur end.

Definition enter_history (c : sbcfg) (st : sbstate) (u : subst) : subst :=
  let (m', pend) := start_history c st (u_m u) in u_set_m_ph u m' (mk_phase pend None).

(* ---- pending iterators *)
Fixpoint find_it (k : hkey) (l : list hiter) : option hiter :=
  match l with [] => None | it :: r => if hkey_eqb (h_key it) k then Some it else find_it k r end.
Fixpoint remove_it (k : hkey) (l : list hiter) : list hiter :=
  match l with [] => [] | it :: r => if hkey_eqb (h_key it) k then remove_it k r else it :: remove_it k r end.
Fixpoint replace_it (it' : hiter) (l : list hiter) : list hiter :=
  match l with [] => [] | it :: r => if hkey_eqb (h_key it) (h_key it') then it' :: replace_it it' r else it :: replace_it it' r end.
Definition it_done (it : hiter) : bool := h_end it <=? h_pos it.

(* ---- the broadcast channel *)
Definition q_push (c : sbcfg) (u : subst) (e : sevent) : subst :=
  let q := u_q u ++ [e] in
  if c_cap c <? length q then u_set_q u (u_hold u) (tl q) (S (u_lagn u)) else u_set_q u (u_hold u) q (u_lagn u).

Definition slice {A} (l : list A) (a b : nat) : list A := firstn (b - a) (skipn a l).

(* ---- operations *)
Inductive sbop :=
| OAppend (p : nat) (sids : list nat)     (* a transaction is written to partition p (not yet confirmed) *)
| OAdvance (p : nat) (w : nat)            (* the confirmed watermark of p advances to min w (end of the log) *)
| OBcast (p : nat)                        (* the confirmation actor broadcasts next_broadcast_seq .. W-1 *)
| OSubscribe (m : matcher) (w : nat)
| OAck (c : nat)
| OHistBatch (k : hkey) (n : nat)         (* history: next_batch of iterator k returned n events *)
| OHistEvent                              (* history: next event of the current batch *)
| OHistDrop (k : hkey)                    (* history: next_batch of iterator k returned None *)
| OExtend (k : hkey)                      (* iterator k now sees the log up to its current end *)
| ORecv                                   (* live: broadcast_rx.recv() *)
| OSend.                                  (* live: send_record of the received record *)

Fixpoint append_evs (p : nat) (sids : list nat) (l : list sevent) : list sevent :=
  match sids with
  | [] => l
  | s :: r => append_evs p r (l ++ [mkSev p (length l) s (length (filter (ev_in_stream s) l))])
  end.

Definition sb_step (c : sbcfg) (st : sbstate) (o : sbop) : sbstate :=
  match o with
  | OAppend p sids =>
      if (p <? c_np c) && forallb (fun s => spid c s =? p) sids
      then mkSb (fupd (sb_log st) p (append_evs p sids (sb_log st p))) (sb_wm st) (sb_nb st) (sb_bg st) (sb_sub st)
      else st
  | OAdvance p w =>
      mkSb (sb_log st) (fupd (sb_wm st) p (Nat.max (sb_wm st p) (Nat.min w (length (sb_log st p))))) (sb_nb st) (sb_bg st) (sb_sub st)
  | OBcast p =>
      (* actor.rs:188-256: nothing without a receiver (send fails, next_broadcast_seq stays) *)
      let evs := slice (sb_log st p) (sb_nb st p) (sb_wm st p) in
      match sb_sub st with
      | Some u => mkSb (sb_log st) (sb_wm st) (fupd (sb_nb st) p (Nat.max (sb_nb st p) (sb_wm st p))) (sb_bg st)
                       (Some (fold_left (q_push c) evs u))
      | None => if sb_bg st
                then mkSb (sb_log st) (sb_wm st) (fupd (sb_nb st) p (Nat.max (sb_nb st p) (sb_wm st p))) (sb_bg st) None
                else st
      end
  | OSubscribe m w =>
      match sb_sub st with
      | Some _ => st
      | None => set_sub st (enter_history c st (mkSub m m w 0 None PLive None [] 0 [] []))
      end
  | OAck a =>
      match sb_sub st with
      | Some u => if a <? u_cur u then set_sub st (u_set_ack u (Some a)) else st
      | None => st
      end
  | OHistBatch k n =>
      match sb_sub st with
      | Some u =>
          match u_ph u with
          | PHist pend None =>
              match find_it k pend with
              | Some it => if it_done it then st
                           else set_sub st (u_set_ph u (PHist pend (Some (k, Nat.min (h_pos it + n) (h_end it)))))
              | None => st
              end
          | _ => st
          end
      | None => st
      end
  | OHistEvent =>
      match sb_sub st with
      | Some u =>
          match u_ph u with
          | PHist pend (Some (k, bend)) =>
              match find_it k pend with
              | Some it =>
                  if bend <=? h_pos it then set_sub st (u_set_ph u (PHist pend None))      (* batch used up *)
                  else match nth_error (klog c st k) (h_pos it) with
                       | Some e =>
                           if e_seq e <? sb_wm st (e_pid e) then
                             if win_open u
                             then set_sub st (deliver st u e (hist_update (u_m u) k (kpos k e))
                                                      (PHist (replace_it (mkIt k (S (h_pos it)) (h_end it)) pend) (Some (k, bend))) None)
                             else st                                                          (* waits for an ack *)
                           else
                             (* not confirmed: the reader of this key stops (break 'iter / iterator removed);
                                before 6d8d4bd the stream reader only left the batch *)
                             match k with
                             | KS _ => if c_brk c then set_sub st (u_set_ph u (mk_phase (remove_it k pend) None))
                                       else set_sub st (u_set_ph u (PHist (replace_it (mkIt k bend (h_end it)) pend) None))
                             | KP _ => set_sub st (u_set_ph u (mk_phase (remove_it k pend) None))
                             end
                       | None => set_sub st (u_set_ph u (mk_phase (remove_it k pend) None))
                       end
              | None => set_sub st (u_set_ph u (mk_phase pend None))
              end
          | _ => st
          end
      | None => st
      end
  | OHistDrop k =>
      match sb_sub st with
      | Some u =>
          match u_ph u with
          | PHist pend None =>
              match find_it k pend with
              | Some it => if it_done it then set_sub st (u_set_ph u (mk_phase (remove_it k pend) None)) else st
              | None => st
              end
          | _ => st
          end
      | None => st
      end
  | OExtend k =>
      match sb_sub st with
      | Some u =>
          match u_ph u with
          | PHist pend cur =>
              match find_it k pend with
              | Some it => set_sub st (u_set_ph u (PHist (replace_it (mkIt k (h_pos it) (Nat.max (h_end it) (length (klog c st k)))) pend) cur))
              | None => st
              end
          | PLive => st
          end
      | None => st
      end
  | ORecv =>
      match sb_sub st with
      | Some u =>
          match u_ph u, u_hold u with
          | PLive, None =>
              if 0 <? u_lagn u then
                (* Lagged(n): re-read the history from the matcher's positions *)
                let u1 := mkSub (u_m0 u) (u_m u) (u_win u) (u_cur u) (u_ack u) (u_ph u) None (u_q u) 0 (u_out u) (u_lagn u :: u_lags u) in
                set_sub st (enter_history c st u1)
              else match u_q u with
                   | e :: r => set_sub st (u_set_q u (if has_seen (u_m u) e then None else Some e) r 0)
                   | [] => st
                   end
          | _, _ => st
          end
      | None => st
      end
  | OSend =>
      match sb_sub st with
      | Some u =>
          match u_ph u, u_hold u with
          | PLive, Some e => if win_open u then set_sub st (deliver st u e (update_state (u_m u) e) PLive None) else st
          | _, _ => st
          end
      | None => st
      end
  end.

Definition sb_run (c : sbcfg) (bg : bool) (ops : list sbop) : sbstate := fold_left (sb_step c) ops (sb_init bg).

(* ---- what the subscription task does next on its own (None: it waits — pause point after a fetched
   batch, closed window, or empty channel).  Used by the driver to run the task "until it blocks". *)
Definition sb_next (c : sbcfg) (st : sbstate) : option sbop :=
  match sb_sub st with
  | None => None
  | Some u =>
      match u_ph u with
      | PHist pend (Some (k, bend)) =>
          match find_it k pend with
          | Some it =>
              if bend <=? h_pos it then Some OHistEvent
              else match nth_error (klog c st k) (h_pos it) with
                   | Some e => if e_seq e <? sb_wm st (e_pid e) then (if win_open u then Some OHistEvent else None) else Some OHistEvent
                   | None => Some OHistEvent
                   end
          | None => Some OHistEvent
          end
      | PHist pend None =>
          match filter it_done pend with
          | it :: _ => Some (OHistDrop (h_key it))
          | [] => None
          end
      | PLive =>
          match u_hold u with
          | Some _ => if win_open u then Some OSend else None
          | None => if (0 <? u_lagn u) then Some ORecv else match u_q u with _ :: _ => Some ORecv | [] => None end
          end
      end
  end.

Fixpoint sb_settle (c : sbcfg) (fuel : nat) (st : sbstate) : sbstate :=
  match fuel with
  | O => st
  | S f => match sb_next c st with Some o => sb_settle c f (sb_step c st o) | None => st end
  end.

(* one harness-level step = an operation followed by the task running until it blocks *)
Definition sb_do (c : sbcfg) (fuel : nat) (st : sbstate) (ops : list sbop) : sbstate :=
  sb_settle c fuel (fold_left (sb_step c) ops st).

(* a harness-level schedule: groups of operations, the task settles after each group *)
Definition sb_script (c : sbcfg) (fuel : nat) (st : sbstate) (groups : list (list sbop)) : sbstate :=
  fold_left (sb_do c fuel) groups st.

(* ---- observations *)
Definition dkey_match (k : hkey) (e : sevent) : bool :=
  match k with KP p => e_pid e =? p | KS s => e_sid e =? s end.
(* positions of key k among the delivered records, in delivery order *)
Definition dpos (k : hkey) (out : list deliv) : list nat :=
  map (fun d => kpos k (d_ev d)) (filter (fun d => dkey_match k (d_ev d)) (rev out)).

Definition is_part_kind (m : matcher) : bool :=
  match m with MAllP _ | MPart _ _ | MParts _ _ => true | _ => false end.

(* ---- vocabulary of the property statements *)
Definition fs_start (fs : fromspec) (k : nat) : option nat :=
  match fs with
  | FLatest => None
  | FMap m fb => match alookup k m with Some n => Some n | None => fb end
  | FAll n => Some n
  end.
(* the explicit start position of key k in a matcher (None: "latest", or the key is not subscribed) *)
Definition sub_start (m : matcher) (k : hkey) : option nat :=
  match m, k with
  | MAllP fs, KP p => fs_start fs p
  | MPart p' from, KP p => if p =? p' then from else None
  | MParts ps fs, KP p => if memb p ps then fs_start fs p else None
  | MStream s' from, KS s => if s =? s' then from else None
  | MStreams ss fs, KS s => if memb s ss then fs_start fs s else None
  | _, _ => None
  end.
(* partition keys for the partition kinds of subscription, stream keys for the stream kinds *)
Definition key_kind (m : matcher) (k : hkey) : bool :=
  match k with KP _ => is_part_kind m | KS _ => negb (is_part_kind m) end.
Definition kpid (c : sbcfg) (k : hkey) : nat := match k with KP p => p | KS s => spid c s end.
(* a, a+1, a+2, ... *)
Definition consecutive (l : list nat) : Prop := exists a, l = seq a (length l).
(* records sent and not yet acknowledged right after record d went out (acknowledgements are cumulative) *)
Definition unacked_after (d : deliv) : nat := match d_ack d with Some a => d_cur d - a | None => d_cur d + 1 end.

(* matchers as the ESUB / EPSUB request parsers build them: ids without duplicates, explicit stream
   positions only for subscribed streams (FromVersions has no fallback) *)
Definition fs_wf (fs : fromspec) : Prop := match fs with FMap m _ => NoDup (map fst m) | _ => True end.
Definition wf_matcher (m : matcher) : Prop :=
  match m with
  | MAllP fs => fs_wf fs
  | MParts ps fs => NoDup ps /\ fs_wf fs
  | MStreams ss fs => NoDup ss /\ fs_wf fs /\ match fs with FMap m fb => fb = None /\ incl (map fst m) ss | _ => True end
  | _ => True
  end.
Definition op_wf (o : sbop) : Prop := match o with OSubscribe m _ => wf_matcher m | _ => True end.
Definition ops_wf (ops : list sbop) : Prop := Forall op_wf ops.

(* the task has nothing left to do: live, nothing received and waiting, channel empty, not lagged *)
Definition sub_idle (u : subst) : Prop := u_ph u = PLive /\ u_hold u = None /\ u_q u = [] /\ u_lagn u = 0.

Inductive sbwait := WNone | WGate | WWindow | WLive | WBusy.
Definition sb_wait (c : sbcfg) (st : sbstate) : sbwait :=
  match sb_sub st with
  | None => WNone
  | Some u =>
      match sb_next c st with
      | Some _ => WBusy
      | None => match u_ph u with
                | PHist _ (Some _) => WWindow
                | PHist _ None => WGate
                | PLive => match u_hold u with Some _ => WWindow | None => WLive end
                end
      end
  end.
