(** Layer L2 of the storage model: sizes and cursors of one bucket's live segment (C19).

    Code modelled:
      crates/sierradb/src/writer_thread_pool.rs  Worker::handle_append_events (size estimate, the
        EventsExceedSegmentSize check, the rollover decision, set_len after a failed write and -- since the
        repair -- the second write into a new segment after SegmentFull), WriterSet::rollover (sizes only)
      crates/sierradb/src/bucket/segment.rs       EVENT_HEADER_SIZE, COMMIT_SIZE, SEGMENT_HEADER_SIZE
      crates/seglog/src/write.rs                  Writer::append (SegmentFull check), prepare_data (which
        records are compressed), set_len, RECORD_HEAD_SIZE, MIN_COMPRESSION_SIZE

    zstd is NOT modelled: the length of the stored (compressed) data of every event is an ORACLE field of
    the event ([b_st]); every theorem quantifies over all its values.  The record-level content of the
    transaction (versions, sequences, index entries) is layer L1 (Model/Store.v), where the two decisions
    taken here ("rollover", "too big") are inputs.
    Definitions only; proofs are in Proofs/ByteLayoutProofs.v. *)
From Coq Require Import NArith List Bool.
Import ListNotations.
Open Scope N_scope.

(** ** constants of the code *)
Definition RECORD_HEAD_SIZE : N := 8.          (* seglog: length + crc32c *)
Definition CONFIRMATION_HEADER_SIZE : N := 1.  (* seglog user header H = 1: the confirmation count *)
Definition EVENT_FIXED_DATA : N := 84.         (* bincode of an event's fixed fields: timestamp 8, transaction id 16,
                                                  event id 16, partition key 16, partition id 2, sequence 8, version 8,
                                                  stream id length 1, event name length 1, metadata length 4, payload length 4 *)
Definition EVENT_HEADER_SIZE : N := RECORD_HEAD_SIZE + CONFIRMATION_HEADER_SIZE + EVENT_FIXED_DATA.   (* 93 *)
Definition COMMIT_SIZE : N := RECORD_HEAD_SIZE + CONFIRMATION_HEADER_SIZE + 28.                        (* 37: timestamp, transaction id, event count *)
Definition SEGMENT_HEADER_SIZE : N := 48.
Definition MIN_COMPRESSION_SIZE : N := 128.

(** ** an event as far as sizes are concerned *)
Record bev := mkBev {
  b_var : N;    (* stream id + event name + metadata + payload lengths (what the estimate adds to EVENT_HEADER_SIZE) *)
  b_st : N      (* ORACLE: length of the stored data when the record is compressed
                   (4-byte original size + zstd output); unused otherwise *)
}.

Definition nsum (l : list N) : N := fold_right N.add 0 l.

(* bincode length of the RawEvent *)
Definition raw_len (e : bev) : N := EVENT_FIXED_DATA + b_var e.

(* seglog prepare_data: compressed iff compression is enabled and the data has at least MIN_COMPRESSION_SIZE bytes *)
Definition compressed (comp : bool) (e : bev) : bool := comp && (MIN_COMPRESSION_SIZE <=? raw_len e).
Definition data_len (comp : bool) (e : bev) : N := if compressed comp e then b_st e else raw_len e.
(* total_record_len = RECORD_HEAD_SIZE + H + final_data.len() *)
Definition rec_len (comp : bool) (e : bev) : N := RECORD_HEAD_SIZE + CONFIRMATION_HEADER_SIZE + data_len comp e.

(* a transaction of one event carries the single-event flag and has no commit record *)
Definition single (evs : list bev) : bool := match evs with [_] => true | _ => false end.

(* the records the transaction writes, in order *)
Definition txn_lens (comp : bool) (evs : list bev) : list N :=
  map (rec_len comp) evs ++ (if single evs then [] else [COMMIT_SIZE]).
(* what the transaction occupies on disk *)
Definition actual (comp : bool) (evs : list bev) : N := nsum (txn_lens comp evs).

(* handle_append_events' events_size: from UNCOMPRESSED lengths *)
Definition estimate (evs : list bev) : N :=
  nsum (map (fun e => EVENT_HEADER_SIZE + b_var e) evs) + (if single evs then 0 else COMMIT_SIZE).

(** ** the live segment *)
Record bstate := mkBL {
  bl_size : N;            (* segment_size *)
  bl_comp : bool;         (* compression enabled *)
  bl_sealed : list N;     (* final write offsets of the sealed segments, oldest first *)
  bl_wo : N               (* write_offset of the live segment *)
}.
Definition bl_init (size : N) (comp : bool) : bstate := mkBL size comp [] SEGMENT_HEADER_SIZE.
Definition bl_with_wo (s : bstate) (wo : N) : bstate := mkBL (bl_size s) (bl_comp s) (bl_sealed s) wo.
(* WriterSet::rollover: the live segment is sealed at its write offset, the new one starts after its header *)
Definition bl_rollover (s : bstate) : bstate :=
  mkBL (bl_size s) (bl_comp s) (bl_sealed s ++ [bl_wo s]) SEGMENT_HEADER_SIZE.

(* seglog Writer::append for consecutive records: [inl (offsets, final write offset)], or [inr wo] = SegmentFull
   with the write offset reached by the records that did fit *)
Fixpoint write_recs (size wo : N) (lens : list N) (acc : list N) : (list N * N) + N :=
  match lens with
  | [] => inl (rev acc, wo)
  | r :: rest => if size <? wo + r then inr wo else write_recs size (wo + r) rest (wo :: acc)
  end.

(* seglog Writer::set_len: no-op at or beyond the write offset, otherwise the write offset moves back *)
Definition bl_set_len (wo off : N) : N := if wo <=? off then wo else off.

Inductive bres :=
  | BOk (rolled : N) (offs : list N)    (* rollovers during this append, offsets of the event records *)
  | BTooBig                             (* EventsExceedSegmentSize *)
  | BFull.                              (* Writer(SegmentFull) *)

(* handle_write + the set_len that follows a failure: the write starts at [bl_wo s] *)
Definition bl_write (s : bstate) (evs : list bev) : bstate * option (list N) :=
  match write_recs (bl_size s) (bl_wo s) (txn_lens (bl_comp s) evs) [] with
  | inl (offs, wo') => (bl_with_wo s wo', Some (firstn (length evs) offs))
  | inr wo' => (bl_with_wo s (bl_set_len wo' (bl_wo s)), None)
  end.

(** the code BEFORE the repair (kept for the refutation witnesses) *)
Definition bl_append_v0 (s : bstate) (evs : list bev) : bstate * bres :=
  let est := estimate evs in
  if bl_size s <? est + SEGMENT_HEADER_SIZE then (s, BTooBig) else
  let roll := bl_size s <? bl_wo s + est in
  let s1 := if roll then bl_rollover s else s in
  match bl_write s1 evs with
  | (s2, Some offs) => (s2, BOk (if roll then 1 else 0) offs)
  | (s2, None) => (s2, BFull)
  end.

(** the code as it is: after SegmentFull in a segment that is not empty, roll over and write once more *)
Definition bl_append (s : bstate) (evs : list bev) : bstate * bres :=
  let est := estimate evs in
  if bl_size s <? est + SEGMENT_HEADER_SIZE then (s, BTooBig) else
  let roll := bl_size s <? bl_wo s + est in
  let s1 := if roll then bl_rollover s else s in
  match bl_write s1 evs with
  | (s2, Some offs) => (s2, BOk (if roll then 1 else 0) offs)
  | (s2, None) =>
      if SEGMENT_HEADER_SIZE <? bl_wo s1 then
        match bl_write (bl_rollover s2) evs with
        | (s3, Some offs) => (s3, BOk (if roll then 2 else 1) offs)
        | (s3, None) => (s3, BFull)
        end
      else (s2, BFull)
  end.

(** retrying: the same transaction again, up to [n] more times, until it is accepted *)
Definition is_ok (r : bres) : bool := match r with BOk _ _ => true | _ => false end.
Fixpoint bl_attempts (app : bstate -> list bev -> bstate * bres) (n : nat) (s : bstate) (evs : list bev)
  : bstate * list bres :=
  let (s1, r) := app s evs in
  match n with
  | O => (s1, [r])
  | S n' => if is_ok r then (s1, [r]) else let (s2, rs) := bl_attempts app n' s1 evs in (s2, r :: rs)
  end.

(** histories of appends *)
Definition bl_run (s : bstate) (txns : list (list bev)) : bstate := fold_left (fun s t => fst (bl_append s t)) txns s.

(** ** the property's vocabulary *)
(* the stored size fits an empty segment *)
Definition fits (size : N) (comp : bool) (evs : list bev) : Prop := SEGMENT_HEADER_SIZE + actual comp evs <= size.
Definition fitsb (size : N) (comp : bool) (evs : list bev) : bool := SEGMENT_HEADER_SIZE + actual comp evs <=? size.
(* the known finding: the UNCOMPRESSED estimate does not fit an empty segment (the code refuses the
   transaction without looking at its stored size) *)
Definition known_c19 (size : N) (evs : list bev) : Prop := size < estimate evs + SEGMENT_HEADER_SIZE.
Definition known_c19b (size : N) (evs : list bev) : bool := size <? estimate evs + SEGMENT_HEADER_SIZE.
Definition bl_wf (s : bstate) : Prop := SEGMENT_HEADER_SIZE <= bl_wo s /\ bl_wo s <= bl_size s.
Definition accepted (r : bres) : Prop := exists k offs, r = BOk k offs.
