(** Model of the RESP request handlers of one node (crates/sierradb-server/src/request/*.rs after the
    `fix:` commit c8fbef5) on top of the abstract event store [Model/StoreSpec.v] - the SAME specification the
    storage engine is proved against - and the confirmed watermark of each partition.

      - [rs_handle]   Command::handle / HandleRequest::handle_request for EAPPEND, EMAPPEND, EGET, ESCAN,
                      EPSCAN, ESVER, EPSEQ, PING and for requests outside the command grammar
      - [rs_recon]    the reverse reconstruction of the per-event stream versions in the EMAPPEND reply
                      (emappend.rs:270-287) with the `u64` subtraction in three variants: the repaired code
                      (saturating_sub), the original `-= 1` in a debug build (overflow check = panic) and in a
                      release build (wraps)
      - [rs_stream_scan] / [rs_partition_scan] / [rs_stream_version] / [rs_read_event]
                      what ReadStream / ReadPartition / GetStreamVersion / ReadEvent of a single node return
                      (cluster/src/read.rs; their loops are modelled and proved in Model/ClusterRead.v (C07); here
                      the stream loop is kept per commit because `has_more` depends on transaction boundaries)

    State = one abstract log per bucket (a database is a product of independent buckets; a partition lives in
    bucket `partition_id % total_buckets`), the watermark (number of confirmed events) per partition, and two
    counters naming generated event ids / transaction ids.  The watermark advances asynchronously (confirmation
    actor): [rs_confirm] is that step, so every theorem about reads holds for EVERY watermark.

    Identifiers: a uuid is a number whose low 16 bits are the partition hash embedded in the uuid
    (id.rs: bits 46..61), so `uuid_to_partition_hash` is [rs_hash].  Things the handlers obtain from outside
    (the clock, whether the transaction fits into a segment, the default partition key = uuid v5 of the stream
    name) are inputs of the request.  Definitions only; proofs in Proofs/RespProofs.v. *)
From Coq Require Import NArith List Bool.
From SV Require Import Model.StoreSpec.
Import ListNotations.
Open Scope N_scope.

Definition rs_u64 : N := 18446744073709551616.        (* 2^64 *)
Definition rs_i63 : N := 9223372036854775808.         (* 2^63 *)

Record rs_cfg := mkRCfg { rc_parts : N; rc_buckets : N; rc_strict : bool }.

Definition rs_hash (uuid : N) : N := uuid mod 65536.
Definition rs_pid (cfg : rs_cfg) (uuid : N) : N := rs_hash uuid mod rc_parts cfg.
Definition rs_bucket (cfg : rs_cfg) (pid : N) : N := pid mod rc_buckets cfg.

(** ** requests (after the command grammar, which is C21's subject) *)
Inductive rs_ts := RTsNow | RTsMs (ms : N).
Record rs_newev := mkRNew { rn_sid : N; rn_eid : option N; rn_xv : expect; rn_ts : rs_ts }.
Inductive rs_range := RgStart | RgEnd | RgVal (n : N).
Inductive rs_psel := PsId (pid : N) | PsKey (key : N).

Inductive rs_req :=
  | RqAppend (ev : rs_newev) (pk : option N) (dflt : N) (now : N) (fits : bool)
  | RqMAppend (pk : N) (evs : list rs_newev) (now : N) (fits : bool)
  | RqGet (id : N)
  | RqScan (sid : N) (s e : rs_range) (pk : option N) (dflt : N) (count : option N)
  | RqPScan (p : rs_psel) (s e : rs_range) (count : option N)
  | RqSVer (sid : N) (pk : option N) (dflt : N)
  | RqPSeq (p : rs_psel)
  | RqPing
  | RqMalformed.     (* unknown command / arguments outside the grammar *)

Inductive rs_err :=
  | EInvalidArg        (* INVALIDARG *)
  | EInvalidEventId    (* EAPPEND passes EventValidationError on without a code *)
  | EWrongVer          (* WRONGVER *)
  | EDbFailed          (* DBOPFAILED: key mismatch, timestamp >= 2^63, transaction larger than a segment *)
  | EClusterDown.      (* CLUSTERDOWN: partition not owned by any node *)

(** reply of one event of EMAPPEND: event id, stream id, stream version, timestamp in ms *)
Record rs_info := mkRInfo { rf_id : N; rf_sid : N; rf_ver : N; rf_ms : N }.

Inductive rs_reply :=
  | RpAppend (id pk pid seq ver ms : N)
  | RpMAppend (pk pid first last : N) (infos : list rs_info)
  | RpEvent (e : option event)
  | RpScan (more : bool) (evs : list event)
  | RpNum (n : option N)
  | RpPong
  | RpErr (e : rs_err).

Inductive rs_out := ROk (r : rs_reply) | RPanic.

Record rs_state := mkRs {
  rs_logs : N -> alog;     (* bucket -> committed transactions *)
  rs_wm : N -> N;          (* partition -> watermark = number of confirmed events *)
  rs_gen : N;              (* event ids generated so far *)
  rs_tx : N                (* transactions created so far *)
}.
Definition rs_init : rs_state := mkRs (fun _ => []) (fun _ => 0) 0 0.

Definition rs_upd {A} (f : N -> A) (k : N) (v : A) : N -> A := fun x => if x =? k then v else f x.

(** ** AppendResult.stream_versions: HashMap<StreamId, u64>, last insert wins *)
Fixpoint rs_put (m : list (N * N)) (k v : N) : list (N * N) :=
  match m with
  | [] => [(k, v)]
  | (k', v') :: t => if k' =? k then (k, v) :: t else (k', v') :: rs_put t k v
  end.
Fixpoint rs_lookup (m : list (N * N)) (k : N) : option N :=
  match m with
  | [] => None
  | (k', v') :: t => if k' =? k then Some v' else rs_lookup t k
  end.
Definition rs_stream_versions (news : list event) : list (N * N) :=
  fold_left (fun m e => rs_put m (e_sid e) (e_ver e)) news [].

(** ** the EMAPPEND reply: per-event versions rebuilt backwards from the final version of each stream *)
Inductive rs_sub := SubFixed | SubChecked | SubWrap.
Definition rs_dec (mode : rs_sub) (v : N) : option N :=
  match mode with
  | SubFixed => Some (v - 1)                                    (* saturating_sub(1) *)
  | SubChecked => if v =? 0 then None else Some (v - 1)         (* `-= 1` with overflow checks: panic *)
  | SubWrap => Some (if v =? 0 then rs_u64 - 1 else v - 1)      (* `-= 1` wrapping *)
  end.
(** [rsids] = stream ids of the events, LAST event first; result = their versions in that order.
    None = panic (`get_mut(..).unwrap()` on a missing stream, or the subtraction) *)
Fixpoint rs_recon (mode : rs_sub) (rsids : list N) (m : list (N * N)) : option (list N) :=
  match rsids with
  | [] => Some []
  | s :: t =>
      match rs_lookup m s with
      | None => None
      | Some v =>
          match rs_dec mode v with
          | None => None
          | Some v' =>
              match rs_recon mode t (rs_put m s v') with
              | None => None
              | Some r => Some (v :: r)
              end
          end
      end
  end.
Definition rs_recon_versions (mode : rs_sub) (sids : list N) (m : list (N * N)) : option (list N) :=
  match rs_recon mode (rev sids) m with Some r => Some (rev r) | None => None end.

(** ** building the transaction *)
Definition rs_strict_ok (x : expect) : bool := match x with XEmpty | XExact _ => true | _ => false end.

(** `timestamp.checked_mul(1_000_000)`; without TIMESTAMP the clock *)
Definition rs_ts_nanos (t : rs_ts) (now : N) : option N :=
  match t with
  | RTsNow => Some now
  | RTsMs ms => if ms * 1000000 <? rs_u64 then Some (ms * 1000000) else None
  end.

(** an event ready for Transaction::new: id, stream, expectation, nanoseconds *)
Record rs_built := mkRBuilt { rb_id : N; rb_sid : N; rb_xv : expect; rb_ns : N }.

(** ids and timestamps of the events, in order; generated ids take the numbers [gen], [gen+1], .. and carry the
    partition hash.  None = a timestamp overflowed *)
Definition rs_gen_id (gen hash : N) : N := (2 * gen) * 65536 + hash.
Fixpoint rs_build (evs : list rs_newev) (hash now gen : N) : option (list rs_built) * N :=
  match evs with
  | [] => (Some [], gen)
  | ev :: rest =>
      let '(id, gen') := match rn_eid ev with Some i => (i, gen) | None => (rs_gen_id gen hash, gen + 1) end in
      match rs_ts_nanos (rn_ts ev) now with
      | None => (None, gen)
      | Some ns =>
          match rs_build rest hash now gen' with
          | (Some r, g) => (Some (mkRBuilt id (rn_sid ev) (rn_xv ev) ns :: r), g)
          | (None, g) => (None, g)
          end
      end
  end.

Definition rs_new_of (b : rs_built) : new_event := mkNew (rb_id b) (rb_sid b) (rb_xv b) (rb_ns b <? rs_i63).

Definition rs_txn (cfg : rs_cfg) (st : rs_state) (pk : N) (bs : list rs_built) : txn :=
  mkTxn pk (rs_pid cfg pk) (rs_tx st) (match bs with [_] => true | _ => false end) (map rs_new_of bs) XAny.

Definition rs_err_of (r : reject) : rs_err :=
  match r with WrongVersion _ _ _ => EWrongVer | _ => EDbFailed end.

Fixpoint rs_infos (news : list event) (vers : list N) (bs : list rs_built) : list rs_info :=
  match news, vers, bs with
  | e :: n', v :: v', b :: b' => mkRInfo (e_id e) (e_sid e) v (rb_ns b / 1000000) :: rs_infos n' v' b'
  | _, _, _ => []
  end.

(** the cluster write on a single node with replication factor 1 = the reference append on the bucket's log *)
Definition rs_exec (cfg : rs_cfg) (st : rs_state) (pk : N) (bs : list rs_built) (gen' : N) (fits : bool)
  : rs_state * (list event + reject) :=
  let t := rs_txn cfg st pk bs in
  let b := rs_bucket cfg (t_pid t) in
  match spec_append (rs_logs st b) t fits with
  | (l', inl news) => (mkRs (rs_upd (rs_logs st) b l') (rs_wm st) gen' (rs_tx st + 1), inl news)
  | (_, inr r) => (st, inr r)
  end.

Definition rs_first_seq (news : list event) : N := match news with e :: _ => e_seq e | [] => 0 end.
Definition rs_last_seq (news : list event) : N := match rev news with e :: _ => e_seq e | [] => 0 end.

Definition rs_append (cfg : rs_cfg) (st : rs_state) (ev : rs_newev) (pk : option N) (dflt now : N) (fits : bool)
  : rs_state * rs_out :=
  if rc_strict cfg && negb (rs_strict_ok (rn_xv ev)) then (st, ROk (RpErr EInvalidArg)) else
  let key := match pk with Some k => k | None => dflt end in
  match rs_build [ev] (rs_hash key) now (rs_gen st) with
  | (Some bs, gen') =>
      if negb (forallb (fun b => rs_hash (rb_id b) =? rs_hash key) bs) then (st, ROk (RpErr EInvalidEventId)) else
      match rs_exec cfg st key bs gen' fits with
      | (st', inl news) =>
          (* `stream_versions.into_iter().next().unwrap()`, then two debug_assert_eq! *)
          match rs_stream_versions news, news, bs with
          | [(_, v)], e :: _, b :: _ =>
              if rs_first_seq news =? rs_last_seq news
              then (st', ROk (RpAppend (e_id e) key (rs_pid cfg key) (rs_first_seq news) v (rb_ns b / 1000000)))
              else (st', RPanic)
          | _, _, _ => (st', RPanic)
          end
      | (_, inr r) => (st, ROk (RpErr (rs_err_of r)))
      end
  | (None, _) => (st, ROk (RpErr EInvalidArg))
  end.

Definition rs_mappend (mode : rs_sub) (cfg : rs_cfg) (st : rs_state) (pk : N) (evs : list rs_newev) (now : N)
  (fits : bool) : rs_state * rs_out :=
  if rc_strict cfg && negb (forallb (fun ev => rs_strict_ok (rn_xv ev)) evs) then (st, ROk (RpErr EInvalidArg)) else
  match rs_build evs (rs_hash pk) now (rs_gen st) with
  | (Some bs, gen') =>
      (* Transaction::new: no events, or an event id without the key's hash *)
      if match bs with [] => true | _ => false end then (st, ROk (RpErr EInvalidArg)) else
      if negb (forallb (fun b => rs_hash (rb_id b) =? rs_hash pk) bs) then (st, ROk (RpErr EInvalidArg)) else
      match rs_exec cfg st pk bs gen' fits with
      | (st', inl news) =>
          match rs_recon_versions mode (map rb_sid bs) (rs_stream_versions news) with
          | Some vers =>
              (st', ROk (RpMAppend pk (rs_pid cfg pk) (rs_first_seq news) (rs_last_seq news) (rs_infos news vers bs)))
          | None => (st', RPanic)
          end
      | (_, inr r) => (st, ROk (RpErr (rs_err_of r)))
      end
  | (None, _) => (st, ROk (RpErr EInvalidArg))
  end.

(** ** reads *)
Definition rs_over (endo : option N) (ver : N) : bool := match endo with Some e => e <? ver | None => false end.
Definition rs_reached (endo : option N) (last : N) : bool := match endo with Some e => e <=? last | None => false end.
Definition rs_len {A} (l : list A) : N := N.of_nat (length l).
Definition rs_last_ver (acc : list event) : N := match rev acc with e :: _ => e_ver e | [] => 0 end.

Fixpoint rs_take {A} (n : N) (l : list A) : list A :=
  match l with
  | [] => []
  | x :: t => if n =? 0 then [] else x :: rs_take (n - 1) t
  end.

Inductive rs_brk := BkNone | BkInner | BkIter.

(** `for event in commit { .. }` of handle_stream_read_locally (read.rs:663-687) *)
Fixpoint rs_ss_events (evs : list event) (count W : N) (endo : option N) (acc : list event) (more : bool)
  : list event * bool * rs_brk :=
  match evs with
  | [] => (acc, more, BkNone)
  | e :: t =>
      if count <=? rs_len acc then (acc, true, BkIter)
      else if W <=? e_seq e then (acc, more, BkIter)
      else if rs_over endo (e_ver e) then (acc, true, BkInner)
      else rs_ss_events t count W endo (acc ++ [e]) more
  end.

(** the commits one after the other (how `next_batch` groups them does not change what the loop does) *)
Fixpoint rs_ss_loop (cs : list (list event)) (count W : N) (endo : option N) (acc : list event) (more : bool)
  : list event * bool :=
  match cs with
  | [] => (acc, more)
  | c :: t =>
      match rs_ss_events c count W endo acc more with
      | (acc', more', BkIter) => (acc', more')
      | (acc', more', _) =>
          if count <=? rs_len acc' then (acc', true)
          else if rs_reached endo (rs_last_ver acc') then (acc', more')
          else rs_ss_loop t count W endo acc' more'
      end
  end.

Definition rs_nonempty {A} (l : list (list A)) : list (list A) :=
  filter (fun g => match g with [] => false | _ => true end) l.

(** what `read_stream(partition, stream, start, Forward)` yields: per transaction the events of the stream
    (looked up by stream id in the partition's BUCKET) from version [start] on *)
Definition rs_stream_commits (l : alog) (sid start : N) : list (list event) :=
  rs_nonempty (map (filter (fun e => (e_sid e =? sid) && (start <=? e_ver e))) l).

Definition rs_stream_scan (l : alog) (W sid start : N) (endo : option N) (count : N) : list event * bool :=
  rs_ss_loop (rs_stream_commits l sid start) count W endo [] false.

(** ReadPartition: the first [count] events of [start, min(end+1, W)); has_more = last_read_sequence < W *)
Definition rs_pr_eff (W : N) (endo : option N) : N := match endo with Some e => N.min (e + 1) W | None => W end.
Definition rs_partition_scan (l : alog) (W pid start : N) (endo : option N) (count : N) : list event * bool :=
  if W <=? start then ([], false)
  else
    let evs := rs_take count (filter (fun e => e_seq e <? rs_pr_eff W endo) (spec_scan_partition_fwd l pid start)) in
    (evs, match rev evs with e :: _ => e_seq e + 1 | [] => start end <? W).

(** GetStreamVersion: the newest event of the stream below the watermark *)
Definition rs_stream_version (l : alog) (W sid : N) : option N :=
  match find (fun e => e_seq e <? W) (rev (filter (fun e => e_sid e =? sid) (all_events l))) with
  | Some e => Some (e_ver e)
  | None => None
  end.

(** ReadEvent on the only node (quorum 1, every stored event carries confirmation count 1) *)
Definition rs_read_event (l : alog) (W id : N) : option event :=
  match spec_read_event l id with
  | Some e => if W <? e_seq e + 1 then None else Some e
  | None => None
  end.

Definition rs_sel_pid (cfg : rs_cfg) (p : rs_psel) : N :=
  match p with PsId pid => pid | PsKey k => rs_pid cfg k end.

Definition rs_scan (cfg : rs_cfg) (st : rs_state) (sid : N) (s e : rs_range) (pk : option N) (dflt : N)
  (count : option N) : rs_reply :=
  let pid := rs_pid cfg (match pk with Some k => k | None => dflt end) in
  match s with
  | RgEnd => RpErr EInvalidArg
  | _ =>
      let start := match s with RgVal n => n | _ => 0 end in
      match e with
      | RgStart => RpErr EInvalidArg
      | _ =>
          let endo := match e with RgVal n => Some n | _ => None end in
          let '(evs, more) := rs_stream_scan (rs_logs st (rs_bucket cfg pid)) (rs_wm st pid) sid start endo
                                (match count with Some c => c | None => 100 end) in
          RpScan more evs
      end
  end.

Definition rs_pscan (cfg : rs_cfg) (st : rs_state) (p : rs_psel) (s e : rs_range) (count : option N) : rs_reply :=
  match s with
  | RgEnd => RpErr EInvalidArg
  | _ =>
      let start := match s with RgVal n => n | _ => 0 end in
      match e with
      | RgStart => RpErr EInvalidArg
      | _ =>
          let endo := match e with RgVal n => Some n | _ => None end in
          let pid := rs_sel_pid cfg p in
          (* a partition id beyond the configured count is owned by nobody *)
          if rc_parts cfg <=? pid then RpErr EClusterDown else
          let '(evs, more) := rs_partition_scan (rs_logs st (rs_bucket cfg pid)) (rs_wm st pid) pid start endo
                                (match count with Some c => c | None => 100 end) in
          RpScan more evs
      end
  end.

(** ** the dispatcher.  `x % 0` panics in Rust: a node with no partitions or no buckets cannot route anything *)
Definition rs_handle (mode : rs_sub) (cfg : rs_cfg) (st : rs_state) (r : rs_req) : rs_state * rs_out :=
  match r with
  | RqPing => (st, ROk RpPong)
  | RqMalformed => (st, ROk (RpErr EInvalidArg))
  | _ =>
      if (rc_parts cfg =? 0) || (rc_buckets cfg =? 0) then (st, RPanic) else
      match r with
      | RqAppend ev pk dflt now fits => rs_append cfg st ev pk dflt now fits
      | RqMAppend pk evs now fits => rs_mappend mode cfg st pk evs now fits
      | RqGet id =>
          let pid := rs_pid cfg id in
          (st, ROk (RpEvent (rs_read_event (rs_logs st (rs_bucket cfg pid)) (rs_wm st pid) id)))
      | RqScan sid s e pk dflt count => (st, ROk (rs_scan cfg st sid s e pk dflt count))
      | RqPScan p s e count => (st, ROk (rs_pscan cfg st p s e count))
      | RqSVer sid pk dflt =>
          let pid := rs_pid cfg (match pk with Some k => k | None => dflt end) in
          (st, ROk (RpNum (rs_stream_version (rs_logs st (rs_bucket cfg pid)) (rs_wm st pid) sid)))
      | RqPSeq p =>
          let pid := rs_sel_pid cfg p in
          if rc_parts cfg <=? pid then (st, ROk (RpErr EClusterDown))
          else (st, ROk (RpNum (if rs_wm st pid =? 0 then None else Some (rs_wm st pid - 1))))
      | RqPing => (st, ROk RpPong)
      | RqMalformed => (st, ROk (RpErr EInvalidArg))
      end
  end.

(** ** the confirmation actor catching up with a partition: the watermark becomes the number of its events *)
Definition rs_next_seq (l : alog) (pid : N) : N :=
  match spec_partition_sequence l pid with Some s => s + 1 | None => 0 end.
Definition rs_confirm (cfg : rs_cfg) (st : rs_state) (pid : N) : rs_state :=
  mkRs (rs_logs st) (rs_upd (rs_wm st) pid (rs_next_seq (rs_logs st (rs_bucket cfg pid)) pid)) (rs_gen st) (rs_tx st).
(** ... or only with its first [n] events (a read that overtakes the confirmation) *)
Definition rs_confirm_upto (st : rs_state) (pid n : N) : rs_state :=
  mkRs (rs_logs st) (rs_upd (rs_wm st) pid n) (rs_gen st) (rs_tx st).

(** ** histories *)
Inductive rs_step := StReq (r : rs_req) | StConfirm (pid : N).

Definition rs_do (mode : rs_sub) (cfg : rs_cfg) (st : rs_state) (s : rs_step) : rs_state * option rs_out :=
  match s with
  | StReq r => let '(st', o) := rs_handle mode cfg st r in (st', Some o)
  | StConfirm pid => (rs_confirm cfg st pid, None)
  end.

Fixpoint rs_run (mode : rs_sub) (cfg : rs_cfg) (st : rs_state) (ss : list rs_step) : rs_state * list rs_out :=
  match ss with
  | [] => (st, [])
  | s :: t =>
      let '(st', o) := rs_do mode cfg st s in
      let '(st'', os) := rs_run mode cfg st' t in
      (st'', match o with Some x => x :: os | None => os end)
  end.

(** a numeric digest of a reply (used by the check to compare extracted-model results with vm_compute) *)
Definition rs_fp (o : rs_out) : list N :=
  match o with
  | RPanic => [99]
  | ROk r =>
      match r with
      | RpErr e => [0; match e with EInvalidArg => 0 | EInvalidEventId => 1 | EWrongVer => 2 | EDbFailed => 3 | EClusterDown => 4 end]
      | RpAppend _ _ pid seq ver _ => [1; pid; seq; ver]
      | RpMAppend _ pid first last infos => 2 :: pid :: first :: last :: map rf_ver infos
      | RpScan more evs => 3 :: (if more then 1 else 0) :: flat_map (fun e => [e_seq e; e_ver e]) evs
      | RpNum None | RpEvent None => [4]
      | RpEvent (Some e) => [5; e_seq e; e_ver e]
      | RpNum (Some n) => [6; n]
      | RpPong => [7]
      end
  end.
