(** placeholder while the proofs are written *)
From SV Require Import Model.Replication.
