(** C10 - at most one transaction is confirmed per partition sequence (across all nodes); the confirmed prefixes of
    any two replicas agree event for event.

    Model: Model/Replication.v - a transition system over ANY number of nodes (a node is an [N]; the partition's
    replica set [c_reps] and the replication factor [c_rf] are parameters), one step per [action]: a membership view
    set to anything, a client write at any replica that believes it is the leader, delivery of any sent message (again),
    the coordinator's confirmation steps, time-outs, the catch-up timer, expiry of buffered writes, the watermark
    catching up, crash + restart.  [g_run cfg acts] is the state after the action list [acts] from the empty cluster.
    Every theorem quantifies over ALL action lists (proof: an invariant, Proofs/ReplInv.v, preserved by every action,
    Proofs/ReplSteps.v) - no bound on nodes, messages, or steps.

    [c_cufix cfg = true] selects the code as it is after `fix:` 28b51ee; [C10_orig_catchup_refuted] shows what the code
    before it did.  Hypothesis [length c_reps <= c_rf]: the partition has at most replication-factor replicas
    (topology: min(rf, node count)).  q = c_q cfg = rf/2 + 1. *)
From Coq Require Import NArith List Bool.
From SV Require Import Model.Replication Proofs.ReplLog Proofs.ReplExt Proofs.ReplInv Proofs.ReplSteps Proofs.ReplicationProofs.
Import ListNotations.
Open Scope N_scope.

(* (i) a node's log only grows: every entry keeps its transaction, sequence, size; a quorum count is never lost *)
Theorem C10_log_stable : forall cfg, c_cufix cfg = true -> forall acts acts' n e,
  In e (ns_log (g_nodes (g_run cfg acts) n)) ->
  exists e', In e' (ns_log (g_nodes (g_run cfg (acts ++ acts')) n)) /\ ent_same e e' /\
             (c_q cfg <= en_cnt e -> c_q cfg <= en_cnt e').
Proof. exact stable. Qed.

(* on one node a sequence belongs to one entry *)
Theorem C10_one_entry_per_sequence : forall cfg, c_cufix cfg = true -> forall acts n e1 e2 x,
  In e1 (ns_log (g_nodes (g_run cfg acts) n)) -> In e2 (ns_log (g_nodes (g_run cfg acts) n)) ->
  covers e1 x = true -> covers e2 x = true -> e1 = e2.
Proof. exact one_entry_per_sequence. Qed.

(* (ii) a quorum count is on disk only for a transaction that at least q replicas store whole ... *)
Theorem C10_quorum_evidence : forall cfg, c_cufix cfg = true -> forall acts n e,
  In e (ns_log (g_nodes (g_run cfg acts) n)) -> c_q cfg <= en_cnt e ->
  c_q cfg <= N.of_nat (length (holders cfg (g_run cfg acts) (en_tx e))).
Proof. exact quorum_evidence. Qed.

(* ... and every copy of a transaction, on every node, lies at the sequences its one coordinator assigned *)
Theorem C10_assigned_sequence : forall cfg, c_cufix cfg = true -> forall acts n e,
  In e (ns_log (g_nodes (g_run cfg acts) n)) ->
  exists c s k, orig_of (g_orig (g_run cfg acts)) (en_tx e) = Some (c, s, k) /\
                en_first e = s + en_off e /\ en_off e + en_nev e = k.
Proof. exact entry_origin. Qed.

(* hence: two entries anywhere in the cluster that both carry a quorum count and cover the same sequence hold the same
   event of the same transaction there *)
Theorem C10_agreement : forall cfg, c_cufix cfg = true -> N.of_nat (length (c_reps cfg)) <= c_rf cfg ->
  forall acts n1 n2 e1 e2 x,
  In e1 (ns_log (g_nodes (g_run cfg acts) n1)) -> In e2 (ns_log (g_nodes (g_run cfg acts) n2)) ->
  c_q cfg <= en_cnt e1 -> c_q cfg <= en_cnt e2 -> covers e1 x = true -> covers e2 x = true ->
  en_tx e1 = en_tx e2 /\ en_off e1 + (x - en_first e1) = en_off e2 + (x - en_first e2).
Proof. exact agreement. Qed.

(* the confirmed prefixes (below the watermark the disk justifies) of any two nodes agree event for event *)
Theorem C10_confirmed_prefixes_agree : forall cfg, c_cufix cfg = true -> N.of_nat (length (c_reps cfg)) <= c_rf cfg ->
  forall acts n1 n2 x,
  x < wm_ideal (c_q cfg) (ns_log (g_nodes (g_run cfg acts) n1)) ->
  x < wm_ideal (c_q cfg) (ns_log (g_nodes (g_run cfg acts) n2)) ->
  exists e1 e2, In e1 (ns_log (g_nodes (g_run cfg acts) n1)) /\ In e2 (ns_log (g_nodes (g_run cfg acts) n2)) /\
                covers e1 x = true /\ covers e2 x = true /\
                en_tx e1 = en_tx e2 /\ en_off e1 + (x - en_first e1) = en_off e2 + (x - en_first e2).
Proof. exact confirmed_prefixes_agree. Qed.

(* the code BEFORE the fix (catch-up commits appended with ExpectedVersion::Any): a reachable state in which sequence 1
   holds transaction 20 on node 0 and transaction 30 on node 1, both with the quorum count 2 of rf = 3.
   Replayed on the real code: corpus/C10/orig_catchup.case (bin/check's monitor class two-confirmed). *)
Theorem C10_orig_catchup_refuted :
  exists acts e1 e2,
    let cfg := mk_cfg 3 [0;1;2] 4 false in
    let st := g_run cfg acts in
    In e1 (ns_log (g_nodes st 0)) /\ In e2 (ns_log (g_nodes st 1)) /\
    c_q cfg <= en_cnt e1 /\ c_q cfg <= en_cnt e2 /\ covers e1 1 = true /\ covers e2 1 = true /\ en_tx e1 <> en_tx e2.
Proof. exact orig_catchup_refuted. Qed.

(* non-vacuity: the hypotheses are satisfiable and quorum counts are reachable (rf = 3, three nodes): the same actions on the
   repaired model leave node 0's log alone, and a run in which two nodes hold transaction 30 at sequence 1 with quorum counts *)
Example C10_fixed_run_of_the_witness :
  ns_log (g_nodes (g_run (mk_cfg 3 [0;1;2] 4 true) w_acts_catchup) 0) = [mk_ent 10 0 1 0 0].
Proof. exact (proj1 fixed_catchup_run). Qed.
Example C10_confirmed_on_two_nodes :
  let st := g_run (mk_cfg 3 [0;1;2] 4 true) w_acts_hidden in
  In (mk_ent 30 1 1 0 3) (ns_log (g_nodes st 0)) /\ In (mk_ent 30 1 1 0 2) (ns_log (g_nodes st 1)).
Proof. destruct hidden_witness as (_ & A & _ & B & _). split; [exact A|exact B]. Qed.

Print Assumptions C10_log_stable.
Print Assumptions C10_agreement.
Print Assumptions C10_confirmed_prefixes_agree.
Print Assumptions C10_orig_catchup_refuted.
