(** C16 — concurrent conflicting appends are serialised.
    Model/Interleave.v: any number of clients send requests; a request goes into the FIFO of the
    worker thread that owns its bucket ([bucket_of pid = pid mod nb], [thread_of] = the arithmetic of
    bucket_id_to_thread_id); each worker thread pops its FIFO and runs the sequential [append] of
    Model/Store.v on the bucket's store; syncs happen at any time.  For EVERY interleaving of sends,
    worker steps (with any size-based rollover decision) and syncs, each bucket's answers are those
    of folding the reference [spec_append] over the bucket's arrival order — by C02
    ([C02_accept_iff_step]) that is what the sequential [append] + [publish] answer.
    Level: partial — the tokio mpsc FIFO, the single worker thread per bucket and the absence of any
    other writer of a WriterSet are read off the code (the model's step atomicity is assumed to match
    them); the tie to the real code is the trace validation of harness/cconc.
    Only property theorems here; proofs are in Proofs/InterleaveProofs.v. *)
From Coq Require Import NArith List Bool.
From SV Require Import Model.Interleave Proofs.StoreInv Proofs.StoreSimProofs Proofs.InterleaveProofs.
Import ListNotations.
Open Scope N_scope.

(** the routing is a total function of the bucket: below nt, onto [0, nt), and the buckets of a
    thread are [fib_size] consecutive positions, sizes differing by at most one, none empty *)
Theorem C16_thread_of_total : forall nb nt, 0 < nt -> nt <= nb -> forall pos, pos < nb -> thread_of nb nt pos < nt.
Proof. exact thread_of_lt. Qed.

Theorem C16_thread_of_onto : forall nb nt, 0 < nt -> nt <= nb -> forall t, t < nt ->
  exists pos, pos < nb /\ thread_of nb nt pos = t.
Proof. exact thread_of_onto. Qed.

Theorem C16_thread_of_balanced : forall nb nt, 0 < nt -> nt <= nb -> forall pos t, pos < nb -> t < nt ->
  (thread_of nb nt pos = t <-> fib_lo nb nt t <= pos < fib_lo nb nt t + fib_size nb nt t) /\
  (fib_size nb nt t = nb / nt \/ fib_size nb nt t = nb / nt + 1) /\ 1 <= fib_size nb nt t /\
  fib_lo nb nt (t + 1) = fib_lo nb nt t + fib_size nb nt t /\ fib_lo nb nt 0 = 0 /\ fib_lo nb nt nt = nb.
Proof. exact thread_of_balanced. Qed.

(** For every interleaving, at every moment and for every bucket b: the requests sent to b are, in
    arrival order, those already handled followed by those still queued (FIFO: nothing overtakes),
    and the handled ones got exactly the answers of the serial reference execution, which also
    yields the bucket's abstract state. *)
Theorem C16_serial : forall nb nt, 0 < nt -> nt <= nb -> forall steps, Forall wf_cstep steps ->
  let c := csys_run nb nt steps in
  forall b, (b < N.to_nat nb)%nat ->
    sent_to nb b c = map d_req (done_of nb b c) ++ queued_of nb nt b c /\
    spec_serial [] (map d_req (done_of nb b c)) = (abs_all (nth b (cs_stores c) store_init), map d_res (done_of nb b c)) /\
    Inv (nth b (cs_stores c) store_init).
Proof. exact serial_per_bucket. Qed.

(** once every FIFO is drained: the answers are those of the serial execution of the whole arrival
    order, and the final abstract state is that execution's log *)
Theorem C16_serial_final : forall nb nt, 0 < nt -> nt <= nb -> forall steps, Forall wf_cstep steps ->
  let c := csys_run nb nt steps in
  (forall th, nth th (cs_queues c) [] = []) ->
  forall b, (b < N.to_nat nb)%nat ->
    map d_req (done_of nb b c) = sent_to nb b c /\
    spec_serial [] (sent_to nb b c) = (abs_all (nth b (cs_stores c) store_init), map d_res (done_of nb b c)).
Proof. exact serial_quiescent. Qed.

(** in a serial execution no two accepted requests carry the same Exact v (or Empty) expectation
    for one stream *)
Theorem C16_no_double_success : forall reqs sid x l l' rs i j rqi rqj ei ej,
  good_log l -> Forall (fun rq => wf_txn (rq_txn rq)) reqs -> spec_serial l reqs = (l', rs) ->
  (i < j)%nat ->
  nth_error reqs i = Some rqi -> nth_error reqs j = Some rqj ->
  nth_error rs i = Some (inl ei) -> nth_error rs j = Some (inl ej) ->
  first_expect (rq_txn rqi) sid = Some x -> first_expect (rq_txn rqj) sid = Some x ->
  (x = XEmpty \/ exists v, x = XExact v) -> False.
Proof. exact no_double_success. Qed.

(** Non-vacuity: two clients race [Exact 0] on stream 10 behind an [Empty] append; whatever the
    interleaving of the workers, one is accepted and the other rejected with the current version. *)
Definition c16_t0 : txn := mkTxn 7 1 100 true [mkNew 1 10 XEmpty true] XAny.
Definition c16_ta : txn := mkTxn 7 1 101 true [mkNew 2 10 (XExact 0) true] XAny.
Definition c16_tb : txn := mkTxn 7 1 102 true [mkNew 3 10 (XExact 0) true] XAny.
Definition c16_race : list cstep :=
  [CSend (mkReq 0 c16_t0 false); CSend (mkReq 1 c16_ta false); CWork 1 false; CSend (mkReq 2 c16_tb false);
   CSync 1; CWork 1 false; CWork 1 true].

Example C16_race_example :
  map (fun d => match d_res d with inl _ => true | inr _ => false end) (cs_done (csys_run 2 2 c16_race)) = [true; true; false] /\
  map d_res (skipn 2 (cs_done (csys_run 2 2 c16_race))) = [inr (WrongVersion 10 (Some 1) (XExact 0))].
Proof. vm_compute. split; reflexivity. Qed.

Example C16_wf_example : Forall wf_cstep c16_race.
Proof. repeat constructor; discriminate. Qed.

Example C16_thread_of_examples :
  map (thread_of 5 2) [0; 1; 2; 3; 4] = [0; 0; 0; 1; 1] /\ map (thread_of 4 4) [0; 1; 2; 3] = [0; 1; 2; 3] /\
  map (thread_of 7 3) [0; 1; 2; 3; 4; 5; 6] = [0; 0; 0; 1; 1; 2; 2].
Proof. vm_compute. repeat split; reflexivity. Qed.

Print Assumptions C16_thread_of_total.
Print Assumptions C16_thread_of_onto.
Print Assumptions C16_thread_of_balanced.
Print Assumptions C16_serial.
Print Assumptions C16_serial_final.
Print Assumptions C16_no_double_success.
