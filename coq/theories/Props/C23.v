(** C23 — identifiers embed and preserve their partition routing.
    Only the property theorems; each is closed by an exact lemma of Proofs/IdsProofs.v.
    A UUID is its big-endian u128 as [N]; bounds ([< 2^128], [< 2^16]) are explicit where needed. *)
From Coq Require Import NArith List Bool.
From SV Require Import Model.Ids Proofs.IdsProofs.
Import ListNotations.
Open Scope N_scope.

(** for every hash and ALL values of the clock and the random words (the code masks them itself), a generated id
    yields back exactly that hash and validates for it — and for no other hash *)
Theorem C23_hash_roundtrip : forall ts r16 h r64, h < 2 ^ 16 -> hash_of (mk_id ts r16 h r64) = h.
Proof. exact hash_mk. Qed.

Theorem C23_generated_validates : forall ts r16 h r64, h < 2 ^ 16 ->
  validate_event_id (mk_id ts r16 h r64) h = true /\
  (forall h', validate_event_id (mk_id ts r16 h r64) h' = true -> h' = h).
Proof. exact mk_valid. Qed.

Theorem C23_validate_iff : forall u h, validate_event_id u h = true <-> hash_of u = h.
Proof. exact validate_iff. Qed.

(** the rest of the layout: time and random fields come back masked, version 7, variant 10b, the value is a u128;
    and an id with version 7 / variant 10b is exactly the composition of its fields (layout is a bijection) *)
Theorem C23_layout : forall ts r16 h r64, h < 2 ^ 16 ->
  let u := mk_id ts r16 h r64 in
  ts_of u = N.land ts MASK48 /\ r12_of u = N.land r16 MASK12 /\ r46_of u = N.land r64 MASK46 /\
  version_of u = 7 /\ variant_of u = 2 /\ u < 2 ^ 128.
Proof. exact fields_mk. Qed.

Theorem C23_recompose : forall u, u < 2 ^ 128 -> version_of u = 7 -> variant_of u = 2 ->
  mk_id (ts_of u) (r12_of u) (hash_of u) (r46_of u) = u.
Proof. exact recompose. Qed.

(** setting or clearing the flag: reads back, changes bit 63 only (every other bit, hence the hash, unchanged), stays a u128
    — for every u (no bound needed for the first three) *)
Theorem C23_flag_frame : forall u b,
  get_flag (set_flag u b) = b /\
  hash_of (set_flag u b) = hash_of u /\
  (forall i, i <> 63 -> N.testbit (set_flag u b) i = N.testbit u i) /\
  (u < 2 ^ 128 -> set_flag u b < 2 ^ 128).
Proof. exact flag_frame. Qed.

Theorem C23_flag_other_fields : forall u b, ts_of (set_flag u b) = ts_of u /\ r12_of (set_flag u b) = r12_of u /\
  r46_of (set_flag u b) = r46_of u /\ version_of (set_flag u b) = version_of u.
Proof. exact set_flag_fields. Qed.

Theorem C23_flag_idempotent : forall u b b', set_flag (set_flag u b) b' = set_flag u b'.
Proof. exact set_flag_idem. Qed.

Theorem C23_flag_noop : forall u, set_flag u (get_flag u) = u.
Proof. exact set_flag_same. Qed.

(** routing depends on the embedded hash only ... *)
Theorem C23_routing_hash_only : forall u u' np nb, hash_of u = hash_of u' ->
  primary_partition_id u np = primary_partition_id u' np /\ extract_event_id_bucket u nb = extract_event_id_bucket u' nb.
Proof. exact routing_hash_only. Qed.

(** ... so an event id generated for a partition key (flagged or not) routes exactly as the key: same partition for every
    partition count (None = the `% 0` panic, on both sides alike), same bucket for every bucket count; the store's
    `partition_id % total_buckets` and partition_id_to_bucket agree; partition ids are below the partition count *)
Theorem C23_routing_same_key : forall key ts r16 r64 np nb b,
  let ev := set_flag (mk_id ts r16 (hash_of key) r64) b in
  primary_partition_id ev np = primary_partition_id key np /\
  extract_event_id_bucket ev nb = extract_event_id_bucket key nb /\
  (forall p, primary_partition_id key np = Some p ->
     primary_partition_id ev np = Some p /\ bucket_of_partition p nb = partition_id_to_bucket p nb /\ p < np).
Proof. exact routing_same_key. Qed.

(** bucket straight from the id = bucket of the partition of the id, when the bucket count divides the partition count;
    without divisibility it fails (both helpers are only used in tests today) *)
Theorem C23_bucket_via_partition : forall u np nb, np <> 0 -> nb <> 0 -> (nb | np) ->
  extract_event_id_bucket u nb = partition_id_to_bucket (hash_of u mod np) nb.
Proof. exact bucket_via_partition. Qed.

Theorem C23_bucket_via_partition_needs_divisibility :
  exists u np nb, np <> 0 /\ nb <> 0 /\ u < 2 ^ 128 /\
    extract_event_id_bucket u nb <> partition_id_to_bucket (hash_of u mod np) nb.
Proof. exact bucket_via_partition_needs_divisibility. Qed.

(** Transaction::new accepts exactly the non-empty lists whose ids all validate for the key's hash; the transaction id it
    makes carries flag = (exactly one event) and is otherwise the fresh UUID; ids generated for the key are always accepted *)
Theorem C23_tx_new : forall key evs txid0,
  match tx_new key evs txid0 with
  | TxNewEmpty => evs = []
  | TxNewInvalidEventId => evs <> [] /\ exists ev, In ev evs /\ hash_of ev <> hash_of key
  | TxNewOk tid => evs <> [] /\ (forall ev, In ev evs -> validate_event_id ev (hash_of key) = true) /\
                   get_flag tid = Nat.eqb (length evs) 1 /\ (forall i, i <> 63 -> N.testbit tid i = N.testbit txid0 i)
  end.
Proof. exact tx_new_spec. Qed.

Theorem C23_tx_new_generated : forall key fields txid0, fields <> [] ->
  exists tid, tx_new key (map (fun '(ts, r16, r64) => mk_id ts r16 (hash_of key) r64) fields) txid0 = TxNewOk tid.
Proof. exact tx_new_generated. Qed.

(** non-vacuity *)
Example C23_ex_id : mk_id 1758500000000 65535 43981 (2 ^ 64 - 1) = 2125896053793534175838058605065535487 /\
  hash_of 2125896053793534175838058605065535487 = 43981.
Proof. split; vm_compute; reflexivity. Qed.
Example C23_ex_flag : set_flag (2 ^ 128 - 1) false = 2 ^ 128 - 1 - 2 ^ 63 /\ set_flag 0 true = 2 ^ 63.
Proof. split; vm_compute; reflexivity. Qed.

Print Assumptions C23_hash_roundtrip.
Print Assumptions C23_recompose.
Print Assumptions C23_flag_frame.
Print Assumptions C23_routing_same_key.
Print Assumptions C23_tx_new.
