(** C25 — the expected-version algebra matches the store and round-trips.
    Only the property theorems; each is closed by an exact lemma of Proofs/VersionProofs.v.
    u64 values are [N] with the explicit bound [<= U64_MAX] (U64_MAX = 2^64 - 1) in wf_ev / wf_cv. *)
From Coq Require Import NArith ZArith List Bool Ascii.
From SV Require Import Model.Version Proofs.VersionProofs.
Import ListNotations.
Open Scope N_scope.

(** is_satisfied_by is exactly the acceptance rule, for every pair (no bound needed) ... *)
Theorem C25_satisfied_iff_accepts : forall e c, is_satisfied_by e c = accepts e c.
Proof. exact satisfied_accepts. Qed.

(** ... and the store's three checks are that same rule: the Vacant and Occupied arms of validate_event_versions
    and validate_partition_sequence (on the number of events in the partition) *)
Theorem C25_store_stream_first : forall e latest, store_stream_first e latest = is_satisfied_by e (cv_of_latest latest).
Proof. intros. rewrite satisfied_accepts. apply store_first_accepts. Qed.
Theorem C25_store_stream_again : forall e entry, store_stream_again e entry = is_satisfied_by e (CvCurrent entry).
Proof. intros. rewrite satisfied_accepts. apply store_again_accepts. Qed.
Theorem C25_store_partition : forall e next, store_partition e next = is_satisfied_by e (cv_of_count next).
Proof. intros. rewrite satisfied_accepts. apply store_partition_accepts. Qed.

(** a whole transaction: validate_event_versions (local map + store look-ups) returns exactly what the per-event
    specification says — every event's expectation is_satisfied_by the version its stream has at that point —
    for every store state and every event list, as long as no stream version would leave u64
    (cv_next_total = number of events of the stream; the code's `+ 1` would panic beyond that, see TxPanic) *)
Theorem C25_validate_events_spec : forall db evs,
  (forall s, cv_next_total (cv_of_latest (db s)) + N.of_nat (length evs) <= U64_MAX + 1) ->
  validate_events db [] evs [] = tx_spec (fun s => cv_of_latest (db s)) evs.
Proof. exact validate_events_spec. Qed.

(** the database accepts the append iff all stream expectations and the partition expectation are satisfied *)
Theorem C25_append_accepts_iff : forall db pnext epart evs,
  (forall s, cv_next_total (cv_of_latest (db s)) + N.of_nat (length evs) <= U64_MAX + 1) ->
  (exists a b l, append_tx db pnext epart evs = ApOk a b l) <->
  ((exists cs, tx_spec (fun s => cv_of_latest (db s)) evs = TxOk cs) /\ is_satisfied_by epart (cv_of_count pnext) = true).
Proof. exact append_tx_accepts. Qed.

(** gap_from (the code after the fix: saturating `+ 1`) never panics ... *)
Theorem C25_gap_total : forall e c, gap_from_gen AddSaturating e c = Some (gap_from e c).
Proof. exact gap_gen_saturating. Qed.

(** ... and reports the signed distance "events present - events expected", its magnitude clamped to u64::MAX *)
Theorem C25_gap_signed : forall e c, wf_ev e -> wf_cv c -> gap_from e c = gap_spec e c.
Proof. exact gap_from_spec. Qed.

(** the clamp only acts when the true distance is 2^64, i.e. at exactly two pairs; everywhere else the distance is exact *)
Theorem C25_gap_exact : forall e c, wf_ev e -> wf_cv c ->
  (e = EvEmpty \/ exists x, e = EvExact x) ->
  (Z.abs (cv_count c - expected_count e) < 2 ^ 64)%Z ->
  gap_from e c = exact_gap (cv_count c - expected_count e).
Proof. exact gap_from_exact. Qed.

Theorem C25_gap_boundary :
  gap_from (EvExact U64_MAX) CvEmpty = GapBehind U64_MAX /\ gap_from EvEmpty (CvCurrent U64_MAX) = GapAhead U64_MAX.
Proof. exact gap_boundary. Qed.

(** history: the original `n + 1` / `expected + 1` panicked (debug) or reported a gap of 0 (release) at those two pairs,
    and was right everywhere else *)
Theorem C25_gap_original_refuted :
  gap_from_gen AddChecked (EvExact U64_MAX) CvEmpty = None /\
  gap_from_gen AddChecked EvEmpty (CvCurrent U64_MAX) = None /\
  gap_from_gen AddWrapping (EvExact U64_MAX) CvEmpty = Some (GapBehind 0) /\
  gap_from_gen AddWrapping EvEmpty (CvCurrent U64_MAX) = Some (GapAhead 0).
Proof. exact gap_original_refuted. Qed.

Theorem C25_gap_original_elsewhere : forall e c, wf_ev e -> wf_cv c ->
  ~ (e = EvExact U64_MAX /\ c = CvEmpty) -> ~ (e = EvEmpty /\ c = CvCurrent U64_MAX) ->
  gap_from_gen AddChecked e c = Some (gap_from e c).
Proof. exact gap_original_elsewhere. Qed.

(** Display / FromStr *)
Theorem C25_parse_display : forall e, wf_ev e -> parse_ev (display_ev e) = POk e.
Proof. exact parse_display_ev. Qed.

Theorem C25_display_parse : forall s e, canonical_ev s = true -> parse_ev s = POk e -> display_ev e = s.
Proof. exact display_parse_ev. Qed.

Theorem C25_display_canonical : forall e, canonical_ev (display_ev e) = true.
Proof. exact display_ev_canonical. Qed.

Theorem C25_parse_in_range : forall s e, parse_ev s = POk e -> wf_ev e.
Proof. exact parse_ev_wf. Qed.

Theorem C25_current_parse_display : forall c, wf_cv c -> parse_cv (display_cv c) = POk c.
Proof. exact parse_display_cv. Qed.

Theorem C25_current_display_parse : forall s c, canonical_cv s = true -> parse_cv s = POk c -> display_cv c = s.
Proof. exact display_parse_cv. Qed.

(** from_next_version / into_next_version are mutually inverse on their domains, u64 boundaries included:
    into . from = id on all of u64; from . into = id on Empty and Exact x with x < MAX; Exact MAX has no next version
    (None); Any / Exists are outside the domain (the code panics on purpose) *)
Theorem C25_into_from_next : forall v, v <= U64_MAX ->
  into_next_version (from_next_version v) = Some (Some v) /\ wf_ev (from_next_version v).
Proof. exact into_from_next. Qed.

Theorem C25_from_into_next : forall e, wf_ev e ->
  match e with
  | EvEmpty => into_next_version e = Some (Some 0) /\ from_next_version 0 = e
  | EvExact x => if x =? U64_MAX then into_next_version e = Some None
                 else into_next_version e = Some (Some (x + 1)) /\ x + 1 <= U64_MAX /\ from_next_version (x + 1) = e
  | _ => into_next_version e = None
  end.
Proof. exact from_into_next. Qed.

(** CurrentVersion helpers agree with the event count reading *)
Theorem C25_as_expected_satisfied : forall c, is_satisfied_by (as_expected_version c) c = true.
Proof. exact as_expected_satisfied. Qed.

Theorem C25_current_add : forall c k c', cv_add c k = Some c' -> (cv_count c' = cv_count c + Z.of_N k)%Z.
Proof. exact cv_add_count. Qed.

(** non-vacuity *)
Example C25_ex_gap : gap_from (EvExact 5) (CvCurrent 8) = GapAhead 3 /\ gap_from (EvExact 3) CvEmpty = GapBehind 4.
Proof. split; reflexivity. Qed.
Example C25_ex_text : parse_ev (display_ev (EvExact U64_MAX)) = POk (EvExact U64_MAX) /\
  display_ev (EvExact 1844) = [byte 49; byte 56; byte 52; byte 52] /\
  parse_ev [byte 43; byte 48; byte 48; byte 55] = POk (EvExact 7) /\          (* "+007" parses, is not canonical *)
  canonical_ev [byte 43; byte 48; byte 48; byte 55] = false /\
  parse_ev (display_u64 U64_MAX ++ [byte 48]) = PErr PePosOverflow.
Proof. split; [|split; [|split; [|split]]]; vm_compute; reflexivity. Qed.
Example C25_ex_tx :   (* stream 0 at version 2, stream 1 empty: [0:Exact 2; 1:Empty; 0:Exact 3; 1:Exists] is accepted, a stale Exact is not *)
  append_tx (db_of_list [(0, 2)]) 3 (EvExact 2) [(0, EvExact 2); (1, EvEmpty); (0, EvExact 3); (1, EvExists)]
    = ApOk 3 6 [(0, 3); (1, 0); (0, 4); (1, 1)] /\
  append_tx (db_of_list [(0, 2)]) 3 EvAny [(0, EvExact 2); (0, EvExact 2)] = ApWrongVersion 0 (CvCurrent 3) (EvExact 2) /\
  (forall s, cv_next_total (cv_of_latest (db_of_list [(0, 2)] s)) + N.of_nat 4 <= U64_MAX + 1).
Proof.
  split; [vm_compute; reflexivity|split; [vm_compute; reflexivity|]].
  intros s. unfold db_of_list. cbn [assoc_get]. destruct (0 =? s); vm_compute; discriminate.
Qed.

Print Assumptions C25_satisfied_iff_accepts.
Print Assumptions C25_validate_events_spec.
Print Assumptions C25_gap_signed.
Print Assumptions C25_parse_display.
Print Assumptions C25_display_parse.
Print Assumptions C25_from_into_next.
