(** C12 — replicas apply replicated writes in sequence order, each at most once.
    Only the property theorems (each closed by an exact lemma of Proofs/ReplicatorProofs.v), examples showing
    that the hypotheses are satisfiable, and what the ORIGINAL code did (history).

    Every theorem quantifies over EVERY operation list [ops] of the replicator model
    (Model/Replicator.v, the code after the two `fix:` commits): deliveries of ReplicateWrite in any order,
    with any duplication / conflict pattern, single- and multi-event transactions, any buffer limit
    (overflow, eviction), any clock values and time-outs, catch-up ticks and catch-up answers, and any
    database verdict (the oracle bit of each write).  [r_run0 n0 limit T Tc ops] is the run from the state
    the actor starts in (next sequence n0, empty buffer). *)
From Coq Require Import NArith List Bool Permutation.
From SV Require Import Model.Replicator Proofs.ReplicatorProofs.
Import ListNotations.
Open Scope N_scope.

(* none is left pending below the next expected sequence -- and, as long as no catch-up answer was aborted
   half way by the database ([run_clean]: every PartitionSyncResponse of the history was applied completely,
   which is what an honest coordinator's answer -- commits continuing the replica's log -- gives),
   none AT it either (so every buffered key is strictly ahead) *)
Theorem C12_no_stale_pending : forall n0 limit T Tc ops k e,
  In (k, e) (r_map (fst (r_run0 n0 limit T Tc ops))) ->
  r_next (fst (r_run0 n0 limit T Tc ops)) <= k /\
  (run_clean (r_init n0 limit T Tc) ops -> r_next (fst (r_run0 n0 limit T Tc ops)) < k).
Proof. exact no_stale_pending. Qed.

(* buffered writes are applied as soon as their predecessor is: after any history (whose catch-up answers,
   if any, were applied completely) no entry with key = next remains buffered *)
Theorem C12_buffer_drain : forall n0 limit T Tc ops,
  run_clean (r_init n0 limit T Tc) ops -> m_find (r_next (fst (r_run0 n0 limit T Tc ops))) (r_map (fst (r_run0 n0 limit T Tc ops))) = None.
Proof. exact buffer_drain. Qed.

(* ... and without that hypothesis, per step: from ANY reachable state, a write that the queue takes and a
   catch-up answer that is applied completely leave nothing waiting at [next]; every other step preserves it.
   (The one way to leave an entry AT next is a catch-up answer aborted by a database error, see
   C12_aborted_sync_example; the next accepted write picks the entry up.) *)
Theorem C12_buffer_drain_step : forall n0 limit T Tc ops,
  let s := fst (r_run0 n0 limit T Tc ops) in
  (forall now rid key tx more ok,
     ins_accepted (snd (rq_insert (tq_q (r_tq s)) key (mk_rentry tx key more ok [(rid, now)]))) = true ->
     r_drained (fst (r_deliver now s rid key tx more ok))) /\
  (forall now cs, step_clean s (OpSync now (Some cs)) -> r_drained (fst (r_sync now s (Some cs)))) /\
  (forall o, step_clean s o -> r_drained s -> r_drained (fst (r_step s o))).
Proof. exact buffer_drain_step. Qed.

(* an append happens only at the coordinator-assigned sequence, which is the current [next]:
   the log is a gap-free run of appends from n0 to the database's next sequence, EVERY entry -- replicated
   write or catch-up commit (since 28b51ee both carry an expected sequence) -- sits at the sequence assigned
   to it, the queue's next IS the database's next, the database is never even
   offered a write at another sequence (no WrongExpectedSequence answer), and an "applied at pos" answer goes
   only to a reply id whose write was sent for sequence pos *)
Theorem C12_apply_at_assigned : forall n0 limit T Tc ops,
  let s := fst (r_run0 n0 limit T Tc ops) in
  let evs := snd (r_run0 n0 limit T Tc ops) in
  log_contig n0 (r_log s) (r_dbnext s) /\
  (forall le, In le (r_log s) -> l_assigned le = Some (l_pos le)) /\
  r_dbnext s = r_next s /\
  (forall rid, ~ In (EvAns rid (OErr EWrongSeq)) evs) /\
  (forall rid pos, In (EvAns rid (OApplied pos)) evs -> In (rid, pos) (ops_deliveries ops)).
Proof. exact apply_at_assigned. Qed.

(* stale keys are rejected, a different transaction at an occupied key is rejected, and a rejection of any
   kind (stale / conflict / full) changes NOTHING: not the log, not the buffer, not the timer *)
Theorem C12_reject_unchanged : forall now s rid key tx more ok,
  (key < r_next s -> r_deliver now s rid key tx more ok = (s, [EvAns rid (OErr EStale)])) /\
  (forall ex, r_next s <= key -> m_find key (r_map s) = Some ex -> e_tx ex <> tx ->
     r_deliver now s rid key tx more ok = (s, [EvAns rid (OErr EConflict)])) /\
  (ins_accepted (snd (rq_insert (tq_q (r_tq s)) key (mk_rentry tx key more ok [(rid, now)]))) = false ->
     fst (r_deliver now s rid key tx more ok) = s /\
     exists e, snd (r_deliver now s rid key tx more ok) = [EvAns rid (OErr e)] /\ (e = EConflict \/ e = EFull \/ e = EStale)).
Proof.
  intros. split; [apply deliver_stale|]. split; [intros; eapply deliver_conflict; eassumption|apply deliver_rejected].
Qed.

(* the same transaction at an occupied key merges -- also when the buffer is full: the reply sender is
   appended to the buffered entry, nothing is answered yet, nothing is evicted, the log does not move;
   at key = next the merged entry is handed out as the next write *)
Theorem C12_dup_merge : forall now s rid key tx more ok ex,
  r_next s < key -> m_find key (r_map s) = Some ex -> e_tx ex = tx -> r_drained s ->
  let s' := fst (r_deliver now s rid key tx more ok) in
  snd (r_deliver now s rid key tx more ok) = [] /\ r_log s' = r_log s /\ r_dbnext s' = r_dbnext s /\ r_next s' = r_next s /\
  m_find key (r_map s') = Some (e_with_replies ex (e_replies ex ++ [(rid, now)])) /\
  (forall k', k' <> key -> m_find k' (r_map s') = m_find k' (r_map s)).
Proof. exact deliver_duplicate_buffered. Qed.

Theorem C12_dup_merge_at_next : forall q v ex,
  m_find (q_next q) (q_map q) = Some ex -> e_tx v = e_tx ex ->
  rq_insert q (q_next q) v = (q_with_map q (m_remove (q_next q) (q_map q)), InsReady (e_merge ex v) true).
Proof. exact insert_duplicate_at_next. Qed.

(* every inserted write is answered exactly once (applied, error, evicted, stale, expired) or is still
   buffered exactly once -- never silently dropped, never answered twice: as multisets,
   answered reply ids + buffered reply ids = delivered reply ids *)
Theorem C12_answered : forall n0 limit T Tc ops,
  Permutation (ev_rids (snd (r_run0 n0 limit T Tc ops)) ++ m_rids (r_map (fst (r_run0 n0 limit T Tc ops))))
              (ops_rids ops).
Proof. exact answered_exactly_once. Qed.

Theorem C12_answered_once : forall n0 limit T Tc ops, NoDup (ops_rids ops) ->
  NoDup (ev_rids (snd (r_run0 n0 limit T Tc ops)) ++ m_rids (r_map (fst (r_run0 n0 limit T Tc ops)))) /\
  (forall rid, In rid (ops_rids ops) <->
     In rid (ev_rids (snd (r_run0 n0 limit T Tc ops)) ++ m_rids (r_map (fst (r_run0 n0 limit T Tc ops))))).
Proof. exact answered_once_nodup. Qed.

(* `oldest_buffered_seq - from_seq` / `oldest_buffered_seq - 1` in detect_and_handle_gaps never underflow *)
Theorem C12_no_gap_underflow : forall n0 limit T Tc ops, ~ In EvGapPanic (snd (r_run0 n0 limit T Tc ops)).
Proof. exact no_gap_panic. Qed.

(* what "eventually answered" rests on: whenever something is buffered the catch-up timer is armed *)
Theorem C12_timer_armed : forall n0 limit T Tc ops,
  tq_timer (r_tq (fst (r_run0 n0 limit T Tc ops))) = None <-> r_map (fst (r_run0 n0 limit T Tc ops)) = [].
Proof. exact timer_armed. Qed.

(* the buffer stays a map ordered by key; every entry is stored under its own transaction's sequence and
   keeps at least one reply sender (`received_at()` cannot panic) *)
Theorem C12_buffer_wf : forall n0 limit T Tc ops,
  let m := r_map (fst (r_run0 n0 limit T Tc ops)) in
  keys_increasing m /\ Forall (fun p => 0 < fst p /\ e_seq (snd p) = fst p /\ e_replies (snd p) <> []) m.
Proof. exact buffer_wf. Qed.

(* ------------------------------------------------------------------ non-vacuity *)
(* next = 5; 7 is buffered; a 3-event write at 5 overtakes it (answered stale); 8 is then applied; a duplicate
   of 7 is stale: reply ids 0..3 are all answered, the log is 5..7, 8 *)
Example C12_example_history :
  let ops := [OpDeliver 0 0 7 70 0 true; OpDeliver 0 1 5 50 2 true; OpDeliver 0 2 8 80 0 true; OpDeliver 0 3 7 70 0 true] in
  snd (r_run0 5 3 1000 1000 ops) =
    [EvAns 0 (OErr EStale); EvAns 1 (OApplied 5); EvAns 2 (OApplied 8); EvAns 3 (OErr EStale)] /\
  r_map (fst (r_run0 5 3 1000 1000 ops)) = [] /\ r_next (fst (r_run0 5 3 1000 1000 ops)) = 9 /\
  run_clean (r_init 5 3 1000 1000) ops /\ NoDup (ops_rids ops).
Proof. vm_compute. repeat split; repeat constructor; cbn; intuition discriminate. Qed.

(* out-of-order delivery, a duplicate, a conflict, an eviction, a full buffer and a database rejection *)
Example C12_example_buffering :
  let ops := [OpDeliver 0 0 2 20 0 true; OpDeliver 0 1 4 40 0 true; OpDeliver 0 2 2 20 0 true; OpDeliver 0 3 2 21 0 true;
              OpDeliver 0 4 3 30 0 true; OpDeliver 0 5 9 90 0 true; OpDeliver 0 6 0 1 0 false; OpDeliver 0 7 0 2 1 true] in
  snd (r_run0 0 2 1000 1000 ops) =
    [EvAns 3 (OErr EConflict); EvAns 1 (OErr EEvicted); EvAns 5 (OErr EFull); EvAns 6 (OErr EDb);
     EvAns 7 (OApplied 0); EvAns 0 (OApplied 2); EvAns 2 (OApplied 2); EvAns 4 (OApplied 3)] /\
  r_map (fst (r_run0 0 2 1000 1000 ops)) = [] /\ r_next (fst (r_run0 0 2 1000 1000 ops)) = 4.
Proof. vm_compute. repeat split. Qed.

(* the single way to leave an entry AT next: a catch-up answer the database aborts half way (here its second
   commit does not continue the log); a catch-up answer that continues the log is applied and drains *)
Example C12_aborted_sync_example :
  let ops := [OpDeliver 0 0 6 60 0 true; OpSync 0 (Some [mk_commit 50 5 0 true; mk_commit 99 9 0 true])] in
  ~ run_clean (r_init 5 3 1000 1000) ops /\
  r_next (fst (r_run0 5 3 1000 1000 ops)) = 6 /\ m_rids (r_map (fst (r_run0 5 3 1000 1000 ops))) = [0] /\
  (* ... and the next accepted write picks it up *)
  snd (r_run0 5 3 1000 1000 (ops ++ [OpDeliver 0 1 9 90 0 true])) = [EvAns 0 (OApplied 6)] /\
  (* an honest answer *)
  let ops' := [OpDeliver 0 0 6 60 0 true; OpSync 0 (Some [mk_commit 50 5 0 true])] in
  run_clean (r_init 5 3 1000 1000) ops' /\ snd (r_run0 5 3 1000 1000 ops') = [EvAns 0 (OApplied 6)].
Proof.
  split; [|vm_compute; repeat split]. vm_compute. intros (_ & H & _). discriminate.
Qed.

(* ------------------------------------------------------------------ history: the original code *)
(* original progress_to: the entry with key 7 stays buffered below next = 8 (never popped, never answered) *)
Theorem C12_orig_progress_refuted :
  let q := fst (rq_insert (rq_new 5 3) 7 (mk_rentry 70 7 0 true [(1, 0)])) in
  map fst (q_map (rq_progress_orig q 8)) = [7] /\ q_next (rq_progress_orig q 8) = 8 /\
  snd (rq_pop (rq_progress_orig q 8)) = None /\
  (* the repaired one hands it back *)
  map fst (snd (rq_progress q 8)) = [7] /\ q_map (fst (rq_progress q 8)) = [].
Proof. vm_compute. repeat split. Qed.

(* original insert at a full buffer (limit 2, keys 7 and 9): a conflicting write for 7 makes reply id 2 of
   key 9 vanish (neither returned nor buffered); a duplicate of 9 is refused as Full; a duplicate of 7 evicts 9 *)
Theorem C12_orig_insert_refuted :
  let v k tx rid := mk_rentry tx k 0 true [(rid, 0)] in
  let q := fst (rq_insert_orig (fst (rq_insert_orig (rq_new 5 2) 7 (v 7 70 1))) 9 (v 9 90 2)) in
  (ins_rids (snd (rq_insert_orig q 7 (v 7 71 3))) ++ m_rids (q_map (fst (rq_insert_orig q 7 (v 7 71 3)))) = [3; 1]) /\
  (exists k e, snd (rq_insert_orig q 9 (v 9 90 3)) = InsFull k e) /\
  (exists e, snd (rq_insert_orig q 7 (v 7 70 3)) = InsBuffered true (Some (9, e))) /\
  (* repaired *)
  (ins_rids (snd (rq_insert q 7 (v 7 71 3))) ++ m_rids (q_map (fst (rq_insert q 7 (v 7 71 3)))) = [3; 1; 2]) /\
  snd (rq_insert q 9 (v 9 90 3)) = InsBuffered true None /\
  snd (rq_insert q 7 (v 7 70 3)) = InsBuffered true None.
Proof. vm_compute. repeat split; repeat eexists. Qed.

Print Assumptions C12_no_stale_pending.
Print Assumptions C12_buffer_drain.
Print Assumptions C12_buffer_drain_step.
Print Assumptions C12_apply_at_assigned.
Print Assumptions C12_reject_unchanged.
Print Assumptions C12_dup_merge.
Print Assumptions C12_dup_merge_at_next.
Print Assumptions C12_answered.
Print Assumptions C12_answered_once.
Print Assumptions C12_no_gap_underflow.
Print Assumptions C12_timer_armed.
Print Assumptions C12_buffer_wf.
Print Assumptions C12_orig_progress_refuted.
Print Assumptions C12_orig_insert_refuted.
