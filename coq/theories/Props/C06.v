(** C06 — a crash during segment rollover neither loses data nor blocks reopening.

    A sealed segment's three index files (index.eidx, partition.pidx, stream.sidx) are written by a background
    task after the rollover, with one or two plain writes, no fsync and no completion marker; a process (or
    power) failure leaves each of them missing, empty, a proper prefix, or complete.
    Model: Model/IndexFiles.v on top of the record-level store (Model/Store.v): [open_sealed] is
    DatabaseBuilder::open for one sealed segment as it is now (an index file that is missing or does not
    validate is rebuilt from the segment's events file), [open_sealed_v0] / [*_lookup_v0] the code before the
    repair (open aborted on a short header; missing files were skipped; truncated records / values made
    lookups fail or, for the partition index, silently miss).
    Only property theorems, each closed by an exact lemma of Proofs/IndexFilesProofs.v. *)
From Coq Require Import NArith List Bool.
From SV Require Import Model.IndexFiles Proofs.StoreInv Proofs.StoreSimProofs Proofs.IndexFilesProofs.
Import ListNotations.
Open Scope N_scope.

(** every state of the three index files of a sealed segment (missing / empty / every prefix length /
    complete, independently per file): reopening succeeds (the model's open is total), the reader pool gets
    exactly the writer's three indexes, and every event of every committed transaction of the segment is found
    by stream and by partition, and by id when the ids in the segment are distinct (the code does not
    enforce unique ids; its event index is "last insert wins") *)
Theorem C06_reopen_total : forall g f, seg_ok g ->
  open_sealed g f = rseg_of g /\
  (forall e, In e (seg_committed (s_recs g)) ->
     find_by_stream (open_sealed g f) e = true /\ find_by_partition (open_sealed g f) e = true /\
     (NoDup (map e_id (rec_events (s_recs g))) -> find_by_id (open_sealed g f) e = true)).
Proof. exact open_sealed_total. Qed.

(** every rollover in every history, every crash point of the live segment ([keep], C05) and every state of every
    sealed segment's index files: the reopened store is exactly the store that C05 describes for undamaged index
    files -- so everything proved about it (C01-C05: reads, scans, versions, sequences, further appends) holds --
    and the reader pool holds, for each sealed segment, the writer's indexes, in which every acknowledged event
    is found *)
Theorem C06_crash_during_rollover : forall ops keep fs,
  Forall wf_op ops -> length fs = length (sealed (run ops)) ->
  crash_ix (run ops) keep fs = (crash (run ops) keep, map rseg_of (sealed (crash (run ops) keep))) /\
  Forall (fun g => forall e, In e (seg_committed (s_recs g)) ->
            find_by_stream (rseg_of g) e = true /\ find_by_partition (rseg_of g) e = true /\
            (NoDup (map e_id (rec_events (s_recs g))) -> find_by_id (rseg_of g) e = true)) (sealed (run ops)).
Proof. exact run_crash_ix. Qed.

Theorem C06_crash_step : forall s keep fs, Inv s -> length fs = length (sealed s) ->
  crash_ix s keep fs = (crash s keep, map rseg_of (sealed (crash s keep))).
Proof. exact crash_ix_total. Qed.

Theorem C06_reopen_step : forall s fs, Inv s -> length fs = length (sealed s) ->
  reopen_ix s fs = (reopen s, map rseg_of (sealed (reopen s))).
Proof. exact reopen_ix_total. Qed.

(** the validation accepts exactly the complete file (so a prefix is never taken for an index), an index is
    rebuilt exactly when its file is not complete, and after the open all three files are complete *)
Theorem C06_validation_exact : forall l st, lay_wf l -> proper l st -> closed_open l st = true <-> st = FComplete.
Proof. exact closed_open_spec. Qed.

Theorem C06_rebuilt_iff : forall l st g, lay_wf l -> proper l st ->
  (load_index l st g = hydrate_from (s_recs g) 0 /\ closed_open l st = false) \/ (st = FComplete /\ load_index l st g = s_idx g).
Proof. exact rebuilt_iff. Qed.

(** dying inside the rollover right after the next segment's directory was created (no events file in it yet):
    the directory changes neither the set of sealed segments nor the live segment, and the live segment is never
    opened as a sealed one *)
Theorem C06_interrupted_rollover_dir : forall dirs j,
  scan_sealed (dirs ++ [(j, false)]) = scan_sealed dirs /\ live_of (dirs ++ [(j, false)]) = live_of dirs.
Proof. exact scan_ignores_empty_dirs. Qed.

Theorem C06_live_not_sealed : forall dirs, ~ In (live_of dirs) (scan_sealed dirs).
Proof. exact scan_live_not_sealed. Qed.

(** before the repair the newest directory counted as the live segment even without an events file: the real live
    segment (1) was opened as a sealed one -- its index files are empty, so the open failed *)
Theorem C06_v0_dir_refuted :
  scan_sealed_v0 [(0, true); (1, true); (2, false)] = [0; 1] /\ live_of [(0, true); (1, true); (2, false)] = 1 /\
  scan_sealed [(0, true); (1, true); (2, false)] = [0].
Proof. exact scan_v0_live_sealed. Qed.

(** the code BEFORE the repair, on a sealed segment of four single-event transactions (replayed on the real
    Database: corpus/C06/*.case):
    (1) an index file shorter than its header (e.g. empty, as created at the rollover): the open fails; *)
Theorem C06_v0_open_refuted : forall p, p < 60 ->
  open_sealed_v0 (mkFiles w_lay_e (FPrefix p) w_lay_p FComplete w_lay_s FComplete) = None.
Proof. exact v0_open_fails. Qed.

(** (2) missing files are skipped and the segment's events are not found; *)
Theorem C06_v0_missing_refuted :
  open_sealed_v0 (mkFiles w_lay_e FMissing w_lay_p FMissing w_lay_s FMissing) = Some (VAbsent, VAbsent, VAbsent) /\
  eidx_lookup_v0 VAbsent (s_idx w_seg) 84 2 = LMiss /\ pidx_lookup_v0 VAbsent (s_idx w_seg) 82 146 1 = LMiss /\
  sidx_lookup_v0 VAbsent (s_idx w_seg) 228 352 10 = LMiss /\
  eidx_get (s_idx w_seg) 2 = Some 2%nat.
Proof. exact v0_missing_misses. Qed.

(** (3) header complete, records or values cut: the open succeeds and lookups fail, or silently miss *)
Theorem C06_v0_partial_refuted :
  open_sealed_v0 (mkFiles w_lay_e (FPrefix 60) w_lay_p (FPrefix 44) w_lay_s (FPrefix 336)) = Some (VPartial 60, VPartial 44, VPartial 336) /\
  eidx_lookup_v0 (VPartial 60) (s_idx w_seg) 84 2 = LErr /\
  pidx_lookup_v0 (VPartial 44) (s_idx w_seg) 82 146 1 = LMiss /\
  pidx_lookup_v0 (VPartial 82) (s_idx w_seg) 82 146 1 = LErr /\
  sidx_lookup_v0 (VPartial 336) (s_idx w_seg) 228 352 10 = LErr.
Proof. exact v0_partial_lookups. Qed.

(** ** non-vacuity *)
Example C06_example_seg : seg_ok w_seg /\ lay_wf w_lay_e /\ lay_wf w_lay_p /\ lay_wf w_lay_s /\
  seg_committed (s_recs w_seg) = [w_ev 0 10 0; w_ev 1 11 0; w_ev 2 10 1; w_ev 3 11 1] /\
  NoDup (map e_id (rec_events (s_recs w_seg))).
Proof.
  split; [exact w_seg_ok|]. unfold lay_wf. vm_compute. repeat split; try discriminate.
  repeat (constructor; [cbn; intros H; repeat (destruct H as [H|H]; [discriminate H|]); exact H|]). constructor.
Qed.

(* the refuting file states, on the code as it is: everything is found *)
Example C06_example_fixed :
  let f := mkFiles w_lay_e (FPrefix 0) w_lay_p FMissing w_lay_s (FPrefix 336) in
  files_wf f /\ open_sealed w_seg f = rseg_of w_seg /\
  count (find_by_id (open_sealed w_seg f)) (seg_committed (s_recs w_seg)) = 4%nat /\
  count (find_by_stream (open_sealed w_seg f)) (seg_committed (s_recs w_seg)) = 4%nat /\
  count (find_by_partition (open_sealed w_seg f)) (seg_committed (s_recs w_seg)) = 4%nat.
Proof. unfold files_wf, lay_wf. vm_compute. repeat split; try reflexivity; try discriminate. Qed.

(* a history with two rollovers and a crash that tears the live segment while both sealed segments have damaged index files *)
Definition z_t (i : N) : txn := mkTxn 7 1 (200 + i) true [mkNew i 10 XAny true] XAny.
Definition z_ops : list op :=
  [OAppend (z_t 1) false false; OAppend (z_t 2) false false; OAppend (z_t 3) true false; OSync;
   OAppend (z_t 4) true false; OAppend (z_t 5) false false].
Definition z_files : list ifiles :=
  [mkFiles w_lay_e (FPrefix 0) w_lay_p (FPrefix 50) w_lay_s FMissing; mkFiles w_lay_e FComplete w_lay_p (FPrefix 0) w_lay_s (FPrefix 367)].
Example C06_example_history :
  Forall wf_op z_ops /\ length (sealed (run z_ops)) = 2%nat /\ length z_files = 2%nat /\
  map (fun r => length (r_recs r)) (snd (crash_ix (run z_ops) 1 z_files)) = [2%nat; 1%nat] /\
  map (fun r => count (find_by_id r) (seg_committed (r_recs r))) (snd (crash_ix (run z_ops) 1 z_files)) = [2%nat; 1%nat] /\
  read_event (fst (crash_ix (run z_ops) 1 z_files)) 2 = Some (mkEvent 2 7 1 202 true 1 10 1) /\
  read_event (fst (crash_ix (run z_ops) 1 z_files)) 5 = None.
Proof. split; [repeat constructor; try discriminate|]. vm_compute. repeat split; reflexivity. Qed.

Print Assumptions C06_reopen_total.
Print Assumptions C06_crash_during_rollover.
Print Assumptions C06_crash_step.
Print Assumptions C06_reopen_step.
Print Assumptions C06_validation_exact.
Print Assumptions C06_rebuilt_iff.
Print Assumptions C06_interrupted_rollover_dir.
Print Assumptions C06_live_not_sealed.
Print Assumptions C06_v0_dir_refuted.
Print Assumptions C06_v0_open_refuted.
Print Assumptions C06_v0_missing_refuted.
Print Assumptions C06_v0_partial_refuted.
