(** C24 — distribute_partition returns exactly min(rf, n, 12) distinct valid partitions.
    This file holds only the property theorems; each is closed by an exact lemma. *)
From Coq Require Import NArith List.
From SV Require Import Model.Topology Proofs.TopologyProofs.
Import ListNotations.
Open Scope N_scope.

(* every hash, every partition count, every replication factor (no bound needed:
   the model of the repaired code adds in a wide type) *)
Theorem C24_spec : forall h n rf,
  let r := distribute h n rf in
  length r = N.to_nat (N.min rf (N.min n 12)) /\ NoDup r /\
  Forall (fun p => p < n) r /\
  (0 < n -> 0 < rf -> hd_error r = Some (h mod n)) /\
  (forall rf', rf' <= rf -> distribute h n rf' = firstn (length (distribute h n rf')) r).
Proof. exact distribute_correct. Qed.

(* the loop of the code never panics / never hits its "safety" break *)
Theorem C24_total : forall h n rf, distribute_gen Wide h n rf = Some (distribute h n rf).
Proof. exact distribute_total. Qed.

(* closed form: the i-th replica is (h mod n + i * jump n) mod n *)
Theorem C24_closed_form : forall h n rf, distribute h n rf = distribute_spec h n rf.
Proof. exact distribute_closed. Qed.

(* history: the original `u16` addition is right for n <= 43689 and wrong above *)
Theorem C24_u16_ok_small : forall a h n rf, n <= 43689 ->
  distribute_gen a h n rf = Some (distribute h n rf).
Proof. exact distribute_u16_small. Qed.

Theorem C24_u16_refuted :
  distribute_gen Panic16 65534 65535 2 = None /\
  distribute_gen Wrap16 65534 65535 2 <> Some (distribute 65534 65535 2).
Proof. exact distribute_u16_refuted. Qed.

(* non-vacuity: a concrete non-trivial instance *)
Example C24_example : distribute 65534 65535 3 = [65534; 32767; 0].
Proof. vm_compute. reflexivity. Qed.

Print Assumptions C24_spec.
Print Assumptions C24_total.
Print Assumptions C24_closed_form.
Print Assumptions C24_u16_ok_small.
Print Assumptions C24_u16_refuted.
