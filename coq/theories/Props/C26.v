(** C26 — the write circuit breaker is panic-free and bounds half-open probes under ANY
    interleaving (crates/sierradb-cluster/src/circuit_breaker.rs, after the two fix: commits).

    Quantification: every configuration [c] with both repairs present, every start time [t0],
    every schedule [sched] = list of (thread id : nat, method to start when the thread is idle,
    clock advance before the step): any number of threads, any interleaving of their atomic
    steps, any non-decreasing clock. [bexec c sched (binit t0)] is the state after the schedule,
    [brun] its observable trace. Ghost fields (Model/Breaker.v): [g_panicked], [g_wrapped]
    (some u32 counter wrapped: needs 2^32 increments, see C26_no_wrap_short), per half-open
    episode [g_admits]/[g_lost], [g_peak] = largest number of requests admitted in one episode
    that had no lost reset, [g_opens] = for every Closed->Open decision the closed-state
    history at the deciding thread's own counted failure.

    Readings (DESIGN 6b, the weaker reading is enforced):
    - episode = from a successful Open->HalfOpen compare_exchange to the next one; a request is
      admitted in the episode if its deciding atomic step returns true while the state is HalfOpen.
    - "opens only after threshold consecutive failures" covers the opens decided in the Closed
      branch of record_failure (a failure reported in HalfOpen re-opens at once by design);
      consecutive = trailing run of counted failures since the last reset of failure_count,
      measured at the deciding thread's own failure.
    - KNOWN FINDING (class probe_bound_reset_race): the repaired code still resets
      half_open_call_count with a plain store after the state change, so a reset that lands
      inside an episode after a probe was admitted loses that probe ([g_lost]). The probe bound
      is therefore stated for episodes without such a reset (forall x, ~Known x -> P x), and
      C26_reset_race_known exhibits the excluded schedule. *)
From Coq Require Import NArith List.
From SV Require Import Model.Breaker Proofs.BreakerProofs.
Import ListNotations.
Open Scope N_scope.

(* no step of any thread panics (flag and trace form), for every schedule in which no u32
   counter wrapped *)
Theorem C26_no_panic : forall c t0 sched, fx_sat c = true ->
  g_wrapped (b_gh (bexec c sched (binit t0))) = false ->
  g_panicked (b_gh (bexec c sched (binit t0))) = false /\
  ~ In APanic (arrivals (brun c (binit t0) sched)).
Proof. exact breaker_no_panic_full. Qed.

(* the side condition is implied by any schedule of fewer than 2^32 atomic steps *)
Theorem C26_no_wrap_short : forall c t0 sched, N.of_nat (length sched) < U32 ->
  g_wrapped (b_gh (bexec c sched (binit t0))) = false.
Proof. exact breaker_no_wrap_short. Qed.

(* every Closed->Open decision was taken by a thread whose own counted failure completed a run
   of at least failure_threshold consecutive counted failures (any variant of the code, any
   schedule, no side condition) *)
Theorem C26_open_after_threshold : forall c t0 sched,
  Forall (fun h => b_thr c <= trailing_failures h) (g_opens (b_gh (bexec c sched (binit t0)))).
Proof. exact breaker_open_after_threshold. Qed.

(* admitted requests per half-open episode <= half_open_max_calls, for every episode without a
   lost reset (known finding), current episode included *)
Theorem C26_probe_bound : forall c t0 sched, fx_cnt c = true ->
  let s := bexec c sched (binit t0) in
  g_wrapped (b_gh s) = false ->
  g_peak (b_gh s) <= b_max c /\ (g_lost (b_gh s) = false -> g_admits (b_gh s) <= b_max c).
Proof. exact breaker_probe_bound. Qed.

(* Appendix A shape: all three for every schedule of fewer than 2^32 steps *)
Theorem C26_inv : forall c t0 sched, fx_sat c = true -> fx_cnt c = true ->
  N.of_nat (length sched) < U32 ->
  let s := bexec c sched (binit t0) in
  g_panicked (b_gh s) = false /\ ~ In APanic (arrivals (brun c (binit t0) sched)) /\
  g_peak (b_gh s) <= b_max c /\ (g_lost (b_gh s) = false -> g_admits (b_gh s) <= b_max c) /\
  Forall (fun h => b_thr c <= trailing_failures h) (g_opens (b_gh s)).
Proof. exact breaker_inv. Qed.

(* the original code (both repairs off) panics: `now - last_failure` underflows in
   should_allow_request and in estimated_recovery_time when a concurrent record_failure stored
   a later timestamp (replayed on the real code before commit 25ca01c: PANIC) *)
Theorem C26_orig_panic_refuted :
  g_panicked (b_gh (bexec (mkCfg 1 30000 1 1 false false) w_orig_panic (binit 1000))) = true /\
  g_panicked (b_gh (bexec (mkCfg 1 30000 1 1 false false) w_orig_panic_est (binit 1000))) = true /\
  g_wrapped (b_gh (bexec (mkCfg 1 30000 1 1 false false) w_orig_panic (binit 1000))) = false.
Proof. exact orig_panic_refuted. Qed.

(* without the second repair: one thread alone gets max+1 = 2 probes (no lost reset involved),
   and with three threads 4 requests are admitted in one episode with max = 1
   (replayed on the real code before commit c4b550e) *)
Theorem C26_orig_probe_refuted :
  let s := bexec (mkCfg 1 0 1 1 true false) w_uncounted (binit 1000) in
  let s' := bexec (mkCfg 1 0 1 1 true false) w_loser_reset (binit 1000) in
  g_peak (b_gh s) = 2 /\ g_lost (b_gh s) = false /\ g_wrapped (b_gh s) = false /\
  g_admits (b_gh s') = 4 /\ g_kpeak (b_gh s') = 4 /\ g_wrapped (b_gh s') = false.
Proof. exact orig_probe_refuted. Qed.

(* the known finding: on the repaired code a reset can still land after an admitted probe;
   2 requests are admitted with max = 1 (corpus/C26/known-reset-race.case) *)
Theorem C26_reset_race_known :
  let s := bexec (mkCfg 1 0 1 1 true true) w_reset_race (binit 1000) in
  g_lost (b_gh s) = true /\ g_kpeak (b_gh s) = 2 /\ g_peak (b_gh s) = 1 /\ g_wrapped (b_gh s) = false.
Proof. exact reset_race_known. Qed.

(* non-vacuity: a schedule on the repaired code that opens the breaker after 2 failures,
   goes half-open, admits exactly max = 1 probe, rejects the next and closes on success *)
Definition ex_sched : list bitem :=
  (St 0 MFailure :: repeat (Go 0) 3) ++ fail_open 1 ++
  (StD 0 MAllow 7 :: repeat (Go 0) 6) ++ [St 1 MAllow; Go 1] ++ (St 0 MSuccess :: repeat (Go 0) 7).
Example C26_example :
  let c := mkCfg 2 5 1 1 true true in
  let s := bexec c ex_sched (binit 1000) in
  arrivals (brun c (binit 1000) ex_sched) <> [] /\
  g_opens (b_gh s) = [[EvF; EvF]] /\ g_peak (b_gh s) = 1 /\ g_lost (b_gh s) = false /\
  s_st (b_sh s) = 0 /\ g_panicked (b_gh s) = false /\
  In (ARetB true) (arrivals (brun c (binit 1000) ex_sched)) /\
  In (ARetB false) (arrivals (brun c (binit 1000) ex_sched)).
Proof. vm_compute. repeat split; try discriminate; auto 30. Qed.

Print Assumptions C26_no_panic.
Print Assumptions C26_no_wrap_short.
Print Assumptions C26_open_after_threshold.
Print Assumptions C26_probe_bound.
Print Assumptions C26_inv.
Print Assumptions C26_orig_panic_refuted.
Print Assumptions C26_orig_probe_refuted.
Print Assumptions C26_reset_race_known.
