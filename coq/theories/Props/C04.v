(** C04 — multi-event transactions are all-or-nothing for readers.
    "Every read API sees a multi-event transaction completely or not at all. An event of a
    transaction is only ever returned together with all of its sibling events (after the
    stream filter), and a transaction whose commit record is missing is never returned."

    The read path is [read_committed] (Model/Store.v; BucketSegmentReader::read_committed_events).
    This file holds only the property theorems; each is closed by an exact lemma of
    Proofs/ReadCommittedProofs.v.  Offsets are record indices (nat). *)
From Coq Require Import PeanoNat NArith List Bool.
From SV Require Import Model.StoreIter Proofs.ReadCommittedProofs.
Import ListNotations.
Local Open Scope nat_scope.

(** ** 1. every record list (no well-formedness): a commit record is required.
    A returned [CSingle] is the flagged event at [off].  A returned [CTxn es tx n] ends at the
    first commit record [j] at or after [off]; that record is [RCommit tx n]; [es] are exactly
    the records at [j - length es .. j-1], all of them event records, starting at or after
    [off]; the first is an unflagged event of [tx], the others are events of [tx] or flagged
    events (the loop pushes a flagged event into a pending transaction: reader.rs:405-415). *)
Theorem C04_commit_required : forall recs off c,
  fst (read_committed recs off) = Some c ->
  (exists e, c = CSingle off e /\ nth_error recs off = Some (REvent e) /\ e_flag e = true) \/
  (exists es tx n j,
      c = CTxn es tx n /\ nth_error recs j = Some (RCommit tx n) /\ es <> [] /\
      length es <= j /\ off <= j - length es /\
      map fst es = seq (j - length es) (length es) /\
      Forall (fun pe => nth_error recs (fst pe) = Some (REvent (snd pe))) es /\
      (forall p, off <= p < j -> exists e, nth_error recs p = Some (REvent e)) /\
      ((exists p e, hd_error es = Some (p, e) /\ e_tx e = tx /\ e_flag e = false) /\
       Forall (fun pe => e_flag (snd pe) = true \/ e_tx (snd pe) = tx) es)).
Proof. exact rc_commit_required. Qed.

Theorem C04_no_commit_no_return : forall recs off tx,
  (forall j n, off <= j -> nth_error recs j <> Some (RCommit tx n)) ->
  (forall es n, fst (read_committed recs off) <> Some (CTxn es tx n)) /\
  (forall o e, fst (read_committed recs off) = Some (CSingle o e) -> e_flag e = true).
Proof. exact rc_no_commit_no_return. Qed.

(** ** 2. well-formed logs.
    [wf_group], [wf_recs], [wf_crash], [txn_events], [with_offs], [events_of_group],
    [committed_pairs] are defined in Proofs/ReadCommittedProofs.v.
    The side condition "two adjacent multi-event groups do not carry the same transaction id"
    ([adjacent_tx_distinct]) turned out to be unnecessary and is not assumed: a read starts
    with an empty event list and the nil pending id, so it never merges with an earlier group. *)

(* reading at the i-th event of a committed transaction returns exactly the events from i on,
   with their offsets, and that group's commit; reading at a flagged single returns exactly it.
   (The groups before and the records after are arbitrary.) *)
Theorem C04_siblings : forall gs1 tail,
  (forall es tx i, txn_events tx es -> i < length es ->
     let g := map REvent es ++ [RCommit tx (N.of_nat (length es))] in
     let off := length (concat gs1) + i in
     read_committed (concat gs1 ++ g ++ tail) off
     = (Some (CTxn (with_offs off (skipn i es)) tx (N.of_nat (length es))),
        Some (length (concat gs1) + length g))) /\
  (forall e, e_flag e = true ->
     let off := length (concat gs1) in
     read_committed (concat gs1 ++ [REvent e] ++ tail) off = (Some (CSingle off e), Some (S off))).
Proof. exact rc_siblings. Qed.

(* reading at an offset inside (or after) the torn last group returns nothing *)
Theorem C04_torn_none : forall gs g p off,
  wf_group g -> proper_prefix p g -> length (concat gs) <= off ->
  read_committed (concat gs ++ p) off = (None, None).
Proof. exact rc_read_torn_group. Qed.

(* every group returned by any read of a crashed log: the returned events are all events of
   one committed group [gk] from the asked one on, with their offsets; the commit is [gk]'s;
   no returned offset lies in the torn part *)
Theorem C04_all_or_nothing : forall gs g p off c,
  Forall wf_group gs -> wf_group g -> proper_prefix p g ->
  fst (read_committed (concat gs ++ p) off) = Some c ->
  exists gs1 gk gs2 i,
    gs = gs1 ++ gk :: gs2 /\ off = length (concat gs1) + i /\
    i < length (events_of_group gk) /\
    committed_pairs c = with_offs off (skipn i (events_of_group gk)) /\
    Forall (fun pe => fst pe < length (concat gs)) (committed_pairs c) /\
    match c with
    | CSingle _ e => gk = [REvent e] /\ e_flag e = true
    | CTxn _ tx n => gk = map REvent (events_of_group gk) ++ [RCommit tx n] /\
                     n = N.of_nat (length (events_of_group gk)) /\
                     txn_events tx (events_of_group gk)
    end.
Proof. exact rc_all_or_nothing. Qed.

Theorem C04_wf_recs_crash : forall recs, wf_recs recs -> wf_crash recs.
Proof. exact wf_recs_crash. Qed.

(* the same at the level of the predicate [wf_crash] *)
Theorem C04_crash_reads : forall recs, wf_crash recs ->
  exists gs p,
    recs = concat gs ++ p /\ Forall wf_group gs /\
    groups recs = map events_of_group gs /\
    (forall off, length (concat gs) <= off -> read_committed recs off = (None, None)) /\
    (forall off c, fst (read_committed recs off) = Some c ->
       exists gs1 gk gs2 i,
         gs = gs1 ++ gk :: gs2 /\ off = length (concat gs1) + i /\
         i < length (events_of_group gk) /\
         committed_pairs c = with_offs off (skipn i (events_of_group gk)) /\
         Forall (fun pe => fst pe < length (concat gs)) (committed_pairs c)).
Proof. exact rc_crash_reads. Qed.

(** ** 3. the abstraction function *)
Theorem C04_groups_abs : forall gs,
  Forall wf_group gs ->
  groups (concat gs) = map events_of_group gs /\
  forall g p, wf_group g -> proper_prefix p g -> groups (concat gs ++ p) = map events_of_group gs.
Proof. exact groups_abs. Qed.

(** ** 4. the stream filter keeps exactly the matching events, in order *)
Theorem C04_filter : forall k c,
  match filter_commit k c with
  | None => filter (key_matches k) (committed_events c) = []
  | Some c' =>
      committed_pairs c' = filter (fun pe => key_matches k (snd pe)) (committed_pairs c) /\
      committed_events c' = filter (key_matches k) (committed_events c) /\
      committed_events c' <> [] /\
      match c, c' with
      | CSingle o e, CSingle o' e' => o' = o /\ e' = e
      | CTxn _ tx n, CTxn _ tx' n' => tx' = tx /\ n' = n
      | _, _ => False
      end
  end.
Proof. exact filter_commit_spec. Qed.

Theorem C04_filter_none_iff : forall k c,
  filter_commit k c = None <-> Forall (fun e => key_matches k e = false) (committed_events c).
Proof. exact filter_commit_none_iff. Qed.

(** ** non-vacuity: a single, a 3-event transaction, a torn transaction (6 records) *)
(*                        id pk pid tx  flag  seq sid ver *)
Definition c04_x0 := mkEvent 10 1  0   100 true  0   5   0.
Definition c04_x1 := mkEvent 11 1  0   7   false 1   5   1.
Definition c04_x2 := mkEvent 12 1  0   7   false 2   6   0.
Definition c04_x3 := mkEvent 13 1  0   7   false 3   5   2.
Definition c04_x4 := mkEvent 14 1  0   8   false 4   5   3.
Definition c04_ex_log : list rec :=
  [REvent c04_x0; REvent c04_x1; REvent c04_x2; REvent c04_x3; RCommit 7 3; REvent c04_x4].

Example C04_ex_wf_crash : wf_crash c04_ex_log.
Proof.
  exists [[REvent c04_x0]; [REvent c04_x1; REvent c04_x2; REvent c04_x3; RCommit 7 3]],
         [REvent c04_x4; RCommit 8 1], [REvent c04_x4].
  repeat split.
  - constructor; [left; exists c04_x0; split; reflexivity|].
    constructor; [|constructor].
    right. exists [c04_x1; c04_x2; c04_x3], 7%N. split; [reflexivity|]. split; [discriminate|].
    repeat constructor.
  - right. exists [c04_x4], 8%N. split; [reflexivity|]. split; [discriminate|]. repeat constructor.
  - exists [RCommit 8 1]. split; [reflexivity|discriminate].
Qed.

Example C04_ex_read0 : read_committed c04_ex_log 0 = (Some (CSingle 0 c04_x0), Some 1).
Proof. vm_compute. reflexivity. Qed.
Example C04_ex_read1 :
  read_committed c04_ex_log 1 = (Some (CTxn [(1, c04_x1); (2, c04_x2); (3, c04_x3)] 7 3), Some 5).
Proof. vm_compute. reflexivity. Qed.
Example C04_ex_read2 : read_committed c04_ex_log 2 = (Some (CTxn [(2, c04_x2); (3, c04_x3)] 7 3), Some 5).
Proof. vm_compute. reflexivity. Qed.
Example C04_ex_read3 : read_committed c04_ex_log 3 = (Some (CTxn [(3, c04_x3)] 7 3), Some 5).
Proof. vm_compute. reflexivity. Qed.
Example C04_ex_read4 : read_committed c04_ex_log 4 = (None, Some 5).     (* the commit record *)
Proof. vm_compute. reflexivity. Qed.
Example C04_ex_read5 : read_committed c04_ex_log 5 = (None, None).       (* the torn transaction *)
Proof. vm_compute. reflexivity. Qed.
Example C04_ex_read6 : read_committed c04_ex_log 6 = (None, None).       (* past the end *)
Proof. vm_compute. reflexivity. Qed.

Example C04_ex_groups : groups c04_ex_log = [[c04_x0]; [c04_x1; c04_x2; c04_x3]].
Proof. vm_compute. reflexivity. Qed.

(* the stream filter: stream 5 keeps c04_x1, c04_x3 of the transaction; stream 6 keeps c04_x2; stream 9 nothing *)
Example C04_ex_filter :
  let c := CTxn [(1, c04_x1); (2, c04_x2); (3, c04_x3)] 7 3 in
  filter_commit (KStream 5) c = Some (CTxn [(1, c04_x1); (3, c04_x3)] 7 3) /\
  filter_commit (KStream 6) c = Some (CTxn [(2, c04_x2)] 7 3) /\
  filter_commit (KStream 9) c = None /\
  filter_commit (KPartition 0) c = Some c.
Proof. vm_compute. repeat split; reflexivity. Qed.

(* why theorem 1 cannot say "every returned event belongs to tx" on ARBITRARY record lists:
   a flagged event that follows uncommitted events of transaction 7 is pushed into the pending
   list and returned inside transaction 7's group (count 1, two events).  Not a [wf_crash] log. *)
Example C04_ex_foreign_flagged :
  read_committed [REvent c04_x1; REvent c04_x0; RCommit 7 1] 0 = (Some (CTxn [(0, c04_x1); (1, c04_x0)] 7 1), Some 3).
Proof. vm_compute. reflexivity. Qed.

Print Assumptions C04_commit_required.
Print Assumptions C04_no_commit_no_return.
Print Assumptions C04_siblings.
Print Assumptions C04_torn_none.
Print Assumptions C04_all_or_nothing.
Print Assumptions C04_wf_recs_crash.
Print Assumptions C04_crash_reads.
Print Assumptions C04_groups_abs.
Print Assumptions C04_filter.
Print Assumptions C04_filter_none_iff.
