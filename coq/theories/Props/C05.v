(** C05 — a crash at any point recovers to a consistent committed prefix.
    Crash cuts are at record granularity ([crash s keep]: the first [keep] records of the live
    segment survive); a byte-level cut inside a record reduces to a record cut by the seglog
    recovery property (C17).  "Acknowledged" = published by a sync, so a crash keeps at least the
    published records: [published s <= keep].
    Only property theorems, each closed by an exact lemma of Proofs/StoreSimProofs.v. *)
From Coq Require Import NArith List Bool.
From SV Require Import Model.Store Proofs.StoreInv Proofs.StoreSimProofs.
Import ListNotations.
Open Scope N_scope.

(** after a crash of any reachable state with any cut: reopening yields a state that satisfies
    the store invariant; it holds a prefix (whole transactions) of what was written, containing
    everything acknowledged — exactly the transactions whose last record is below the cut;
    all of it is visible; the latest-position queries and event lookup answer as the reference
    does on that prefix *)
Theorem C05_recover_prefix : forall ops keep,
  Forall wf_op ops -> (published (run ops) <= keep)%nat ->
  let s' := crash (run ops) keep in
  Inv s' /\
  prefix (abs_all s') (abs_all (run ops)) /\ prefix (abs_visible (run ops)) (abs_all s') /\
  abs_visible s' = abs_all s' /\
  abs_all s' = sealed_groups (run ops) ++ groups (firstn keep (s_recs (live (run ops)))) /\
  (forall sid, get_stream_version s' sid = spec_stream_version (abs_all s') sid) /\
  (forall pid, get_partition_sequence s' pid = spec_partition_sequence (abs_all s') pid) /\
  (NoDup (map e_id (all_events (abs_all s'))) ->
     forall grp e, In grp (abs_all s') -> In e grp -> read_event s' (e_id e) = Some e).
Proof. exact run_crash_recover. Qed.

Theorem C05_recover_prefix_step : forall s keep,
  Inv s -> (published s <= keep)%nat ->
  let s' := crash s keep in
  Inv s' /\
  prefix (abs_all s') (abs_all s) /\ prefix (abs_visible s) (abs_all s') /\
  abs_visible s' = abs_all s' /\
  abs_all s' = sealed_groups s ++ groups (firstn keep (s_recs (live s))) /\
  (forall sid, get_stream_version s' sid = spec_stream_version (abs_all s') sid) /\
  (forall pid, get_partition_sequence s' pid = spec_partition_sequence (abs_all s') pid) /\
  (NoDup (map e_id (all_events (abs_all s'))) ->
     forall grp e, In grp (abs_all s') -> In e grp -> read_event s' (e_id e) = Some e).
Proof. exact crash_recover. Qed.

(** even a cut below the published offset leaves a consistent store holding a prefix *)
Theorem C05_recover_any_cut : forall s keep, Inv s ->
  Inv (crash s keep) /\
  abs_all (crash s keep) = sealed_groups s ++ groups (firstn keep (s_recs (live s))) /\
  abs_visible (crash s keep) = abs_all (crash s keep) /\
  prefix (abs_all (crash s keep)) (abs_all s).
Proof. exact crash_spec. Qed.

(** further appends on the recovered store are decided by the reference on that prefix, and the
    log stays gapless: sequences and versions continue with no gap and no reuse *)
Theorem C05_continue_gapless : forall ops keep t roll big s'' r,
  Forall wf_op ops -> wf_txn t -> append (crash (run ops) keep) t roll big = (s'', r) ->
  spec_append (abs_all (crash (run ops) keep)) t (negb big) = (abs_all s'', r) /\ Inv s'' /\ good_log (abs_all s'').
Proof. exact run_crash_continue. Qed.

Theorem C05_continue_gapless_step : forall s keep t roll big s'' r,
  Inv s -> wf_txn t -> append (crash s keep) t roll big = (s'', r) ->
  spec_append (abs_all (crash s keep)) t (negb big) = (abs_all s'', r) /\ Inv s'' /\ good_log (abs_all s'').
Proof. exact crash_continue. Qed.

(** a clean close and reopen loses nothing *)
Theorem C05_reopen_lossless : forall s, Inv s ->
  Inv (reopen s) /\ abs_all (reopen s) = abs_all s /\ abs_visible (reopen s) = abs_all s.
Proof. exact reopen_spec. Qed.

(** the whole history (appends, syncs, reopens, crashes) refines the abstract transition system
    on (log written, log visible): a crash moves to a prefix of the written log that contains
    the visible one *)
Theorem C05_history_refines : forall ops, ops_ok store_init ops ->
  asteps ([], []) ops (abs_all (run ops), abs_visible (run ops)).
Proof. exact run_refines. Qed.

(** ** non-vacuity: a crash that tears a multi-event transaction after a rollover *)
Definition y_t1 : txn := mkTxn 7 1 100 true [mkNew 1 10 XEmpty true] XAny.
Definition y_t2 : txn := mkTxn 7 1 101 false
  [mkNew 2 10 (XExact 0) true; mkNew 3 11 XEmpty true; mkNew 4 10 XAny true] (XExact 0).
Definition y_t3 : txn := mkTxn 7 1 102 true [mkNew 5 10 (XExact 0) true] XAny.      (* rejected *)
Definition y_t4 : txn := mkTxn 7 1 103 true [mkNew 6 11 XExists true] XAny.          (* with a rollover *)
Definition y_t5 : txn := mkTxn 7 1 104 false [mkNew 7 10 XAny true; mkNew 8 11 XAny true] XAny.
Definition y_t6 : txn := mkTxn 7 1 105 false [mkNew 9 10 XAny true; mkNew 10 11 XAny true] XAny.
Definition y_ops : list op :=
  [OAppend y_t1 false false; OSync; OAppend y_t2 false false; OAppend y_t3 false false;
   OAppend y_t4 true false; OSync; OAppend y_t5 false false; OAppend y_t6 false false].

Example C05_example_wf : Forall wf_op y_ops /\ ops_ok store_init (y_ops ++ [OCrash 5]).
Proof. split; [repeat constructor; try discriminate|vm_compute; repeat split; try discriminate; repeat constructor]. Qed.

(* live segment after the rollover: t4 (1 record, published), t5 (3 records), t6 (3 records);
   a cut at 5 keeps t5 whole and tears t6 (its first event is on disk, its commit is not) *)
Example C05_example_crash :
  published (run y_ops) = 1%nat /\ length (s_recs (live (run y_ops))) = 7%nat /\
  length (abs_all (run y_ops)) = 5%nat /\ length (abs_visible (run y_ops)) = 3%nat /\
  abs_all (crash (run y_ops) 5) = firstn 4 (abs_all (run y_ops)) /\
  abs_all (crash (run y_ops) 6) = firstn 4 (abs_all (run y_ops)) /\
  abs_all (crash (run y_ops) 7) = abs_all (run y_ops) /\
  abs_all (crash (run y_ops) 3) = firstn 3 (abs_all (run y_ops)) /\
  get_partition_sequence (crash (run y_ops) 5) 1 = Some 6 /\
  get_stream_version (crash (run y_ops) 5) 10 = Some (7, 3) /\
  snd (append (crash (run y_ops) 5) y_t6 false false)
  = inl [mkEvent 9 7 1 105 false 7 10 4; mkEvent 10 7 1 105 false 8 11 3] /\
  NoDup (map e_id (all_events (abs_all (crash (run y_ops) 5)))) /\
  read_event (crash (run y_ops) 5) 8 = Some (mkEvent 8 7 1 104 false 6 11 2) /\
  read_event (crash (run y_ops) 5) 9 = None.
Proof.
  vm_compute. repeat split; try reflexivity.
  repeat (constructor; [cbn; intros H; repeat (destruct H as [H|H]; [discriminate H|]); exact H|]). constructor.
Qed.

Print Assumptions C05_recover_prefix.
Print Assumptions C05_recover_prefix_step.
Print Assumptions C05_recover_any_cut.
Print Assumptions C05_continue_gapless.
Print Assumptions C05_continue_gapless_step.
Print Assumptions C05_reopen_lossless.
Print Assumptions C05_history_refines.
