(** C05 — a crash at any point recovers to a consistent committed prefix.
    Crash cuts are at record granularity ([crash s keep]: the first [keep] records of the live
    segment survive); a byte-level cut inside a record reduces to a record cut by the seglog
    recovery property (C17).  "Acknowledged" = published by a sync, so a crash keeps at least the
    published records: [published s <= keep].
    Only property theorems, each closed by an exact lemma of Proofs/StoreSimProofs.v. *)
From Coq Require Import NArith List Bool.
From SV Require Import Model.Store Proofs.StoreInv Proofs.StoreSimProofs.
Import ListNotations.
Open Scope N_scope.

(** after a crash of any reachable state with any cut: reopening yields a state that satisfies
    the store invariant; it holds a prefix (whole transactions) of what was written, containing
    everything acknowledged — exactly the transactions whose last record is below the cut;
    all of it is visible; the latest-position queries and event lookup answer as the reference
    does on that prefix *)
Theorem C05_recover_prefix : forall ops keep,
  Forall wf_op ops -> (published (run ops) <= keep)%nat ->
  let s' := crash (run ops) keep in
  Inv s' /\
  prefix (abs_all s') (abs_all (run ops)) /\ prefix (abs_visible (run ops)) (abs_all s') /\
  abs_visible s' = abs_all s' /\
  abs_all s' = sealed_groups (run ops) ++ groups (firstn keep (s_recs (live (run ops)))) /\
  (forall sid, get_stream_version s' sid = spec_stream_version (abs_all s') sid) /\
  (forall pid, get_partition_sequence s' pid = spec_partition_sequence (abs_all s') pid) /\
  (NoDup (map e_id (all_events (abs_all s'))) ->
     forall grp e, In grp (abs_all s') -> In e grp -> read_event s' (e_id e) = Some e).
Proof. exact run_crash_recover. Qed.

Theorem C05_recover_prefix_step : forall s keep,
  Inv s -> (published s <= keep)%nat ->
  let s' := crash s keep in
  Inv s' /\
  prefix (abs_all s') (abs_all s) /\ prefix (abs_visible s) (abs_all s') /\
  abs_visible s' = abs_all s' /\
  abs_all s' = sealed_groups s ++ groups (firstn keep (s_recs (live s))) /\
  (forall sid, get_stream_version s' sid = spec_stream_version (abs_all s') sid) /\
  (forall pid, get_partition_sequence s' pid = spec_partition_sequence (abs_all s') pid) /\
  (NoDup (map e_id (all_events (abs_all s'))) ->
     forall grp e, In grp (abs_all s') -> In e grp -> read_event s' (e_id e) = Some e).
Proof. exact crash_recover. Qed.

(** even a cut below the published offset leaves a consistent store holding a prefix *)
Theorem C05_recover_any_cut : forall s keep, Inv s ->
  Inv (crash s keep) /\
  abs_all (crash s keep) = sealed_groups s ++ groups (firstn keep (s_recs (live s))) /\
  abs_visible (crash s keep) = abs_all (crash s keep) /\
  prefix (abs_all (crash s keep)) (abs_all s).
Proof. exact crash_spec. Qed.

(** further appends on the recovered store are decided by the reference on that prefix, and the
    log stays gapless: sequences and versions continue with no gap and no reuse *)
Theorem C05_continue_gapless : forall ops keep t roll big s'' r,
  Forall wf_op ops -> wf_txn t -> append (crash (run ops) keep) t roll big = (s'', r) ->
  spec_append (abs_all (crash (run ops) keep)) t (negb big) = (abs_all s'', r) /\ Inv s'' /\ good_log (abs_all s'').
Proof. exact run_crash_continue. Qed.

Theorem C05_continue_gapless_step : forall s keep t roll big s'' r,
  Inv s -> wf_txn t -> append (crash s keep) t roll big = (s'', r) ->
  spec_append (abs_all (crash s keep)) t (negb big) = (abs_all s'', r) /\ Inv s'' /\ good_log (abs_all s'').
Proof. exact crash_continue. Qed.

(** a clean close and reopen loses nothing *)
Theorem C05_reopen_lossless : forall s, Inv s ->
  Inv (reopen s) /\ abs_all (reopen s) = abs_all s /\ abs_visible (reopen s) = abs_all s.
Proof. exact reopen_spec. Qed.

(** the whole history (appends, syncs, reopens, crashes) refines the abstract transition system
    on (log written, log visible): a crash moves to a prefix of the written log that contains
    the visible one *)
Theorem C05_history_refines : forall ops, ops_ok store_init ops ->
  asteps ([], []) ops (abs_all (run ops), abs_visible (run ops)).
Proof. exact run_refines. Qed.

(** ** non-vacuity: a crash that tears a multi-event transaction after a rollover *)
Definition y_t1 : txn := mkTxn 7 1 100 true [mkNew 1 10 XEmpty true] XAny.
Definition y_t2 : txn := mkTxn 7 1 101 false
  [mkNew 2 10 (XExact 0) true; mkNew 3 11 XEmpty true; mkNew 4 10 XAny true] (XExact 0).
Definition y_t3 : txn := mkTxn 7 1 102 true [mkNew 5 10 (XExact 0) true] XAny.      (* rejected *)
Definition y_t4 : txn := mkTxn 7 1 103 true [mkNew 6 11 XExists true] XAny.          (* with a rollover *)
Definition y_t5 : txn := mkTxn 7 1 104 false [mkNew 7 10 XAny true; mkNew 8 11 XAny true] XAny.
Definition y_t6 : txn := mkTxn 7 1 105 false [mkNew 9 10 XAny true; mkNew 10 11 XAny true] XAny.
Definition y_ops : list op :=
  [OAppend y_t1 false false; OSync; OAppend y_t2 false false; OAppend y_t3 false false;
   OAppend y_t4 true false; OSync; OAppend y_t5 false false; OAppend y_t6 false false].

Example C05_example_wf : Forall wf_op y_ops /\ ops_ok store_init (y_ops ++ [OCrash 5]).
Proof. split; [repeat constructor; try discriminate|vm_compute; repeat split; try discriminate; repeat constructor]. Qed.

(* live segment after the rollover: t4 (1 record, published), t5 (3 records), t6 (3 records);
   a cut at 5 keeps t5 whole and tears t6 (its first event is on disk, its commit is not) *)
Example C05_example_crash :
  published (run y_ops) = 1%nat /\ length (s_recs (live (run y_ops))) = 7%nat /\
  length (abs_all (run y_ops)) = 5%nat /\ length (abs_visible (run y_ops)) = 3%nat /\
  abs_all (crash (run y_ops) 5) = firstn 4 (abs_all (run y_ops)) /\
  abs_all (crash (run y_ops) 6) = firstn 4 (abs_all (run y_ops)) /\
  abs_all (crash (run y_ops) 7) = abs_all (run y_ops) /\
  abs_all (crash (run y_ops) 3) = firstn 3 (abs_all (run y_ops)) /\
  get_partition_sequence (crash (run y_ops) 5) 1 = Some 6 /\
  get_stream_version (crash (run y_ops) 5) 10 = Some (7, 3) /\
  snd (append (crash (run y_ops) 5) y_t6 false false)
  = inl [mkEvent 9 7 1 105 false 7 10 4; mkEvent 10 7 1 105 false 8 11 3] /\
  NoDup (map e_id (all_events (abs_all (crash (run y_ops) 5)))) /\
  read_event (crash (run y_ops) 5) 8 = Some (mkEvent 8 7 1 104 false 6 11 2) /\
  read_event (crash (run y_ops) 5) 9 = None.
Proof.
  vm_compute. repeat split; try reflexivity.
  repeat (constructor; [cbn; intros H; repeat (destruct H as [H|H]; [discriminate H|]); exact H|]). constructor.
Qed.

Print Assumptions C05_recover_prefix.
Print Assumptions C05_recover_prefix_step.
Print Assumptions C05_recover_any_cut.
Print Assumptions C05_continue_gapless.
Print Assumptions C05_continue_gapless_step.
Print Assumptions C05_reopen_lossless.
Print Assumptions C05_history_refines.

(** ** bridge to the byte level (L3 -> L1): a crash at ANY byte is a crash at a record boundary.
    Model/Seglog.v (bytes, CRC-32, `Writer::open`'s recovery scan) under Model/Store.v (records); lemmas in
    Proofs/BridgeBytesProofs.v.  zstd is not modelled: [compress]/[decompress] are universally quantified and only
    [codec_ok] is assumed.  The file after the crash: [pre] (segment header, the scan starts at [lenN pre]), the
    encodings of the whole records, the first [k] bytes of the next record's encoding, then [z] zero bytes (the
    rest of the pre-allocated file).

    Full-strength statement (no side condition):
        forall rs c h d pre k z, codec_ok -> wf_all rs -> wf_rec c h d -> k < lenN (stored_record c h d) ->
          writer_open_offset (cut_file pre rs c h d k z) (lenN pre) = ROk (lenN pre + lenN (concat (stored_all rs)))
    It is FALSE of the model, in two ways ([C05_byte_cut_unconditional_refuted]):
      - benign: the bytes that did not reach the disk were all zero, so the record is intact in the zero-filled
        file: recovery keeps it too — still a record cut, with one more record ([C05_byte_cut_zero_tail]);
      - a genuine CRC-32 coincidence: the cut record's remains followed by zeros carry a matching CRC (the lost
        bytes are a multiple of the generator polynomial): the decoder accepts a record that was never written.
        This also happens with FEWER than 8 bytes of the head on disk (the CRC field's missing bytes are zero).
    So the theorem carries the side condition [cut_detected] (= [~ crc_accepts]: bytes and CRC-32 only), which is
    exactly "the decoder stops the scan here" ([C05_cut_detected_exact]), and it is proved for the deterministic
    classes: decided by the head alone ([C05_cut_detected_head], [.._nothing_written], [.._zero_head],
    [.._file_end]) and lost bytes forming a burst of at most 32 bits ([C05_cut_detected_burst],
    [C05_cut_detected_short_tail]).  What is missing for full strength is only the CRC-coincidence class
    (a 2^-32 event over the data; torn records in a zero-filled file are exercised on the implementation by this
    property's crash harness). *)
From Coq Require Import Lia.
From SV Require Import Model.Crc32 Model.Seglog Proofs.SeglogProofs Proofs.BridgeBytesProofs.

(* the side condition, exactly: the decoder reports an error that ends the recovery scan (EOob, ETrunc, ECrc) at [v]
   iff [v] is not CRC-accepted — whatever zstd does *)
Theorem C05_cut_detected_exact : forall H decompress v,
  cut_detected H v <-> exists e, decode_view H decompress v = RErr e /\ e <> EIo.
Proof. intros H decompress. exact (detected_iff H (fun x => x) decompress). Qed.

Theorem C05_cut_detected_or_accepted : forall H v, cut_detected H v \/ crc_accepts H v.
Proof. intros H. exact (detected_or_accepted H (fun x => x) (fun _ => None)). Qed.

(** the recovery scan returns the write offset right after the whole records, and exactly those records *)
Theorem C05_byte_cut_is_record_cut_partial : forall H compress decompress rs c h d pre k z,
  codec_ok compress decompress -> wf_all H compress rs ->
  cut_detected H (takeN k (stored_record H compress c h d) ++ zerosN z) ->
  let file := cut_file H compress pre rs c h d k z in
  let end_rs := lenN pre + lenN (concat (stored_all H compress rs)) in
  writer_open_offset H decompress file (lenN pre) = ROk end_rs /\
  exists ra t, iter_all H decompress file (lenN file) ra_empty (lenN pre) =
               (ra, with_offsets (lenN pre) (expected_all H compress rs), end_rs, t) /\ (t = TEnd \/ t = TErr ECrc).
Proof. exact byte_cut_is_record_cut. Qed.

(** any byte prefix [b] of the bytes of ANY record list falls into one record ([keep], at its byte [k]) *)
Theorem C05_any_byte_cut_is_record_cut_partial : forall H compress decompress rs pre b z,
  codec_ok compress decompress -> wf_all H compress rs -> b < lenN (concat (stored_all H compress rs)) ->
  exists keep c h d k,
    nth_error rs keep = Some (c, h, d) /\ k < lenN (stored_record H compress c h d) /\
    b = lenN (concat (stored_all H compress (firstn keep rs))) + k /\
    pre ++ takeN b (concat (stored_all H compress rs)) ++ zerosN z = cut_file H compress pre (firstn keep rs) c h d k z /\
    (cut_detected H (takeN k (stored_record H compress c h d) ++ zerosN z) ->
     let file := pre ++ takeN b (concat (stored_all H compress rs)) ++ zerosN z in
     let end_keep := lenN pre + lenN (concat (stored_all H compress (firstn keep rs))) in
     writer_open_offset H decompress file (lenN pre) = ROk end_keep /\
     exists ra t, iter_all H decompress file (lenN file) ra_empty (lenN pre) =
                  (ra, with_offsets (lenN pre) (expected_all H compress (firstn keep rs)), end_keep, t) /\
                  (t = TEnd \/ t = TErr ECrc)).
Proof. exact any_byte_cut_is_record_cut. Qed.

(** (i) cuts decided by the head alone: fewer than 8 bytes left in the file, the truncation marker (8 zero bytes),
    the file ends inside the claimed extent, the claimed length is below the header size *)
Theorem C05_cut_detected_head : forall H v,
  lenN v < RECORD_HEAD \/ all_zero (sliceN v 0 RECORD_HEAD) = true \/
  lenN v < RECORD_HEAD + claimed_plen v \/ claimed_plen v < H -> cut_detected H v.
Proof. intros H. exact (cut_head_detected H (fun x => x) (fun _ => None)). Qed.

Theorem C05_cut_detected_nothing_written : forall H enc z, cut_detected H (takeN 0 enc ++ zerosN z).
Proof. intros H. exact (cut_nothing_written_detected H (fun x => x) (fun _ => None)). Qed.

Theorem C05_cut_detected_zero_head : forall H enc k z, k < RECORD_HEAD -> all_zero (takeN k enc) = true ->
  cut_detected H (takeN k enc ++ zerosN z).
Proof. intros H. exact (cut_zero_head_detected H (fun x => x) (fun _ => None)). Qed.

Theorem C05_cut_detected_file_end : forall H compress decompress c h d k z,
  codec_ok compress decompress -> wf_rec H compress c h d ->
  RECORD_HEAD <= k -> k + z < lenN (stored_record H compress c h d) ->
  cut_detected H (takeN k (stored_record H compress c h d) ++ zerosN z).
Proof. exact cut_file_end_detected. Qed.

(** (ii) the lost bytes (as an error pattern over the record: zeros up to the cut, then what did not reach the disk)
    are a burst of at most 32 bits — by C17_crc_burst *)
Theorem C05_cut_detected_burst : forall H compress decompress c h d k z,
  codec_ok compress decompress -> wf_rec H compress c h d ->
  RECORD_HEAD <= k -> k <= lenN (stored_record H compress c h d) ->
  burst32 (zerosN (k - RECORD_HEAD) ++ dropN k (stored_record H compress c h d)) ->
  cut_detected H (takeN k (stored_record H compress c h d) ++ zerosN z).
Proof. exact cut_burst_detected. Qed.

(* in particular: the lost bytes are non-zero only within at most four consecutive bytes — e.g. every cut inside the
   last four bytes of a record whose lost bytes are not all zero *)
Theorem C05_cut_detected_short_tail : forall H compress decompress c h d k z u m,
  codec_ok compress decompress -> wf_rec H compress c h d ->
  RECORD_HEAD <= k -> k <= lenN (stored_record H compress c h d) ->
  dropN k (stored_record H compress c h d) = u ++ zerosN m -> lenN u <= 4 -> all_zero u = false ->
  cut_detected H (takeN k (stored_record H compress c h d) ++ zerosN z).
Proof. exact cut_short_tail_detected. Qed.

(** (iii) the lost bytes are all zero: the record is intact in the zero-filled file, recovery keeps it as well *)
Theorem C05_byte_cut_zero_tail : forall H compress decompress rs c h d pre k z,
  codec_ok compress decompress -> wf_all H compress rs -> wf_rec H compress c h d ->
  all_zero (dropN k (stored_record H compress c h d)) = true -> lenN (stored_record H compress c h d) - k <= z ->
  let file := cut_file H compress pre rs c h d k z in
  let end_all := lenN pre + lenN (concat (stored_all H compress (rs ++ [(c, h, d)]))) in
  writer_open_offset H decompress file (lenN pre) = ROk end_all /\
  exists ra, iter_all H decompress file (lenN file) ra_empty (lenN pre) =
             (ra, with_offsets (lenN pre) (expected_all H compress (rs ++ [(c, h, d)])), end_all, TEnd).
Proof. exact cut_zero_tail_keeps_record. Qed.

(** the unconditional statement is false of the model: H = 1 (as in sierradb), no compression, header [0], data = the
    CRC generator as a 33-bit pattern.  With the 8 head bytes on disk — or only 7 of them, for the 71-byte variant
    whose CRC has a zero top byte — the decoder accepts a record of zero bytes that was never written, and
    Writer::open resumes AFTER it *)
Theorem C05_byte_cut_unconditional_refuted :
  (wf_rec 1 wit_id false [0] wit_gen /\
   crc_accepts 1 (takeN 8 (stored_record 1 wit_id false [0] wit_gen) ++ zerosN 100) /\
   decode_view 1 wit_some (takeN 8 (stored_record 1 wit_id false [0] wit_gen) ++ zerosN 100) =
     ROk {| r_hdr := [0]; r_data := [0;0;0;0;0]; r_cdata := None; r_len := 14 |} /\
   writer_open_offset 1 wit_some (cut_file 1 wit_id [9;9] [] false [0] wit_gen 8 100) 2 = ROk 16) /\
  (wf_rec 1 wit_id false [0] wit_gen71 /\
   crc_accepts 1 (takeN 7 (stored_record 1 wit_id false [0] wit_gen71) ++ zerosN 100) /\
   decode_view 1 wit_some (takeN 7 (stored_record 1 wit_id false [0] wit_gen71) ++ zerosN 100) =
     ROk {| r_hdr := [0]; r_data := zerosN 71; r_cdata := None; r_len := 80 |}).
Proof. exact (conj wit_coincidence wit_coincidence_head). Qed.

(** ** down to L1.  [enc_rec] (how the engine turns a record into a seglog append: compression setting, the H header
    bytes, the bincode data) and [dec_rec] (how hydration reads a seglog record back) are NOT modelled; the premise
    [enc_ok_on (s_recs (live s))] says, for the records of the live segment only: each is a well-typed append
    ([wf_enc]) and reading back what its append stored gives the record (so [enc_rec] is injective on them).
    [byte_crash s file start]: Writer::open's scan of [file], every record read back, then Worker::new ([reopen])
    — with the sealed segments of [s].
    For ANY byte prefix [b] of the live segment's record bytes followed by zeros, the recovered store IS
    [crash s keep] (keep = number of whole records before the cut) when the cut record's remains are detected, and
    [crash s (S keep)] when its lost bytes were all zero *)
Theorem C05_byte_crash_is_record_crash_partial : forall H compress decompress enc_rec dec_rec s pre b z,
  codec_ok compress decompress -> enc_ok_on H compress enc_rec dec_rec (s_recs (live s)) ->
  b < lenN (seg_bytes H compress enc_rec s) ->
  exists keep r k,
    nth_error (s_recs (live s)) keep = Some r /\
    let enc := (let '(c, h, d) := enc_rec r in stored_record H compress c h d) in
    let file := pre ++ takeN b (seg_bytes H compress enc_rec s) ++ zerosN z in
    k < lenN enc /\
    b = lenN (concat (stored_all H compress (map enc_rec (firstn keep (s_recs (live s)))))) + k /\
    (cut_detected H (takeN k enc ++ zerosN z) -> byte_crash H decompress dec_rec s file (lenN pre) = crash s keep) /\
    (all_zero (dropN k enc) = true -> lenN enc - k <= z ->
     byte_crash H decompress dec_rec s file (lenN pre) = crash s (S keep)).
Proof. exact byte_crash_is_record_crash. Qed.

(** ... composed with C05_recover_any_cut: after a crash at any byte the recovered store satisfies the invariant and
    holds the sealed groups plus the groups of the whole records before the cut — a prefix of what was written,
    all of it visible *)
Theorem C05_byte_crash_recovers_partial : forall H compress decompress enc_rec dec_rec s pre b z,
  codec_ok compress decompress -> enc_ok_on H compress enc_rec dec_rec (s_recs (live s)) -> Inv s ->
  b < lenN (seg_bytes H compress enc_rec s) ->
  exists keep r k,
    nth_error (s_recs (live s)) keep = Some r /\
    let enc := (let '(c, h, d) := enc_rec r in stored_record H compress c h d) in
    let s' := byte_crash H decompress dec_rec s (pre ++ takeN b (seg_bytes H compress enc_rec s) ++ zerosN z) (lenN pre) in
    k < lenN enc /\
    b = lenN (concat (stored_all H compress (map enc_rec (firstn keep (s_recs (live s)))))) + k /\
    (cut_detected H (takeN k enc ++ zerosN z) ->
     Inv s' /\ abs_all s' = sealed_groups s ++ groups (firstn keep (s_recs (live s))) /\
     abs_visible s' = abs_all s' /\ prefix (abs_all s') (abs_all s)).
Proof. exact byte_crash_recovers. Qed.

(** ** non-vacuity: a 12-byte record (H = 2) after a whole one; every cut position 1..11 is detected (and 0), and
    recovery resumes after the first record; the L1 hypotheses are satisfiable *)
Example C05_example_byte_cuts :
  codec_ok wit_id wit_some /\ wf_all 2 wit_id [(false, [1;2], [7])] /\ wf_rec 2 wit_id false [3;4] [104;105] /\
  lenN (stored_record 2 wit_id false [3;4] [104;105]) = 12 /\
  forallb (fun k => match writer_open_offset 2 wit_some (cut_file 2 wit_id [9;9;9] [(false, [1;2], [7])] false [3;4] [104;105] k 40) 3
                    with ROk o => o =? 14 | _ => false end) [0;1;2;3;4;5;6;7;8;9;10;11] = true /\
  writer_open_offset 2 wit_some (cut_file 2 wit_id [9;9;9] [(false, [1;2], [7])] false [3;4] [104;105] 12 40) 3 = ROk 26.
Proof.
  split; [exact wit_id_codec_ok|]. split; [|split; [|vm_compute; repeat split; reflexivity]].
  - repeat constructor; cbn; unfold is_byte; lia.
  - repeat split; try reflexivity; repeat constructor; unfold is_byte; cbn; lia.
Qed.

Example C05_example_short_tail :
  cut_detected 2 (takeN 10 (stored_record 2 wit_id false [3;4] [104;105]) ++ zerosN 40).
Proof.
  apply (C05_cut_detected_short_tail 2 wit_id wit_some false [3;4] [104;105] 10 40 [104;105] 0 wit_id_codec_ok).
  - repeat split; try reflexivity; repeat constructor; unfold is_byte; cbn; lia.
  - vm_compute; discriminate.
  - vm_compute; discriminate.
  - vm_compute; reflexivity.
  - vm_compute; discriminate.
  - reflexivity.
Qed.

(* the L1 premise is satisfiable: [wit_enc_rec]/[wit_dec_rec] (H = 1, every field one byte) on the store of
   C05_example_crash; its live segment holds 7 records = 114 bytes; a crash that keeps 92 of them (5 whole records and
   8 bytes of the sixth) recovers to [crash _ 5], and so does every other cut inside the sixth record *)
Example C05_example_byte_crash :
  enc_ok_on 1 wit_id wit_enc_rec wit_dec_rec (s_recs (live (run y_ops))) /\
  lenN (seg_bytes 1 wit_id wit_enc_rec (run y_ops)) = 114 /\
  byte_crash 1 wit_some wit_dec_rec (run y_ops) (zerosN 48 ++ takeN 92 (seg_bytes 1 wit_id wit_enc_rec (run y_ops)) ++ zerosN 200) 48
  = crash (run y_ops) 5 /\
  forallb (fun b => match iter_all 1 wit_some (zerosN 48 ++ takeN b (seg_bytes 1 wit_id wit_enc_rec (run y_ops)) ++ zerosN 200) (48 + b + 200) ra_empty 48
                    with (_, recs, o, _) => (o =? 48 + 84) && Nat.eqb (length recs) 5 end)
          [84;85;86;87;88;89;90;91;92;93;94;95;96;97;98;99;100;101] = true.
Proof.
  split; [|vm_compute; repeat split; reflexivity].
  apply wit_enc_ok. vm_compute. repeat constructor.
Qed.

Print Assumptions C05_cut_detected_exact.
Print Assumptions C05_byte_cut_is_record_cut_partial.
Print Assumptions C05_any_byte_cut_is_record_cut_partial.
Print Assumptions C05_cut_detected_head.
Print Assumptions C05_cut_detected_file_end.
Print Assumptions C05_cut_detected_burst.
Print Assumptions C05_cut_detected_short_tail.
Print Assumptions C05_byte_cut_zero_tail.
Print Assumptions C05_byte_cut_unconditional_refuted.
Print Assumptions C05_byte_crash_is_record_crash_partial.
Print Assumptions C05_byte_crash_recovers_partial.
