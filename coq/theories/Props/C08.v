(** C08 — the confirmed watermark is sound, monotone, order independent and survives restarts.
    Model: Model/Watermark.v (crates/sierradb-cluster/src/confirmation.rs after the `fix:` commits).
    This file holds only the property theorems; each is closed by an exact lemma. *)
From Coq Require Import NArith List Permutation.
From SV Require Import Model.Watermark Proofs.WatermarkProofs.
Import ListNotations.
Open Scope N_scope.

(** never decreases: one report on ANY state (reachable or not), and along any report sequence *)
Theorem C08_monotone_step : forall rf s v c, wm_mark s <= wm_mark (fst (wm_update rf s v c)).
Proof. exact wm_monotone_step. Qed.

Theorem C08_monotone : forall rf rs rs', wm_mark (wm_run rf rs) <= wm_mark (wm_run rf (rs ++ rs')).
Proof. exact wm_monotone_run. Qed.

(** sound: after any report sequence (so also at every intermediate point) every version up to the watermark
    has a best reported count that reaches the quorum *)
Theorem C08_sound : forall rf rs i, 1 <= i -> i <= wm_mark (wm_run rf rs) -> wm_quorum rf <= wm_best rs i.
Proof. exact wm_sound. Qed.

(** complete: the watermark IS the longest quorum prefix of the best reported counts — for every sequence of
    reports: any order, duplicates, stale lower counts, gaps, version 0 *)
Theorem C08_exact : forall rf rs, wm_is_prefix (wm_quorum rf) (wm_best rs) (wm_mark (wm_run rf rs)).
Proof. exact wm_exact. Qed.

(** hence it depends only on the SET of reports: any order, any multiplicities *)
Theorem C08_order_independent : forall rf rs rs',
  (forall r, In r rs <-> In r rs') -> wm_mark (wm_run rf rs) = wm_mark (wm_run rf rs').
Proof. exact wm_order_independent. Qed.

Theorem C08_permutation_independent : forall rf rs rs',
  Permutation rs rs' -> wm_mark (wm_run rf rs) = wm_mark (wm_run rf rs').
Proof. exact wm_permutation_independent. Qed.

(** history: the code before the repair (a stale lower count overwrote a higher one) was order dependent *)
Theorem C08_original_order_dependent :
  Permutation [(2, 2); (2, 1); (1, 2)] [(2, 1); (2, 2); (1, 2)] /\
  wm_mark (wm_run_gen WmOverwrite 2 [(2, 2); (2, 1); (1, 2)]) = 1 /\
  wm_mark (wm_run_gen WmOverwrite 2 [(2, 1); (2, 2); (1, 2)]) = 2.
Proof. exact wm_overwrite_order_dependent. Qed.

(** restart: for every crash point of persist_bucket_state (before it, temp partial, temp complete, previous
    removed, current renamed, temp renamed), whatever the directory held before, load + rescan of the on-disk
    counts gives a watermark at least the one before the crash — given that the on-disk counts cover it
    (hypothesis [wm_disk_covers]; C08_restart_history derives it from the order in which the code writes) *)
Theorem C08_restart_crash : forall rf d s disk d',
  wm_disk_covers rf disk (wm_mark s) ->
  In d' (d :: wm_persist_steps d s) ->
  wm_mark s <= wm_mark (wm_restart rf d' disk).
Proof. exact wm_restart_crash. Qed.

(** in fact for every directory content at all (damaged, missing, stale files) *)
Theorem C08_restart_any_dir : forall rf d disk W,
  wm_disk_covers rf disk W -> W <= wm_mark (wm_restart rf d disk).
Proof. exact wm_restart_any_dir. Qed.

(** the hypothesis is an invariant of every history in which (a) on-disk counts are only ever re-written to
    quorum counts and (b) a quorum report reaches the confirmation state only after the on-disk count of that
    version is a quorum count ([nd_op_ok]); so a crash at ANY moment of such a history is survived *)
Theorem C08_restart_history : forall rf n d,
  nd_reach rf n -> wm_mark (nd_mem n) <= wm_mark (wm_restart rf d (nd_disk n)).
Proof. exact wm_restart_history. Qed.

(** the temp/rename sequence is atomic for the loader (unless `current` was already damaged before) *)
Theorem C08_persist_atomic : forall d s d',
  d_cur d <> WfBad -> In d' (wm_persist_steps d s) -> wm_load d' = wm_load d \/ wm_load d' = s.
Proof. exact wm_persist_atomic. Qed.

(** without any state file the rescan alone yields exactly the quorum prefix of the on-disk counts *)
Theorem C08_fresh_start_exact : forall rf disk,
  wm_is_prefix (wm_quorum rf) (wm_disk_count disk) (wm_mark (wm_initialize rf wm_init disk)).
Proof. exact wm_fresh_start_exact. Qed.

(** non-vacuity *)
Example C08_example_run :   (* rf 3 (quorum 2): stale 1 after 2 for v2, v3 below quorum, v4 confirmed behind the gap *)
  wm_mark (wm_run 3 [(2, 2); (2, 1); (4, 3); (3, 1); (1, 2)]) = 2 /\
  wm_unconf (wm_run 3 [(2, 2); (2, 1); (4, 3); (3, 1); (1, 2)]) = [(3, 1); (4, 3)].
Proof. vm_compute. split; reflexivity. Qed.

Example C08_example_covers : wm_disk_covers 3 [2; 2; 3; 0; 2] 3.
Proof. split; [vm_compute; discriminate|]. intros k Hk.
  assert (k = 0 \/ k = 1 \/ k = 2) as [->|[->| ->]] by (clear -Hk; destruct k as [|[p|p|]]; try destruct p; cbn in *; auto; discriminate);
  vm_compute; discriminate. Qed.

Example C08_example_reach :  (* append 2 events, confirm the first on disk, then report it *)
  nd_reach 3 (nd_step 3 (nd_step 3 (nd_step 3 (nd_step 3 (mkNode wm_init []) (NdAppend 1)) (NdAppend 0)) (NdSetDisk 1 2)) (NdReport 1 2)).
Proof.
  repeat (apply nd_reach_step); try apply nd_reach_init; cbn; auto.
  - vm_compute; discriminate.
  - intros _. vm_compute. repeat split; discriminate.
Qed.

Example C08_example_restart :  (* crash with `current` renamed away and only a stale `previous` left *)
  wm_mark (wm_restart 3 (mkDir WfMissing (WfGood (mkWm 1 3 [(3, 1)])) (WfGood (mkWm 3 5 []))) [2; 2; 3; 0; 2]) = 3.
Proof. vm_compute. reflexivity. Qed.

Print Assumptions C08_monotone_step.
Print Assumptions C08_monotone.
Print Assumptions C08_sound.
Print Assumptions C08_exact.
Print Assumptions C08_order_independent.
Print Assumptions C08_permutation_independent.
Print Assumptions C08_original_order_dependent.
Print Assumptions C08_restart_crash.
Print Assumptions C08_restart_any_dir.
Print Assumptions C08_restart_history.
Print Assumptions C08_persist_atomic.
Print Assumptions C08_fresh_start_exact.
