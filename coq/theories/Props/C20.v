(** C20 — every append completes within a bounded time.
    The logic of the acknowledgement path (Model/SyncWatch.v: the worker writes a transaction, may
    sync, and replies with the segment's watch channel and the write offset as target; sync and
    rollover publish the write offset; the client polls the latest value of ITS channel) is proved free of lost wake-ups for EVERY
    sequence of worker steps and polls, for the code as it is after fix 9690820 (one watch
    channel per segment, mode [PerSegment]).  The code before that fix (mode [Shared]) is refuted
    by two witnesses that are replayed on the real code (harness/cconc, kind=latepoll).
    The wall-clock part (period of the syncer thread's FlushPoll, fsync latency, scheduling of the
    client task) is not modelled: it is covered by the run-time bound 10 x sync_idle_interval + 2 s
    on every append of the concurrent harness.  Level: partial.
    Only property theorems here; proofs are in Proofs/SyncWatchProofs.v. *)
From Coq Require Import NArith List Bool.
From SV Require Import Model.SyncWatch Proofs.SyncWatchProofs.
Import ListNotations.
Open Scope N_scope.

(** Once a sync or a rollover has happened after a waiter's reply, EVERY later poll of that waiter
    succeeds: for any steps [pre] before the reply, any steps [mid] containing a sync/rollover and
    any later steps [post] (more replies, syncs, rollovers, polls in any order), the waiter of the
    reply is covered at the end.  (The value it compares with is monotone, and the sync that
    follows the reply covers it for ever.) *)
Theorem C20_no_lost_wakeup : forall pre mid post,
  (exists st, In st mid /\ is_sync st = true) ->
  poll_ok (sw_run PerSegment (pre ++ SReply :: mid ++ post)) (next_waiter PerSegment pre) = true.
Proof. exact no_lost_wakeup. Qed.

(** ... and, generally, a poll that succeeds once (e.g. because sync_if_necessary ran between the
    transaction's write and its reply) succeeds at every later time. *)
Theorem C20_covered_forever : forall tr post w,
  poll_ok (sw_run PerSegment tr) w = true -> poll_ok (sw_run PerSegment (tr ++ post)) w = true.
Proof. exact covered_forever. Qed.

(** A poll succeeds ONLY if a sync/rollover of the segment the transaction was written to happened
    after that write: for a write of n > 0 bytes followed (after any steps) by its reply, the
    reply's waiter is satisfied only if some later step is a sync or rollover executed while that
    segment is still the live one.  So an acknowledgement always follows the fsync + index
    publication that covers the acknowledged bytes (the C01 ordering). *)
Theorem C20_ack_after_sync : forall pre n mid post,
  0 < n ->
  poll_ok (sw_run PerSegment (pre ++ SWrite n :: mid ++ SReply :: post)) (next_waiter PerSegment (pre ++ SWrite n :: mid)) = true ->
  exists m1 st m2, mid ++ SReply :: post = m1 ++ st :: m2 /\ is_sync st = true /\
                   sw_seg (sw_run PerSegment (pre ++ SWrite n :: m1)) = sw_seg (sw_run PerSegment pre).
Proof. exact ack_after_sync. Qed.

(** Under the fairness assumption that every window of k worker steps contains a sync (the syncer
    thread's FlushPoll arrives at least every k steps), the append's poll succeeds after at most
    k worker steps following its reply, i.e. it completes within k + 1 steps. *)
Theorem C20_bounded_steps : forall k pre mid,
  fair k (pre ++ SReply :: mid) -> (k <= length mid)%nat ->
  poll_ok (sw_run PerSegment (pre ++ SReply :: mid)) (next_waiter PerSegment pre) = true.
Proof. exact bounded_steps. Qed.

(** The code before fix 9690820 (one watch value across rollovers):
    (a) a reply in the new segment is satisfied although no sync followed it (acknowledged before
        the fsync that covers it);
    (b) a waiter of the old segment that polls after the new segment's first sync is not satisfied,
        and no number of further syncs and polls satisfies it (lost wake-up). *)
Theorem C20_shared_refuted :
  poll_ok (sw_run Shared shared_early) (next_waiter Shared [SWrite 1000; SReply; SSync; SRoll; SWrite 10]) = true /\
  (forall tail, Forall (fun st => st = SSync \/ exists w, st = SPoll w) tail ->
     poll_ok (sw_run Shared (shared_late ++ tail)) (next_waiter Shared []) = false).
Proof. exact shared_refuted. Qed.

(** Non-vacuity. *)
(* the same two schedules are fine after the fix *)
Example C20_witnesses_fixed :
  poll_ok (sw_run PerSegment shared_early) (next_waiter PerSegment [SWrite 1000; SReply; SSync; SRoll; SWrite 10]) = false /\
  poll_ok (sw_run PerSegment shared_late) (next_waiter PerSegment []) = true.
Proof. vm_compute. split; reflexivity. Qed.

(* the fairness hypothesis is satisfiable, with k = 4 *)
Example C20_fair_example : fair 4 ([SWrite 7; SReply; SSync; SWrite 5] ++ SReply :: [SPoll 1; SSync; SWrite 3; SRoll]).
Proof. apply fairb_fair. vm_compute. reflexivity. Qed.

Example C20_bounded_example :
  poll_ok (sw_run PerSegment ([SWrite 7; SReply; SSync; SWrite 5] ++ SReply :: [SPoll 1; SSync; SWrite 3; SRoll])) 1 = true.
Proof. vm_compute. reflexivity. Qed.

(* a poll before any sync does not succeed (the acknowledgement really waits) *)
Example C20_waits : poll_ok (sw_run PerSegment [SWrite 7; SReply; SPoll 0]) 0 = false.
Proof. vm_compute. reflexivity. Qed.

(* sync_if_necessary between the write and the reply: the reply is satisfied at once *)
Example C20_sync_before_reply : poll_ok (sw_run PerSegment [SWrite 7; SSync; SReply]) 0 = true.
Proof. vm_compute. reflexivity. Qed.

Print Assumptions C20_no_lost_wakeup.
Print Assumptions C20_covered_forever.
Print Assumptions C20_ack_after_sync.
Print Assumptions C20_bounded_steps.
Print Assumptions C20_shared_refuted.
