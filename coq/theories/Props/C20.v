(** C20 — every append completes within a bounded time.
    The logic of the acknowledgement path (Model/SyncWatch.v: the worker's reply carries the
    segment's watch channel and the target offset; sync and rollover publish the write offset;
    the client polls the latest value of ITS channel) is proved free of lost wake-ups for EVERY
    sequence of worker steps and polls, for the code as it is after fix 9690820 (one watch
    channel per segment, mode [PerSegment]).  The code before that fix (mode [Shared]) is refuted
    by two witnesses that are replayed on the real code (harness/cconc, kind=latepoll).
    The wall-clock part (period of the syncer thread's FlushPoll, fsync latency, scheduling of the
    client task) is not modelled: it is covered by the run-time bound 10 x sync_idle_interval + 2 s
    on every append of the concurrent harness.  Level: partial.
    Only property theorems here; proofs are in Proofs/SyncWatchProofs.v. *)
From Coq Require Import NArith List Bool.
From SV Require Import Model.SyncWatch Proofs.SyncWatchProofs.
Import ListNotations.
Open Scope N_scope.

(** Once a sync or a rollover has happened after a waiter's reply, EVERY later poll of that waiter
    succeeds: for any steps [pre] before the reply, any steps [mid] containing a sync/rollover and
    any later steps [post] (more replies, syncs, rollovers, polls in any order), the waiter of the
    reply is covered at the end.  (The value it compares with is monotone, and the sync that
    follows the reply covers it for ever.) *)
Theorem C20_no_lost_wakeup : forall pre n mid post,
  (exists st, In st mid /\ is_sync st = true) ->
  poll_ok (sw_run PerSegment (pre ++ SReply n :: mid ++ post)) (next_waiter PerSegment pre) = true.
Proof. exact no_lost_wakeup. Qed.

(** A poll succeeds ONLY if a sync/rollover of the waiter's own segment happened after its reply:
    an acknowledgement always follows the fsync + index publication that covers it. *)
Theorem C20_ack_after_sync : forall pre n mid,
  0 < n ->
  poll_ok (sw_run PerSegment (pre ++ SReply n :: mid)) (next_waiter PerSegment pre) = true ->
  exists m1 st m2, mid = m1 ++ st :: m2 /\ is_sync st = true /\
                   sw_seg (sw_run PerSegment (pre ++ SReply n :: m1)) = sw_seg (sw_run PerSegment pre).
Proof. exact ack_after_sync. Qed.

(** Under the fairness assumption that every window of k worker steps contains a sync (the syncer
    thread's FlushPoll arrives at least every k steps), the append's poll succeeds after at most
    k worker steps following its reply, i.e. it completes within k + 1 steps. *)
Theorem C20_bounded_steps : forall k pre n mid,
  fair k (pre ++ SReply n :: mid) -> (k <= length mid)%nat ->
  poll_ok (sw_run PerSegment (pre ++ SReply n :: mid)) (next_waiter PerSegment pre) = true.
Proof. exact bounded_steps. Qed.

(** The code before fix 9690820 (one watch value across rollovers):
    (a) a reply in the new segment is satisfied although no sync followed it (acknowledged before
        the fsync that covers it);
    (b) a waiter of the old segment that polls after the new segment's first sync is not satisfied,
        and no number of further syncs and polls satisfies it (lost wake-up). *)
Theorem C20_shared_refuted :
  poll_ok (sw_run Shared shared_early) (next_waiter Shared [SReply 1000; SSync; SRoll]) = true /\
  (forall tail, Forall (fun st => st = SSync \/ exists w, st = SPoll w) tail ->
     poll_ok (sw_run Shared (shared_late ++ tail)) (next_waiter Shared []) = false).
Proof. split; [exact shared_ack_before_sync|exact shared_lost_wakeup]. Qed.

(** Non-vacuity. *)
(* the same two schedules are fine after the fix *)
Example C20_witnesses_fixed :
  poll_ok (sw_run PerSegment shared_early) (next_waiter PerSegment [SReply 1000; SSync; SRoll]) = false /\
  poll_ok (sw_run PerSegment shared_late) (next_waiter PerSegment []) = true.
Proof. vm_compute. split; reflexivity. Qed.

(* the fairness hypothesis is satisfiable, with k = 3 *)
Example C20_fair_example : fair 3 ([SReply 7; SSync] ++ SReply 5 :: [SPoll 1; SSync; SReply 3; SRoll]).
Proof. apply fairb_fair. vm_compute. reflexivity. Qed.

Example C20_bounded_example :
  poll_ok (sw_run PerSegment ([SReply 7; SSync] ++ SReply 5 :: [SPoll 1; SSync])) 1 = true.
Proof. vm_compute. reflexivity. Qed.

(* a poll before any sync does not succeed (the acknowledgement really waits) *)
Example C20_waits : poll_ok (sw_run PerSegment [SReply 7; SPoll 0]) 0 = false.
Proof. vm_compute. reflexivity. Qed.

Print Assumptions C20_no_lost_wakeup.
Print Assumptions C20_ack_after_sync.
Print Assumptions C20_bounded_steps.
Print Assumptions C20_shared_refuted.
