(** C22 - the RESP API of a single node behaves like the event-store model.
    Model: Model/Resp.v = the request handlers of crates/sierradb-server/src/request/*.rs (after fix c8fbef5) as
    functions of (the abstract store of Model/StoreSpec.v per bucket, the confirmed watermark per partition).
    Every theorem is for EVERY configuration, store state, watermark and request; [rs_wf] (the logs are what some
    history of reference appends produced) is an invariant of every history (C22_reachable_wf), not an assumption
    about the code.  This file holds only the property theorems; each is closed by an exact lemma. *)
From Coq Require Import NArith List Bool.
From SV Require Import Model.StoreSpec Model.Resp Proofs.RespProofs.
Import ListNotations.
Open Scope N_scope.

(** ---- appends: the reply carries exactly what the reference append assigns ---- *)
(** EAPPEND: the reply's event id, partition sequence and stream version are those of the one event that
    [spec_append] adds to the bucket's log (partition = hash of the key mod P); nothing else changes *)
Theorem C22_append_reply : forall mode cfg st ev pk dflt now fits st' id kpk pid seq ver ms,
  rs_handle mode cfg st (RqAppend ev pk dflt now fits) = (st', ROk (RpAppend id kpk pid seq ver ms)) ->
  exists e,
    kpk = match pk with Some k => k | None => dflt end /\ pid = rs_pid cfg kpk /\
    rs_accepts cfg st st' kpk [rn_sid ev] [rn_xv ev] fits [e] /\
    e_id e = id /\ e_seq e = seq /\ e_ver e = ver /\ e_sid e = rn_sid ev.
Proof. exact rs_append_reply. Qed.

(** EMAPPEND (repaired or release-build arithmetic): the per-event ids, streams and VERSIONS of the reply are those
    of the events [spec_append] adds - the reverse reconstruction recovers them for every transaction, with any
    repetition of streams - and first/last are the first and last of their consecutive partition sequences *)
Theorem C22_mappend_reply : forall mode cfg st pk evs now fits st' kpk pid first last infos,
  mode <> SubChecked ->
  rs_handle mode cfg st (RqMAppend pk evs now fits) = (st', ROk (RpMAppend kpk pid first last infos)) ->
  exists news,
    kpk = pk /\ pid = rs_pid cfg pk /\
    rs_accepts cfg st st' pk (map rn_sid evs) (map rn_xv evs) fits news /\
    map rf_id infos = map e_id news /\ map rf_sid infos = map e_sid news /\ map rf_ver infos = map e_ver news /\
    news <> [] /\ map e_seq news = rs_seq_from first (length news) /\ last + 1 = first + rs_len news.
Proof. exact rs_mappend_reply. Qed.

(** the lemma behind it, for every chain of freshly assigned events *)
Theorem C22_reconstruction : forall mode base added, mode <> SubChecked -> rs_chain base added ->
  rs_recon_versions mode (map e_sid added) (rs_stream_versions added) = Some (map e_ver added).
Proof. exact rs_recon_versions_chain. Qed.

(** what the reference append adds is such a chain: versions continue each stream, sequences the partition *)
Theorem C22_spec_append_chain : forall l t fits l' news, spec_append l t fits = (l', inl news) ->
  l' = l ++ [news] /\ rs_chain (all_events l) news /\
  map e_sid news = map n_sid (t_events t) /\ map e_id news = map n_id (t_events t) /\
  Forall (fun e => e_pk e = t_pk t /\ e_pid e = t_pid t /\ e_tx e = t_tx t /\ e_flag e = t_flag t) news.
Proof. exact spec_append_ok. Qed.

(** an error reply (wrong version, key mismatch, invalid arguments, ...) and every read leave the store as it was *)
Theorem C22_error_unchanged : forall mode cfg st r st' e,
  rs_handle mode cfg st r = (st', ROk (RpErr e)) -> st' = st.
Proof. exact rs_error_unchanged. Qed.
Theorem C22_read_unchanged : forall mode cfg st r, rs_is_read r = true -> fst (rs_handle mode cfg st r) = st.
Proof. exact rs_read_unchanged. Qed.

(** an append is refused only for a reason: the request itself is invalid (strict versioning, a timestamp whose
    nanoseconds overflow u64, no events, an event id without the key's partition hash), or the reference append
    rejects the transaction - and then the error is that rejection's (WRONGVER / DBOPFAILED).  Together with
    C22_total: a valid request the reference store accepts is answered with the append reply above *)
Theorem C22_append_error : forall mode cfg st ev pk dflt now fits st' e,
  rs_handle mode cfg st (RqAppend ev pk dflt now fits) = (st', ROk (RpErr e)) ->
  let key := match pk with Some k => k | None => dflt end in
  ((e = EInvalidArg \/ e = EInvalidEventId) /\ rs_refused cfg key [ev] now) \/
  (exists bs g l' r, rs_build [ev] (rs_hash key) now (rs_gen st) = (Some bs, g) /\
     spec_append (rs_logs st (rs_bucket cfg (rs_pid cfg key))) (rs_txn cfg st key bs) fits = (l', inr r) /\ e = rs_err_of r).
Proof. exact rs_append_error. Qed.
Theorem C22_mappend_error : forall mode cfg st pk evs now fits st' e,
  rs_handle mode cfg st (RqMAppend pk evs now fits) = (st', ROk (RpErr e)) ->
  (e = EInvalidArg /\ rs_refused cfg pk evs now) \/
  (exists bs g l' r, rs_build evs (rs_hash pk) now (rs_gen st) = (Some bs, g) /\
     spec_append (rs_logs st (rs_bucket cfg (rs_pid cfg pk))) (rs_txn cfg st pk bs) fits = (l', inr r) /\ e = rs_err_of r).
Proof. exact rs_mappend_error. Qed.

(** ---- scans: events and has_more against the reference filters ---- *)
(** ESCAN: the events are the first COUNT of { stream events from START, version <= END, sequence below the
    watermark of the addressed partition }, in order; has_more = false only if that is all of them *)
Theorem C22_scan_reply : forall mode cfg st sid s e pk dflt count st' more evs,
  rs_wf cfg st ->
  rs_handle mode cfg st (RqScan sid s e pk dflt count) = (st', ROk (RpScan more evs)) ->
  let pid := rs_pid cfg (match pk with Some k => k | None => dflt end) in
  let inrange := filter (rs_ok (rs_wm st pid) (rs_rg_end e))
                   (spec_scan_stream_fwd (rs_logs st (rs_bucket cfg pid)) sid (rs_rg_start s)) in
  st' = st /\ evs = firstn (N.to_nat (rs_count count)) inrange /\ (more = false -> evs = inrange).
Proof. exact rs_scan_reply. Qed.

(** EPSCAN: the same for a partition's sequences *)
Theorem C22_pscan_reply : forall mode cfg st p s e count st' more evs,
  rs_wf cfg st ->
  rs_handle mode cfg st (RqPScan p s e count) = (st', ROk (RpScan more evs)) ->
  let pid := rs_sel_pid cfg p in
  let inrange := filter (rs_pin (rs_wm st pid) (rs_rg_end e))
                   (spec_scan_partition_fwd (rs_logs st (rs_bucket cfg pid)) pid (rs_rg_start s)) in
  st' = st /\ pid < rc_parts cfg /\ evs = firstn (N.to_nat (rs_count count)) inrange /\ (more = false -> evs = inrange).
Proof. exact rs_pscan_reply. Qed.

(** the two read loops themselves, for every log, watermark, range and count *)
Theorem C22_stream_scan_exact : forall cfg l W sid start endo count, rs_wf_events cfg (all_events l) ->
  let inrange := filter (rs_ok W endo) (spec_scan_stream_fwd l sid start) in
  fst (rs_stream_scan l W sid start endo count) = firstn (N.to_nat count) inrange /\
  (snd (rs_stream_scan l W sid start endo count) = false -> fst (rs_stream_scan l W sid start endo count) = inrange).
Proof. exact rs_stream_scan_exact. Qed.
Theorem C22_partition_scan_exact : forall cfg l W pid start endo count, rs_wf_events cfg (all_events l) ->
  let inrange := filter (rs_pin W endo) (spec_scan_partition_fwd l pid start) in
  fst (rs_partition_scan l W pid start endo count) = firstn (N.to_nat count) inrange /\
  (snd (rs_partition_scan l W pid start endo count) = false -> fst (rs_partition_scan l W pid start endo count) = inrange).
Proof. exact rs_partition_scan_exact. Qed.

(** only confirmed events are revealed *)
Theorem C22_scan_gated : forall cfg l W sid pid start endo count e, rs_wf_events cfg (all_events l) ->
  (In e (fst (rs_stream_scan l W sid start endo count)) -> e_seq e < W) /\
  (In e (fst (rs_partition_scan l W pid start endo count)) -> e_seq e < W).
Proof. exact rs_scan_gated. Qed.

(** ESVER = the reference stream version of the confirmed part of the log; EGET = the reference lookup, gated *)
Theorem C22_stream_version : forall l W sid,
  rs_stream_version l W sid =
  match stream_state (filter (fun e => e_seq e <? W) (all_events l)) sid with Some (_, v) => Some v | None => None end.
Proof. exact rs_stream_version_exact. Qed.
Theorem C22_read_event : forall l W id,
  rs_read_event l W id = match spec_read_event l id with
                         | Some e => if e_seq e <? W then Some e else None
                         | None => None end.
Proof. exact rs_read_event_exact. Qed.

(** the invariant: every history of requests and confirmations from the empty node keeps the logs well formed,
    and a confirmed partition's watermark covers all of its events (so quiesced reads see everything) *)
Theorem C22_reachable_wf : forall mode cfg ss, rs_wf cfg (fst (rs_run mode cfg rs_init ss)).
Proof. exact rs_reachable_wf. Qed.
Theorem C22_confirm_covers : forall cfg st pid e, rs_wf cfg st ->
  In e (all_events (rs_logs st (rs_bucket cfg pid))) -> e_pid e = pid ->
  e_seq e < rs_wm (rs_confirm cfg st pid) pid.
Proof. exact rs_confirm_covers. Qed.

(** ---- every request gets a reply ---- *)
(** no request, valid or not, makes the repaired handlers panic (a node has >= 1 partition and >= 1 bucket) *)
Theorem C22_total : forall mode cfg st r, mode <> SubChecked -> 0 < rc_parts cfg -> 0 < rc_buckets cfg ->
  exists rep, snd (rs_handle mode cfg st r) = ROk rep.
Proof. exact rs_total. Qed.

(** timestamps: ms * 10^6 beyond u64 -> INVALIDARG; 2^63 ns and more -> an error reply; nothing is stored *)
Theorem C22_timestamp_overflow : forall mode cfg st ev pk dflt now fits ms,
  0 < rc_parts cfg -> 0 < rc_buckets cfg ->
  rn_ts ev = RTsMs ms -> rs_u64 <= ms * 1000000 ->
  rs_handle mode cfg st (RqAppend ev pk dflt now fits) = (st, ROk (RpErr EInvalidArg)).
Proof. exact rs_append_ts_overflow. Qed.
Theorem C22_timestamp_high : forall mode cfg st ev pk dflt now fits ms,
  0 < rc_parts cfg -> 0 < rc_buckets cfg ->
  rn_ts ev = RTsMs ms -> rs_i63 <= ms * 1000000 ->
  exists e, rs_handle mode cfg st (RqAppend ev pk dflt now fits) = (st, ROk (RpErr e)).
Proof. exact rs_append_ts_high. Qed.

(** history: the original `*version -= 1` (before fix c8fbef5).  Debug build: EMAPPEND of one event to a new
    stream on the empty node panics (after the transaction was committed).  Release build: same replies as now *)
Theorem C22_emappend_debug_refuted : snd (rs_handle SubChecked rs_cfg1 rs_init rs_witness) = RPanic.
Proof. exact rs_checked_refuted. Qed.
Theorem C22_release_same : forall cfg st r, rs_handle SubWrap cfg st r = rs_handle SubFixed cfg st r.
Proof. exact rs_release_same. Qed.

(** non-vacuity: a history on an 8-partition / 4-bucket node.  k = 65536 + 7 (hash 7 -> partition 7):
    EMAPPEND k [s1 any; s2 any; s1 any] replies versions 0,0,1 and sequences 0..2; after confirmation
    ESCAN s1 0 0 returns version 0 with has_more = true (version 1 is in the same transaction) *)
Definition C22_k : N := 65543.
Definition C22_hist : list rs_step :=
  [ StReq (RqMAppend C22_k [mkRNew 1 None XAny RTsNow; mkRNew 2 None XAny (RTsMs 5); mkRNew 1 None XAny RTsNow] 1000 true);
    StReq (RqScan 1 RgStart RgEnd (Some C22_k) 0 None);
    StConfirm 7;
    StReq (RqScan 1 (RgVal 0) (RgVal 0) (Some C22_k) 0 None);
    StReq (RqMAppend C22_k [mkRNew 1 None (XExact 0) RTsNow] 1000 true);
    StReq (RqPSeq (PsKey C22_k)) ].
Example C22_example :
  snd (rs_run SubFixed rs_cfg1 rs_init C22_hist) =
  [ ROk (RpMAppend C22_k 7 0 2 [mkRInfo 7 1 0 0; mkRInfo 131079 2 0 5; mkRInfo 262151 1 1 0]);
    ROk (RpScan false []);
    ROk (RpScan true [mkEvent 7 C22_k 7 0 false 0 1 0]);
    ROk (RpErr EWrongVer);
    ROk (RpNum (Some 2)) ].
Proof. vm_compute. reflexivity. Qed.
Example C22_example_wf : rs_wf rs_cfg1 (fst (rs_run SubFixed rs_cfg1 rs_init C22_hist)).
Proof. apply C22_reachable_wf. Qed.

Print Assumptions C22_append_reply.
Print Assumptions C22_mappend_reply.
Print Assumptions C22_reconstruction.
Print Assumptions C22_spec_append_chain.
Print Assumptions C22_append_error.
Print Assumptions C22_mappend_error.
Print Assumptions C22_error_unchanged.
Print Assumptions C22_read_unchanged.
Print Assumptions C22_scan_reply.
Print Assumptions C22_pscan_reply.
Print Assumptions C22_stream_scan_exact.
Print Assumptions C22_partition_scan_exact.
Print Assumptions C22_scan_gated.
Print Assumptions C22_stream_version.
Print Assumptions C22_read_event.
Print Assumptions C22_reachable_wf.
Print Assumptions C22_confirm_covers.
Print Assumptions C22_total.
Print Assumptions C22_timestamp_overflow.
Print Assumptions C22_timestamp_high.
Print Assumptions C22_emappend_debug_refuted.
Print Assumptions C22_release_same.
