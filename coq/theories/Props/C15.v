(** C15 — concurrent readers see acknowledged writes and never go backwards.
    Model/Interleave.v: one bucket (Model/Store.v's store and sequential operations), a reader
    pool of [nr] threads each holding the closed indexes of some prefix of the sealed segments, and
    the writer thread's steps at the granularity of the code's lock scopes:
      append (records + pending entries) | sync (publish under the write lock) |
      rollover up to the index swap and the store of index_segment_id | one step per reader-pool
      thread for the installation of the sealed indexes (rayon broadcast),
    with the index write lock held from the swap until the last thread has installed (the code after
    fix 37abcc4, mode [InstallUnderLock]).  A read is a live-index lookup in some state [a] in which
    the read lock can be taken, followed on a miss (or, for events, for the record itself) by a
    lookup done by reader-pool thread [th] in any LATER state [b].  Readers do not change the state,
    so any number of them, each with its own (a, b, th), is covered.
    "Acknowledged" = visible, i.e. published by a sync (C20_ack_after_sync / C01: the acknowledgement
    follows the sync that covers the append).
    The theorems hold for EVERY sequence of writer steps (every interleaving with the readers'
    two lookups) — including while a rollover is in progress.
    Level: partial — the step atomicity is assumed to match the code's lock scopes; tokio / rayon
    scheduling and the scans' segment-to-segment hand-over (bucket/iter.rs) are not modelled; the tie
    to the code is the trace validation of harness/cconc (pause points inside the rollover).
    Only property theorems here; proofs are in Proofs/InterleaveProofs.v. *)
From Coq Require Import NArith List Bool.
From SV Require Import Model.Interleave Proofs.StoreInv Proofs.StoreSimProofs Proofs.InterleaveProofs.
Import ListNotations.
Open Scope N_scope.

(** A read that starts (state a) after a write was visible (state s0) returns at least that
    write: the stream's version / the partition's sequence is >= the acknowledged one, with the
    same partition key ([sv_le x y]: if x = Some (pk, v) then y = Some (pk, v') with v <= v'). *)
Theorem C15_read_your_ack_version : forall nr t0 t1 t2 th sid, Forall wf_wstep (t0 ++ t1 ++ t2) ->
  let s0 := rsys_run nr t0 in let a := rsys_run nr (t0 ++ t1) in let b := rsys_run nr (t0 ++ t1 ++ t2) in
  rs_locked InstallUnderLock a = false -> (th < nr)%nat ->
  sv_le (stream_state (all_events (abs_visible (rs_store s0))) sid) (read_version (rs_store a) (rs_view b th) sid).
Proof. exact read_your_ack_version. Qed.

Theorem C15_read_your_ack_sequence : forall nr t0 t1 t2 th pid, Forall wf_wstep (t0 ++ t1 ++ t2) ->
  let s0 := rsys_run nr t0 in let a := rsys_run nr (t0 ++ t1) in let b := rsys_run nr (t0 ++ t1 ++ t2) in
  rs_locked InstallUnderLock a = false -> (th < nr)%nat ->
  pl_le (partition_last (all_events (abs_visible (rs_store s0))) pid) (read_sequence (rs_store a) (rs_view b th) pid).
Proof. exact read_your_ack_sequence. Qed.

(** ... and returns the acknowledged event itself (event ids are unique among everything written) *)
Theorem C15_read_your_ack_event : forall nr t0 t1 t2 th grp e, Forall wf_wstep (t0 ++ t1 ++ t2) ->
  let s0 := rsys_run nr t0 in let a := rsys_run nr (t0 ++ t1) in let b := rsys_run nr (t0 ++ t1 ++ t2) in
  rs_locked InstallUnderLock a = false -> (th < nr)%nat ->
  NoDup (map e_id (all_events (abs_all (rs_store b)))) ->
  In grp (abs_visible (rs_store s0)) -> In e grp ->
  read_event2 (rs_store a) (rs_store b) (rs_view b th) (e_id e) = Some e.
Proof. exact read_your_ack_event. Qed.

(** Two successive reads of one reader, (a1, b1, th1) then (a2, b2, th2) with b1 before a2: the
    second never returns less — no version/sequence goes backwards, no event found once is lost. *)
Theorem C15_monotone_version : forall nr t1 t2 t3 t4 th1 th2 sid, Forall wf_wstep (t1 ++ t2 ++ t3 ++ t4) ->
  let a1 := rsys_run nr t1 in let b1 := rsys_run nr (t1 ++ t2) in
  let a2 := rsys_run nr (t1 ++ t2 ++ t3) in let b2 := rsys_run nr (t1 ++ t2 ++ t3 ++ t4) in
  rs_locked InstallUnderLock a2 = false -> (th2 < nr)%nat ->
  sv_le (read_version (rs_store a1) (rs_view b1 th1) sid) (read_version (rs_store a2) (rs_view b2 th2) sid).
Proof. exact monotone_version. Qed.

Theorem C15_monotone_sequence : forall nr t1 t2 t3 t4 th1 th2 pid, Forall wf_wstep (t1 ++ t2 ++ t3 ++ t4) ->
  let a1 := rsys_run nr t1 in let b1 := rsys_run nr (t1 ++ t2) in
  let a2 := rsys_run nr (t1 ++ t2 ++ t3) in let b2 := rsys_run nr (t1 ++ t2 ++ t3 ++ t4) in
  rs_locked InstallUnderLock a2 = false -> (th2 < nr)%nat ->
  pl_le (read_sequence (rs_store a1) (rs_view b1 th1) pid) (read_sequence (rs_store a2) (rs_view b2 th2) pid).
Proof. exact monotone_sequence. Qed.

Theorem C15_monotone_event : forall nr t1 t2 t3 t4 th1 th2 id e, Forall wf_wstep (t1 ++ t2 ++ t3 ++ t4) ->
  let a1 := rsys_run nr t1 in let b1 := rsys_run nr (t1 ++ t2) in
  let a2 := rsys_run nr (t1 ++ t2 ++ t3) in let b2 := rsys_run nr (t1 ++ t2 ++ t3 ++ t4) in
  rs_locked InstallUnderLock a2 = false -> (th2 < nr)%nat ->
  NoDup (map e_id (all_events (abs_all (rs_store b2)))) ->
  read_event2 (rs_store a1) (rs_store b1) (rs_view b1 th1) id = Some e ->
  read_event2 (rs_store a2) (rs_store b2) (rs_view b2 th2) id = Some e.
Proof. exact monotone_event. Qed.

(** The code before fix 37abcc4 released the index lock before the reader-pool installation
    (mode [InstallAfterRelease]: a reader may start in any state).  Witness (replayed on the real
    code by harness/cconc kind=window, corpus/C15): append + sync + rollover up to the swap; a reader
    starting now finds the live index empty and no reader thread holding the sealed indexes: the
    acknowledged stream version, partition sequence and event are all missing. *)
Theorem C15_refuted :
  let s := rsys_run 1 c15_window in
  rs_locked InstallAfterRelease s = false /\
  stream_state (all_events (abs_visible (rs_store s))) 10 = Some (7, 0) /\
  read_version (rs_store s) (rs_view s 0) 10 = None /\
  read_sequence (rs_store s) (rs_view s 0) 1 = None /\
  read_event2 (rs_store s) (rs_store s) (rs_view s 0) 1 = None.
Proof. exact window_refuted. Qed.

(** Non-vacuity: with the installation under the lock, no reader can start in the witness state, and
    after the thread's installation step the same reads return the acknowledged data. *)
Example C15_window_fixed :
  let s := rsys_run 1 c15_window in let s' := rsys_run 1 (c15_window ++ [WInstall 0]) in
  rs_locked InstallUnderLock s = true /\ rs_locked InstallUnderLock s' = false /\
  read_version (rs_store s') (rs_view s' 0) 10 = Some (7, 0) /\
  read_sequence (rs_store s') (rs_view s' 0) 1 = Some 0 /\
  option_map e_id (read_event2 (rs_store s') (rs_store s') (rs_view s' 0) 1) = Some 1.
Proof. exact window_fixed. Qed.

Example C15_wf_example : Forall wf_wstep (c15_window ++ [WInstall 0]).
Proof. repeat constructor; discriminate. Qed.

(* a read in the middle of a schedule with two rollovers, two reader threads installing in
   different orders, and a live hit whose record is fetched after the segment was sealed *)
Definition c15_t2 : txn := mkTxn 7 1 101 false [mkNew 2 10 (XExact 0) true; mkNew 3 11 XAny true] XAny.
Definition c15_sched1 : list wstep := [WAppend c15_t1 false; WSync; WAppend c15_t2 false; WSync].
Definition c15_sched2 : list wstep := [WRoll; WInstall 1; WInstall 0; WAppend c15_t1 false].
Example C15_live_hit_then_sealed :
  let a := rsys_run 2 c15_sched1 in let b := rsys_run 2 (c15_sched1 ++ c15_sched2) in
  rs_locked InstallUnderLock a = false /\
  option_map e_id (read_event2 (rs_store a) (rs_store b) (rs_view b 1) 3) = Some 3 /\
  read_version (rs_store a) (rs_view b 0) 10 = Some (7, 1) /\
  read_version (rs_store b) (rs_view b 1) 10 = Some (7, 1).
Proof. vm_compute. repeat split; reflexivity. Qed.

Print Assumptions C15_read_your_ack_version.
Print Assumptions C15_read_your_ack_sequence.
Print Assumptions C15_read_your_ack_event.
Print Assumptions C15_monotone_version.
Print Assumptions C15_monotone_sequence.
Print Assumptions C15_monotone_event.
Print Assumptions C15_refuted.
