(** C21 - documented and client-emitted commands parse as intended.
    Model/Parser.v models the server's command parsers (combine combinators with their four outcomes) as they
    are after the `fix:` commits, the documented grammar [Doc], and the Rust client's command printers.
    [uo] is the uuid crate's `parse_str` and [uprint] its `to_string`: both are arbitrary functions here.
    Commands covered: ESUB, EPSUB, EAPPEND, EMAPPEND, ESCAN, EPSCAN, EGET, ESVER, EPSEQ, EACK.
    This file holds only the property theorems; each is closed by an exact lemma. *)
From Coq Require Import String Ascii List NArith.
From SV Require Import Model.Parser Proofs.ParserProofs.
Import ListNotations.
Open Scope string_scope.
Open Scope list_scope.
Open Scope N_scope.

(* every documented form (any token list in the relation [Doc]: optional clauses present or not, option
   clauses in any order, keywords in any letter case, every identifier and number the grammar allows)
   parses into the request it denotes *)
Theorem C21_roundtrip : forall uo c r toks, Doc uo c r toks -> parse_command uo c toks = Some r.
Proof. exact doc_roundtrip. Qed.

(* nothing else is accepted: an accepted argument list is a documented form and the request is the one it denotes *)
Theorem C21_sound : forall uo c r toks, parse_command uo c toks = Some r -> Doc uo c r toks.
Proof. exact doc_sound. Qed.

(* the documented grammar gives every argument list at most one reading *)
Theorem C21_unambiguous : forall uo c r1 r2 toks, Doc uo c r1 toks -> Doc uo c r2 toks -> r1 = r2.
Proof. exact doc_unambiguous. Qed.

(* keywords are never taken as stream ids: in the two commands where a stream id can stand where a clause
   keyword can (the stream list of ESUB, the event list of EMAPPEND) no stream id of an accepted request
   is one of the command's clause keywords, in any letter case *)
Theorem C21_esub_no_keyword_stream : forall uo toks r,
  parse_command uo CESub toks = Some (RESub r) -> Forall (fun s => esub_word s = false) (esub_req_streams r).
Proof. exact esub_no_keyword_stream. Qed.
Theorem C21_emappend_no_keyword_stream : forall uo toks pk evs,
  parse_command uo CEMAppend toks = Some (REMAppend pk evs) -> Forall (fun e => emappend_word (ae_stream e) = false) evs.
Proof. exact emappend_no_keyword_stream. Qed.

(* every command the Rust client prints for a well-formed call (valid stream ids and names, integers of the
   argument types, window >= 1) is a documented form of the request the call asks for, and parses into it.
   Two calls are outside: `EPSUB <uuid>` (the epsub_by_key and subscribe_to_partition_key families) - see C21_client_epsub_key_rejected -
   and the free-text selector of subscribe_to_partitions - see C21_client_text. *)
Theorem C21_client : forall uo uprint,
  (forall u, UuidT uo (uprint u) u) -> (forall n, n < 65536 -> uo (trim (dec n)) = None) ->
  forall c r, client_ok c -> client_denotes c = Some r ->
  Doc uo (client_command c) r (client_tokens uprint c) /\
  parse_command uo (client_command c) (client_tokens uprint c) = Some r.
Proof. exact client_doc_parse. Qed.

Theorem C21_client_text : forall uo uprint sel s from win,
  DocSelector s sel -> is_u64 from -> win_ok win ->
  parse_command uo CEPSub (client_tokens uprint (CallEPSubText sel from win)) =
  Some (REPSub (epsub_resolve {| ep_sel := s; ep_from := Some (FsAll from); ep_window := win |})).
Proof. exact client_text_parse. Qed.

(* known finding: the client prints `EPSUB <uuid> ...`, which the server's grammar does not have; likewise a
   range selector "a-b" *)
Theorem C21_client_epsub_key_rejected : forall uo uprint u from win,
  is_kw "*" (uprint u) = false -> parse_u16 (uprint u) = None -> pids_of (uprint u) = None ->
  parse_command uo CEPSub (client_tokens uprint (CallEPSubKey u from win)) = None.
Proof. exact client_epsub_key_rejected. Qed.

(* history: the ESUB grammar before the fix accepted its own keywords and their values as stream ids *)
Theorem C21_esub_orig_refuted : exists toks a,
  run (esub_raw_orig (fun _ => None)) toks = Some a /\ ~ DocESub (fun _ => None) a toks /\
  esub_resolve a = EsStreams [("user-1", None); ("FROM", None); ("5", None); ("WINDOW", None); ("10", None)] RvLatest None.
Proof. exact esub_orig_refuted. Qed.

(* ------------------------------------------------------------------ non-vacuity: the documented examples *)
Definition ex_uuid (s : string) : option uuid :=
  if String.eqb s "550e8400-e29b-41d4-a716-446655440000" then Some "550e8400e29b41d4a716446655440000" else None.
Definition ex_print (u : uuid) : string := "550e8400-e29b-41d4-a716-446655440000".

Example C21_ex_esub_defect :
  parse_command ex_uuid CESub ["user-1"; "FROM"; "5"; "WINDOW"; "10"] = Some (RESub (EsStream "user-1" None (Some 5) (Some 10))).
Proof. vm_compute. reflexivity. Qed.
Example C21_ex_esub_map :
  parse_command ex_uuid CESub ["user-1"; "user-2"; "user-3"; "from"; "Map"; "user-1=10"; "user-2=20"; "user-3=30"; "WINDOW"; "50"] =
  Some (RESub (EsStreams [("user-1", None); ("user-2", None); ("user-3", None)]
                 (RvMap [(("user-1", None), 10); (("user-2", None), 20); (("user-3", None), 30)]) (Some 50))).
Proof. vm_compute. reflexivity. Qed.
Example C21_ex_esub_pk :
  parse_command ex_uuid CESub ["user-123"; "PARTITION_KEY"; "550e8400-e29b-41d4-a716-446655440000"; "FROM"; "50"] =
  Some (RESub (EsStream "user-123" (Some "550e8400e29b41d4a716446655440000") (Some 50) None)).
Proof. vm_compute. reflexivity. Qed.
Example C21_ex_esub_keyword_only : parse_command ex_uuid CESub ["FROM"; "5"] = None.
Proof. vm_compute. reflexivity. Qed.
Example C21_ex_epsub :
  parse_command ex_uuid CEPSub ["1,2,3"; "FROM"; "MAP"; "1=100"; "2=200"; "DEFAULT"; "0"; "WINDOW"; "500"] =
  Some (REPSub (EpParts [1; 2; 3] (FsMap [(1, 100); (2, 200)] (Some 0)) (Some 500))).
Proof. vm_compute. reflexivity. Qed.
Example C21_ex_eappend :
  parse_command ex_uuid CEAppend ["my-stream"; "UserCreated"; "EXPECTED_VERSION"; "empty"; "PAYLOAD"; "{}"; "METADATA"; "{}"] =
  Some (REAppend {| ae_stream := "my-stream"; ae_name := "UserCreated"; ae_event_id := None; ae_partition_key := None;
                    ae_expected := Some EvEmpty; ae_timestamp := None; ae_payload := Some "{}"; ae_metadata := Some "{}" |}).
Proof. vm_compute. reflexivity. Qed.
Example C21_ex_eappend_dup : parse_command ex_uuid CEAppend ["s"; "E"; "EXPECTED_VERSION"; "any"; "EXPECTED_VERSION"; "5"] = None.
Proof. vm_compute. reflexivity. Qed.
Example C21_ex_emappend :
  parse_command ex_uuid CEMAppend ["550e8400-e29b-41d4-a716-446655440000"; "stream1"; "EventA"; "EXPECTED_VERSION"; "empty";
                                   "stream2"; "EventB"; "EXPECTED_VERSION"; "0"] =
  Some (REMAppend "550e8400e29b41d4a716446655440000"
          [{| ae_stream := "stream1"; ae_name := "EventA"; ae_event_id := None; ae_partition_key := None;
              ae_expected := Some EvEmpty; ae_timestamp := None; ae_payload := None; ae_metadata := None |};
           {| ae_stream := "stream2"; ae_name := "EventB"; ae_event_id := None; ae_partition_key := None;
              ae_expected := Some (EvExact 0); ae_timestamp := None; ae_payload := None; ae_metadata := None |}]).
Proof. vm_compute. reflexivity. Qed.
Example C21_ex_emappend_bad_value :
  parse_command ex_uuid CEMAppend ["550e8400-e29b-41d4-a716-446655440000"; "s1"; "E1"; "EXPECTED_VERSION"; "foo"] = None.
Proof. vm_compute. reflexivity. Qed.
Example C21_ex_escan :
  parse_command ex_uuid CEScan ["my-stream"; "-"; "+"; "PARTITION_KEY"; "550e8400-e29b-41d4-a716-446655440000"] =
  Some (REScan {| sc_stream := "my-stream"; sc_start := RStart; sc_end := REnd;
                  sc_pk := Some "550e8400e29b41d4a716446655440000"; sc_count := None |}).
Proof. vm_compute. reflexivity. Qed.
(* the hypotheses of C21_client hold for a concrete call (and for the example oracle on that call's uuid) *)
Example C21_ex_client_ok : client_ok (CallESub "user-1" None (Some 5) (Some 10)) /\
  client_tokens ex_print (CallESub "user-1" None (Some 5) (Some 10)) = ["user-1"; "FROM"; "5"; "WINDOW"; "10"].
Proof. vm_compute. repeat split; try reflexivity; discriminate. Qed.
Example C21_ex_client_key :
  parse_command ex_uuid CEPSub (client_tokens ex_print (CallEPSubKey "550e8400e29b41d4a716446655440000" None None)) = None.
Proof. vm_compute. reflexivity. Qed.

Print Assumptions C21_roundtrip.
Print Assumptions C21_sound.
Print Assumptions C21_unambiguous.
Print Assumptions C21_esub_no_keyword_stream.
Print Assumptions C21_emappend_no_keyword_stream.
Print Assumptions C21_client.
Print Assumptions C21_client_text.
Print Assumptions C21_client_epsub_key_rejected.
Print Assumptions C21_esub_orig_refuted.
