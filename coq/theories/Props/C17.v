(** C17 — segment-log records round-trip and corruption is detected.
    Only property theorems; each is closed by a lemma of Proofs/{Crc32Proofs,SeglogProofs}.v.
    Model: Model/Seglog.v (bytes, every slice index an explicit bounds test with outcome RPanic) and
    Model/Crc32.v (bit-serial reflected CRC-32). zstd is NOT modelled: [compress]/[decompress] are universally
    quantified and only [codec_ok] (decompress (compress x) = Some x; compress yields bytes) is assumed. *)
From Coq Require Import NArith List Lia Bool.
From SV Require Import Model.Crc32 Model.Seglog Proofs.Crc32Proofs Proofs.SeglogProofs.
Import ListNotations.
Open Scope N_scope.

(** ** the checksum *)
(* the byte-wise CRC is the bit-serial division of the message bits (LSB of each byte first) *)
Theorem C17_crc_bytes_are_bits : forall bs s, all_bytes bs -> crc_update s bs = crc_run s (bytes_bits bs).
Proof. exact crc_update_bits. Qed.

(* linearity over GF(2): the register difference evolves by the error bits alone *)
Theorem C17_crc_linear : forall bs es s d, length bs = length es ->
  crc_run (N.lxor s d) (xor_bits bs es) = N.lxor (crc_run s bs) (crc_run d es).
Proof. exact crc_run_lin. Qed.

(* every non-zero error pattern confined to <= 32 consecutive bits changes the CRC — for every message,
   every message length, every position (no bound anywhere) *)
Theorem C17_crc_burst : forall m e, all_bytes m -> all_bytes e -> length m = length e -> burst32 e ->
  crc32 (xor_bytes m e) <> crc32 m.
Proof. exact crc32_burst. Qed.

(* seglog feeds (length bytes, header, stored data) to one hasher: the CRC of their concatenation *)
Theorem C17_crc_covers : forall lb hdr sd, calculate_crc lb hdr sd = crc32 (lb ++ hdr ++ sd).
Proof. exact calculate_crc_eq. Qed.

(** ** all read paths compute one function of the visible bytes *)
Theorem C17_parse_is_decode : forall H decompress bs off,
  parse_record_full H decompress bs off = decode_view H decompress (dropN off bs).
Proof. exact parse_record_full_eq. Qed.

Theorem C17_random_is_decode : forall H decompress file flushed off, flushed <= lenN file ->
  read_random H decompress file flushed off = decode_view H decompress (view file flushed off).
Proof. exact read_random_eq. Qed.

(* the three random-access paths (optimistic <= 2048, fallback <= 4096, large), each on its own *)
Theorem C17_path_optimistic : forall H decompress ob lb crc comp plen, RECORD_HEAD + plen <= lenN ob -> H <= plen ->
  path_optimistic H decompress ob lb crc comp plen =
  check_spec decompress lb crc comp plen (takeN H (sliceN ob RECORD_HEAD plen)) (dropN H (sliceN ob RECORD_HEAD plen)).
Proof. exact path_optimistic_eq. Qed.
Theorem C17_path_fallback : forall H decompress file off lb crc comp plen, off + RECORD_HEAD + plen <= lenN file -> H <= plen ->
  path_fallback H decompress file off lb crc comp plen =
  check_spec decompress lb crc comp plen (takeN H (sliceN file (off + RECORD_HEAD) plen)) (dropN H (sliceN file (off + RECORD_HEAD) plen)).
Proof. exact path_fallback_eq. Qed.
Theorem C17_path_large : forall H decompress file off lb crc comp plen, off + RECORD_HEAD + plen <= lenN file -> H <= plen ->
  path_large H decompress file off lb crc comp plen =
  check_spec decompress lb crc comp plen (takeN H (sliceN file (off + RECORD_HEAD) plen)) (dropN H (sliceN file (off + RECORD_HEAD) plen)).
Proof. exact path_large_eq. Qed.

(* random and sequential reads through any coherent read-ahead buffer *)
Theorem C17_read_is_decode : forall H decompress file flushed ra off seq, flushed <= lenN file -> coherent file flushed ra ->
  snd (read_record H decompress file flushed ra off seq) = decode_view H decompress (view file flushed off).
Proof. exact read_is_decode. Qed.

(** ** round trip: what append stores is returned byte-identical *)
Theorem C17_roundtrip_parse : forall H compress decompress comp hdr data pre rest,
  codec_ok compress decompress -> wf_rec H compress comp hdr data ->
  parse_record H decompress (pre ++ stored_record H compress comp hdr data ++ rest) (lenN pre) =
  ROk (hdr, data, stored_len H compress comp data).
Proof. exact parse_roundtrip. Qed.

Theorem C17_roundtrip_read : forall H compress decompress comp hdr data file flushed ra off seq,
  codec_ok compress decompress -> wf_rec H compress comp hdr data ->
  flushed <= lenN file -> coherent file flushed ra ->
  sliceN file off (stored_len H compress comp data) = stored_record H compress comp hdr data ->
  off + stored_len H compress comp data <= flushed ->
  snd (read_record H decompress file flushed ra off seq) = ROk (expected_rec H compress comp hdr data).
Proof. exact read_roundtrip. Qed.

(* iteration over a file holding the records rs one after the other, then something unreadable *)
Theorem C17_roundtrip_iter : forall H compress decompress rs file flushed ra pre tail e,
  codec_ok compress decompress -> Forall (fun '(c, h, d) => wf_rec H compress c h d) rs ->
  flushed <= lenN file -> coherent file flushed ra ->
  takeN flushed file = pre ++ concat (stored_all H compress rs) ++ tail -> decode_view H decompress tail = RErr e ->
  exists ra', iter_all H decompress file flushed ra (lenN pre) =
    (ra', with_offsets (lenN pre) (expected_all H compress rs), lenN pre + lenN (concat (stored_all H compress rs)), term_of e).
Proof. exact iter_roundtrip. Qed.

(* Writer::open resumes right after the last intact record *)
Theorem C17_resume : forall H compress decompress rs pre tail e,
  codec_ok compress decompress -> Forall (fun '(c, h, d) => wf_rec H compress c h d) rs ->
  decode_view H decompress tail = RErr e -> e <> EIo ->
  writer_open_offset H decompress (pre ++ concat (stored_all H compress rs) ++ tail) (lenN pre) =
  ROk (lenN pre + lenN (concat (stored_all H compress rs))).
Proof. exact open_roundtrip. Qed.

(** ** corruption of a valid record A ++ B ++ P (length word, crc field, payload) followed by anything *)
(* a burst of <= 32 bits (so: any single bit flip) inside header/stored data *)
Theorem C17_burst : forall H decompress A B P rest r e,
  valid_at H decompress A B P rest r -> all_bytes e -> length P = length e -> burst32 e ->
  decode_view H decompress (A ++ B ++ xor_bytes P e ++ rest) = RErr ECrc.
Proof. intros H decompress. exact (burst_in_payload_detected H (fun x => x) decompress). Qed.

(* in particular every single flipped bit of header/stored data *)
Theorem C17_single_bit : forall H decompress A B P rest r e,
  valid_at H decompress A B P rest r -> all_bytes e -> length P = length e ->
  (exists pre post, bytes_bits e = repeat false pre ++ true :: repeat false post) ->
  decode_view H decompress (A ++ B ++ xor_bytes P e ++ rest) = RErr ECrc.
Proof. exact single_bit_detected. Qed.

(* any change of the stored CRC field alone *)
Theorem C17_crc_field : forall H decompress A B B' P rest r,
  valid_at H decompress A B P rest r -> all_bytes B' -> lenN B' = 4 -> B' <> B ->
  decode_view H decompress (A ++ B' ++ P ++ rest) = RErr ECrc \/
  decode_view H decompress (A ++ B' ++ P ++ rest) = RErr ETrunc.
Proof. intros H decompress. exact (crc_field_change_detected H (fun x => x) decompress). Qed.

(* a flip of the compression flag (bit 31 of the length word = last bit of the 4th length byte), alone
   (e all zero: [0;0;0;128] ++ zeros is a one-bit burst) or together with payload bits within the same 32-bit
   window of the CRC-covered message *)
Theorem C17_flag_flip : forall H decompress A B P rest r e,
  valid_at H decompress A B P rest r -> all_bytes e -> length P = length e -> burst32 ([0;0;0;128] ++ e) ->
  decode_view H decompress (xor_bytes A [0;0;0;128] ++ B ++ xor_bytes P e ++ rest) = RErr ECrc \/
  decode_view H decompress (xor_bytes A [0;0;0;128] ++ B ++ xor_bytes P e ++ rest) = RErr ETrunc.
Proof. intros H decompress. exact (flag_flip_detected H (fun x => x) decompress). Qed.

(* the same through any reader: what a reader returns depends on the visible bytes only *)
Theorem C17_burst_any_reader : forall H decompress file flushed ra off seq A B P rest r e,
  flushed <= lenN file -> coherent file flushed ra ->
  view file flushed off = A ++ B ++ xor_bytes P e ++ rest ->
  valid_at H decompress A B P rest r -> all_bytes e -> length P = length e -> burst32 e ->
  snd (read_record H decompress file flushed ra off seq) = RErr ECrc.
Proof. exact burst_any_reader. Qed.

(** STATED LIMIT (C17_full, not provable and not true for all data): an error in the low 31 bits of the LENGTH
    word changes the extent that is checksummed, and a burst that straddles the crc-field/payload boundary is a
    split error of the CRC-covered message; CRC-32 detects those with probability 1 - 2^-32 over the data, not
    always.  What IS proved for every input: data is returned only when the stored CRC equals the CRC of exactly
    the bytes the (possibly corrupted) length word delimits — so an undetected corruption is a CRC-32 collision.
    These classes are decided by exhaustive enumeration on the implementation (checks/c17.py, `bits`/`burst`). *)
Theorem C17_full_partial : forall H decompress A B P rest r,
  valid_at H decompress A B P rest r ->
  all_zero (A ++ B) = false /\ H <= lenN P /\ of_le32 B = crc32 (A ++ P).
Proof. intros H decompress. exact (valid_crc H (fun x => x) decompress). Qed.

(** ** truncation: fewer bytes than the record has => a bounds outcome, never data *)
Theorem C17_truncation : forall H decompress v r k,
  decode_view H decompress v = ROk r -> k < r_len r ->
  decode_view H decompress (takeN k v) = RErr (EOob (if k <? RECORD_HEAD then RECORD_HEAD else r_len r)).
Proof. intros H decompress. exact (truncated_view H (fun x => x) decompress). Qed.

(** ** no input makes parse_record / read_record panic (RPanic = a failed Rust slice index) *)
Theorem C17_total_parse : forall H decompress bs off, parse_record H decompress bs off <> RPanic.
Proof. intros H decompress. exact (parse_record_total H decompress). Qed.

(* any file, any flushed value, any buffer contents, any offset, either hint — nothing assumed *)
Theorem C17_total_read : forall H decompress file flushed ra off seq,
  snd (read_record H decompress file flushed ra off seq) <> RPanic.
Proof. intros H decompress. exact (read_record_total H (fun x => x) decompress). Qed.

(* what the code did before commit 140c4e4: a length word below H reached `payload[..H]` *)
Theorem C17_orig_panics :
  parse_record_orig 8 (fun _ => None) [3;0;0;0; 1;0;0;0; 0;0;0; 0;0;0;0;0] 0 = RPanic /\
  parse_record 8 (fun _ => None) [3;0;0;0; 1;0;0;0; 0;0;0; 0;0;0;0;0] 0 = RErr ECrc.
Proof. split; vm_compute; reflexivity. Qed.

(** ** non-vacuity *)
Example C17_ex_codec_ok : codec_ok wit_compress wit_decompress.
Proof. exact wit_codec_ok. Qed.
Example C17_ex_roundtrip :
  parse_record 2 wit_decompress (stored_record 2 wit_compress false [1;2] [104;105] ++ [0;0]) 0 = ROk ([1;2], [104;105], 12).
Proof. vm_compute. reflexivity. Qed.
Example C17_ex_burst : burst32 [0; 24; 0].
Proof. exists 11%nat, [true], 11%nat. split; [reflexivity|cbn; lia]. Qed.
Example C17_ex_single_bit_detected :
  parse_record 2 wit_decompress (xor_bytes (stored_record 2 wit_compress false [1;2] [104;105]) [0;0;0;0; 0;0;0;0; 0;4;0;0]) 0 = RErr ECrc.
Proof. vm_compute. reflexivity. Qed.

Print Assumptions C17_crc_burst.
Print Assumptions C17_burst.
Print Assumptions C17_roundtrip_read.
Print Assumptions C17_resume.
Print Assumptions C17_total_read.
