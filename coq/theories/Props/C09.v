(** C09 — subscriptions deliver confirmed events in order, once, without gaps, within the window
    (crates/sierradb-cluster/src/subscription.rs, confirmation/actor.rs; after the fix commits 6d8d4bd
    and de080bc).

    Quantification: EVERY execution of the transition system of Model/Subscription.v, i.e. every list
    [ops] of operations from the empty store ([sb_run c bg ops]): appends of transactions to any
    partition, watermark advances to any position, broadcasts of newly confirmed events by the
    confirmation actor, Subscribe with any of the five matcher kinds / any start positions / any
    window, acknowledgements, history batches of ANY size for any pending iterator in any order,
    iterator refreshes, single history events, live receives, sends, and lag (the bounded channel
    drops the oldest value; the next receive reports Lagged and the history is read again) — in any
    interleaving; with or without a second subscriber; any partition count, streams-per-partition
    and channel capacity ([c_np], [c_spp], [c_cap]). [c_brk c = true] is the current code
    (labelled break in read_stream_history). [ops_wf]: the matcher handed to Subscribe is as the
    request parsers build it (no duplicate ids, explicit stream positions only for subscribed
    streams).

    Vocabulary (Model/Subscription.v): [u_out u] are the records sent, newest first, each with the
    event, the confirmed watermark of its partition at the moment of the send ([d_wm]), its cursor and
    the last acknowledged cursor at that moment; [dpos k out] are the positions (partition sequence for
    a partition key [KP p], stream version for a stream key [KS s]) of the records of key k in delivery
    order; [key_kind m k]: partition keys for partition subscriptions, stream keys for stream
    subscriptions; [sub_start m k]: the explicit start position of k in the matcher. *)
From Coq Require Import List Arith.
From SV Require Import Model.Subscription Proofs.SubscriptionProofs.
Import ListNotations.

(* per partition (resp. per stream) the delivered positions are a, a+1, a+2, ... — strictly consecutive,
   hence in order, each exactly once, no gap — starting at the explicit start position if there is one;
   every delivered event is an event of the log and was below the confirmed watermark when it was sent *)
Theorem C09_order_once_nogap : forall c bg ops u,
  c_brk c = true -> ops_wf ops -> sb_sub (sb_run c bg ops) = Some u ->
  (forall k, key_kind (u_m0 u) k = true ->
     consecutive (dpos k (u_out u)) /\
     (forall n, sub_start (u_m0 u) k = Some n -> dpos k (u_out u) <> [] -> hd 0 (dpos k (u_out u)) = n)) /\
  Forall (fun d => e_seq (d_ev d) < d_wm d /\
                   nth_error (sb_log (sb_run c bg ops) (e_pid (d_ev d))) (e_seq (d_ev d)) = Some (d_ev d)) (u_out u).
Proof. exact sub_order_once_nogap. Qed.

(* at every send the number of delivered-but-unacknowledged records (this one included) is at most the
   window; the i-th record carries cursor i *)
Theorem C09_window : forall c bg ops u,
  c_brk c = true -> ops_wf ops -> sb_sub (sb_run c bg ops) = Some u ->
  Forall (fun d => unacked_after d <= u_win u) (u_out u) /\
  (forall i d, nth_error (rev (u_out u)) i = Some d -> d_cur d = i) /\ u_cur u = length (u_out u).
Proof. exact sub_window. Qed.

(* the ghost matcher / window of the subscription are those of the Subscribe operation of the execution *)
Theorem C09_subscription_origin : forall c bg ops u,
  sb_sub (sb_run c bg ops) = Some u -> exists m w, In (OSubscribe m w) ops /\ u_m0 u = m /\ u_win u = w.
Proof. exact sub_origin. Qed.

(* Completeness at rest (model only): whenever the subscription task has nothing left to do (live, nothing
   received and waiting for the window, channel empty, not lagged), every event of each of its keys from the
   start position (the explicit one, or the first delivered record) that lies below the broadcast position
   next_broadcast_seq has been delivered. *)
Theorem C09_idle_complete : forall c bg ops u,
  c_brk c = true -> ops_wf ops -> let st := sb_run c bg ops in sb_sub st = Some u -> sub_idle u ->
  forall k first, key_kind (u_m0 u) k = true -> kpid c k < c_np c ->
    (sub_start (u_m0 u) k = Some first \/ (dpos k (u_out u) <> [] /\ first = hd 0 (dpos k (u_out u)))) ->
    forall e, In e (klog c st k) -> first <= kpos k e -> e_seq e < sb_nb st (kpid c k) -> In e (map d_ev (u_out u)).
Proof. exact sub_idle_complete. Qed.

(* Liveness (model only), the part that is proved: from EVERY reachable state with a subscription of window
   >= 1 there is a continuation that consists only of one broadcast per partition (the confirmation actor's
   UpdateConfirmationWithBroadcast), acknowledgements and steps of the subscription task itself — no new
   appends or confirmations are needed, nothing can be stuck for good: not at a pause point, not behind the
   window, not after a lag — at the end of which the task is idle and has delivered every event of each of
   its keys from the start position on that is below the confirmed watermark.  The continuation is the fair
   policy "acknowledge the last cursor whenever the window is closed; fetch the rest of the first pending
   iterator; otherwise let the task take its next step" (termination by a measure: Proofs, hist_done /
   live_done / drain_to_idle).
   NOT proved, hence _partial: the statement for EVERY fair schedule
       C09_eventual : in every infinite execution in which broadcasts, acknowledgements and the task's own
                      steps occur infinitely often, every confirmed matching event at or after the start
                      position is delivered at some point.
   (With the safety theorems above a different schedule can only deliver the same events in the same per-key
   order; what is missing is the fairness formalisation itself.)  Window 0 is excluded: send_record never lets
   a record through (gap = cursor + 1 > 0).
   Outside the model: on the real node events confirmed through the replica path (ConfirmTransaction ->
   UpdateConfirmation) are broadcast only by the next coordinator / replicated write on that partition
   (confirmation/actor.rs: pending_events is never filled), so "eventually" depends on such a write. *)
Theorem C09_eventual_partial : forall c bg ops u,
  c_brk c = true -> ops_wf ops -> sb_sub (sb_run c bg ops) = Some u -> 1 <= u_win u ->
  exists more, Forall (fun o => is_drain o = true) more /\
    let st := sb_run c bg ops in let st' := sb_run c bg (ops ++ more) in
    sb_log st' = sb_log st /\ sb_wm st' = sb_wm st /\
    exists u', sb_sub st' = Some u' /\ sub_idle u' /\ u_m0 u' = u_m0 u /\
      forall k first, key_kind (u_m0 u) k = true -> kpid c k < c_np c ->
        (sub_start (u_m0 u) k = Some first \/ (dpos k (u_out u') <> [] /\ first = hd 0 (dpos k (u_out u')))) ->
        forall e, In e (klog c st k) -> first <= kpos k e -> e_seq e < sb_wm st (kpid c k) -> In e (map d_ev (u_out u')).
Proof. exact sub_eventual. Qed.

(* the stream history reader before commit 6d8d4bd ([c_brk = false]): an unconfirmed event only left
   the inner loop; when the watermark moved before the next batch, that batch was delivered and the rest
   of the current one skipped — versions 0, 2 are delivered, 1 never (replayed on the real code before
   the commit: corpus/C09/stream-break-gap.case delivered versions 0..9, 50..59) *)
Theorem C09_stream_break_refuted :
  exists u, sb_sub (sb_run cfg_orig false w_stream_gap) = Some u /\ dpos (KS 0) (u_out u) = [0; 2] /\
            Forall (fun d => e_seq (d_ev d) < d_wm d) (u_out u).
Proof. exact stream_gap_refuted. Qed.

(* ---- non-vacuity *)
(* the same schedule on the current code, continued: all three versions, in order *)
Example C09_example_stream :
  exists u, sb_sub (sb_run cfg_now false (w_stream_gap ++ [OHistDrop (KS 0); OBcast 0; ORecv; ORecv; OSend; ORecv; OSend])) = Some u /\
            dpos (KS 0) (u_out u) = [0; 1; 2].
Proof. exact stream_gap_fixed. Qed.

(* two partitions, an all-partitions subscription from a fallback position, window 2, a channel of
   capacity 2 that overflows (Lagged 2 -> second history read), acknowledgements: everything confirmed is
   delivered, per partition consecutively from the start position, and the task ends idle *)
Definition ex_cfg : sbcfg := mkSbCfg 2 4 2 true.
Definition ex_ops : list sbop :=
  [OAppend 0 [0; 1]; OAppend 0 [0]; OAppend 1 [4]; OAppend 1 [5; 4]; OAdvance 0 2; OAdvance 1 1;
   OSubscribe (MAllP (FMap [(1, 0)] (Some 1))) 2;
   OHistBatch (KP 0) 5; OHistEvent; OHistEvent;            (* 0.1 goes out; 0.2 is not confirmed: reader of partition 0 stops *)
   OAdvance 0 3; OAdvance 1 3; OAppend 0 [1]; OAdvance 0 4;
   OBcast 0;                                               (* 4 values into a channel of 2: two dropped *)
   OHistBatch (KP 1) 1; OHistEvent; OHistEvent; OHistDrop (KP 1);   (* 1.0 goes out; the snapshot of partition 1 had 3 events, batch of 1 *)
   OAck 1; OExtend (KP 1)]
  ++ [OHistBatch (KP 1) 9; OHistEvent; OHistEvent; OAck 2; OHistEvent; OHistEvent; OHistDrop (KP 1);
      ORecv;                                               (* Lagged 2 *)
      OHistBatch (KP 0) 9; OAck 3; OHistEvent; OHistEvent; OAck 5; OHistEvent; OHistDrop (KP 0); OHistDrop (KP 1);
      ORecv; ORecv].
Example C09_example :
  ops_wf ex_ops /\
  exists u, sb_sub (sb_run ex_cfg true ex_ops) = Some u /\ sub_idle u /\
            dpos (KP 0) (u_out u) = [1; 2; 3] /\ dpos (KP 1) (u_out u) = [0; 1; 2] /\ u_lags u = [2] /\
            sub_start (u_m0 u) (KP 0) = Some 1 /\ sub_start (u_m0 u) (KP 1) = Some 0 /\
            map unacked_after (u_out u) = [2; 1; 2; 1; 2; 1].
Proof.
  split.
  - unfold ops_wf, ex_ops. repeat (constructor; try exact I). cbn. repeat constructor. intros [].
  - eexists. split; [vm_compute; reflexivity|]. vm_compute. repeat split; reflexivity.
Qed.

Print Assumptions C09_order_once_nogap.
Print Assumptions C09_window.
Print Assumptions C09_subscription_origin.
Print Assumptions C09_idle_complete.
Print Assumptions C09_eventual_partial.
Print Assumptions C09_stream_break_refuted.

(** ---- Bridge to the storage layer (C03): the history snapshot IS the storage scan -------------------------
    The model reads history through "the key's events from the start position up to the end of the snapshot
    taken when the iterator was created": [mk_iter c st k from] = positions [from .. length (klog c st k)) of
    [klog c st k].  Proofs/BridgeSubsProofs.v shows that this is exactly what the storage iterator of
    Model/StoreIter.v returns — [scan_events] of [scan s k from Fwd limit], C03's subject — on every reachable
    store [run ops] (any history of appends with any rollover decisions, syncs, reopens, crashes), for every key,
    start position and batch limit.  [bs_sev] maps a stored event to the four fields the subscription model keeps
    (N -> nat), [bs_key] a model key to the storage key, [bs_plog s p] is partition p of the store as the
    subscription model sees it; the hypothesis on [st] is that its log of the key's partition is the store's.
    For a stream key the stream's events must lie in the partition the model looks the stream up in
    ([bs_key_routed]: the cluster's routing, partition id = f(partition key); without it the statement is false:
    C09_history_unrouted_refuted). *)
From Coq Require Import NArith.
From SV Require Model.StoreIter Proofs.StoreSimProofs Proofs.BridgeReadProofs.
From SV Require Import Proofs.BridgeSubsProofs.

Theorem C09_history_is_storage_scan : forall c st ops k from limit,
  Forall StoreSimProofs.wf_op ops -> 0 < limit ->
  sb_log st (kpid c k) = bs_plog (Store.run ops) (kpid c k) -> bs_key_routed c (Store.run ops) k ->
  exists batches, StoreIter.scan (Store.run ops) (bs_key k) (N.of_nat from) StoreIter.Fwd limit = Some batches /\
    let it := mk_iter c st k from in
    (* the events between the iterator's position and the end of its snapshot *)
    slice (klog c st k) (h_pos it) (h_end it) = map bs_sev (StoreIter.scan_events batches) /\
    (* the i-th event the history reader takes from the iterator (OHistEvent) is the i-th event of the scan *)
    (forall i, nth_error (klog c st k) (h_pos it + i) = nth_error (map bs_sev (StoreIter.scan_events batches)) i).
Proof. exact run_history_is_storage_scan. Qed.

(** a routed history whose routing agrees with the model's [spid] satisfies [bs_key_routed] for every key *)
Theorem C09_history_routed_key : forall c f ops k,
  Forall StoreSimProofs.wf_op ops -> BridgeReadProofs.br_routed f ops ->
  (forall e, In e (StoreSpec.all_events (Store.abs_visible (Store.run ops))) ->
             f (StoreSpec.e_pk e) = N.of_nat (spid c (N.to_nat (StoreSpec.e_sid e)))) ->
  bs_key_routed c (Store.run ops) k.
Proof. exact bs_routed_key. Qed.

Theorem C09_history_unrouted_refuted :
  let c := mkSbCfg 2 8 4 true in
  let st := mkSb (bs_plog (Store.run BridgeReadProofs.br_unrouted_ops)) (fun _ => 0) (fun _ => 0) false None in
  Forall StoreSimProofs.wf_op BridgeReadProofs.br_unrouted_ops /\
  exists batches, StoreIter.scan (Store.run BridgeReadProofs.br_unrouted_ops) (bs_key (KS 7)) 0%N StoreIter.Fwd 5 = Some batches /\
    length (klog c st (KS 7)) = 1 /\ length (StoreIter.scan_events batches) = 2.
Proof. exact bs_unrouted_history_refuted. Qed.

(* non-vacuity: a store with two sealed segments and a live one, seen as a subscription log *)
Example C09_example_history :
  Forall StoreSimProofs.wf_op bs_ex_ops /\
  bs_key_routed bs_ex_cfg (Store.run bs_ex_ops) (KS 7) /\
  (let it := mk_iter bs_ex_cfg bs_ex_state (KP 0) 4 in
   map e_seq (slice (klog bs_ex_cfg bs_ex_state (KP 0)) (h_pos it) (h_end it)) = [4; 5; 6; 7; 8]) /\
  (let it := mk_iter bs_ex_cfg bs_ex_state (KS 7) 2 in
   map (fun e => (e_ver e, e_seq e)) (slice (klog bs_ex_cfg bs_ex_state (KS 7)) (h_pos it) (h_end it))
   = [(2, 3); (3, 5); (4, 6); (5, 7)]).
Proof. exact bs_example. Qed.

Print Assumptions C09_history_is_storage_scan.
Print Assumptions C09_history_routed_key.
Print Assumptions C09_history_unrouted_refuted.

(** the store's partitions satisfy the log invariant [lwf] the subscription proofs maintain for [sb_log]
    (Proofs/SubscriptionProofs.v: the i-th event of partition p's log has partition p, sequence i, version = its
    rank within its stream, and its stream is one of partition p's), for every reachable store whose events sit
    in the partition the model derives from the stream ([spid]) — so the hypothesis [sb_log st p = bs_plog s p]
    of C09_history_is_storage_scan is consistent with every invariant the C09 theorems rest on *)
Theorem C09_storage_log_wf : forall c ops p,
  Forall StoreSimProofs.wf_op ops ->
  (forall e, In e (StoreSpec.all_events (Store.abs_visible (Store.run ops))) ->
             StoreSpec.e_pid e = N.of_nat (spid c (N.to_nat (StoreSpec.e_sid e)))) ->
  lwf c p (bs_plog (Store.run ops) p).
Proof. exact run_bs_plog_lwf. Qed.

Print Assumptions C09_storage_log_wf.
