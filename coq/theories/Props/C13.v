(** C13 — storage placement agrees with cluster routing for every validated configuration.
    This file holds only the property theorems; each is closed by an exact lemma of Proofs/PlacementProofs.v. *)
From Coq Require Import NArith List.
From SV Require Import Model.Topology Model.Placement Proofs.PlacementProofs.
Import ListNotations.
Open Scope N_scope.

(* For every node count n, node index idx, bucket count b, partition count p and replication factor rf that
   AppConfig::validate accepts (no bound on any of them):
   - the topology's calculation does not panic,
   - the partitions the server hands to the cluster (config) are the partitions the topology claims,
   - the buckets the node opens are EXACTLY the buckets of the partitions the topology claims,
   - a partition is claimed iff its bucket is opened,
   - the routing walk of a partition reaches this node iff the partition's bucket is opened here
     (so a read or write routed to the node never lands in a bucket it does not store, and every bucket
     it stores is one it is routed to). *)
Theorem C13_agree : forall n idx b p rf, cfg_validate n idx b p rf = true ->
  let cb := cfg_buckets n idx b rf in
  let tp := topo_assigned n b p rf idx in
  topo_assigned_gen RfWide n b p rf idx = Some tp /\
  cfg_partitions n idx b p rf = tp /\
  (forall bk, In bk cb <-> exists q, In q tp /\ q mod b = bk) /\
  (forall q, q < p -> (In q tp <-> In (q mod b) cb)) /\
  (forall q, q < p -> (In idx (replica_indices RfWide n b rf q) <-> In (q mod b) cb)).
Proof. exact placement_agree. Qed.

(* history: the original contiguous bucket ranges disagreed with the topology (N=2, B=4, P=4, rf=1:
   node 0 opened buckets {0,1}, the cluster routed partitions {0,2}, i.e. buckets {0,2}, to it) *)
Theorem C13_contiguous_refuted :
  cfg_validate 2 0 4 4 1 = true /\ cfg_buckets_contig 2 0 4 1 = [0; 1] /\ topo_assigned 2 4 4 1 0 = [0; 2].
Proof. exact placement_contig_refuted. Qed.

(* history: with the u8-truncated effective replication factor a validated 256-node configuration opened
   bucket 0 on node 0 while the topology claimed nothing *)
Theorem C13_u8_refuted :
  cfg_validate 256 0 4 512 3 = true /\ cfg_buckets 256 0 4 3 = [0] /\ topo_assigned_gen RfU8 256 4 512 3 0 = Some [].
Proof. exact placement_u8_refuted. Qed.

(* non-vacuity: an accepted configuration where the node stores a proper, non-contiguous subset *)
Example C13_example :
  cfg_validate 3 0 4 8 2 = true /\ cfg_buckets 3 0 4 2 = [0; 2; 3] /\
  cfg_partitions 3 0 4 8 2 = [0; 2; 3; 4; 6; 7] /\ topo_assigned 3 4 8 2 0 = [0; 2; 3; 4; 6; 7] /\
  topo_routed RfWide 3 4 8 2 0 = [0; 2; 3; 4; 6; 7].
Proof. vm_compute. repeat split. Qed.

Print Assumptions C13_agree.
Print Assumptions C13_contiguous_refuted.
Print Assumptions C13_u8_refuted.
