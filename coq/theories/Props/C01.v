(** C01 (logic part) — acknowledged appends are immediately readable and stay readable.
    "Acknowledged" = appended and then published by a sync ([publish]).  The fsync itself, the
    byte-level write path and the scans are the subject of other checks (C17–C20, C03/C04);
    here: once acknowledged, every event of the transaction is in the visible log, is returned
    by event lookup and by the transaction read, right after the acknowledgement and in every
    later state reached by any further operations — appends accepted or rejected for any reason,
    syncs, rollovers, clean reopens and crashes that keep at least the published records.
    Only property theorems, each closed by an exact lemma of Proofs/StoreSimProofs.v. *)
From Coq Require Import NArith List Bool.
From SV Require Import Model.Store Proofs.StoreInv Proofs.StoreSimProofs.
Import ListNotations.
Open Scope N_scope.

(** [ops_ok s ops]: every appended transaction is well formed and every crash keeps at least the
    published records.  [ops = []] is "right after the acknowledgement".
    Event lookup needs event ids to be unique among the visible events (they are uuids). *)
Theorem C01_ack_visible : forall ops0 t roll big s1 evs ops,
  Forall wf_op ops0 -> wf_txn t -> append (run ops0) t roll big = (s1, inl evs) -> ops_ok (publish s1) ops ->
  let s3 := fold_left step ops (publish s1) in
  Inv s3 /\ In evs (abs_visible s3) /\
  (forall e, In e evs -> In e (all_events (abs_visible s3))) /\
  (NoDup (map e_id (all_events (abs_visible s3))) ->
     (forall e, In e evs -> read_event s3 (e_id e) = Some e) /\
     (forall p1 e p2, evs = p1 ++ e :: p2 ->
        exists c, read_transaction s3 (e_id e) = Some c /\ committed_events c = e :: p2)).
Proof. exact run_ack_visible. Qed.

Theorem C01_ack_visible_step : forall s t roll big s1 evs ops,
  Inv s -> wf_txn t -> append s t roll big = (s1, inl evs) -> ops_ok (publish s1) ops ->
  let s3 := fold_left step ops (publish s1) in
  Inv s3 /\ In evs (abs_visible s3) /\
  (forall e, In e evs -> In e (all_events (abs_visible s3))) /\
  (NoDup (map e_id (all_events (abs_visible s3))) ->
     (forall e, In e evs -> read_event s3 (e_id e) = Some e) /\
     (forall p1 e p2, evs = p1 ++ e :: p2 ->
        exists c, read_transaction s3 (e_id e) = Some c /\ committed_events c = e :: p2)).
Proof. exact ack_visible. Qed.

(** what readers see only grows *)
Theorem C01_visible_monotone : forall s o, Inv s -> wf_op o -> crash_ok s o ->
  prefix (abs_visible s) (abs_visible (step s o)).
Proof. exact step_visible_monotone. Qed.

Theorem C01_visible_monotone_steps : forall ops s, Inv s -> ops_ok s ops ->
  Inv (fold_left step ops s) /\ prefix (abs_visible s) (abs_visible (fold_left step ops s)).
Proof. exact steps_visible_monotone. Qed.

(** every event of every visible transaction is found by id, and the transaction read at it
    returns the rest of its transaction (all of it at the first event), in any state *)
Theorem C01_read_visible : forall s grp p1 e p2,
  Inv s -> NoDup (map e_id (all_events (abs_visible s))) ->
  In grp (abs_visible s) -> grp = p1 ++ e :: p2 ->
  exists c, read_transaction s (e_id e) = Some c /\ committed_events c = e :: p2.
Proof. exact read_visible. Qed.

Theorem C01_read_event_visible : forall s grp e,
  Inv s -> NoDup (map e_id (all_events (abs_visible s))) ->
  In grp (abs_visible s) -> In e grp -> read_event s (e_id e) = Some e.
Proof. exact read_event_visible. Qed.

(** a sync makes everything written visible; a clean reopen keeps it *)
Theorem C01_sync_publishes : forall s, abs_all (publish s) = abs_all s /\ abs_visible (publish s) = abs_all s.
Proof. exact publish_spec. Qed.

(** ** non-vacuity: an acknowledged multi-event transaction followed by a rejected append, a
       failed (bad timestamp) append, a rollover, a torn transaction and a crash *)
Definition z_t1 : txn := mkTxn 7 1 100 true [mkNew 1 10 XEmpty true] XAny.
Definition z_t2 : txn := mkTxn 7 1 101 false
  [mkNew 2 10 (XExact 0) true; mkNew 3 11 XEmpty true; mkNew 4 10 XAny true] (XExact 0).
Definition z_t3 : txn := mkTxn 7 1 102 true [mkNew 5 10 (XExact 0) true] XAny.      (* rejected *)
Definition z_t4 : txn := mkTxn 7 1 103 false [mkNew 6 10 XAny true; mkNew 7 11 XAny false] XAny. (* bad timestamp *)
Definition z_t5 : txn := mkTxn 7 1 104 true [mkNew 8 11 XExists true] XAny.          (* with a rollover *)
Definition z_t6 : txn := mkTxn 7 1 105 false [mkNew 9 10 XAny true; mkNew 10 11 XAny true] XAny.
Definition z_before : list op := [OAppend z_t1 false false].
Definition z_after : list op :=
  [OAppend z_t3 false false; OAppend z_t4 false false; OAppend z_t5 true false; OSync;
   OAppend z_t6 false false; OCrash 2; OReopen].
Definition z_s1 : store := fst (append (run z_before) z_t2 false false).
Definition z_s3 : store := fold_left step z_after (publish z_s1).

Example C01_example_hyps :
  Forall wf_op z_before /\ wf_txn z_t2 /\
  append (run z_before) z_t2 false false
  = (z_s1, inl [mkEvent 2 7 1 101 false 1 10 1; mkEvent 3 7 1 101 false 2 11 0; mkEvent 4 7 1 101 false 3 10 2]) /\
  ops_ok (publish z_s1) z_after.
Proof.
  split; [repeat constructor; discriminate|]. split; [split; [discriminate|discriminate]|].
  split; [vm_compute; reflexivity|]. vm_compute. repeat split; try discriminate; repeat constructor.
Qed.

Example C01_example_reads :
  abs_visible z_s3 =
    [[mkEvent 1 7 1 100 true 0 10 0];
     [mkEvent 2 7 1 101 false 1 10 1; mkEvent 3 7 1 101 false 2 11 0; mkEvent 4 7 1 101 false 3 10 2];
     [mkEvent 8 7 1 104 true 4 11 1]] /\
  read_event z_s3 3 = Some (mkEvent 3 7 1 101 false 2 11 0) /\
  option_map committed_events (read_transaction z_s3 2)
  = Some [mkEvent 2 7 1 101 false 1 10 1; mkEvent 3 7 1 101 false 2 11 0; mkEvent 4 7 1 101 false 3 10 2] /\
  read_event z_s3 9 = None /\ read_event z_s3 6 = None /\ read_event z_s3 5 = None /\
  length (sealed z_s3) = 1%nat.
Proof. vm_compute. repeat split; reflexivity. Qed.

Print Assumptions C01_ack_visible.
Print Assumptions C01_ack_visible_step.
Print Assumptions C01_visible_monotone.
Print Assumptions C01_visible_monotone_steps.
Print Assumptions C01_read_visible.
Print Assumptions C01_read_event_visible.
Print Assumptions C01_sync_publishes.
