(** C19 — appends that fit an empty segment never fail for lack of space; retrying never fails forever.

    Model: Model/ByteLayout.v (record sizes from the code's constants, the stored length of every
    compressed record is an oracle field, so each theorem quantifies over every zstd outcome).
    [bl_append] is the code as it is (after `fix:` — SegmentFull in a non-empty segment rolls over and
    writes once more), [bl_append_v0] the code before it.

    Full-strength statement (every fill level, every stored-length oracle):
        forall s evs, bl_wf s -> evs <> [] -> fits (bl_size s) (bl_comp s) evs -> accepted (snd (bl_append s evs))
    It is FALSE for the code as it is, by exactly one class, recorded as a known finding
    (known_findings.json, class "estimate_exceeds_segment"): the transaction's UNCOMPRESSED size estimate
    does not fit an empty segment ([known_c19]); the code refuses it (EventsExceedSegmentSize) before
    compressing anything, although its stored size may fit ([C19_known_refuted]).  For everything else it
    is proved ([C19_fits]); without compression, and whenever compression makes no record larger, the class
    is empty and the statement holds at full strength ([C19_fits_nocomp], [C19_fits_no_growth]).
    Only property theorems, each closed by an exact lemma of Proofs/ByteLayoutProofs.v. *)
From Coq Require Import NArith List Bool.
From SV Require Import Model.ByteLayout Proofs.ByteLayoutProofs.
Import ListNotations.
Open Scope N_scope.

(** every fill level [bl_wo s] of the live segment, every segment size, compression on or off, every stored
    length: a transaction outside the known class whose stored size fits an empty segment is accepted at
    the first attempt; it lands contiguously either at the old write offset or, after a rollover, at the
    start of a new segment; the live segment stays well-formed *)
Theorem C19_fits : forall s evs,
  bl_wf s -> evs <> [] -> ~ known_c19 (bl_size s) evs -> fits (bl_size s) (bl_comp s) evs ->
  exists k offs, snd (bl_append s evs) = BOk k offs /\ landed s (fst (bl_append s evs)) evs k offs /\
                 bl_wf (fst (bl_append s evs)).
Proof. exact bl_append_fits. Qed.

(** the same after ANY history of appends (accepted or refused ones, of any size) on a new database:
    no earlier failure can make the append fail *)
Theorem C19_fits_after_any_history : forall size comp txns evs,
  SEGMENT_HEADER_SIZE <= size -> evs <> [] -> ~ known_c19 size evs -> fits size comp evs ->
  let s := bl_run (bl_init size comp) txns in
  exists k offs, snd (bl_append s evs) = BOk k offs /\ landed s (fst (bl_append s evs)) evs k offs.
Proof. exact bl_history_fits. Qed.

(** "retrying never fails forever": with up to [n] retries the attempt list is a single success *)
Theorem C19_retry : forall n s evs,
  bl_wf s -> evs <> [] -> ~ known_c19 (bl_size s) evs -> fits (bl_size s) (bl_comp s) evs ->
  exists k offs, snd (bl_attempts bl_append n s evs) = [BOk k offs].
Proof. exact bl_attempts_fits. Qed.

(** every append, accepted or refused, leaves a well-formed live segment (so the hypothesis [bl_wf] of the
    theorems above holds in every reachable state) *)
Theorem C19_wf_invariant : forall txns s, bl_wf s ->
  bl_wf (bl_run s txns) /\ bl_size (bl_run s txns) = bl_size s /\ bl_comp (bl_run s txns) = bl_comp s.
Proof. exact bl_run_wf. Qed.

(** compression off: the estimate IS the stored size ... *)
Theorem C19_estimate_exact_nocomp : forall evs, estimate evs = actual false evs.
Proof. exact estimate_exact_nocomp. Qed.

(** ... and the property holds at full strength (nothing excluded) *)
Theorem C19_fits_nocomp : forall s evs,
  bl_wf s -> bl_comp s = false -> evs <> [] -> fits (bl_size s) false evs ->
  exists k offs, snd (bl_append s evs) = BOk k offs /\ landed s (fst (bl_append s evs)) evs k offs.
Proof. exact bl_append_fits_nocomp. Qed.

(** compression on, but no record stored larger than its raw form: whatever passes the estimate check is accepted *)
Theorem C19_fits_no_growth : forall s evs,
  bl_wf s -> no_growth (bl_comp s) evs -> evs <> [] -> estimate evs + SEGMENT_HEADER_SIZE <= bl_size s ->
  exists k offs, snd (bl_append s evs) = BOk k offs /\ landed s (fst (bl_append s evs)) evs k offs.
Proof. exact bl_append_fits_no_growth. Qed.

(** the known class is exactly the set of transactions refused with EventsExceedSegmentSize, in every state *)
Theorem C19_known_exact : forall s evs, snd (bl_append s evs) = BTooBig <-> known_c19 (bl_size s) evs.
Proof. exact bl_append_toobig_iff. Qed.

(** ... and it contains transactions whose stored size fits: the full-strength statement is refuted there
    (a compressible 256 KiB payload, stored in 8.8 KB, refused by a 128 KiB segment in every state) *)
Theorem C19_known_refuted :
  fits 131072 true wit_c_txn /\ known_c19 131072 wit_c_txn /\
  forall s, bl_size s = 131072 -> bl_comp s = true ->
    bl_append s wit_c_txn = (s, BTooBig) /\ bl_append_v0 s wit_c_txn = (s, BTooBig).
Proof. exact bl_refuted_c. Qed.

(** a transaction whose stored size does not fit an empty segment is never accepted (the converse), and
    refusing it in an empty segment changes nothing (no segment is wasted by retries) *)
Theorem C19_unfit_refused : forall s evs, bl_wf s -> ~ fits (bl_size s) (bl_comp s) evs ->
  ~ accepted (snd (bl_append s evs)).
Proof. exact bl_append_unfit. Qed.

Theorem C19_refused_in_empty_segment_is_noop : forall s evs, bl_wo s = SEGMENT_HEADER_SIZE ->
  ~ accepted (snd (bl_append s evs)) -> fst (bl_append s evs) = s.
Proof. exact bl_append_refused_empty. Qed.

(** the code BEFORE the repair: incompressible data of at least 128 bytes is stored larger than the
    estimate; with the free space between the two the append got SegmentFull, was truncated, and every
    retry took the same decision (witness replayed on the real Database: corpus/C19/a_segment_full.case) *)
Theorem C19_v0_refuted :
  bl_wf wit_a_state /\ fits 131072 true wit_a_txn /\ ~ known_c19 131072 wit_a_txn /\
  forall n, bl_attempts bl_append_v0 n wit_a_state wit_a_txn = (wit_a_state, repeat BFull (S n)).
Proof. exact bl_v0_refuted_a. Qed.

(** ** non-vacuity *)
(* the refuting instance of the old code is accepted by the code as it is: rollover, then offset 48 *)
Example C19_example_fixed : bl_append wit_a_state wit_a_txn = (mkBL 131072 true [125976] 5157, BOk 1 [48]).
Proof. exact bl_fixed_a. Qed.

(* a three-event transaction (one compressed larger, one compressed smaller, one too small to compress): written in
   place when the estimate fits the free space, to a new segment when it does not *)
Definition x_txn : list bev := [mkBev 2002 2100; mkBev 302 60; mkBev 12 0].
Example C19_example_multi :
  estimate x_txn = 2632 /\ actual true x_txn = 2320 /\
  bl_append (mkBL 131072 true [] 128000) x_txn = (mkBL 131072 true [] 130320, BOk 0 [128000; 130109; 130178]) /\
  bl_append (mkBL 131072 true [] 128600) x_txn = (mkBL 131072 true [128600] 2368, BOk 1 [48; 2157; 2226]).
Proof. vm_compute. repeat split; reflexivity. Qed.

(* two incompressible events, 4242 free bytes: the estimate (4227) fits, the stored size (4255) does not: the old
   code answered SegmentFull forever, the code as it is writes it to a new segment *)
Definition x_txn2 : list bev := [mkBev 2002 2100; mkBev 2002 2100].
Example C19_example_second_write :
  estimate x_txn2 = 4227 /\ actual true x_txn2 = 4255 /\
  bl_wf (mkBL 131072 true [] 126830) /\ fits 131072 true x_txn2 /\ ~ known_c19 131072 x_txn2 /\
  bl_append_v0 (mkBL 131072 true [] 126830) x_txn2 = (mkBL 131072 true [] 126830, BFull) /\
  bl_append (mkBL 131072 true [] 126830) x_txn2 = (mkBL 131072 true [126830] 4303, BOk 1 [48; 2157]).
Proof.
  unfold bl_wf, fits, known_c19. vm_compute. repeat split; try reflexivity; try discriminate; intros H; discriminate H.
Qed.

(* (b): the estimate fits an empty segment, the stored record does not: refused with SegmentFull; by
   [C19_unfit_refused] this is not an instance of the property *)
Example C19_example_b :
  ~ fits 131072 true wit_b_txn /\ ~ known_c19 131072 wit_b_txn /\
  bl_append (bl_init 131072 true) wit_b_txn = (bl_init 131072 true, BFull).
Proof. exact bl_b_not_fit. Qed.

Print Assumptions C19_fits.
Print Assumptions C19_fits_after_any_history.
Print Assumptions C19_retry.
Print Assumptions C19_wf_invariant.
Print Assumptions C19_estimate_exact_nocomp.
Print Assumptions C19_fits_nocomp.
Print Assumptions C19_fits_no_growth.
Print Assumptions C19_known_exact.
Print Assumptions C19_known_refuted.
Print Assumptions C19_unfit_refused.
Print Assumptions C19_refused_in_empty_segment_is_noop.
Print Assumptions C19_v0_refuted.

(** ** bridge to the record level (L2 -> L1): the ORACLE inputs [roll] and [big] of Model/Store.v's [append]
    (C01–C05) are exactly the decisions ByteLayout takes from sizes.  [l1_oracles s evs = (l1_roll s evs, l1_big s evs)]
    is computed from the write offset, the segment size, the transaction's event sizes and the stored-length oracle
    (Proofs/BridgeSizesProofs.v):
       l1_big  = size < estimate + SEGMENT_HEADER_SIZE
       l1_roll = not big and (size < wo + estimate                                    -- estimate-based rollover
                              or (size < wo + actual stored size and SEGMENT_HEADER_SIZE < wo))  -- second write after SegmentFull *)
From SV Require Import Model.Store Proofs.StoreInv Proofs.StoreSimProofs Proofs.BridgeSizesProofs.

(** (1) big <-> ByteLayout refuses with EventsExceedSegmentSize — in every state, nothing assumed *)
Theorem C19_oracle_big : forall s evs, l1_big s evs = true <-> snd (bl_append s evs) = BTooBig.
Proof. exact oracle_big_iff. Qed.

(** (2) roll <-> ByteLayout's append seals the live segment (whichever of the two rollovers; also when the append is
    then refused) — in every state, nothing assumed; an accepted append reports [if roll then 1 else 0] rollovers
    (the count 2 of [bl_append] is unreachable) *)
Theorem C19_oracle_roll : forall s evs,
  bl_sealed (fst (bl_append s evs)) = (if l1_roll s evs then bl_sealed s ++ [bl_wo s] else bl_sealed s) /\
  (l1_roll s evs = true <-> bl_sealed (fst (bl_append s evs)) = bl_sealed s ++ [bl_wo s]) /\
  (l1_roll s evs = false <-> bl_sealed (fst (bl_append s evs)) = bl_sealed s).
Proof. exact (fun s evs => conj (oracle_roll_sealed s evs) (oracle_roll_iff s evs)). Qed.

Theorem C19_oracle_roll_count : forall s evs k offs,
  snd (bl_append s evs) = BOk k offs -> k = (if l1_roll s evs then 1 else 0) /\ l1_big s evs = false.
Proof. exact oracle_roll_count. Qed.

(** (3) the only ByteLayout outcome the L1 model does not have is BFull = Writer(SegmentFull) for good; it is
    returned exactly on the class [l2_segment_full]: the uncompressed estimate fits an empty segment, the stored
    size does not (compression made the records larger; C19_example_b) *)
Theorem C19_segment_full_exact : forall s evs, bl_wf s -> evs <> [] ->
  (snd (bl_append s evs) = BFull <-> l2_segment_full (bl_size s) (bl_comp s) evs).
Proof. exact bl_full_iff. Qed.

(* the three outcomes, each characterised by sizes alone *)
Theorem C19_outcomes : forall s evs, bl_wf s -> evs <> [] ->
  match snd (bl_append s evs) with
  | BTooBig => known_c19 (bl_size s) evs
  | BFull => l2_segment_full (bl_size s) (bl_comp s) evs
  | BOk k offs => ~ known_c19 (bl_size s) evs /\ fits (bl_size s) (bl_comp s) evs /\ k = (if l1_roll s evs then 1 else 0)
  end.
Proof. exact bl_outcomes. Qed.

(** the L1 side: TooBig is answered only through [big] *)
Theorem C19_l1_not_toobig : forall st t roll, snd (append st t roll false) <> inr TooBig.
Proof. exact append_not_toobig. Qed.
Theorem C19_l1_toobig : forall st t roll curs, validate st (t_pk t) [] (t_events t) = inl curs ->
  append st t roll true = (st, inr TooBig).
Proof. exact append_toobig. Qed.

(** every ByteLayout outcome against the L1 append taken with the computed oracles, for ANY L1 store [st] and
    transaction [t]:
      BTooBig  <-> big: L1 answers TooBig as soon as validation passes (the known finding of C19 lives here);
      BOk k    =>  big = false, L1 does not answer TooBig, k = if roll then 1 else 0;
      BFull    <-> [l2_segment_full]; there big = false and L1 does NOT refuse for size: this is the outcome the
                   L1 model abstracts away (the code answers Writer(SegmentFull); L1 would write the records).
    So an L1 theorem instantiated with [l1_oracles s evs] speaks about the code exactly when ByteLayout's outcome is
    not BFull, i.e. outside [l2_segment_full] *)
Theorem C19_L2_refines_L1_oracles : forall st t s evs, bl_wf s -> evs <> [] ->
  let roll := fst (l1_oracles s evs) in
  let big := snd (l1_oracles s evs) in
  (big = true <-> snd (bl_append s evs) = BTooBig) /\
  (roll = true <-> bl_sealed (fst (bl_append s evs)) = bl_sealed s ++ [bl_wo s]) /\
  (roll = false <-> bl_sealed (fst (bl_append s evs)) = bl_sealed s) /\
  (snd (bl_append s evs) = BTooBig ->
     known_c19 (bl_size s) evs /\
     forall curs, validate st (t_pk t) [] (t_events t) = inl curs -> append st t roll big = (st, inr TooBig)) /\
  (forall k offs, snd (bl_append s evs) = BOk k offs ->
     big = false /\ k = (if roll then 1 else 0) /\ snd (append st t roll big) <> inr TooBig) /\
  (snd (bl_append s evs) = BFull <-> l2_segment_full (bl_size s) (bl_comp s) evs) /\
  (snd (bl_append s evs) = BFull -> big = false /\ snd (append st t roll big) <> inr TooBig).
Proof. exact l2_refines_l1_oracles. Qed.

(** "L1 theorem + L2 theorem" composed: a well-formed transaction whose sizes are outside the known class and fit
    an empty segment (the premises of C19_fits), appended to any L1 store satisfying the invariant with the oracles
    computed from any well-formed L2 state: ByteLayout accepts and places it (C19_fits); the L1 append is decided by
    the reference with fits = true (C02's simulation); when the reference accepts, both layers seal the live
    segment together ([k] more sealed segments on each side) *)
Theorem C19_L2_L1_composed : forall st t s evs st' r,
  Inv st -> wf_txn t -> bl_wf s -> evs <> [] ->
  ~ known_c19 (bl_size s) evs -> fits (bl_size s) (bl_comp s) evs ->
  append st t (fst (l1_oracles s evs)) (snd (l1_oracles s evs)) = (st', r) ->
  snd (l1_oracles s evs) = false /\
  spec_append (abs_all st) t true = (abs_all st', r) /\ Inv st' /\
  exists k offs, snd (bl_append s evs) = BOk k offs /\ landed s (fst (bl_append s evs)) evs k offs /\
                 bl_wf (fst (bl_append s evs)) /\ k = (if fst (l1_oracles s evs) then 1 else 0) /\
                 (forall evs', r = inl evs' ->
                    length (sealed st') = (length (sealed st) + N.to_nat k)%nat /\
                    length (bl_sealed (fst (bl_append s evs))) = (length (bl_sealed s) + N.to_nat k)%nat).
Proof. exact l2_l1_composed. Qed.

(** non-vacuity: the oracles of the three outcomes (in place; estimate-based rollover; second write after
    SegmentFull; EventsExceedSegmentSize; SegmentFull for good, also with a segment sealed for nothing) *)
Example C19_example_oracles :
  l1_oracles (mkBL 131072 true [] 128000) x_txn = (false, false) /\
  l1_oracles (mkBL 131072 true [] 128600) x_txn = (true, false) /\
  l1_oracles (mkBL 131072 true [] 126830) x_txn2 = (true, false) /\
  snd (bl_append (mkBL 131072 true [] 126830) x_txn2) = BOk 1 [48; 2157] /\
  l1_oracles (mkBL 131072 true [] 5000) wit_c_txn = (false, true) /\
  l1_oracles (bl_init 131072 true) wit_b_txn = (false, false) /\
  snd (bl_append (bl_init 131072 true) wit_b_txn) = BFull /\
  l2_segment_full 131072 true wit_b_txn /\
  l1_oracles (mkBL 131072 true [] 5000) wit_b_txn = (true, false) /\
  bl_append (mkBL 131072 true [] 5000) wit_b_txn = (mkBL 131072 true [5000] 48, BFull).
Proof. exact oracles_examples. Qed.

Print Assumptions C19_oracle_big.
Print Assumptions C19_oracle_roll.
Print Assumptions C19_oracle_roll_count.
Print Assumptions C19_segment_full_exact.
Print Assumptions C19_outcomes.
Print Assumptions C19_L2_refines_L1_oracles.
Print Assumptions C19_L2_L1_composed.
