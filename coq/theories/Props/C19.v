(** C19 — appends that fit an empty segment never fail for lack of space; retrying never fails forever.

    Model: Model/ByteLayout.v (record sizes from the code's constants, the stored length of every
    compressed record is an oracle field, so each theorem quantifies over every zstd outcome).
    [bl_append] is the code as it is (after `fix:` — SegmentFull in a non-empty segment rolls over and
    writes once more), [bl_append_v0] the code before it.

    Full-strength statement (every fill level, every stored-length oracle):
        forall s evs, bl_wf s -> evs <> [] -> fits (bl_size s) (bl_comp s) evs -> accepted (snd (bl_append s evs))
    It is FALSE for the code as it is, by exactly one class, recorded as a known finding
    (known_findings.json, class "estimate_exceeds_segment"): the transaction's UNCOMPRESSED size estimate
    does not fit an empty segment ([known_c19]); the code refuses it (EventsExceedSegmentSize) before
    compressing anything, although its stored size may fit ([C19_known_refuted]).  For everything else it
    is proved ([C19_fits]); without compression, and whenever compression makes no record larger, the class
    is empty and the statement holds at full strength ([C19_fits_nocomp], [C19_fits_no_growth]).
    Only property theorems, each closed by an exact lemma of Proofs/ByteLayoutProofs.v. *)
From Coq Require Import NArith List Bool.
From SV Require Import Model.ByteLayout Proofs.ByteLayoutProofs.
Import ListNotations.
Open Scope N_scope.

(** every fill level [bl_wo s] of the live segment, every segment size, compression on or off, every stored
    length: a transaction outside the known class whose stored size fits an empty segment is accepted at
    the first attempt; it lands contiguously either at the old write offset or, after a rollover, at the
    start of a new segment; the live segment stays well-formed *)
Theorem C19_fits : forall s evs,
  bl_wf s -> evs <> [] -> ~ known_c19 (bl_size s) evs -> fits (bl_size s) (bl_comp s) evs ->
  exists k offs, snd (bl_append s evs) = BOk k offs /\ landed s (fst (bl_append s evs)) evs k offs /\
                 bl_wf (fst (bl_append s evs)).
Proof. exact bl_append_fits. Qed.

(** the same after ANY history of appends (accepted or refused ones, of any size) on a new database:
    no earlier failure can make the append fail *)
Theorem C19_fits_after_any_history : forall size comp txns evs,
  SEGMENT_HEADER_SIZE <= size -> evs <> [] -> ~ known_c19 size evs -> fits size comp evs ->
  let s := bl_run (bl_init size comp) txns in
  exists k offs, snd (bl_append s evs) = BOk k offs /\ landed s (fst (bl_append s evs)) evs k offs.
Proof. exact bl_history_fits. Qed.

(** "retrying never fails forever": with up to [n] retries the attempt list is a single success *)
Theorem C19_retry : forall n s evs,
  bl_wf s -> evs <> [] -> ~ known_c19 (bl_size s) evs -> fits (bl_size s) (bl_comp s) evs ->
  exists k offs, snd (bl_attempts bl_append n s evs) = [BOk k offs].
Proof. exact bl_attempts_fits. Qed.

(** every append, accepted or refused, leaves a well-formed live segment (so the hypothesis [bl_wf] of the
    theorems above holds in every reachable state) *)
Theorem C19_wf_invariant : forall txns s, bl_wf s ->
  bl_wf (bl_run s txns) /\ bl_size (bl_run s txns) = bl_size s /\ bl_comp (bl_run s txns) = bl_comp s.
Proof. exact bl_run_wf. Qed.

(** compression off: the estimate IS the stored size ... *)
Theorem C19_estimate_exact_nocomp : forall evs, estimate evs = actual false evs.
Proof. exact estimate_exact_nocomp. Qed.

(** ... and the property holds at full strength (nothing excluded) *)
Theorem C19_fits_nocomp : forall s evs,
  bl_wf s -> bl_comp s = false -> evs <> [] -> fits (bl_size s) false evs ->
  exists k offs, snd (bl_append s evs) = BOk k offs /\ landed s (fst (bl_append s evs)) evs k offs.
Proof. exact bl_append_fits_nocomp. Qed.

(** compression on, but no record stored larger than its raw form: whatever passes the estimate check is accepted *)
Theorem C19_fits_no_growth : forall s evs,
  bl_wf s -> no_growth (bl_comp s) evs -> evs <> [] -> estimate evs + SEGMENT_HEADER_SIZE <= bl_size s ->
  exists k offs, snd (bl_append s evs) = BOk k offs /\ landed s (fst (bl_append s evs)) evs k offs.
Proof. exact bl_append_fits_no_growth. Qed.

(** the known class is exactly the set of transactions refused with EventsExceedSegmentSize, in every state *)
Theorem C19_known_exact : forall s evs, snd (bl_append s evs) = BTooBig <-> known_c19 (bl_size s) evs.
Proof. exact bl_append_toobig_iff. Qed.

(** ... and it contains transactions whose stored size fits: the full-strength statement is refuted there
    (a compressible 256 KiB payload, stored in 8.8 KB, refused by a 128 KiB segment in every state) *)
Theorem C19_known_refuted :
  fits 131072 true wit_c_txn /\ known_c19 131072 wit_c_txn /\
  forall s, bl_size s = 131072 -> bl_comp s = true ->
    bl_append s wit_c_txn = (s, BTooBig) /\ bl_append_v0 s wit_c_txn = (s, BTooBig).
Proof. exact bl_refuted_c. Qed.

(** a transaction whose stored size does not fit an empty segment is never accepted (the converse), and
    refusing it in an empty segment changes nothing (no segment is wasted by retries) *)
Theorem C19_unfit_refused : forall s evs, bl_wf s -> ~ fits (bl_size s) (bl_comp s) evs ->
  ~ accepted (snd (bl_append s evs)).
Proof. exact bl_append_unfit. Qed.

Theorem C19_refused_in_empty_segment_is_noop : forall s evs, bl_wo s = SEGMENT_HEADER_SIZE ->
  ~ accepted (snd (bl_append s evs)) -> fst (bl_append s evs) = s.
Proof. exact bl_append_refused_empty. Qed.

(** the code BEFORE the repair: incompressible data of at least 128 bytes is stored larger than the
    estimate; with the free space between the two the append got SegmentFull, was truncated, and every
    retry took the same decision (witness replayed on the real Database: corpus/C19/a_segment_full.case) *)
Theorem C19_v0_refuted :
  bl_wf wit_a_state /\ fits 131072 true wit_a_txn /\ ~ known_c19 131072 wit_a_txn /\
  forall n, bl_attempts bl_append_v0 n wit_a_state wit_a_txn = (wit_a_state, repeat BFull (S n)).
Proof. exact bl_v0_refuted_a. Qed.

(** ** non-vacuity *)
(* the refuting instance of the old code is accepted by the code as it is: rollover, then offset 48 *)
Example C19_example_fixed : bl_append wit_a_state wit_a_txn = (mkBL 131072 true [125976] 5157, BOk 1 [48]).
Proof. exact bl_fixed_a. Qed.

(* a three-event transaction (one compressed larger, one compressed smaller, one too small to compress): written in
   place when the estimate fits the free space, to a new segment when it does not *)
Definition x_txn : list bev := [mkBev 2002 2100; mkBev 302 60; mkBev 12 0].
Example C19_example_multi :
  estimate x_txn = 2632 /\ actual true x_txn = 2320 /\
  bl_append (mkBL 131072 true [] 128000) x_txn = (mkBL 131072 true [] 130320, BOk 0 [128000; 130109; 130178]) /\
  bl_append (mkBL 131072 true [] 128600) x_txn = (mkBL 131072 true [128600] 2368, BOk 1 [48; 2157; 2226]).
Proof. vm_compute. repeat split; reflexivity. Qed.

(* two incompressible events, 4242 free bytes: the estimate (4227) fits, the stored size (4255) does not: the old
   code answered SegmentFull forever, the code as it is writes it to a new segment *)
Definition x_txn2 : list bev := [mkBev 2002 2100; mkBev 2002 2100].
Example C19_example_second_write :
  estimate x_txn2 = 4227 /\ actual true x_txn2 = 4255 /\
  bl_wf (mkBL 131072 true [] 126830) /\ fits 131072 true x_txn2 /\ ~ known_c19 131072 x_txn2 /\
  bl_append_v0 (mkBL 131072 true [] 126830) x_txn2 = (mkBL 131072 true [] 126830, BFull) /\
  bl_append (mkBL 131072 true [] 126830) x_txn2 = (mkBL 131072 true [126830] 4303, BOk 1 [48; 2157]).
Proof.
  unfold bl_wf, fits, known_c19. vm_compute. repeat split; try reflexivity; try discriminate; intros H; discriminate H.
Qed.

(* (b): the estimate fits an empty segment, the stored record does not: refused with SegmentFull; by
   [C19_unfit_refused] this is not an instance of the property *)
Example C19_example_b :
  ~ fits 131072 true wit_b_txn /\ ~ known_c19 131072 wit_b_txn /\
  bl_append (bl_init 131072 true) wit_b_txn = (bl_init 131072 true, BFull).
Proof. exact bl_b_not_fit. Qed.

Print Assumptions C19_fits.
Print Assumptions C19_fits_after_any_history.
Print Assumptions C19_retry.
Print Assumptions C19_wf_invariant.
Print Assumptions C19_estimate_exact_nocomp.
Print Assumptions C19_fits_nocomp.
Print Assumptions C19_fits_no_growth.
Print Assumptions C19_known_exact.
Print Assumptions C19_known_refuted.
Print Assumptions C19_unfit_refused.
Print Assumptions C19_refused_in_empty_segment_is_noop.
Print Assumptions C19_v0_refuted.
