(** C11 - a write acknowledged to the client is stored at its sequence on a quorum of the partition's replicas, carries a
    quorum count on the coordinator, and is never replaced, rolled back or hidden by later history.

    Same model and conventions as Props/C10.v.  [acked st c T s] = the reply Ok(first sequence s) for transaction T was
    sent by coordinator c (transaction.rs:136-138, after set_confirmations_with_retry and the ConfirmTransaction sends). *)
From Coq Require Import NArith List Bool.
From SV Require Import Model.Replication Proofs.ReplLog Proofs.ReplExt Proofs.ReplInv Proofs.ReplSteps Proofs.ReplicationProofs.
Import ListNotations.
Open Scope N_scope.

(* in every reachable state: an acknowledged T is on the coordinator's disk, whole, at s, with a quorum count; at least
   q = rf/2+1 replicas of the partition store it whole, each of them at s *)
Theorem C11_ack_quorum : forall cfg, c_cufix cfg = true -> N.of_nat (length (c_reps cfg)) <= c_rf cfg ->
  forall acts c T s,
  let st := g_run cfg acts in
  acked st c T s ->
  (exists e, In e (ns_log (g_nodes st c)) /\ en_tx e = T /\ en_off e = 0 /\ en_first e = s /\ c_q cfg <= en_cnt e) /\
  c_q cfg <= N.of_nat (length (holders cfg st T)) /\
  (forall m, In m (holders cfg st T) ->
     In m (c_reps cfg) /\ exists e, In e (ns_log (g_nodes st m)) /\ en_tx e = T /\ en_off e = 0 /\ en_first e = s).
Proof. exact ack_quorum. Qed.

(* ... and it stays so whatever happens later (any further actions: other coordinators, crashes, catch-ups, ...):
   never replaced, never rolled back, the quorum count never lost *)
Theorem C11_ack_persists : forall cfg, c_cufix cfg = true -> N.of_nat (length (c_reps cfg)) <= c_rf cfg ->
  forall acts acts' c T s,
  acked (g_run cfg acts) c T s ->
  let st := g_run cfg (acts ++ acts') in
  (exists e, In e (ns_log (g_nodes st c)) /\ en_tx e = T /\ en_off e = 0 /\ en_first e = s /\ c_q cfg <= en_cnt e) /\
  c_q cfg <= N.of_nat (length (holders cfg st T)) /\
  (forall m, In m (holders cfg st T) ->
     In m (c_reps cfg) /\ exists e, In e (ns_log (g_nodes st m)) /\ en_tx e = T /\ en_off e = 0 /\ en_first e = s).
Proof. exact ack_persists. Qed.

(* not hidden: reads hide only sequences at or above the watermark (C07), and on every node that stores the acknowledged
   write with a quorum count the watermark the disk justifies passes it as soon as everything before it on that node is
   confirmed *)
Theorem C11_ack_visible : forall cfg, c_cufix cfg = true -> N.of_nat (length (c_reps cfg)) <= c_rf cfg ->
  forall acts c T s n e,
  let st := g_run cfg acts in
  acked st c T s -> In e (ns_log (g_nodes st n)) -> en_tx e = T -> en_off e = 0 -> c_q cfg <= en_cnt e ->
  (forall e', In e' (ns_log (g_nodes st n)) -> en_first e' < s -> c_q cfg <= en_cnt e') ->
  forall x, covers e x = true -> x < wm_ideal (c_q cfg) (ns_log (g_nodes st n)).
Proof. exact ack_visible. Qed.

(* the per-node reading of "never hidden" does NOT hold (DESIGN: C11_not_hidden_partial): a node whose own coordinator
   attempt failed keeps that unconfirmed append for ever (transaction.rs never rolls it back), so its watermark stays
   below it; here node 0 holds the acknowledged transaction 30 at sequence 1 with count 3 while its watermark is 0, and
   the coordinator (node 1) shows it (watermark 2).  Replayed on the real code: corpus/C11/hidden_on_node.case (an
   observation in the evidence, not a violation: the write is visible on the quorum). *)
Theorem C11_hidden_on_node_refuted :
  exists acts,
    let cfg := mk_cfg 3 [0;1;2] 4 true in
    let st := g_run cfg acts in
    acked st 1 30 1 /\
    In (mk_ent 30 1 1 0 3) (ns_log (g_nodes st 0)) /\ wm_ideal (c_q cfg) (ns_log (g_nodes st 0)) = 0 /\
    In (mk_ent 30 1 1 0 2) (ns_log (g_nodes st 1)) /\ wm_ideal (c_q cfg) (ns_log (g_nodes st 1)) = 2.
Proof. exact hidden_on_node_refuted. Qed.

(* non-vacuity: an acknowledgement is reachable with rf = 3 *)
Example C11_ack_reachable : exists acts c T s, acked (g_run (mk_cfg 3 [0;1;2] 4 true) acts) c T s.
Proof. exists w_acts_hidden, 1, 30, 1. exact (proj1 hidden_witness). Qed.

Print Assumptions C11_ack_quorum.
Print Assumptions C11_ack_persists.
Print Assumptions C11_ack_visible.
Print Assumptions C11_hidden_on_node_refuted.
