(** C07 — cluster reads expose only the quorum-confirmed prefix of a partition.
    Model: Model/ClusterRead.v (crates/sierradb-cluster/src/read.rs after the `fix:` commits); the watermark W is
    the number of leading confirmed events (Model/Watermark.v, C08).  [orc] is the batching oracle: every theorem
    holds for every way the storage iterator cuts its batches.
    This file holds only the property theorems; each is closed by an exact lemma. *)
From Coq Require Import NArith List.
From SV Require Import Model.Watermark Model.ClusterRead Proofs.ClusterReadProofs.
Import ListNotations.
Open Scope N_scope.

(** ---- ReadPartition ---- *)
(** gated: whatever the iterator yields, every returned event lies below the watermark *)
Theorem C07_partition_gated : forall cs orc W start endo count e,
  In e (fst (partition_read cs orc W start endo count)) -> e < W.
Proof. exact partition_read_gated. Qed.

(** exact: the result is the first [count] events of [start, end] clipped to below W *)
Theorem C07_partition_exact : forall cs orc W start endo count,
  incr start (concat cs) ->
  fst (partition_read cs orc W start endo count) =
  firstn (N.to_nat count) (filter (pr_in_range W endo) (concat cs)).
Proof. exact partition_read_exact. Qed.

(** has_more is false only if every confirmed event of the requested range was returned *)
Theorem C07_partition_has_more : forall cs orc W start endo count,
  incr start (concat cs) ->
  snd (partition_read cs orc W start endo count) = false ->
  forall e, In e (concat cs) -> pr_in_range W endo e = true ->
  In e (fst (partition_read cs orc W start endo count)).
Proof. exact partition_read_has_more. Qed.

(** the hypothesis holds for what read_partition yields on every log, from every start *)
Theorem C07_partition_commits_wf : forall log start, incr start (concat (cr_partition_commits log start)).
Proof. exact partition_commits_wf. Qed.

(** ---- ReadStream ---- *)
Theorem C07_stream_gated : forall cs orc W endo count e,
  In e (fst (stream_read cs orc W endo count)) -> snd e < W.
Proof. exact stream_read_gated. Qed.

Theorem C07_stream_exact : forall cs orc W endo count lo lo',
  cr_all_nonempty cs -> vincr lo (concat cs) -> sincr lo' (concat cs) ->
  fst (stream_read cs orc W endo count) = firstn (N.to_nat count) (filter (sr_ok W endo) (concat cs)).
Proof. exact stream_read_exact. Qed.

Theorem C07_stream_has_more : forall cs orc W endo count lo lo',
  cr_all_nonempty cs -> vincr lo (concat cs) -> sincr lo' (concat cs) ->
  snd (stream_read cs orc W endo count) = false ->
  fst (stream_read cs orc W endo count) = filter (sr_ok W endo) (concat cs).
Proof. exact stream_read_has_more. Qed.

Theorem C07_stream_commits_wf : forall x log start,
  let cs := cr_stream_commits x log start in
  cr_all_nonempty cs /\ vincr start (concat cs) /\ sincr 0 (concat cs).
Proof. exact stream_commits_wf. Qed.

(** ---- GetStreamVersion: the version of the last event of the stream below the watermark ---- *)
Theorem C07_stream_version_exact : forall groups W,
  stream_version (cr_rev_commits groups) W =
  match find (fun e => snd e <? W) (rev (concat groups)) with Some e => Some (fst e) | None => None end.
Proof. exact stream_version_exact. Qed.

Theorem C07_stream_version_gated : forall rcs W v,
  stream_version rcs W = Some v -> exists e, In e (concat rcs) /\ fst e = v /\ snd e < W.
Proof. exact stream_version_gated. Qed.

(** ---- ReadEvent, GetPartitionSequence ---- *)
Theorem C07_read_event_gated : forall ev q W s,
  read_event ev q W = Some s -> s < W /\ exists c, ev = Some (s, c) /\ q <= c.
Proof. exact read_event_gated. Qed.

Theorem C07_read_event_complete : forall s c q W, s < W -> q <= c -> read_event (Some (s, c)) q W = Some s.
Proof. exact read_event_complete. Qed.

Theorem C07_partition_sequence_exact : forall W,
  match partition_sequence W with Some s => s + 1 = W | None => W = 0 end.
Proof. exact partition_sequence_exact. Qed.

(** ---- "an event of a write that failed to reach quorum is never returned": everything below the watermark a
         node computes from its log carries a quorum confirmation count ---- *)
Theorem C07_below_watermark_confirmed : forall rf log s,
  s < cr_watermark rf log -> wm_quorum rf <= nth (N.to_nat s) (cr_counts log) 0.
Proof. exact below_watermark_confirmed. Qed.

(** ---- the same on a RUNNING node: start-up on a log, then any sequence of confirmation reports (late, out of
         order, duplicated, versions in the middle never confirmed): the watermark the reads are gated by is the
         longest quorum prefix of the best count known per version, so everything below it reached quorum ---- *)
Theorem C07_live_watermark_exact : forall rf log reports,
  wm_is_prefix (wm_quorum rf) (wm_best (cr_live_reports log reports)) (cr_live_watermark rf log reports).
Proof. exact live_watermark_exact. Qed.

Theorem C07_live_below_watermark_confirmed : forall rf log reports s,
  s < cr_live_watermark rf log reports -> wm_quorum rf <= wm_best (cr_live_reports log reports) (s + 1).
Proof. exact live_below_watermark_confirmed. Qed.

(** non-vacuity: the probe of the design (rf 3; counts [2,2],2,0,2; streams 0,0,0,1,0) *)
Definition C07_probe : cr_log := [[(0, 2); (0, 2)]; [(0, 2)]; [(1, 0)]; [(0, 2)]].
Example C07_example_watermark : cr_watermark 3 C07_probe = 3.
Proof. vm_compute. reflexivity. Qed.
Example C07_example_live :   (* all five events unconfirmed at start; the 4th transaction confirmed first, the 3rd never *)
  cr_live_watermark 3 [[(0, 0); (0, 0)]; [(0, 0)]; [(1, 0)]; [(0, 0)]] (cr_confirm_reports 4 1 2 ++ cr_confirm_reports 0 2 3) = 2 /\
  cr_live_watermark 3 [[(0, 0); (0, 0)]; [(0, 0)]; [(1, 0)]; [(0, 0)]]
    (cr_confirm_reports 4 1 2 ++ cr_confirm_reports 0 2 3 ++ cr_confirm_reports 2 1 2 ++ cr_confirm_reports 0 2 2) = 3.
Proof. vm_compute. split; reflexivity. Qed.
Example C07_example_partition :
  partition_read (cr_partition_commits C07_probe 0) [] 3 0 None 100 = ([0; 1; 2], false) /\
  partition_read (cr_partition_commits C07_probe 1) [1; 1] 3 1 (Some 1) 100 = ([1], true).
Proof. vm_compute. split; reflexivity. Qed.
Example C07_example_stream :
  stream_read (cr_stream_commits 0 C07_probe 0) [] 3 None 100 = ([(0, 0); (1, 1); (2, 2)], false) /\
  stream_read (cr_stream_commits 1 C07_probe 0) [] 3 None 100 = ([], false) /\
  stream_version (cr_stream_rev_commits 0 C07_probe) 3 = Some 2.
Proof. vm_compute. repeat split; reflexivity. Qed.

Print Assumptions C07_partition_gated.
Print Assumptions C07_partition_exact.
Print Assumptions C07_partition_has_more.
Print Assumptions C07_partition_commits_wf.
Print Assumptions C07_stream_gated.
Print Assumptions C07_stream_exact.
Print Assumptions C07_stream_has_more.
Print Assumptions C07_stream_commits_wf.
Print Assumptions C07_stream_version_exact.
Print Assumptions C07_stream_version_gated.
Print Assumptions C07_read_event_gated.
Print Assumptions C07_read_event_complete.
Print Assumptions C07_partition_sequence_exact.
Print Assumptions C07_below_watermark_confirmed.
Print Assumptions C07_live_watermark_exact.
Print Assumptions C07_live_below_watermark_confirmed.

(** ---- Bridge to the storage layer (C03): the hypotheses above are facts about the real iterator ---------------
    Until here the storage iterator is "whatever list of commits [cs] it yields".  Proofs/BridgeReadProofs.v takes
    the iterator of Model/StoreIter.v — [scan s k from Fwd limit], C03's subject — on a store [s] and converts its
    result to what the read loops consume: [br_pcommits] (per commit the partition sequences) and [br_scommits]
    (per commit (stream version, partition sequence)); the batch cuts are forgotten, they are the oracle [orc].
    The storage model keeps no confirmation counts: [conf : event -> N] assigns one to every stored event, and the
    watermark [br_watermark q conf (abs_visible s) pid] is the length of the longest prefix of partition [pid]'s
    stored events whose count reaches [q] (= what [wm_initialize] computes from those counts: C07_bridge_watermark).
    Reachable store = [run ops] for any history of appends (any rollover decisions), syncs, reopens and crashes. *)
From SV Require Import Model.StoreIter Proofs.ScanProofs Proofs.BridgeReadProofs.
From SV Require Proofs.StoreSimProofs.

(** 1. what the real forward partition scan yields satisfies the hypothesis of C07_partition_exact /
       C07_partition_has_more, for every partition, start position and batch limit *)
Theorem C07_scan_meets_partition_hypothesis : forall ops pid start limit,
  Forall StoreSimProofs.wf_op ops -> (0 < limit)%nat ->
  exists batches, scan (run ops) (KPartition pid) start Fwd limit = Some batches /\
    ClusterReadProofs.incr start (concat (br_pcommits batches)).
Proof. exact run_scan_meets_partition_hypothesis. Qed.

(** the same on any store satisfying C03's hypothesis [Scannable] *)
Theorem C07_scan_meets_partition_hypothesis_scannable : forall s pid start limit batches,
  Scannable s (KPartition pid) -> (0 < limit)%nat ->
  scan s (KPartition pid) start Fwd limit = Some batches ->
  ClusterReadProofs.incr start (concat (br_pcommits batches)).
Proof. exact scan_meets_partition_hypothesis. Qed.

(** ... and the real forward stream scan satisfies the three hypotheses of C07_stream_exact / C07_stream_has_more,
    provided all stored events of the stream lie in ONE partition ([br_stream_in_partition]): the sequences the
    loop compares with the watermark must be sequences of the partition the watermark belongs to.  The storage
    layer does not enforce this (Transaction::new takes partition key and partition id independently), the
    servers do (id = hash(key) % num_partitions): see C07_stream_scan_unrouted_refuted and
    C07_scan_meets_stream_hypothesis below. *)
Theorem C07_scan_meets_stream_hypothesis_scannable : forall s sid pid start limit batches,
  Scannable s (KStream sid) -> Scannable s (KPartition pid) ->
  br_stream_in_partition (abs_visible s) sid pid -> (0 < limit)%nat ->
  scan s (KStream sid) start Fwd limit = Some batches ->
  let cs := br_scommits batches in
  cr_all_nonempty cs /\ vincr start (concat cs) /\ sincr 0 (concat cs).
Proof. exact scan_meets_stream_hypothesis. Qed.

(** for every reachable store whose history is routed (the partition id of every appended transaction is
    [f] of its partition key): [pk] is the partition key of the stream (well defined: C07_bridge_stream_one_key) *)
Theorem C07_scan_meets_stream_hypothesis : forall f ops sid pk start limit,
  Forall StoreSimProofs.wf_op ops -> br_routed f ops ->
  (forall e, In e (all_events (abs_visible (run ops))) -> e_sid e = sid -> e_pk e = pk) -> (0 < limit)%nat ->
  exists batches, scan (run ops) (KStream sid) start Fwd limit = Some batches /\
    let cs := br_scommits batches in
    cr_all_nonempty cs /\ vincr start (concat cs) /\ sincr 0 (concat cs).
Proof. exact run_scan_meets_stream_hypothesis_routed. Qed.

Theorem C07_bridge_stream_one_key : forall ops e1 e2,
  Forall StoreSimProofs.wf_op ops ->
  In e1 (all_events (abs_visible (run ops))) -> In e2 (all_events (abs_visible (run ops))) ->
  e_sid e1 = e_sid e2 -> e_pk e1 = e_pk e2.
Proof. exact br_stream_one_key. Qed.

(** under routing every stream lives in one partition *)
Theorem C07_bridge_routed_stream_one_partition : forall f ops e1 e2,
  Forall StoreSimProofs.wf_op ops -> br_routed f ops ->
  In e1 (all_events (abs_visible (run ops))) -> In e2 (all_events (abs_visible (run ops))) ->
  e_sid e1 = e_sid e2 -> e_pid e1 = e_pid e2.
Proof. exact br_routed_stream_one_partition. Qed.

(** WITHOUT routing the stream statement is false of the storage model: stream 7 written through partition 0
    (sequence 1) and then through partition 1 (sequence 0) — a history the storage layer accepts — yields the
    sequences 1, 0; with watermark 1 the loop returns nothing although [C07_stream_exact]'s right-hand side
    contains version 1 *)
Theorem C07_stream_scan_unrouted_refuted :
  Forall StoreSimProofs.wf_op br_unrouted_ops /\
  exists batches, scan (run br_unrouted_ops) (KStream 7) 0 Fwd 5 = Some batches /\
    concat (br_scommits batches) = [(0, 1); (1, 0)] /\
    (forall lo, ~ sincr lo (concat (br_scommits batches))) /\
    fst (stream_read (br_scommits batches) [] 1 None 10) = [] /\
    firstn 10 (filter (sr_ok 1 None) (concat (br_scommits batches))) = [(1, 0)].
Proof. exact br_unrouted_stream_refuted. Qed.

(** the watermark of the bridge is the one a node computes at start-up from the on-disk counts [conf] *)
Theorem C07_bridge_watermark : forall rf conf l pid,
  wm_mark (wm_initialize rf wm_init (map conf (br_pevents l pid))) = br_watermark (wm_quorum rf) conf l pid.
Proof. exact br_watermark_is_initialize. Qed.

(** 2. end to end.  ReadPartition computed on what the real iterator yields, for every reachable store, count
    assignment, quorum, request (start, end, count), batch limit and batching oracle: the result is exactly the
    first [count] events of the specification scan [spec_scan_partition_fwd] that lie in the requested range and
    below the watermark (identified by their partition sequences); every returned sequence is below the watermark;
    has_more = false only if no confirmed event of the range was left out; and the watermark is the quorum
    prefix: every stored event of the partition below it reached the quorum, the one at it did not *)
Theorem C07_partition_read_over_storage : forall ops pid conf q start endo count limit orc,
  Forall StoreSimProofs.wf_op ops -> (0 < limit)%nat ->
  let s := run ops in
  let W := br_watermark q conf (abs_visible s) pid in
  (exists batches, scan s (KPartition pid) start Fwd limit = Some batches /\
    let r := partition_read (br_pcommits batches) orc W start endo count in
    fst r = map e_seq (firstn (N.to_nat count)
                         (filter (br_prange W endo) (spec_scan_partition_fwd (abs_visible s) pid start))) /\
    (forall x, In x (fst r) -> x < W) /\
    (snd r = false ->
     forall e, In e (spec_scan_partition_fwd (abs_visible s) pid start) -> br_prange W endo e = true ->
               In (e_seq e) (fst r))) /\
  (forall e, In e (all_events (abs_visible s)) -> e_pid e = pid -> e_seq e < W -> q <= conf e) /\
  (forall e, In e (all_events (abs_visible s)) -> e_pid e = pid -> e_seq e = W -> conf e < q).
Proof. exact run_partition_read_over_storage. Qed.

(** ReadStream likewise (routed histories; [f pk] is the stream's partition): the result is exactly the first
    [count] events of [spec_scan_stream_fwd] up to the end version whose sequence lies below the partition's
    watermark, as (version, sequence); has_more = false only if that is all of them; everything returned reached
    the quorum *)
Theorem C07_stream_read_over_storage : forall f ops sid pk conf q start endo count limit orc,
  Forall StoreSimProofs.wf_op ops -> br_routed f ops ->
  (forall e, In e (all_events (abs_visible (run ops))) -> e_sid e = sid -> e_pk e = pk) -> (0 < limit)%nat ->
  let s := run ops in
  let pid := f pk in
  let W := br_watermark q conf (abs_visible s) pid in
  (exists batches, scan s (KStream sid) start Fwd limit = Some batches /\
    let r := stream_read (br_scommits batches) orc W endo count in
    fst r = map br_sev (firstn (N.to_nat count)
                          (filter (br_srange W endo) (spec_scan_stream_fwd (abs_visible s) sid start))) /\
    (forall x, In x (fst r) -> snd x < W) /\
    (snd r = false ->
     fst r = map br_sev (filter (br_srange W endo) (spec_scan_stream_fwd (abs_visible s) sid start)))) /\
  (forall e, In e (all_events (abs_visible s)) -> e_sid e = sid -> e_seq e < W -> q <= conf e).
Proof. exact run_stream_read_over_storage. Qed.

(** the same two on any [Scannable] store *)
Theorem C07_partition_read_over_scannable : forall s pid conf q start endo count limit orc,
  Scannable s (KPartition pid) -> (0 < limit)%nat ->
  let W := br_watermark q conf (abs_visible s) pid in
  exists batches, scan s (KPartition pid) start Fwd limit = Some batches /\
    let r := partition_read (br_pcommits batches) orc W start endo count in
    fst r = map e_seq (firstn (N.to_nat count)
                         (filter (br_prange W endo) (spec_scan_partition_fwd (abs_visible s) pid start))) /\
    (forall x, In x (fst r) -> x < W) /\
    (snd r = false ->
     forall e, In e (spec_scan_partition_fwd (abs_visible s) pid start) -> br_prange W endo e = true ->
               In (e_seq e) (fst r)).
Proof. exact partition_read_over_scannable. Qed.

Theorem C07_stream_read_over_scannable : forall s sid pid conf q start endo count limit orc,
  Scannable s (KStream sid) -> Scannable s (KPartition pid) ->
  br_stream_in_partition (abs_visible s) sid pid -> (0 < limit)%nat ->
  let W := br_watermark q conf (abs_visible s) pid in
  exists batches, scan s (KStream sid) start Fwd limit = Some batches /\
    let r := stream_read (br_scommits batches) orc W endo count in
    fst r = map br_sev (firstn (N.to_nat count)
                          (filter (br_srange W endo) (spec_scan_stream_fwd (abs_visible s) sid start))) /\
    (forall x, In x (fst r) -> snd x < W) /\
    (snd r = false ->
     fst r = map br_sev (filter (br_srange W endo) (spec_scan_stream_fwd (abs_visible s) sid start))).
Proof. exact stream_read_over_scannable. Qed.

Print Assumptions C07_scan_meets_partition_hypothesis.
Print Assumptions C07_scan_meets_partition_hypothesis_scannable.
Print Assumptions C07_scan_meets_stream_hypothesis_scannable.
Print Assumptions C07_scan_meets_stream_hypothesis.
Print Assumptions C07_bridge_stream_one_key.
Print Assumptions C07_bridge_routed_stream_one_partition.
Print Assumptions C07_stream_scan_unrouted_refuted.
Print Assumptions C07_bridge_watermark.
Print Assumptions C07_partition_read_over_storage.
Print Assumptions C07_stream_read_over_storage.
Print Assumptions C07_partition_read_over_scannable.
Print Assumptions C07_stream_read_over_scannable.

(** 3. the log-derived iterator model IS the real scan.  [cr_partition_commits] / [cr_stream_commits] / [cr_watermark]
    (what the iterators yield "from a partition log": the functions the differential check runs against the real
    node) applied to [br_log conf (abs_visible s) pid] — partition [pid] of the stored log as a [cr_log], with the
    counts [conf] — are exactly the converted result of the real scan, commit by commit, and the bridge's watermark *)
Theorem C07_partition_commits_are_scan : forall ops pid conf rf start limit,
  Forall StoreSimProofs.wf_op ops -> (0 < limit)%nat ->
  let log := br_log conf (abs_visible (run ops)) pid in
  (exists batches, scan (run ops) (KPartition pid) start Fwd limit = Some batches /\
     br_pcommits batches = cr_partition_commits log start) /\
  cr_watermark rf log = br_watermark (wm_quorum rf) conf (abs_visible (run ops)) pid.
Proof. exact run_partition_commits_are_scan. Qed.

Theorem C07_stream_commits_are_scan : forall f ops x pk conf start limit,
  Forall StoreSimProofs.wf_op ops -> br_routed f ops ->
  (forall e, In e (all_events (abs_visible (run ops))) -> e_sid e = x -> e_pk e = pk) -> (0 < limit)%nat ->
  exists batches, scan (run ops) (KStream x) start Fwd limit = Some batches /\
    br_scommits batches = cr_stream_commits x (br_log conf (abs_visible (run ops)) (f pk)) start.
Proof. exact run_stream_commits_are_scan. Qed.

(** 4. the oracle abstraction loses nothing.  [partition_read_store] / [stream_read_store] are the read loops of
    read.rs DRIVING ONE ITERATOR of Model/StoreIter.v: [iter_new], then [next_batch] with the limit the loop
    computes from its own state before every call (min(eff - last, 50), resp. (end - last).clamp(1, 50)), the
    per-batch / per-commit break conditions, until the iterator is exhausted.  On every [Scannable] store they
    never fail and return exactly what the oracle-batched loops return on the converted scan — for EVERY oracle
    and every scan batch limit — so every theorem of this file transfers to the loop over the real iterator *)
Theorem C07_partition_read_store_is_model : forall s pid W start endo count limit orc,
  Scannable s (KPartition pid) -> (0 < limit)%nat ->
  exists batches, scan s (KPartition pid) start Fwd limit = Some batches /\
    partition_read_store s pid W start endo count
    = Some (partition_read (br_pcommits batches) orc W start endo count).
Proof. exact partition_read_store_is_model. Qed.

Theorem C07_stream_read_store_is_model : forall s sid W start endo count limit orc,
  Scannable s (KStream sid) -> (0 < limit)%nat ->
  exists batches, scan s (KStream sid) start Fwd limit = Some batches /\
    stream_read_store s sid start W endo count
    = Some (stream_read (br_scommits batches) orc W endo count).
Proof. exact stream_read_store_is_model. Qed.

(** end to end on the driven loops, for every reachable store *)
Theorem C07_partition_read_store : forall ops pid conf q start endo count,
  Forall StoreSimProofs.wf_op ops ->
  let s := run ops in
  let W := br_watermark q conf (abs_visible s) pid in
  exists r, partition_read_store s pid W start endo count = Some r /\
    fst r = map e_seq (firstn (N.to_nat count)
                         (filter (br_prange W endo) (spec_scan_partition_fwd (abs_visible s) pid start))) /\
    (forall x, In x (fst r) -> x < W) /\
    (snd r = false ->
     forall e, In e (spec_scan_partition_fwd (abs_visible s) pid start) -> br_prange W endo e = true ->
               In (e_seq e) (fst r)).
Proof. exact run_partition_read_store. Qed.

Theorem C07_stream_read_store : forall f ops sid pk conf q start endo count,
  Forall StoreSimProofs.wf_op ops -> br_routed f ops ->
  (forall e, In e (all_events (abs_visible (run ops))) -> e_sid e = sid -> e_pk e = pk) ->
  let s := run ops in
  let W := br_watermark q conf (abs_visible s) (f pk) in
  exists r, stream_read_store s sid start W endo count = Some r /\
    fst r = map br_sev (firstn (N.to_nat count)
                          (filter (br_srange W endo) (spec_scan_stream_fwd (abs_visible s) sid start))) /\
    (forall x, In x (fst r) -> snd x < W) /\
    (snd r = false ->
     fst r = map br_sev (filter (br_srange W endo) (spec_scan_stream_fwd (abs_visible s) sid start))).
Proof. exact run_stream_read_store. Qed.

(** non-vacuity: C03's example store (two sealed segments, a live one with an unpublished append, two partitions,
    multi-stream transactions), routed, counts with the event at sequence 6 of partition 0 below the quorum *)
Example C07_example_bridge :
  (Forall StoreSimProofs.wf_op br_ex_ops /\ br_routed (fun pk => pk - 1) br_ex_ops) /\
  let s := run br_ex_ops in
  length (sealed s) = 2%nat /\
  br_watermark 2 br_ex_conf (abs_visible s) 0 = 6 /\ br_watermark 2 br_ex_conf (abs_visible s) 1 = 2 /\
  br_log br_ex_conf (abs_visible s) 0
    = [[(7, 2); (8, 2); (7, 2)]; [(7, 2)]; [(8, 2); (7, 2); (7, 1)]; [(7, 3); (8, 3)]; [(7, 3)]] /\
  partition_read_store s 0 6 1 None 100 = Some ([1; 2; 3; 4; 5], false) /\
  partition_read_store s 0 6 1 (Some 3) 100 = Some ([1; 2; 3], true) /\
  partition_read_store s 0 6 0 None 2 = Some ([0; 1], true) /\
  stream_read_store s 7 1 6 None 100 = Some ([(1, 2); (2, 3); (3, 5)], false) /\
  stream_read_store s 7 0 6 (Some 2) 100 = Some ([(0, 0); (1, 2); (2, 3)], false) /\
  stream_read_store s 8 0 6 None 1 = Some ([(0, 1)], true).
Proof. exact (conj br_example_wf br_example_reads). Qed.

Print Assumptions C07_partition_commits_are_scan.
Print Assumptions C07_stream_commits_are_scan.
Print Assumptions C07_partition_read_store_is_model.
Print Assumptions C07_stream_read_store_is_model.
Print Assumptions C07_partition_read_store.
Print Assumptions C07_stream_read_store.

(** 5. GetStreamVersion.  What the real REVERSE scan from u64::MAX yields (C03_reverse_groups), converted, is
    [cr_rev_commits] of the stored transactions restricted to the stream — the shape C07_stream_version_exact
    assumes — and the answer computed on it is the version of the LAST stored event of the stream whose sequence
    lies below the watermark.  [U64ok]: the stream's versions fit the u64 fields (C03's hypothesis for reverse
    scans; the iterator treats the start position u64::MAX specially). *)
Theorem C07_stream_version_over_storage : forall ops sid W limit,
  Forall StoreSimProofs.wf_op ops -> U64ok (run ops) (KStream sid) -> (0 < limit)%nat ->
  exists batches, scan (run ops) (KStream sid) U64MAX Rev limit = Some batches /\
    stream_version (br_scommits batches) W
    = match find (fun e => e_seq e <? W) (rev (spec_scan_stream_fwd (abs_visible (run ops)) sid 0)) with
      | Some e => Some (e_ver e)
      | None => None
      end.
Proof. exact run_stream_version_over_storage. Qed.

Theorem C07_stream_version_over_scannable : forall s sid W limit,
  Scannable s (KStream sid) -> U64ok s (KStream sid) -> (0 < limit)%nat ->
  exists batches, scan s (KStream sid) U64MAX Rev limit = Some batches /\
    br_scommits batches
    = cr_rev_commits (map (map br_sev) (map (filter (fun e => e_sid e =? sid)) (abs_visible s))) /\
    stream_version (br_scommits batches) W
    = match find (fun e => e_seq e <? W) (rev (spec_scan_stream_fwd (abs_visible s) sid 0)) with
      | Some e => Some (e_ver e)
      | None => None
      end.
Proof. exact stream_version_over_scannable. Qed.

Example C07_example_bridge_stream_version :
  match scan (run br_ex_ops) (KStream 7) U64MAX Rev 2 with
  | Some b => stream_version (br_scommits b) 6
  | None => None
  end = Some 3.
Proof. exact br_example_stream_version. Qed.

Print Assumptions C07_stream_version_over_storage.
Print Assumptions C07_stream_version_over_scannable.
