(** C07 — cluster reads expose only the quorum-confirmed prefix of a partition.
    Model: Model/ClusterRead.v (crates/sierradb-cluster/src/read.rs after the `fix:` commits); the watermark W is
    the number of leading confirmed events (Model/Watermark.v, C08).  [orc] is the batching oracle: every theorem
    holds for every way the storage iterator cuts its batches.
    This file holds only the property theorems; each is closed by an exact lemma. *)
From Coq Require Import NArith List.
From SV Require Import Model.Watermark Model.ClusterRead Proofs.ClusterReadProofs.
Import ListNotations.
Open Scope N_scope.

(** ---- ReadPartition ---- *)
(** gated: whatever the iterator yields, every returned event lies below the watermark *)
Theorem C07_partition_gated : forall cs orc W start endo count e,
  In e (fst (partition_read cs orc W start endo count)) -> e < W.
Proof. exact partition_read_gated. Qed.

(** exact: the result is the first [count] events of [start, end] clipped to below W *)
Theorem C07_partition_exact : forall cs orc W start endo count,
  incr start (concat cs) ->
  fst (partition_read cs orc W start endo count) =
  firstn (N.to_nat count) (filter (pr_in_range W endo) (concat cs)).
Proof. exact partition_read_exact. Qed.

(** has_more is false only if every confirmed event of the requested range was returned *)
Theorem C07_partition_has_more : forall cs orc W start endo count,
  incr start (concat cs) ->
  snd (partition_read cs orc W start endo count) = false ->
  forall e, In e (concat cs) -> pr_in_range W endo e = true ->
  In e (fst (partition_read cs orc W start endo count)).
Proof. exact partition_read_has_more. Qed.

(** the hypothesis holds for what read_partition yields on every log, from every start *)
Theorem C07_partition_commits_wf : forall log start, incr start (concat (cr_partition_commits log start)).
Proof. exact partition_commits_wf. Qed.

(** ---- ReadStream ---- *)
Theorem C07_stream_gated : forall cs orc W endo count e,
  In e (fst (stream_read cs orc W endo count)) -> snd e < W.
Proof. exact stream_read_gated. Qed.

Theorem C07_stream_exact : forall cs orc W endo count lo lo',
  cr_all_nonempty cs -> vincr lo (concat cs) -> sincr lo' (concat cs) ->
  fst (stream_read cs orc W endo count) = firstn (N.to_nat count) (filter (sr_ok W endo) (concat cs)).
Proof. exact stream_read_exact. Qed.

Theorem C07_stream_has_more : forall cs orc W endo count lo lo',
  cr_all_nonempty cs -> vincr lo (concat cs) -> sincr lo' (concat cs) ->
  snd (stream_read cs orc W endo count) = false ->
  fst (stream_read cs orc W endo count) = filter (sr_ok W endo) (concat cs).
Proof. exact stream_read_has_more. Qed.

Theorem C07_stream_commits_wf : forall x log start,
  let cs := cr_stream_commits x log start in
  cr_all_nonempty cs /\ vincr start (concat cs) /\ sincr 0 (concat cs).
Proof. exact stream_commits_wf. Qed.

(** ---- GetStreamVersion: the version of the last event of the stream below the watermark ---- *)
Theorem C07_stream_version_exact : forall groups W,
  stream_version (cr_rev_commits groups) W =
  match find (fun e => snd e <? W) (rev (concat groups)) with Some e => Some (fst e) | None => None end.
Proof. exact stream_version_exact. Qed.

Theorem C07_stream_version_gated : forall rcs W v,
  stream_version rcs W = Some v -> exists e, In e (concat rcs) /\ fst e = v /\ snd e < W.
Proof. exact stream_version_gated. Qed.

(** ---- ReadEvent, GetPartitionSequence ---- *)
Theorem C07_read_event_gated : forall ev q W s,
  read_event ev q W = Some s -> s < W /\ exists c, ev = Some (s, c) /\ q <= c.
Proof. exact read_event_gated. Qed.

Theorem C07_read_event_complete : forall s c q W, s < W -> q <= c -> read_event (Some (s, c)) q W = Some s.
Proof. exact read_event_complete. Qed.

Theorem C07_partition_sequence_exact : forall W,
  match partition_sequence W with Some s => s + 1 = W | None => W = 0 end.
Proof. exact partition_sequence_exact. Qed.

(** ---- "an event of a write that failed to reach quorum is never returned": everything below the watermark a
         node computes from its log carries a quorum confirmation count ---- *)
Theorem C07_below_watermark_confirmed : forall rf log s,
  s < cr_watermark rf log -> wm_quorum rf <= nth (N.to_nat s) (cr_counts log) 0.
Proof. exact below_watermark_confirmed. Qed.

(** ---- the same on a RUNNING node: start-up on a log, then any sequence of confirmation reports (late, out of
         order, duplicated, versions in the middle never confirmed): the watermark the reads are gated by is the
         longest quorum prefix of the best count known per version, so everything below it reached quorum ---- *)
Theorem C07_live_watermark_exact : forall rf log reports,
  wm_is_prefix (wm_quorum rf) (wm_best (cr_live_reports log reports)) (cr_live_watermark rf log reports).
Proof. exact live_watermark_exact. Qed.

Theorem C07_live_below_watermark_confirmed : forall rf log reports s,
  s < cr_live_watermark rf log reports -> wm_quorum rf <= wm_best (cr_live_reports log reports) (s + 1).
Proof. exact live_below_watermark_confirmed. Qed.

(** non-vacuity: the probe of the design (rf 3; counts [2,2],2,0,2; streams 0,0,0,1,0) *)
Definition C07_probe : cr_log := [[(0, 2); (0, 2)]; [(0, 2)]; [(1, 0)]; [(0, 2)]].
Example C07_example_watermark : cr_watermark 3 C07_probe = 3.
Proof. vm_compute. reflexivity. Qed.
Example C07_example_live :   (* all five events unconfirmed at start; the 4th transaction confirmed first, the 3rd never *)
  cr_live_watermark 3 [[(0, 0); (0, 0)]; [(0, 0)]; [(1, 0)]; [(0, 0)]] (cr_confirm_reports 4 1 2 ++ cr_confirm_reports 0 2 3) = 2 /\
  cr_live_watermark 3 [[(0, 0); (0, 0)]; [(0, 0)]; [(1, 0)]; [(0, 0)]]
    (cr_confirm_reports 4 1 2 ++ cr_confirm_reports 0 2 3 ++ cr_confirm_reports 2 1 2 ++ cr_confirm_reports 0 2 2) = 3.
Proof. vm_compute. split; reflexivity. Qed.
Example C07_example_partition :
  partition_read (cr_partition_commits C07_probe 0) [] 3 0 None 100 = ([0; 1; 2], false) /\
  partition_read (cr_partition_commits C07_probe 1) [1; 1] 3 1 (Some 1) 100 = ([1], true).
Proof. vm_compute. split; reflexivity. Qed.
Example C07_example_stream :
  stream_read (cr_stream_commits 0 C07_probe 0) [] 3 None 100 = ([(0, 0); (1, 1); (2, 2)], false) /\
  stream_read (cr_stream_commits 1 C07_probe 0) [] 3 None 100 = ([], false) /\
  stream_version (cr_stream_rev_commits 0 C07_probe) 3 = Some 2.
Proof. vm_compute. repeat split; reflexivity. Qed.

Print Assumptions C07_partition_gated.
Print Assumptions C07_partition_exact.
Print Assumptions C07_partition_has_more.
Print Assumptions C07_partition_commits_wf.
Print Assumptions C07_stream_gated.
Print Assumptions C07_stream_exact.
Print Assumptions C07_stream_has_more.
Print Assumptions C07_stream_commits_wf.
Print Assumptions C07_stream_version_exact.
Print Assumptions C07_stream_version_gated.
Print Assumptions C07_read_event_gated.
Print Assumptions C07_read_event_complete.
Print Assumptions C07_partition_sequence_exact.
Print Assumptions C07_below_watermark_confirmed.
Print Assumptions C07_live_watermark_exact.
Print Assumptions C07_live_below_watermark_confirmed.
