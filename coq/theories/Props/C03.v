(** C03 — scans are exact, ordered and gapless.
    Forward scans of a stream or partition, from any start position and with any batch size,
    return exactly the stored events at or after that position, each once, in strictly increasing
    position order with no gaps and never an event of another stream; results do not depend on
    where the events are stored (open segment, sealed segments, after reopen).  Reverse scans
    return the same set at or before the position, grouped by transaction, newest first.

    All theorems are stated under [Scannable s k] (Proofs/ScanStore.v): every sealed segment and the
    published part of the live segment are concatenations of committed groups indexed by exactly
    their events (S1,S2); the key's events carry positions 0,1,2,.. in log order (S3); a
    transaction touching the scanned partition lies in that partition (S4).  [Scannable] is what
    the writer's invariant gives for every reachable store.  Reverse scans additionally need
    [U64ok s k]: the key's positions fit the u64 fields (the iterator treats the start position
    u64::MAX specially); the real fields are u64, the model's are unbounded. *)
From Coq Require Import NArith List Bool.
From SV Require Import Model.StoreIter Proofs.ScanProofs Proofs.ScanGlue.
From SV Require Proofs.StoreSimProofs.
Import ListNotations.
Open Scope N_scope.

Theorem C03_forward_exact : forall s k from limit, Scannable s k -> (0 < limit)%nat ->
  exists batches, scan s k from Fwd limit = Some batches /\
    scan_events batches
    = filter (fun e => matches k e && (from <=? key_pos k e)) (all_events (abs_visible s)).
Proof. exact forward_exact. Qed.

(* every returned group is the key's part (at or after [from]) of exactly one stored transaction,
   in log order, none missing; every batch has between 1 and [limit] groups *)
Theorem C03_forward_groups : forall s k from limit, Scannable s k -> (0 < limit)%nat ->
  exists batches, scan s k from Fwd limit = Some batches /\
    map committed_events (concat batches)
    = filter nonnil (map (filter (fun e => matches k e && (from <=? key_pos k e))) (abs_visible s)) /\
    Forall (fun b => 1 <= length b <= limit)%nat batches.
Proof. exact forward_groups. Qed.

(* strictly increasing, gapless, no repeats: the positions are from, from+1, from+2, ... *)
Theorem C03_forward_positions : forall s k from limit batches, Scannable s k -> (0 < limit)%nat ->
  scan s k from Fwd limit = Some batches ->
  map (key_pos k) (scan_events batches)
  = map (fun i => from + N.of_nat i) (seq 0 (length (scan_events batches))).
Proof. exact forward_positions. Qed.

Theorem C03_forward_no_foreign : forall s k from limit batches, Scannable s k -> (0 < limit)%nat ->
  scan s k from Fwd limit = Some batches ->
  Forall (fun e => matches k e = true /\ from <= key_pos k e /\ In e (all_events (abs_visible s)))
         (scan_events batches).
Proof. exact forward_no_foreign. Qed.

Theorem C03_independent_of_sealing : forall s1 s2 k from limit, Scannable s1 k -> Scannable s2 k ->
  abs_visible s1 = abs_visible s2 -> (0 < limit)%nat ->
  exists b1 b2, scan s1 k from Fwd limit = Some b1 /\ scan s2 k from Fwd limit = Some b2 /\
    scan_events b1 = scan_events b2 /\
    map committed_events (concat b1) = map committed_events (concat b2).
Proof. exact forward_independent. Qed.

Theorem C03_same_after_rollover : forall s k from limit,
  Scannable (publish s) k -> Scannable (rollover s) k -> (0 < limit)%nat ->
  exists b1 b2, scan (publish s) k from Fwd limit = Some b1 /\ scan (rollover s) k from Fwd limit = Some b2 /\
    scan_events b1 = scan_events b2 /\ map committed_events (concat b1) = map committed_events (concat b2).
Proof. exact forward_same_after_rollover. Qed.

Theorem C03_same_after_reopen : forall s k from limit,
  Scannable (publish s) k -> Scannable (reopen (publish s)) k -> (0 < limit)%nat ->
  exists b1 b2, scan (publish s) k from Fwd limit = Some b1 /\ scan (reopen (publish s)) k from Fwd limit = Some b2 /\
    scan_events b1 = scan_events b2 /\ map committed_events (concat b1) = map committed_events (concat b2).
Proof. exact forward_same_after_reopen. Qed.

(* shape of the forward groups: each is the key's part of one stored transaction, cut at [from];
   it is a suffix of the key's events of that transaction, and every group but the first is whole *)
Theorem C03_forward_group_shape : forall s k from limit batches, Scannable s k -> (0 < limit)%nat ->
  scan s k from Fwd limit = Some batches ->
  let groups := map committed_events (concat batches) in
  Forall (fun l => exists t pre, In t (abs_visible s) /\ l <> [] /\
                     l = filter (fun e => matches k e && (from <=? key_pos k e)) t /\
                     filter (matches k) t = pre ++ l) groups /\
  (forall pre l rest, groups = pre ++ l :: rest -> pre <> [] ->
     exists t, In t (abs_visible s) /\ l = filter (matches k) t).
Proof. exact forward_group_shape. Qed.

(** ** reverse scans (the reading fixed by the check's monitor): one group per event of the key at
    or before [from], newest first; the group of an event is that event followed by the key's
    later events of the same transaction (so a group may repeat events of its own transaction,
    possibly beyond [from], and nothing else) *)
Theorem C03_reverse_groups : forall s k from limit, Scannable s k -> U64ok s k -> (0 < limit)%nat ->
  exists batches, scan s k from Rev limit = Some batches /\
    map committed_events (concat batches)
    = rev (map ucons (filter (fun x => key_pos k (fst x) <=? from)
                             (concat (map (ksufp k) (abs_visible s))))) /\
    Forall (fun b => 1 <= length b <= limit)%nat batches.
Proof. exact reverse_groups. Qed.

(* the events at or before [from] in the result are exactly those of the specification *)
Theorem C03_reverse_exact : forall s k from limit batches, Scannable s k -> U64ok s k -> (0 < limit)%nat ->
  scan s k from Rev limit = Some batches ->
  forall e, In e (filter (fun e => key_pos k e <=? from) (scan_events batches)) <->
            In e (filter (fun e => matches k e && (key_pos k e <=? from)) (all_events (abs_visible s))).
Proof. exact reverse_exact. Qed.

(* every group is a suffix of the key's events of one stored transaction; its first element is at or before [from] *)
Theorem C03_reverse_group_shape : forall s k from limit batches, Scannable s k -> U64ok s k -> (0 < limit)%nat ->
  scan s k from Rev limit = Some batches ->
  Forall (fun l => exists t pre e rest, In t (abs_visible s) /\ t = pre ++ e :: rest /\
                     matches k e = true /\ key_pos k e <= from /\ l = e :: filter (matches k) rest)
         (map committed_events (concat batches)).
Proof. exact reverse_group_shape. Qed.

(* the first elements of successive groups are at positions n-1, n-2, .., 0: strictly decreasing, no gap *)
Theorem C03_reverse_heads : forall s k from limit batches, Scannable s k -> U64ok s k -> (0 < limit)%nat ->
  scan s k from Rev limit = Some batches ->
  let groups := map committed_events (concat batches) in
  map (head_pos k) groups = map N.of_nat (rev (seq 0 (length groups))).
Proof. exact reverse_heads. Qed.

(* from = u64::MAX: every event of the key, and nothing else *)
Theorem C03_reverse_all : forall s k limit batches, Scannable s k -> U64ok s k -> (0 < limit)%nat ->
  scan s k U64MAX Rev limit = Some batches ->
  forall e, In e (scan_events batches) <-> (In e (all_events (abs_visible s)) /\ matches k e = true).
Proof. exact reverse_all. Qed.

Theorem C03_reverse_independent : forall s1 s2 k from limit, Scannable s1 k -> Scannable s2 k -> U64ok s1 k ->
  abs_visible s1 = abs_visible s2 -> (0 < limit)%nat ->
  exists b1 b2, scan s1 k from Rev limit = Some b1 /\ scan s2 k from Rev limit = Some b2 /\
    map committed_events (concat b1) = map committed_events (concat b2).
Proof. exact reverse_independent. Qed.

(* no "event not found at offset", no exhausted fuel: a scan of a Scannable store never fails *)
Theorem C03_never_error : forall s k from d limit, Scannable s k -> (d = Rev -> U64ok s k) ->
  scan s k from d limit <> None.
Proof. exact never_error. Qed.

(** ** the same for every reachable store: [run ops] for any list of appends (any rollover /
    size decisions), syncs, reopens and crashes; the only hypothesis on the history is the one
    [Transaction::new] enforces (a transaction has an event; the single-event flag only on
    single-event transactions).  [Scannable] follows from the writer's invariant (ScanGlue). *)
Theorem C03_reachable_scannable : forall ops k, Forall StoreSimProofs.wf_op ops -> Scannable (run ops) k.
Proof. exact run_Scannable. Qed.

Theorem C03_reachable_forward_exact : forall ops k from limit,
  Forall StoreSimProofs.wf_op ops -> (0 < limit)%nat ->
  exists batches, scan (run ops) k from Fwd limit = Some batches /\
    scan_events batches
    = filter (fun e => matches k e && (from <=? key_pos k e)) (all_events (abs_visible (run ops))).
Proof. exact run_forward_exact. Qed.

Theorem C03_reachable_forward_groups : forall ops k from limit,
  Forall StoreSimProofs.wf_op ops -> (0 < limit)%nat ->
  exists batches, scan (run ops) k from Fwd limit = Some batches /\
    map committed_events (concat batches)
    = filter nonnil (map (filter (fun e => matches k e && (from <=? key_pos k e))) (abs_visible (run ops))) /\
    Forall (fun b => 1 <= length b <= limit)%nat batches.
Proof. exact run_forward_groups. Qed.

Theorem C03_reachable_forward_positions : forall ops k from limit batches,
  Forall StoreSimProofs.wf_op ops -> (0 < limit)%nat ->
  scan (run ops) k from Fwd limit = Some batches ->
  map (key_pos k) (scan_events batches)
  = map (fun i => from + N.of_nat i) (seq 0 (length (scan_events batches))).
Proof. exact run_forward_positions. Qed.

Theorem C03_reachable_independent_of_sealing : forall ops1 ops2 k from limit,
  Forall StoreSimProofs.wf_op ops1 -> Forall StoreSimProofs.wf_op ops2 ->
  abs_visible (run ops1) = abs_visible (run ops2) -> (0 < limit)%nat ->
  exists b1 b2, scan (run ops1) k from Fwd limit = Some b1 /\ scan (run ops2) k from Fwd limit = Some b2 /\
    scan_events b1 = scan_events b2 /\
    map committed_events (concat b1) = map committed_events (concat b2).
Proof. exact run_independent_of_sealing. Qed.

Theorem C03_reachable_reverse_groups : forall ops k from limit,
  Forall StoreSimProofs.wf_op ops -> U64ok (run ops) k -> (0 < limit)%nat ->
  exists batches, scan (run ops) k from Rev limit = Some batches /\
    map committed_events (concat batches)
    = rev (map ucons (filter (fun x => key_pos k (fst x) <=? from)
                             (concat (map (ksufp k) (abs_visible (run ops)))))) /\
    Forall (fun b => 1 <= length b <= limit)%nat batches.
Proof. exact run_reverse_groups. Qed.

Theorem C03_reachable_reverse_exact : forall ops k from limit batches,
  Forall StoreSimProofs.wf_op ops -> U64ok (run ops) k -> (0 < limit)%nat ->
  scan (run ops) k from Rev limit = Some batches ->
  forall e, In e (filter (fun e => key_pos k e <=? from) (scan_events batches)) <->
            In e (filter (fun e => matches k e && (key_pos k e <=? from)) (all_events (abs_visible (run ops)))).
Proof. exact run_reverse_exact. Qed.

Theorem C03_reachable_never_error : forall ops k from d limit,
  Forall StoreSimProofs.wf_op ops -> (d = Rev -> U64ok (run ops) k) ->
  scan (run ops) k from d limit <> None.
Proof. exact run_never_error. Qed.

(** ** Examples: a store with two sealed segments and a live one (one unpublished append),
    multi-stream transactions, two partitions *)
Definition ne id sid := mkNew id sid XAny true.
Definition ex_ops : list op :=
 [ OAppend (mkTxn 1 0 100 false [ne 1 7; ne 2 8; ne 3 7] XAny) false false;
   OAppend (mkTxn 1 0 101 true [ne 4 7] XAny) false false;
   OAppend (mkTxn 2 1 102 false [ne 5 9] XAny) false false;
   OAppend (mkTxn 1 0 103 false [ne 6 8; ne 7 7; ne 8 7] XAny) true false;
   OAppend (mkTxn 2 1 104 true [ne 9 9] XAny) false false;
   OAppend (mkTxn 1 0 105 false [ne 10 7; ne 11 8] XAny) true false;
   OAppend (mkTxn 1 0 106 true [ne 12 7] XAny) false false;
   OSync;
   OAppend (mkTxn 1 0 107 true [ne 13 7] XAny) false false ].
Definition ex_store := run ex_ops.

Example ex_shape : length (sealed ex_store) = 2%nat /\ published ex_store = 4%nat /\
                   length (s_recs (live ex_store)) = 5%nat.
Proof. vm_compute. auto. Qed.

Example ex_scannable k : (k = KStream 7 \/ k = KStream 8 \/ k = KPartition 0 \/ k = KPartition 1 \/ k = KStream 99) ->
  Scannable ex_store k.
Proof.
  intros Hk. apply Scannable_check.
  - set (l := sealed ex_store). vm_compute in l. subst l.
    constructor; [apply seg_wf_check; vm_compute; reflexivity|].
    constructor; [apply seg_wf_check; vm_compute; reflexivity|]. constructor.
  - vm_compute. auto.
  - apply seg_wf_check; vm_compute; reflexivity.
  - destruct Hk as [->|[->|[->|[->| ->]]]]; vm_compute; reflexivity.
  - vm_compute. reflexivity.
Qed.

Example ex_u64ok k : U64ok ex_store k.
Proof. apply U64ok_check. destruct k; vm_compute; reflexivity. Qed.

Example ex_scannable_stream : Scannable ex_store (KStream 7).
Proof. apply ex_scannable. auto. Qed.
(* the history of the example satisfies the hypothesis of the reachable-store theorems *)
Example ex_ops_wf : Forall StoreSimProofs.wf_op ex_ops.
Proof. repeat constructor; cbn; try discriminate; intros H; discriminate H. Qed.
Example ex_scannable_partition : Scannable ex_store (KPartition 0).
Proof. apply ex_scannable. auto 6. Qed.

Definition show r := match r with
  | Some bs => Some (map (map (fun c => map (fun e => (e_id e, key_pos (KStream 0) e, key_pos (KPartition 0) e)) (committed_events c))) bs)
  | None => None end.

(* stream 7 from version 1, batches of 2 groups: starts inside the first transaction, crosses both
   sealed segments into the live one; (event id, version, sequence) *)
Example ex_fwd_stream : show (scan ex_store (KStream 7) 1 Fwd 2)
  = Some [[[(3, 1, 2)]; [(4, 2, 3)]]; [[(7, 3, 5); (8, 4, 6)]]; [[(10, 5, 7)]; [(12, 6, 9)]]].
Proof. vm_compute. reflexivity. Qed.

Example ex_fwd_partition : show (scan ex_store (KPartition 0) 1 Fwd 3)
  = Some [[[(2, 0, 1); (3, 1, 2)]; [(4, 2, 3)]]; [[(6, 1, 4); (7, 3, 5); (8, 4, 6)]];
          [[(10, 5, 7); (11, 2, 8)]; [(12, 6, 9)]]].
Proof. vm_compute. reflexivity. Qed.

Example ex_fwd_beyond : scan ex_store (KStream 7) 100 Fwd 3 = Some [].
Proof. vm_compute. reflexivity. Qed.

Example ex_rev_stream_all : show (scan ex_store (KStream 7) U64MAX Rev 2)
  = Some [[[(12, 6, 9)]; [(10, 5, 7)]]; [[(8, 4, 6)]; [(7, 3, 5); (8, 4, 6)]];
          [[(4, 2, 3)]; [(3, 1, 2)]]; [[(1, 0, 0); (3, 1, 2)]]].
Proof. vm_compute. reflexivity. Qed.

(* from = 3 falls inside transaction 103: its group starts at version 3 and repeats version 4 *)
Example ex_rev_stream_mid : show (scan ex_store (KStream 7) 3 Rev 2)
  = Some [[[(7, 3, 5); (8, 4, 6)]]; [[(4, 2, 3)]; [(3, 1, 2)]]; [[(1, 0, 0); (3, 1, 2)]]].
Proof. vm_compute. reflexivity. Qed.

Example ex_rev_partition : show (scan ex_store (KPartition 0) 4 Rev 3)
  = Some [[[(6, 1, 4); (7, 3, 5); (8, 4, 6)]]; [[(4, 2, 3)]; [(3, 1, 2)]; [(2, 0, 1); (3, 1, 2)]];
          [[(1, 0, 0); (2, 0, 1); (3, 1, 2)]]].
Proof. vm_compute. reflexivity. Qed.

(* sealing everything / reopening does not change what is visible *)
Example ex_rollover_visible : abs_visible (rollover ex_store) = abs_visible (publish ex_store).
Proof. apply abs_visible_rollover. Qed.

Print Assumptions C03_forward_exact.
Print Assumptions C03_forward_groups.
Print Assumptions C03_forward_positions.
Print Assumptions C03_forward_no_foreign.
Print Assumptions C03_independent_of_sealing.
Print Assumptions C03_same_after_rollover.
Print Assumptions C03_same_after_reopen.
Print Assumptions C03_forward_group_shape.
Print Assumptions C03_reverse_groups.
Print Assumptions C03_reverse_exact.
Print Assumptions C03_reverse_group_shape.
Print Assumptions C03_reverse_heads.
Print Assumptions C03_reverse_all.
Print Assumptions C03_reverse_independent.
Print Assumptions C03_never_error.
Print Assumptions C03_reachable_scannable.
Print Assumptions C03_reachable_forward_exact.
Print Assumptions C03_reachable_forward_groups.
Print Assumptions C03_reachable_forward_positions.
Print Assumptions C03_reachable_independent_of_sealing.
Print Assumptions C03_reachable_reverse_groups.
Print Assumptions C03_reachable_reverse_exact.
Print Assumptions C03_reachable_never_error.
