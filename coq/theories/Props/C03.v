(** C03 — scans are exact, ordered and gapless.
    Forward scans of a stream or partition, from any start position and with any batch size,
    return exactly the stored events at or after that position, each once, in strictly increasing
    position order with no gaps and never an event of another stream; results do not depend on
    where the events are stored (open segment, sealed segments, after reopen).

    All theorems are stated under [Scannable s k] (Proofs/ScanStore.v): every sealed segment and the
    published part of the live segment are concatenations of committed groups indexed by exactly
    their events (S1,S2); the key's events carry positions 0,1,2,.. in log order, all <= u64::MAX
    (S3); a transaction touching the scanned partition lies in that partition (S4).  [Scannable]
    is what the writer's invariant gives for every reachable store (glued in StoreInv). *)
From Coq Require Import NArith List Bool.
From SV Require Import Model.StoreIter Proofs.ScanProofs.
Import ListNotations.
Open Scope N_scope.

Theorem C03_forward_exact : forall s k from limit, Scannable s k -> (0 < limit)%nat ->
  exists batches, scan s k from Fwd limit = Some batches /\
    scan_events batches
    = filter (fun e => matches k e && (from <=? key_pos k e)) (all_events (abs_visible s)).
Proof. exact forward_exact. Qed.

(* every returned group is the key's part (at or after [from]) of exactly one stored transaction,
   in log order, none missing; every batch has between 1 and [limit] groups *)
Theorem C03_forward_groups : forall s k from limit, Scannable s k -> (0 < limit)%nat ->
  exists batches, scan s k from Fwd limit = Some batches /\
    map committed_events (concat batches)
    = filter nonnil (map (filter (fun e => matches k e && (from <=? key_pos k e))) (abs_visible s)) /\
    Forall (fun b => 1 <= length b <= limit)%nat batches.
Proof. exact forward_groups. Qed.

(* strictly increasing, gapless, no repeats: the positions are from, from+1, from+2, ... *)
Theorem C03_forward_positions : forall s k from limit batches, Scannable s k -> (0 < limit)%nat ->
  scan s k from Fwd limit = Some batches ->
  map (key_pos k) (scan_events batches)
  = map (fun i => from + N.of_nat i) (seq 0 (length (scan_events batches))).
Proof. exact forward_positions. Qed.

Theorem C03_forward_no_foreign : forall s k from limit batches, Scannable s k -> (0 < limit)%nat ->
  scan s k from Fwd limit = Some batches ->
  Forall (fun e => matches k e = true /\ from <= key_pos k e /\ In e (all_events (abs_visible s)))
         (scan_events batches).
Proof. exact forward_no_foreign. Qed.

Theorem C03_independent_of_sealing : forall s1 s2 k from limit, Scannable s1 k -> Scannable s2 k ->
  abs_visible s1 = abs_visible s2 -> (0 < limit)%nat ->
  exists b1 b2, scan s1 k from Fwd limit = Some b1 /\ scan s2 k from Fwd limit = Some b2 /\
    scan_events b1 = scan_events b2 /\
    map committed_events (concat b1) = map committed_events (concat b2).
Proof. exact forward_independent. Qed.

Theorem C03_same_after_rollover : forall s k from limit,
  Scannable (publish s) k -> Scannable (rollover s) k -> (0 < limit)%nat ->
  exists b1 b2, scan (publish s) k from Fwd limit = Some b1 /\ scan (rollover s) k from Fwd limit = Some b2 /\
    scan_events b1 = scan_events b2 /\ map committed_events (concat b1) = map committed_events (concat b2).
Proof. exact forward_same_after_rollover. Qed.

Theorem C03_same_after_reopen : forall s k from limit,
  Scannable (publish s) k -> Scannable (reopen (publish s)) k -> (0 < limit)%nat ->
  exists b1 b2, scan (publish s) k from Fwd limit = Some b1 /\ scan (reopen (publish s)) k from Fwd limit = Some b2 /\
    scan_events b1 = scan_events b2 /\ map committed_events (concat b1) = map committed_events (concat b2).
Proof. exact forward_same_after_reopen. Qed.

(** ** Examples: a store with two sealed segments and a live one (one unpublished append),
    multi-stream transactions, two partitions *)
Definition ne id sid := mkNew id sid XAny true.
Definition ex_ops : list op :=
 [ OAppend (mkTxn 1 0 100 false [ne 1 7; ne 2 8; ne 3 7] XAny) false false;
   OAppend (mkTxn 1 0 101 true [ne 4 7] XAny) false false;
   OAppend (mkTxn 2 1 102 false [ne 5 9] XAny) false false;
   OAppend (mkTxn 1 0 103 false [ne 6 8; ne 7 7; ne 8 7] XAny) true false;
   OAppend (mkTxn 2 1 104 true [ne 9 9] XAny) false false;
   OAppend (mkTxn 1 0 105 false [ne 10 7; ne 11 8] XAny) true false;
   OAppend (mkTxn 1 0 106 true [ne 12 7] XAny) false false;
   OSync;
   OAppend (mkTxn 1 0 107 true [ne 13 7] XAny) false false ].
Definition ex_store := run ex_ops.

Example ex_shape : length (sealed ex_store) = 2%nat /\ published ex_store = 4%nat /\
                   length (s_recs (live ex_store)) = 5%nat.
Proof. vm_compute. auto. Qed.

Lemma ex_scannable k : (k = KStream 7 \/ k = KStream 8 \/ k = KPartition 0 \/ k = KPartition 1 \/ k = KStream 99) ->
  Scannable ex_store k.
Proof.
  intros Hk. apply Scannable_check.
  - set (l := sealed ex_store). vm_compute in l. subst l.
    constructor; [apply seg_wf_check; vm_compute; reflexivity|].
    constructor; [apply seg_wf_check; vm_compute; reflexivity|]. constructor.
  - vm_compute. auto.
  - apply seg_wf_check; vm_compute; reflexivity.
  - destruct Hk as [->|[->|[->|[->| ->]]]]; vm_compute; reflexivity.
  - destruct Hk as [->|[->|[->|[->| ->]]]]; vm_compute; reflexivity.
  - vm_compute. reflexivity.
Qed.

Example ex_scannable_stream : Scannable ex_store (KStream 7).
Proof. apply ex_scannable. auto. Qed.
Example ex_scannable_partition : Scannable ex_store (KPartition 0).
Proof. apply ex_scannable. auto 6. Qed.

Definition show r := match r with
  | Some bs => Some (map (map (fun c => map (fun e => (e_id e, key_pos (KStream 0) e, key_pos (KPartition 0) e)) (committed_events c))) bs)
  | None => None end.

(* stream 7 from version 1, batches of 2 groups: starts inside the first transaction, crosses both
   sealed segments into the live one; (event id, version, sequence) *)
Example ex_fwd_stream : show (scan ex_store (KStream 7) 1 Fwd 2)
  = Some [[[(3, 1, 2)]; [(4, 2, 3)]]; [[(7, 3, 5); (8, 4, 6)]]; [[(10, 5, 7)]; [(12, 6, 9)]]].
Proof. vm_compute. reflexivity. Qed.

Example ex_fwd_partition : show (scan ex_store (KPartition 0) 1 Fwd 3)
  = Some [[[(2, 0, 1); (3, 1, 2)]; [(4, 2, 3)]]; [[(6, 1, 4); (7, 3, 5); (8, 4, 6)]];
          [[(10, 5, 7); (11, 2, 8)]; [(12, 6, 9)]]].
Proof. vm_compute. reflexivity. Qed.

Example ex_fwd_beyond : scan ex_store (KStream 7) 100 Fwd 3 = Some [].
Proof. vm_compute. reflexivity. Qed.

Print Assumptions C03_forward_exact.
Print Assumptions C03_forward_groups.
Print Assumptions C03_forward_positions.
Print Assumptions C03_forward_no_foreign.
Print Assumptions C03_independent_of_sealing.
Print Assumptions C03_same_after_rollover.
Print Assumptions C03_same_after_reopen.
