(** C02 — appends are accepted exactly when their version conditions hold.
    The concrete store (Model/Store.v, validated against writer_thread_pool.rs by differential
    testing) is proved to answer every append exactly as the reference [spec_append] of
    Model/StoreSpec.v does on the log of everything written so far, in every reachable state:
    for EVERY operation list (appends accepted or rejected for any reason, syncs, rollovers at
    any place, reopens, crashes with any cut).
    This file holds only the property theorems; each is closed by an exact lemma of
    Proofs/StoreSimProofs.v.  Input hypothesis ([wf_txn], guaranteed by Transaction::new):
    a transaction has at least one event and the single-event flag only on single-event ones. *)
From Coq Require Import NArith List Bool.
From SV Require Import Model.Store Proofs.StoreInv Proofs.StoreSimProofs.
Import ListNotations.
Open Scope N_scope.

(** every reachable state satisfies the store invariant *)
Theorem C02_reachable_inv : forall ops, Forall wf_op ops -> Inv (run ops).
Proof. exact run_Inv. Qed.

(** accepted iff the reference accepts, with the same events (ids, sequences, versions) or the
    same reject reason; everything written stays equal to the reference log *)
Theorem C02_accept_iff : forall ops t roll big s' r,
  Forall wf_op ops -> wf_txn t -> append (run ops) t roll big = (s', r) ->
  spec_append (abs_all (run ops)) t (negb big) = (abs_all s', r) /\ Inv s' /\
  (abs_visible s' = abs_visible (run ops) \/ (roll = true /\ abs_visible s' = abs_all (run ops))).
Proof. exact run_append_sim. Qed.

(** one step, from any state satisfying the invariant *)
Theorem C02_accept_iff_step : forall s t roll big s' r,
  Inv s -> wf_txn t -> append s t roll big = (s', r) ->
  spec_append (abs_all s) t (negb big) = (abs_all s', r) /\ Inv s' /\
  (abs_visible s' = abs_visible s \/ (roll = true /\ abs_visible s' = abs_all s)) /\
  (roll = false -> sealed s' = sealed s /\ s_idx (live s') = s_idx (live s) /\ published s' = published s /\
                   exists more, s_recs (live s') = s_recs (live s) ++ more).
Proof. exact append_sim. Qed.

(** a rejected append writes nothing, and no read API (event lookup, transaction read, latest
    stream version, latest partition sequence, the visible log) can tell the store from the one
    before it — or, when the append was rejected after a size-based rollover ([roll = true]),
    from the one before it after a sync (see C02_reject_unchanged_rollover_refuted below) *)
Theorem C02_reject_unchanged : forall s t roll big s' r,
  Inv s -> wf_txn t -> append s t roll big = (s', inr r) ->
  abs_all s' = abs_all s /\ (obs_eq s' s \/ (roll = true /\ obs_eq s' (publish s))).
Proof. exact append_reject_obs. Qed.

Theorem C02_reject_unchanged_run : forall ops t roll big s' r,
  Forall wf_op ops -> wf_txn t -> append (run ops) t roll big = (s', inr r) ->
  abs_all s' = abs_all (run ops) /\
  (obs_eq s' (run ops) \/ (roll = true /\ obs_eq s' (publish (run ops)))).
Proof. exact run_append_reject. Qed.

(** without a rollover, or when every earlier append has been acknowledged: nothing observable
    changes at all *)
Theorem C02_reject_unchanged_no_roll : forall s t big s' r,
  Inv s -> wf_txn t -> append s t false big = (s', inr r) -> abs_all s' = abs_all s /\ obs_eq s' s.
Proof. exact append_reject_no_roll. Qed.

Theorem C02_reject_unchanged_quiescent : forall s t roll big s' r,
  Inv s -> wf_txn t -> abs_visible s = abs_all s -> append s t roll big = (s', inr r) -> obs_eq s' s.
Proof. exact append_reject_quiescent. Qed.

(** the gap: the literal "a rejected append changes nothing observable" is FALSE of the model
    (and of the code: handle_append_events rolls over, hence syncs, before handle_write checks
    the expected partition sequence / timestamps): earlier unacknowledged transactions become
    visible at that moment *)
Theorem C02_reject_unchanged_rollover_refuted :
  exists ops t roll big s' r,
    Forall wf_op ops /\ wf_txn t /\ append (run ops) t roll big = (s', inr r) /\
    abs_all s' = abs_all (run ops) /\ abs_visible s' <> abs_visible (run ops) /\
    get_stream_version s' 10 <> get_stream_version (run ops) 10.
Proof. exact reject_rollover_publishes. Qed.

(** an accepted append gets the next partition sequences and stream versions, and after the
    sync the latest-version / latest-sequence queries return them *)
Theorem C02_accept_numbers : forall s t roll big s' evs,
  Inv s -> wf_txn t -> append s t roll big = (s', inl evs) ->
  let E := all_events (abs_all s) in
  let next := next_seq_of E (t_pid t) in
  abs_all s' = abs_all s ++ [evs] /\ good_log (abs_all s') /\ Inv s' /\
  Forall (stamped t) evs /\
  map e_id evs = map n_id (t_events t) /\ map e_sid evs = map n_sid (t_events t) /\
  map e_seq evs = nseq next (length (t_events t)) /\
  (forall i e, nth_error evs i = Some e ->
     e_ver e = next_version (option_map snd (stream_state (E ++ firstn i evs) (e_sid e)))) /\
  (forall sid, get_stream_version (publish s') sid =
               match stream_state evs sid with Some r => Some r | None => stream_state E sid end) /\
  (forall pid, get_partition_sequence (publish s') pid =
               match partition_last evs pid with Some q => Some q | None => partition_last E pid end) /\
  get_partition_sequence (publish s') (t_pid t) = Some (next + N.of_nat (length evs) - 1).
Proof. exact append_accept_numbers. Qed.

Theorem C02_accept_numbers_run : forall ops t roll big s' evs,
  Forall wf_op ops -> wf_txn t -> append (run ops) t roll big = (s', inl evs) ->
  let E := all_events (abs_all (run ops)) in
  let next := next_seq_of E (t_pid t) in
  abs_all s' = abs_all (run ops) ++ [evs] /\ good_log (abs_all s') /\ Inv s' /\
  Forall (stamped t) evs /\
  map e_id evs = map n_id (t_events t) /\ map e_sid evs = map n_sid (t_events t) /\
  map e_seq evs = nseq next (length (t_events t)) /\
  (forall i e, nth_error evs i = Some e ->
     e_ver e = next_version (option_map snd (stream_state (E ++ firstn i evs) (e_sid e)))) /\
  (forall sid, get_stream_version (publish s') sid =
               match stream_state evs sid with Some r => Some r | None => stream_state E sid end) /\
  (forall pid, get_partition_sequence (publish s') pid =
               match partition_last evs pid with Some q => Some q | None => partition_last E pid end) /\
  get_partition_sequence (publish s') (t_pid t) = Some (next + N.of_nat (length evs) - 1).
Proof. exact run_append_accept_numbers. Qed.

(** the latest-version and latest-sequence queries are the reference queries on the visible log *)
Theorem C02_latest_queries : forall s, Inv s ->
  (forall sid, get_stream_version s sid = spec_stream_version (abs_visible s) sid) /\
  (forall pid, get_partition_sequence s pid = spec_partition_sequence (abs_visible s) pid).
Proof. exact latest_queries. Qed.

Theorem C02_latest_queries_run : forall ops, Forall wf_op ops ->
  (forall sid, get_stream_version (run ops) sid = spec_stream_version (abs_visible (run ops)) sid) /\
  (forall pid, get_partition_sequence (run ops) pid = spec_partition_sequence (abs_visible (run ops)) pid).
Proof. exact run_latest_queries. Qed.

(** the writer's lookup chain (pending entries, live index, closed indexes newest first) is the
    reference stream state / next partition sequence: no drift between the three lookups *)
Theorem C02_writer_view : forall s, Inv s ->
  (forall sid, writer_stream s sid = stream_state (all_events (abs_all s)) sid) /\
  (forall pid, writer_next_seq s pid = next_seq_of (all_events (abs_all s)) pid).
Proof. exact writer_view. Qed.

(** the reference log itself stays gapless under accepted appends *)
Theorem C02_spec_gapless : forall l t fits l' evs,
  good_log l -> wf_txn t -> spec_append l t fits = (l', inl evs) ->
  l' = l ++ [evs] /\ good_log l' /\ Forall (stamped t) evs /\
  map e_seq evs = nseq (next_seq_of (all_events l) (t_pid t)) (length (t_events t)) /\
  map e_sid evs = map n_sid (t_events t) /\ map e_id evs = map n_id (t_events t) /\
  fits = true /\ holds (t_xseq t) (partition_last (all_events l) (t_pid t)) = true /\
  forallb n_ts_ok (t_events t) = true.
Proof. exact spec_append_accept. Qed.

(** ** non-vacuity: a history with two streams, a multi-event transaction, a rejected one,
       a rollover, an unsynced transaction *)
Definition x_t1 : txn := mkTxn 7 1 100 true [mkNew 1 10 XEmpty true] XAny.
Definition x_t2 : txn := mkTxn 7 1 101 false
  [mkNew 2 10 (XExact 0) true; mkNew 3 11 XEmpty true; mkNew 4 10 XAny true] (XExact 0).
Definition x_t3 : txn := mkTxn 7 1 102 true [mkNew 5 10 (XExact 0) true] XAny.      (* wrong version *)
Definition x_t4 : txn := mkTxn 7 1 103 true [mkNew 6 11 XExists true] XAny.          (* with a rollover *)
Definition x_t5 : txn := mkTxn 8 1 104 true [mkNew 7 10 XAny true] XAny.             (* wrong partition key *)
Definition x_t6 : txn := mkTxn 7 1 105 false [mkNew 8 10 XAny true; mkNew 9 11 XAny false] XAny. (* bad timestamp *)
Definition x_ops : list op :=
  [OAppend x_t1 false false; OSync; OAppend x_t2 false false; OAppend x_t3 false false;
   OAppend x_t4 true false; OAppend x_t5 false false; OAppend x_t6 false false].

Example C02_example_wf : Forall wf_op x_ops.
Proof. repeat constructor; try discriminate. Qed.

Example C02_example_answers :
  map (fun o => match o with OAppend t roll big => Some (snd (append (run []) t roll big)) | _ => None end)
      [OAppend x_t1 false false]
  = [Some (inl [mkEvent 1 7 1 100 true 0 10 0])] /\
  snd (append (run [OAppend x_t1 false false; OSync]) x_t2 false false)
  = inl [mkEvent 2 7 1 101 false 1 10 1; mkEvent 3 7 1 101 false 2 11 0; mkEvent 4 7 1 101 false 3 10 2] /\
  snd (append (run (firstn 3 x_ops)) x_t3 false false) = inr (WrongVersion 10 (Some 2) (XExact 0)) /\
  snd (append (run (firstn 4 x_ops)) x_t4 true false) = inl [mkEvent 6 7 1 103 true 4 11 1] /\
  snd (append (run (firstn 5 x_ops)) x_t5 false false) = inr (KeyMismatch 7 8) /\
  snd (append (run (firstn 6 x_ops)) x_t6 false false) = inr BadTimestamp /\
  abs_all (run x_ops) =
    [[mkEvent 1 7 1 100 true 0 10 0];
     [mkEvent 2 7 1 101 false 1 10 1; mkEvent 3 7 1 101 false 2 11 0; mkEvent 4 7 1 101 false 3 10 2];
     [mkEvent 6 7 1 103 true 4 11 1]] /\
  abs_visible (run x_ops) = firstn 2 (abs_all (run x_ops)) /\
  length (sealed (run x_ops)) = 1%nat /\
  get_stream_version (publish (run x_ops)) 11 = Some (7, 1) /\
  get_partition_sequence (publish (run x_ops)) 1 = Some 4.
Proof. vm_compute. repeat split; reflexivity. Qed.

Print Assumptions C02_reachable_inv.
Print Assumptions C02_accept_iff.
Print Assumptions C02_accept_iff_step.
Print Assumptions C02_reject_unchanged.
Print Assumptions C02_reject_unchanged_run.
Print Assumptions C02_reject_unchanged_no_roll.
Print Assumptions C02_reject_unchanged_quiescent.
Print Assumptions C02_reject_unchanged_rollover_refuted.
Print Assumptions C02_accept_numbers.
Print Assumptions C02_accept_numbers_run.
Print Assumptions C02_latest_queries.
Print Assumptions C02_latest_queries_run.
Print Assumptions C02_writer_view.
Print Assumptions C02_spec_gapless.
