(** C14 — every partition has exactly min(rf, N) distinct replicas, a node owns a partition iff it is in the
    partition's replica set, and the replica sets and the coordinator order depend only on the live members a
    node knows, not on the order in which it learnt them.
    This file holds only the property theorems; each is closed by an exact lemma of Proofs/PlacementProofs.v.

    [Reach W l s] (Model/Placement.v): s is a state of peer l's TopologyManager after ANY finite sequence of
    connects, heartbeats, disconnects, timeouts and ownership responses, the responses coming from any reachable
    state of any node of the same world W (arbitrary delay, duplication, reordering). A world fixes the
    configuration (N, B, P, rf) and each peer's configured index and start time; [wf_world]: N > 0, B > 0 and
    distinct peers have distinct configured indices. A step that panics in the code is undefined in the model,
    so Reach only contains histories in which the code did not panic; C14_no_panic shows that is every
    history when min(rf, N) <= 12 and C14_capacity_refuted that it is not when min(rf, N) = 13. *)
From Coq Require Import NArith List.
From SV Require Import Model.Topology Model.Placement Proofs.PlacementProofs Proofs.MembershipProofs.
Import ListNotations.
Open Scope N_scope.

(* every cluster size, bucket/partition count, rf; every history: once every configured node is live, every
   partition has exactly min(rf, N) pairwise distinct replicas, and a live node is in the replica list of q
   iff calculate_assigned_partitions gives q to that node's index *)
Theorem C14_count : forall W l s, wf_world W -> current_code (w_cfg W) -> Reach W l s ->
  (forall i, i < c_n (w_cfg W) -> exists x a, In (x, (a, i)) (ts_active s)) ->
  forall q, q < c_p (w_cfg W) ->
    let c := w_cfg W in
    let r := nth (N.to_nat q) (ts_replicas s) [] in
    length r = N.to_nat (N.min (c_rf c) (c_n c)) /\ NoDup r /\
    (forall x a i, In (x, (a, i)) (ts_active s) ->
       (In x r <-> In q (topo_assigned (c_n c) (c_b c) (c_p c) (c_rf c) i))).
Proof. exact count_full. Qed.

(* the pure part, for every n, b, rf, q: the replica walk has min(rf, n) distinct indices below n, and node i
   is given partition q iff the walk of q reaches i *)
Theorem C14_window : forall n b p rf q i, 0 < n -> 0 < b ->
  length (replica_indices RfWide n b rf q) = N.to_nat (N.min rf n) /\
  NoDup (replica_indices RfWide n b rf q) /\
  (forall j, In j (replica_indices RfWide n b rf q) -> j < n) /\
  (In q (topo_assigned n b p rf i) <-> q < p /\ In i (replica_indices RfWide n b rf q)).
Proof. exact window_facts. Qed.

(* two managers (of the same node or of different nodes) that know the same live members hold the same
   replica lists and return the same coordinator order for every partition, whatever their histories *)
Theorem C14_order_independent : forall W l1 l2 s1 s2, wf_world W -> c_resp (w_cfg W) = RespRecalc ->
  Reach W l1 s1 -> Reach W l2 s2 -> same_members s1 s2 ->
  ts_replicas s1 = ts_replicas s2 /\ forall q, available s1 q = available s2 q.
Proof. exact order_independent. Qed.

(* no step panics when min(rf, N) <= 12 (12 = MAX_REPLICATION_FACTOR, the ArrayVec capacity) *)
Theorem C14_no_panic : forall c l s x a i v, 0 < c_b c -> 0 < c_n c -> eff_rf (c_mode c) (c_rf c) (c_n c) <= MAX_RF ->
  t_init c l <> None /\ t_connect c s x a i <> None /\ t_heartbeat c s x a i <> None /\
  t_disconnect c s x <> None /\ t_timeout c l s x <> None /\ t_response c l s v <> None.
Proof. exact steps_total. Qed.

(* known finding (class rf-over-capacity): rf = 13 on 13 live nodes overflows the 12-slot replica list *)
Theorem C14_capacity_refuted :
  let c := {| c_n := 13; c_b := 4; c_p := 4; c_rf := 13; c_mode := RfWide; c_resp := RespRecalc |} in
  recalc c (full_members 13 (fun i => i) (fun _ => 5)) (nrange 13) = None.
Proof. exact capacity_refuted. Qed.

(* history: `rf.min(N as u8)` was right below 256 nodes and gave no replicas at all at 256 *)
Theorem C14_u8_ok_below_256 : forall rf n, n < 256 -> eff_rf RfU8 rf n = eff_rf RfWide rf n.
Proof. exact u8_same_below_256. Qed.

Theorem C14_u8_refuted_256 : forall b p rf i, 0 < b ->
  topo_assigned_gen RfU8 256 b p rf i = Some [] /\ forall q, replica_indices RfU8 256 b rf q = [].
Proof. exact u8_refuted_256. Qed.

(* history: when an ownership response was kept without recalculating, node 0 of a 3-node cluster that knew
   {0,1,2} held replicas [0;1;2] or [1;2] for the same membership, depending on whether node 1's (older)
   response reached it *)
Theorem C14_order_refuted_before_fix : exists s1 s2,
  wf_world W_keep /\ Reach W_keep 0 s1 /\ Reach W_keep 0 s2 /\ same_members s1 s2 /\
  nth 0 (ts_replicas s1) [] = [0; 1; 2] /\ nth 0 (ts_replicas s2) [] = [1; 2].
Proof. exact order_refuted_keep. Qed.

(* non-vacuity: the same history on the current code: two different routes to the same membership (one
   through another node's ownership response), all three nodes live, same replicas *)
Example C14_example : exists s1 s2,
  wf_world W_now /\ current_code (w_cfg W_now) /\ Reach W_now 0 s1 /\ Reach W_now 0 s2 /\ same_members s1 s2 /\
  ts_active s1 <> ts_active s2 /\
  (forall i, i < 3 -> exists x a, In (x, (a, i)) (ts_active s2)) /\
  nth 0 (ts_replicas s1) [] = [0; 1; 2] /\ nth 0 (ts_replicas s2) [] = [0; 1; 2].
Proof. exact order_example_now. Qed.

(* "the live members a node knows" is a function of what it heard: after ANY history of connects, heartbeats,
   disconnects and time-outs (every configuration, every starting state, every peer y) the manager knows y iff
   the specification [heard] says so: y's last event was a connect or a heartbeat (or there was none and it was
   known before); a time-out of the node itself changes nothing. Two managers that heard the same therefore know
   the same members, and C14_order_independent gives them the same replica sets and coordinator order. *)
Theorem C14_membership : forall c l es s s', m_run c l s es = Some s' ->
  forall y, knows s' y = heard (l_peer l) (knows s) es y.
Proof. exact membership_heard. Qed.

Theorem C14_membership_init : forall c l s, t_init c l = Some s -> forall y, knows s y = N.eqb (l_peer l) y.
Proof. exact init_knows. Qed.

(* a peer that timed out and is heard again is known again *)
Theorem C14_heard_again : forall c l s x a i a' i' s', x <> l_peer l ->
  m_run c l s [MConnect x a i; MTimeout x; MHeartbeat x a' i'] = Some s' -> knows s' x = true.
Proof. exact heard_again. Qed.

Example C14_heard_again_example :
  exists s0 s', t_init (w_cfg W_now) (local_of W_now 0) = Some s0 /\
    m_run (w_cfg W_now) (local_of W_now 0) s0 [MConnect 1 5 1; MTimeout 1; MHeartbeat 1 5 1] = Some s' /\
    knows s' 1 = true /\ knows s' 2 = false /\ knows s' 0 = true.
Proof. exact heard_again_example. Qed.

Print Assumptions C14_count.
Print Assumptions C14_window.
Print Assumptions C14_order_independent.
Print Assumptions C14_no_panic.
Print Assumptions C14_capacity_refuted.
Print Assumptions C14_u8_ok_below_256.
Print Assumptions C14_u8_refuted_256.
Print Assumptions C14_order_refuted_before_fix.
Print Assumptions C14_membership.
Print Assumptions C14_membership_init.
Print Assumptions C14_heard_again.
