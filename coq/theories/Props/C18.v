(** C18 — segment-log readers never serve stale or unflushed data.
    Only property theorems; each is closed by a lemma of Proofs/SeglogProofs.v.
    The system: one writer (with std's BufWriter made explicit) and any number of readers sharing its flushed
    offset (Model/Seglog.v: [sl_step]); histories are arbitrary lists of operations
      append / flush_writer / sync / set_len / enable|disable compression /
      new reader / try_clone / read_record(Random|Sequential) / iterate / replace_header.
    The specification ([spec_step]) is a function of the operations alone: the list of live records, the write
    offset and the flushed offset.
    The theorems hold for every history that is well-typed ([wf_ops]) and contains none of the two situations
    that remain defective on the repaired tree ([known_free], see the known findings):
      - set_len to an offset below the end of some reader's cached window,
      - replace_header through one reader while another reader's cached window overlaps the bytes written.
    C18_known_refuted exhibits both on the model; the same histories are replayed on the real code in corpus/C18. *)
From Coq Require Import NArith List Lia Bool.
From SV Require Import Model.Crc32 Model.Seglog Proofs.SeglogProofs.
Import ListNotations.
Open Scope N_scope.

(* a read (either hint, through any reader, however long it has lived and whatever it read before) at the start
   of a live record returns exactly the record most recently written there when it is fully below the flushed
   offset, and a bounds error otherwise *)
Theorem C18_read_exact : forall H compress decompress size start ops,
  codec_ok compress decompress -> start <= size ->
  wf_ops H compress (spec_init size start) ops ->
  known_free H compress decompress (sl_init size start) ops = true ->
  let s := fst (sl_run H compress decompress (sl_init size start) ops) in
  let sp := spec_run H compress (spec_init size start) ops in
  forall r ra rec seq, nth_error (s_readers s) r = Some ra -> In rec (sp_log sp) ->
  snd (read_record H decompress (w_file (s_w s)) (w_flushed (s_w s)) ra (a_off rec) seq) = spec_read H compress sp rec.
Proof. exact c18_read_exact. Qed.

(* no returned byte lies at or beyond the flushed offset: at ANY offset a read is a function of the first
   [flushed] bytes of the file (the view), whatever the file holds beyond and whatever the reader cached before *)
Theorem C18_no_unflushed : forall H compress decompress size start ops,
  codec_ok compress decompress -> start <= size ->
  wf_ops H compress (spec_init size start) ops ->
  known_free H compress decompress (sl_init size start) ops = true ->
  let s := fst (sl_run H compress decompress (sl_init size start) ops) in
  forall r ra off seq, nth_error (s_readers s) r = Some ra ->
  snd (read_record H decompress (w_file (s_w s)) (w_flushed (s_w s)) ra off seq) =
  decode_view H decompress (dropN off (takeN (w_flushed (s_w s)) (w_file (s_w s)))).
Proof. exact c18_no_unflushed. Qed.

(* iteration from a record start yields exactly the flushed live records met by following the lengths, and
   ends cleanly ([spec_iter] is [None] only when the walk leaves the live records, which needs a truncation to
   an offset that is not a record start) *)
Theorem C18_iter_exact : forall H compress decompress size start ops,
  codec_ok compress decompress -> start <= size ->
  wf_ops H compress (spec_init size start) ops ->
  known_free H compress decompress (sl_init size start) ops = true ->
  let s := fst (sl_run H compress decompress (sl_init size start) ops) in
  let sp := spec_run H compress (spec_init size start) ops in
  forall r ra off l, nth_error (s_readers s) r = Some ra ->
  spec_iter H compress (scan_fuel (w_flushed (s_w s))) sp off = Some l ->
  exists ra' o, iter_all H decompress (w_file (s_w s)) (w_flushed (s_w s)) ra off = (ra', l, o, TEnd).
Proof. exact c18_iter_exact. Qed.

(* when truncations are aimed at record starts (what sierradb does) the live records tile the written region:
   iteration from the start of ANY live record yields exactly the flushed records from there on, and ends cleanly *)
Theorem C18_iter_flushed : forall H compress decompress size start ops,
  codec_ok compress decompress -> start <= size ->
  wf_ops H compress (spec_init size start) ops ->
  known_free H compress decompress (sl_init size start) ops = true ->
  boundary_ops H compress (spec_init size start) ops ->
  let s := fst (sl_run H compress decompress (sl_init size start) ops) in
  let sp := spec_run H compress (spec_init size start) ops in
  forall r ra rec, nth_error (s_readers s) r = Some ra -> In rec (sp_log sp) ->
  exists ra' o, iter_all H decompress (w_file (s_w s)) (w_flushed (s_w s)) ra (a_off rec) =
                (ra', flushed_from H compress sp (a_off rec), o, TEnd).
Proof. exact c18_iter_flushed. Qed.

(* the writer's bookkeeping agrees with the specification: write offset, flushed offset (never above the write
   offset, never above what is physically in the file) *)
Theorem C18_offsets : forall H compress decompress size start ops,
  codec_ok compress decompress -> start <= size ->
  wf_ops H compress (spec_init size start) ops ->
  known_free H compress decompress (sl_init size start) ops = true ->
  let s := fst (sl_run H compress decompress (sl_init size start) ops) in
  let sp := spec_run H compress (spec_init size start) ops in
  w_off (s_w s) = sp_off sp /\ w_flushed (s_w s) = sp_flushed sp /\
  w_flushed (s_w s) <= w_cursor (s_w s) /\ w_cursor (s_w s) + lenN (w_buf (s_w s)) = w_off (s_w s) /\
  w_off (s_w s) <= w_size (s_w s).
Proof. exact c18_offsets. Qed.

(** ** the two known findings, on the model (H = 0, no compression involved) *)
(* wit_id / wit_some: the identity codec; wit_hist_setlen / wit_hist_replace / wit_hist_ok: the histories below
   (Proofs/SeglogProofs.v):
   wit_hist_setlen  = [ONewReader; OAppend [] "first"; OAppend [] "OLD-22"; OSync; ORead 0 0 Sequential;
                       OSetLen 13; OAppend [] "NEW"; OSync]        then: read 13 Sequential through reader 0
   wit_hist_replace = [ONewReader; ONewReader; OAppend [1;1] "data"; OSync; ORead 1 0 Sequential; OReplace 0 0 [2;2]]
                                                                     then: read 0 Sequential through reader 1 *)
Theorem C18_known_refuted :
  (let s := fst (sl_run 0 wit_id wit_some (sl_init 4096 0) wit_hist_setlen) in
   let sp := spec_run 0 wit_id (spec_init 4096 0) wit_hist_setlen in
   wf_ops 0 wit_id (spec_init 4096 0) wit_hist_setlen /\
   known_free 0 wit_id wit_some (sl_init 4096 0) wit_hist_setlen = false /\
   exists ra rec, nth_error (s_readers s) 0 = Some ra /\ In rec (sp_log sp) /\ a_off rec = 13 /\
     spec_read 0 wit_id sp rec = ROk (a_expect 0 wit_id rec) /\
     snd (read_record 0 wit_some (w_file (s_w s)) (w_flushed (s_w s)) ra 13 true) <> spec_read 0 wit_id sp rec) /\
  (let s := fst (sl_run 2 wit_id wit_some (sl_init 4096 0) wit_hist_replace) in
   let sp := spec_run 2 wit_id (spec_init 4096 0) wit_hist_replace in
   wf_ops 2 wit_id (spec_init 4096 0) wit_hist_replace /\
   known_free 2 wit_id wit_some (sl_init 4096 0) wit_hist_replace = false /\
   exists ra rec, nth_error (s_readers s) 1 = Some ra /\ In rec (sp_log sp) /\ a_off rec = 0 /\
     r_hdr (a_expect 2 wit_id rec) = [2;2] /\
     snd (read_record 2 wit_some (w_file (s_w s)) (w_flushed (s_w s)) ra 0 true) <> spec_read 2 wit_id sp rec).
Proof. exact c18_known_witness. Qed.

(** ** non-vacuity: a history with every kind of operation that satisfies the hypotheses, and what the
    theorems give for it *)
Example C18_ex_hyps :
  codec_ok wit_id wit_some /\
  wf_ops 2 wit_id (spec_init 4096 0) wit_hist_ok /\
  known_free 2 wit_id wit_some (sl_init 4096 0) wit_hist_ok = true.
Proof. exact (conj wit_id_codec_ok c18_ex_hyps_ok). Qed.
Example C18_ex_iter :
  let sp := spec_run 2 wit_id (spec_init 4096 0) wit_hist_ok in
  option_map (map fst) (spec_iter 2 wit_id (scan_fuel (sp_flushed sp)) sp 0) = Some [0; 13; 25].
Proof. vm_compute. reflexivity. Qed.

Print Assumptions C18_read_exact.
Print Assumptions C18_no_unflushed.
Print Assumptions C18_iter_exact.
Print Assumptions C18_iter_flushed.
Print Assumptions C18_known_refuted.
