(** Extraction of the executable models. Only ExtrOcamlBasic is used:
    bool, option, unit, list, prod, sumbool, sumor map to OCaml's; andb/orb inlined.
    nat, positive, N, Z, ascii stay inductive. No Extract Constant of our own. *)
Require Extraction.
From Coq Require Import ExtrOcamlBasic.
From Coq Require Import ZArith NArith.
From SV Require Import Extract.Imports.
Extraction Language OCaml.
Set Extraction KeepSingleton.
Extraction "svmodel.ml" BinInt.Z.add BinNat.N.add
  Topology.distribute Topology.distribute_gen.
