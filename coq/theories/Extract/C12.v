(** Extraction for C12. Only ExtrOcamlBasic: bool, option, unit, list, prod, sumbool, sumor map to
    OCaml's; andb/orb inlined. nat, positive, N, Z stay inductive. No Extract Constant of our own. *)
Require Extraction.
From Coq Require Import ExtrOcamlBasic ZArith NArith.
From SV Require Import Model.Replicator.
Extraction Language OCaml.
Extraction "c12_model.ml" BinInt.Z.add BinNat.N.add
  rq_new rq_insert rq_pop rq_progress rq_insert_orig rq_progress_orig
  rtq_new rtq_insert rtq_pop rtq_progress rtq_handle_timeout
  r_init r_step r_run r_map r_next.
