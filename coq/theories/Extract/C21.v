(** Extraction for C21. Only ExtrOcamlBasic; string/ascii/N stay inductive. No Extract Constant of our own. *)
Require Extraction.
From Coq Require Import ExtrOcamlBasic ZArith NArith String.
From SV Require Import Model.Parser.
Extraction Language OCaml.
Extraction "c21_model.ml" BinInt.Z.add BinNat.N.add parse_command upper_ascii trim utf8_valid dec client_tokens client_command.
