(** Extraction for C09 (subscription transition system). Only ExtrOcamlBasic. *)
Require Extraction.
From Coq Require Import ExtrOcamlBasic ZArith NArith.
From SV Require Import Model.Subscription.
Extraction Language OCaml.
Extraction "c09_model.ml" BinInt.Z.add BinNat.N.add sb_init sb_step sb_run sb_next sb_settle sb_do sb_wait dpos klog.
