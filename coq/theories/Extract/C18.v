(** Extraction for C18 (seglog writer + readers state machine). Only ExtrOcamlBasic; no Extract Constant of our own. *)
Require Extraction.
From Coq Require Import ExtrOcamlBasic ZArith NArith.
From SV Require Import Model.Crc32 Model.Seglog.
Extraction Language OCaml.
Extraction "c18_model.ml" BinInt.Z.add BinNat.N.add
  crc32 lenN takeN dropN sl_init sl_step sl_run op_known known_free.
