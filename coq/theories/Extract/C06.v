(** Extraction for C06. ExtrOcamlBasic only. *)
Require Extraction.
From Coq Require Import ExtrOcamlBasic ZArith NArith.
From SV Require Import Model.IndexFiles.
Extraction Language OCaml.
Extraction "c06_model.ml" BinInt.Z.add BinNat.N.add
  open_sealed open_sealed_v0 closed_open hydrate_from seg_committed count find_by_id find_by_stream find_by_partition
  eidx_lookup_v0 pidx_lookup_v0 sidx_lookup_v0 rseg_of.
