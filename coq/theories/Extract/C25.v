(** Extraction for C25 (see Extract/C24.v for the conventions). *)
Require Extraction.
From Coq Require Import ExtrOcamlBasic ZArith NArith.
From SV Require Import Model.Version.
Extraction Language OCaml.
Extraction "c25_model.ml" BinInt.Z.add BinNat.N.add
  is_satisfied_by gap_from gap_from_gen from_next_version into_next_version cv_next as_expected_version cv_add
  display_ev display_cv parse_ev parse_cv append_tx db_of_list accepts.
