(** Extraction for C22. Only ExtrOcamlBasic: bool, option, unit, list, prod, sumbool, sumor map to
    OCaml's; andb/orb inlined. nat, positive, N, Z stay inductive. No Extract Constant of our own. *)
Require Extraction.
From Coq Require Import ExtrOcamlBasic ZArith NArith.
From SV Require Import Model.StoreSpec Model.Resp.
Extraction Language OCaml.
Extraction "c22_model.ml" BinInt.Z.add BinNat.N.add BinNat.N.div BinNat.N.modulo
  rs_init rs_handle rs_confirm rs_confirm_upto rs_next_seq rs_run rs_bucket rs_pid rs_hash rs_gen_id.
