(** Extraction for the storage-engine properties (C01-C06, C15, C16, C19). ExtrOcamlBasic only. *)
Require Extraction.
From Coq Require Import ExtrOcamlBasic ZArith NArith.
From SV Require Import Model.StoreIter.
Extraction Language OCaml.
Extraction "store_model.ml" BinInt.Z.add BinNat.N.add
  store_init append publish reopen crash rollover
  read_transaction read_event get_stream_version get_partition_sequence
  scan committed_events abs_all abs_visible spec_append
  spec_read_event spec_stream_version spec_partition_sequence
  spec_scan_stream_fwd spec_scan_partition_fwd spec_scan_stream_rev spec_scan_partition_rev.
