(** Extraction for C10 and C11 (one protocol model). Only ExtrOcamlBasic; nat, positive, N stay inductive. *)
Require Extraction.
From Coq Require Import ExtrOcamlBasic ZArith NArith.
From SV Require Import Model.Replication.
Extraction Language OCaml.
Extraction "c10_model.ml" BinInt.Z.add BinNat.N.add
  quorum cnt0 log_next db_append db_setcnt db_find wm_ideal
  rp_deliver rp_sync rp_tick ns_boot n_replicate n_confirm n_sync_serve n_sync_resp n_tick
  n_client n_rep_reply n_finish1 n_finish2 n_timeout n_expire
  ns_with_wm ns_with_log ns_with_rp_log
  g_init g_step g_run holders orc_harness y_settle.
