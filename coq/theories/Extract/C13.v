(** Extraction for C13. Only ExtrOcamlBasic; no Extract Constant of our own. *)
Require Extraction.
From Coq Require Import ExtrOcamlBasic ZArith NArith.
From SV Require Import Model.Placement.
Extraction Language OCaml.
Extraction "c13_model.ml" BinInt.Z.add BinNat.N.add cfg_validate cfg_buckets cfg_partitions topo_assigned_gen topo_routed cfg_buckets_contig.
