(** Extraction for C26 (circuit breaker transition system). Only ExtrOcamlBasic. *)
Require Extraction.
From Coq Require Import ExtrOcamlBasic ZArith NArith.
From SV Require Import Model.Breaker.
Extraction Language OCaml.
Extraction "c26_model.ml" BinInt.Z.add BinNat.N.add brun bexec binit opens_ok brun_codes.
