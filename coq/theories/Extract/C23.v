(** Extraction for C23 (see Extract/C24.v for the conventions). *)
Require Extraction.
From Coq Require Import ExtrOcamlBasic ZArith NArith.
From SV Require Import Model.Ids.
Extraction Language OCaml.
Extraction "c23_model.ml" BinInt.Z.add BinNat.N.add
  mk_id hash_of ts_of r12_of version_of variant_of r46_of validate_event_id set_flag get_flag
  extract_event_id_bucket partition_id_to_bucket primary_partition_id bucket_of_partition tx_new.
