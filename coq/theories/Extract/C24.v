(** Extraction for C24. Only ExtrOcamlBasic: bool, option, unit, list, prod, sumbool, sumor map to
    OCaml's; andb/orb inlined. nat, positive, N, Z, ascii stay inductive. No Extract Constant of our own. *)
Require Extraction.
From Coq Require Import ExtrOcamlBasic ZArith NArith.
From SV Require Import Model.Topology.
Extraction Language OCaml.
Extraction "c24_model.ml" BinInt.Z.add BinNat.N.add distribute distribute_gen.
