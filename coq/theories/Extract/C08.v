(** Extraction for C08. Only ExtrOcamlBasic; nat, positive, N stay inductive. *)
Require Extraction.
From Coq Require Import ExtrOcamlBasic ZArith NArith.
From SV Require Import Model.Watermark.
Extraction Language OCaml.
Extraction "c08_model.ml" BinInt.Z.add BinNat.N.add BinNat.N.sub
  wm_init wm_update_gen wm_trace_gen wm_run_gen mg_run mg_init wm_persist_steps wm_persist wm_load wm_restart wm_dir_empty wf_exists.
