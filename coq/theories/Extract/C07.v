(** Extraction for C07. Only ExtrOcamlBasic; nat, positive, N stay inductive. *)
Require Extraction.
From Coq Require Import ExtrOcamlBasic ZArith NArith.
From SV Require Import Model.Watermark Model.ClusterRead.
Extraction Language OCaml.
Extraction "c07_model.ml" BinInt.Z.add BinNat.N.add BinNat.N.sub
  wm_init wm_initialize wm_quorum
  partition_read stream_read read_event stream_version partition_sequence
  cr_live_state cr_confirm_reports wm_step
  cr_counts cr_partition_commits cr_stream_commits cr_stream_rev_commits cr_event_at.
