(** one place that re-exports every executable model (used by cases.v and Extract.v) *)
From SV Require Export Model.Topology.
