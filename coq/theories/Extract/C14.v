(** Extraction for C14. Only ExtrOcamlBasic; no Extract Constant of our own. *)
Require Extraction.
From Coq Require Import ExtrOcamlBasic ZArith NArith.
From SV Require Import Model.Placement.
Extraction Language OCaml.
Extraction "c14_model.ml" BinInt.Z.add BinNat.N.add nrange topo_assigned_gen replica_indices recalc mk_recalc
  t_init t_connect t_heartbeat t_disconnect t_timeout t_response view_of available full_members alookup.
