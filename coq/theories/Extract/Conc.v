(** Extraction for the concurrency properties (C15, C16, C20). ExtrOcamlBasic only. *)
Require Extraction.
From Coq Require Import ExtrOcamlBasic ZArith NArith.
From SV Require Import Model.Interleave Model.SyncWatch.
Extraction Language OCaml.
Extraction "conc_model.ml" BinInt.Z.add BinNat.N.add
  spec_append spec_read_event spec_stream_version spec_partition_sequence spec_scan_stream_fwd
  bucket_of thread_of fib_lo fib_size
  csys_init csys_step spec_serial
  rsys_init rsys_step rs_locked rs_view read_version read_sequence read_event2
  sw_init sw_step poll_ok covered sw_cur_val chan_val.
