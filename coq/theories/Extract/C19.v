(** Extraction for C19. ExtrOcamlBasic only. *)
Require Extraction.
From Coq Require Import ExtrOcamlBasic ZArith NArith.
From SV Require Import Model.ByteLayout.
Extraction Language OCaml.
Extraction "c19_model.ml" BinInt.Z.add BinNat.N.add
  bl_append bl_append_v0 bl_attempts bl_init bl_rollover bl_with_wo estimate actual fitsb known_c19b.
