(** Extraction for C17 (and the shared seglog model). Only ExtrOcamlBasic; no Extract Constant of our own. *)
Require Extraction.
From Coq Require Import ExtrOcamlBasic ZArith NArith.
From SV Require Import Model.Crc32 Model.Seglog.
Extraction Language OCaml.
Extraction "c17_model.ml" BinInt.Z.add BinNat.N.add
  crc32 calculate_crc lenN takeN dropN write_at zerosN
  prepare_data encode_record parse_record parse_record_full parse_record_orig
  read_random read_seq read_record iter_all writer_open_offset ra_empty
  writer_create writer_append writer_sync writer_set_len bw_flush.
