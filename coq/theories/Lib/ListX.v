From Coq Require Import List Lia.
Import ListNotations.

Lemma NoDup_app_one {A} (l : list A) (x : A) : NoDup l -> ~ In x l -> NoDup (l ++ [x]).
Proof.
  induction l as [|y l IH]; intros Hnd Hx; cbn.
  - constructor; [intros []|constructor].
  - inversion Hnd as [|? ? Hy Hl]; subst. constructor.
    + intros Hin. apply in_app_or in Hin. destruct Hin as [Hin|[->|[]]]; [contradiction|].
      apply Hx. left. reflexivity.
    + apply IH; [assumption|]. intros Hin. apply Hx. right. assumption.
Qed.

Lemma firstn_map {A B} (f : A -> B) n l : firstn n (map f l) = map f (firstn n l).
Proof. revert l; induction n as [|n IH]; intros [|x l]; cbn; try reflexivity. rewrite IH. reflexivity. Qed.

Lemma firstn_seq n m s : (n <= m)%nat -> firstn n (seq s m) = seq s n.
Proof.
  revert m s; induction n as [|n IH]; intros m s H; [reflexivity|].
  destruct m as [|m]; [lia|]. cbn. rewrite IH by lia. reflexivity.
Qed.
