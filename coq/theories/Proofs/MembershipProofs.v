(** Which members a TopologyManager knows after a history of local membership events (connect, heartbeat,
    disconnect, time-out; no ownership responses): exactly itself-as-initialised plus every peer whose LAST event
    was a connect or a heartbeat. This is the rule the C14 monitor applies to the real manager. *)
From Coq Require Import NArith List Bool Lia.
From SV Require Import Model.Topology Model.Placement Proofs.PlacementProofs.
Import ListNotations.
Open Scope N_scope.

Inductive mev := MConnect (x a i : N) | MHeartbeat (x a i : N) | MDisconnect (x : N) | MTimeout (x : N).

Definition m_step (c : tcfg) (l : tlocal) (s : tstate) (e : mev) : option tstate :=
  match e with
  | MConnect x a i => t_connect c s x a i
  | MHeartbeat x a i => t_heartbeat c s x a i
  | MDisconnect x => t_disconnect c s x
  | MTimeout x => t_timeout c l s x
  end.

Fixpoint m_run (c : tcfg) (l : tlocal) (s : tstate) (es : list mev) : option tstate :=
  match es with
  | [] => Some s
  | e :: r => match m_step c l s e with Some s' => m_run c l s' r | None => None end
  end.

Definition knows (s : tstate) (y : N) : bool :=
  match alookup y (ts_active s) with Some _ => true | None => false end.

(* the specification: what a node has heard *)
Definition heard_step (self : N) (k : N -> bool) (e : mev) : N -> bool :=
  fun y => match e with
  | MConnect x _ _ => (x =? y) || k y
  | MHeartbeat x _ _ => (x =? y) || k y
  | MDisconnect x => negb (x =? y) && k y
  | MTimeout x => if x =? self then k y else negb (x =? y) && k y
  end.
Definition heard (self : N) (k : N -> bool) (es : list mev) : N -> bool := fold_left (heard_step self) es k.

Lemma alookup_aremove x y l : alookup y (aremove x l) = if x =? y then None else alookup y l.
Proof.
  induction l as [|[k v] r IH]; cbn [aremove filter alookup fst].
  - destruct (x =? y); reflexivity.
  - fold (aremove x r). destruct (N.eqb_spec k x) as [Ekx|Ekx]; cbn [negb].
    + rewrite IH. subst k. destruct (N.eqb_spec x y); reflexivity.
    + cbn [alookup]. rewrite IH. destruct (N.eqb_spec k y) as [Eky|Eky]; [|reflexivity].
      destruct (N.eqb_spec x y); [congruence|reflexivity].
Qed.

Lemma alookup_aset x v y l : alookup y (aset x v l) = if x =? y then Some v else alookup y l.
Proof.
  unfold aset; cbn [alookup]. destruct (N.eqb_spec x y) as [E|E]; [reflexivity|].
  rewrite alookup_aremove. destruct (N.eqb_spec x y); [congruence|reflexivity].
Qed.

Lemma mk_recalc_active c act cl s : mk_recalc c act cl = Some s -> ts_active s = act.
Proof. intros H. apply mk_recalc_inv in H. tauto. Qed.

Lemma knows_aset s' s x v y : ts_active s' = aset x v (ts_active s) -> knows s' y = (x =? y) || knows s y.
Proof. intros H. unfold knows. rewrite H, alookup_aset. destruct (x =? y); reflexivity. Qed.

Lemma knows_aremove s' s x y : ts_active s' = aremove x (ts_active s) -> knows s' y = negb (x =? y) && knows s y.
Proof. intros H. unfold knows. rewrite H, alookup_aremove. destruct (x =? y); reflexivity. Qed.

Lemma m_step_knows c l s e s' : m_step c l s e = Some s' ->
  forall y, knows s' y = heard_step (l_peer l) (knows s) e y.
Proof.
  intros H y. destruct e as [x a i|x a i|x|x]; cbn [m_step heard_step] in *.
  - unfold t_connect in H. apply mk_recalc_active in H. eapply knows_aset; exact H.
  - unfold t_heartbeat in H. destruct (alookup x (ts_active s)) as [[a0 i0]|] eqn:Ex.
    + destruct (i0 =? i).
      * inversion H; subst s'; clear H. unfold knows; cbn [ts_active].
        destruct (N.eqb_spec x y) as [E|E]; [subst y; rewrite Ex; reflexivity|reflexivity].
      * apply mk_recalc_active in H. eapply knows_aset; exact H.
    + apply mk_recalc_active in H. eapply knows_aset; exact H.
  - unfold t_disconnect in H. apply mk_recalc_active in H. eapply knows_aremove; exact H.
  - unfold t_timeout in H. destruct (x =? l_peer l).
    + inversion H; reflexivity.
    + destruct (alookup x (ts_active s)) as [v|] eqn:Ex.
      * apply mk_recalc_active in H. eapply knows_aremove; exact H.
      * inversion H; subst s'; clear H. unfold knows.
        destruct (N.eqb_spec x y) as [E|E]; [subst y; rewrite Ex; reflexivity|reflexivity].
Qed.

Lemma heard_step_ext self k1 k2 e : (forall y, k1 y = k2 y) -> forall y, heard_step self k1 e y = heard_step self k2 e y.
Proof. intros H y. destruct e; cbn [heard_step]; rewrite H; reflexivity. Qed.

Lemma heard_ext self es : forall k1 k2, (forall y, k1 y = k2 y) -> forall y, heard self k1 es y = heard self k2 es y.
Proof.
  induction es as [|e r IH]; intros k1 k2 H y; cbn [heard fold_left]; [apply H|].
  apply IH. apply heard_step_ext, H.
Qed.

(* every history of local membership events, every configuration, every starting state *)
Lemma membership_heard c l : forall es s s', m_run c l s es = Some s' ->
  forall y, knows s' y = heard (l_peer l) (knows s) es y.
Proof.
  induction es as [|e r IH]; intros s s' H y; cbn [m_run] in H.
  - inversion H; reflexivity.
  - destruct (m_step c l s e) as [s1|] eqn:E1; [|discriminate].
    cbn [heard fold_left]. rewrite (IH _ _ H y).
    apply heard_ext. intros z. eapply m_step_knows; exact E1.
Qed.

Lemma init_knows c l s : t_init c l = Some s -> forall y, knows s y = (l_peer l =? y).
Proof.
  unfold t_init. destruct (topo_assigned_gen _ _ _ _ _ _); [|discriminate].
  intros H y. apply mk_recalc_active in H. unfold knows. rewrite H. cbn [alookup].
  destruct (l_peer l =? y); reflexivity.
Qed.

(* a peer that timed out and is heard again is known again (the history of seeded change c14c) *)
Lemma heard_again c l s x a i a' i' s' : x <> l_peer l ->
  m_run c l s [MConnect x a i; MTimeout x; MHeartbeat x a' i'] = Some s' -> knows s' x = true.
Proof.
  intros Hx H. rewrite (membership_heard _ _ _ _ _ H). cbn [heard fold_left heard_step].
  rewrite N.eqb_refl. reflexivity.
Qed.

(* the history is executable in the three-node world (non-vacuity) *)
Lemma heard_again_example :
  exists s0 s', t_init (w_cfg W_now) (local_of W_now 0) = Some s0 /\
    m_run (w_cfg W_now) (local_of W_now 0) s0 [MConnect 1 5 1; MTimeout 1; MHeartbeat 1 5 1] = Some s' /\
    knows s' 1 = true /\ knows s' 2 = false /\ knows s' 0 = true.
Proof.
  eexists. eexists. split; [vm_compute; reflexivity|]. split; [vm_compute; reflexivity|].
  vm_compute. auto.
Qed.
