(** Proofs about Model/ByteLayout.v (C19). *)
From Coq Require Import NArith List Bool Lia.
From Coq Require Import ZifyBool ZifyNat ZifyN.
From SV Require Import Model.ByteLayout.
Import ListNotations.
Open Scope N_scope.

(** * consecutive records *)
Lemma write_recs_fit size lens : forall wo acc,
  wo + nsum lens <= size ->
  exists offs, write_recs size wo lens acc = inl (offs, wo + nsum lens) /\ length offs = (length acc + length lens)%nat.
Proof.
  induction lens as [|r rest IH]; intros wo acc H; cbn [write_recs nsum fold_right] in *.
  - exists (rev acc). rewrite N.add_0_r, rev_length. split; [reflexivity|cbn; lia].
  - fold (nsum rest) in *. destruct (size <? wo + r) eqn:E; [lia|].
    destruct (IH (wo + r) (wo :: acc)) as [offs [H1 H2]]; [lia|].
    exists offs. rewrite H1. split; [f_equal; f_equal; lia|cbn in *; lia].
Qed.

Lemma write_recs_full size lens : forall wo acc wo',
  write_recs size wo lens acc = inr wo' -> wo <= wo' /\ size < wo + nsum lens.
Proof.
  induction lens as [|r rest IH]; intros wo acc wo' H; cbn [write_recs nsum fold_right] in *; [discriminate|].
  fold (nsum rest) in *. destruct (size <? wo + r) eqn:E.
  - inversion H; subst. lia.
  - apply IH in H. lia.
Qed.

Lemma write_recs_ok size lens : forall wo acc offs wo', wo <= size ->
  write_recs size wo lens acc = inl (offs, wo') -> wo' = wo + nsum lens /\ wo + nsum lens <= size.
Proof.
  induction lens as [|r rest IH]; intros wo acc offs wo' Hw H; cbn [write_recs nsum fold_right] in *.
  - inversion H; subst. lia.
  - fold (nsum rest) in *. destruct (size <? wo + r) eqn:E; [discriminate|].
    apply IH in H; [|lia]. lia.
Qed.

(* the offsets of consecutive records: prefix sums from the start offset *)
Fixpoint offsets_from (wo : N) (lens : list N) : list N :=
  match lens with [] => [] | r :: rest => wo :: offsets_from (wo + r) rest end.

Lemma write_recs_offsets size lens : forall wo acc offs wo',
  write_recs size wo lens acc = inl (offs, wo') -> offs = rev acc ++ offsets_from wo lens.
Proof.
  induction lens as [|r rest IH]; intros wo acc offs wo' H; cbn [write_recs offsets_from] in *.
  - inversion H; subst. rewrite app_nil_r. reflexivity.
  - destruct (size <? wo + r); [discriminate|].
    apply IH in H. rewrite H. cbn [rev]. rewrite <- app_assoc. reflexivity.
Qed.

(** * sizes *)
Lemma single_length evs : single evs = true <-> length evs = 1%nat.
Proof. destruct evs as [|a [|b r]]; cbn; split; intros; try discriminate; try reflexivity; lia. Qed.

Lemma nsum_app a b : nsum (a ++ b) = nsum a + nsum b.
Proof. induction a; cbn in *; [reflexivity|]. fold (nsum (a0 ++ b)) (nsum a0) in *. lia. Qed.

Lemma actual_unfold comp evs :
  actual comp evs = nsum (map (rec_len comp) evs) + (if single evs then 0 else COMMIT_SIZE).
Proof. unfold actual, txn_lens. rewrite nsum_app. destruct (single evs); cbn; lia. Qed.

(* without compression the estimate is exact, record by record *)
Lemma rec_len_nocomp e : rec_len false e = EVENT_HEADER_SIZE + b_var e.
Proof. unfold rec_len, data_len, compressed, raw_len, EVENT_HEADER_SIZE. cbn [andb]. lia. Qed.

Lemma estimate_exact_nocomp evs : estimate evs = actual false evs.
Proof.
  rewrite actual_unfold. unfold estimate. f_equal.
  induction evs as [|e r IH]; cbn [map nsum fold_right]; [reflexivity|].
  fold (nsum (map (fun e => EVENT_HEADER_SIZE + b_var e) r)) (nsum (map (rec_len false) r)).
  rewrite rec_len_nocomp, IH. reflexivity.
Qed.

(* more generally: the estimate bounds the stored size whenever no record is stored larger than its raw form *)
Definition no_growth (comp : bool) (evs : list bev) : Prop :=
  Forall (fun e => data_len comp e <= raw_len e) evs.

Lemma actual_le_estimate comp evs : no_growth comp evs -> actual comp evs <= estimate evs.
Proof.
  intros H. rewrite actual_unfold. unfold estimate.
  assert (nsum (map (rec_len comp) evs) <= nsum (map (fun e => EVENT_HEADER_SIZE + b_var e) evs)); [|lia].
  induction H as [|e r He Hr IH]; cbn [map nsum fold_right]; [lia|].
  fold (nsum (map (fun e => EVENT_HEADER_SIZE + b_var e) r)) (nsum (map (rec_len comp) r)).
  unfold rec_len, raw_len, EVENT_HEADER_SIZE in *. lia.
Qed.

Lemma no_growth_nocomp evs : no_growth false evs.
Proof. apply Forall_forall. intros e _. unfold data_len, compressed. cbn. lia. Qed.

(** * one write *)
Lemma txn_lens_length comp evs : evs <> [] -> (length evs <= length (txn_lens comp evs))%nat /\ txn_lens comp evs <> [].
Proof.
  intros H. unfold txn_lens. rewrite app_length, map_length. split; [lia|].
  destruct evs; [congruence|]. cbn. discriminate.
Qed.

Lemma bl_write_fit s evs :
  bl_wo s + actual (bl_comp s) evs <= bl_size s ->
  exists offs, bl_write s evs = (bl_with_wo s (bl_wo s + actual (bl_comp s) evs), Some offs) /\
               (evs <> [] -> hd_error offs = Some (bl_wo s)) /\ length offs = length evs.
Proof.
  intros H. unfold bl_write, actual in *.
  destruct (write_recs_fit (bl_size s) (txn_lens (bl_comp s) evs) (bl_wo s) [] H) as [offs [H1 H2]].
  rewrite H1. eexists. split; [reflexivity|]. split.
  - intros Hne. apply write_recs_offsets in H1. cbn [rev app] in H1. subst offs.
    destruct evs as [|e r]; [congruence|]. reflexivity.
  - cbn in H2. rewrite firstn_length.
    destruct evs as [|e r].
    + reflexivity.
    + assert (length (e :: r) <= length (txn_lens (bl_comp s) (e :: r)))%nat by (apply txn_lens_length; discriminate). lia.
Qed.

Lemma bl_write_fail s evs s' :
  bl_write s evs = (s', None) -> s' = s /\ bl_size s < bl_wo s + actual (bl_comp s) evs.
Proof.
  unfold bl_write, actual. destruct (write_recs _ _ _ _) as [[offs wo']|wo'] eqn:E; [discriminate|].
  intros H. inversion H; subst. apply write_recs_full in E. destruct E as [E1 E2].
  split; [|assumption]. unfold bl_set_len, bl_with_wo.
  destruct (wo' <=? bl_wo s) eqn:L; destruct s; cbn in *; f_equal; lia.
Qed.

Lemma bl_write_some s evs s' offs : bl_wo s <= bl_size s ->
  bl_write s evs = (s', Some offs) ->
  s' = bl_with_wo s (bl_wo s + actual (bl_comp s) evs) /\ bl_wo s + actual (bl_comp s) evs <= bl_size s.
Proof.
  intros Hw. unfold bl_write, actual. destruct (write_recs _ _ _ _) as [[offs' wo']|wo'] eqn:E; [|discriminate].
  intros H. inversion H; subst. apply write_recs_ok in E; [|assumption]. destruct E as [E1 E2]. subst. split; [reflexivity|assumption].
Qed.

(** * the repaired append *)
Definition landed (s s' : bstate) (evs : list bev) (k : N) (offs : list N) : Prop :=
  (* the transaction is in the live segment of [s'], contiguous, starting at the first offset *)
  exists start, hd_error offs = Some start /\ length offs = length evs /\
    bl_wo s' = start + actual (bl_comp s) evs /\ bl_wo s' <= bl_size s /\
    bl_size s' = bl_size s /\ bl_comp s' = bl_comp s /\
    ((k = 0 /\ start = bl_wo s /\ bl_sealed s' = bl_sealed s) \/
     (0 < k /\ start = SEGMENT_HEADER_SIZE /\ bl_sealed s' = bl_sealed s ++ [bl_wo s])).

Ltac simp_bl := cbn [bl_wo bl_comp bl_size bl_sealed bl_rollover bl_with_wo bl_init fst snd] in *; unfold SEGMENT_HEADER_SIZE in *.

Lemma bl_append_fits s evs :
  bl_wf s -> evs <> [] -> ~ known_c19 (bl_size s) evs -> fits (bl_size s) (bl_comp s) evs ->
  exists k offs, snd (bl_append s evs) = BOk k offs /\ landed s (fst (bl_append s evs)) evs k offs /\ bl_wf (fst (bl_append s evs)).
Proof.
  intros [W1 W2] Hne Hk Hf. unfold known_c19, fits in *. unfold bl_append.
  destruct (bl_size s <? estimate evs + SEGMENT_HEADER_SIZE) eqn:E1; [lia|]. cbv zeta.
  destruct (bl_size s <? bl_wo s + estimate evs) eqn:E2.
  - (* rollover by the estimate: the write starts in an empty segment *)
    destruct (bl_write_fit (bl_rollover s) evs) as [offs [H1 [H2 H3]]]; [simp_bl; lia|].
    rewrite H1. exists 1, offs. cbn [fst snd]. split; [reflexivity|]. split.
    + exists SEGMENT_HEADER_SIZE. unfold bl_wf. simp_bl. repeat split; auto; try lia; right; repeat split; lia.
    + unfold bl_wf. simp_bl. lia.
  - destruct (bl_write s evs) as [s2 [offs|]] eqn:Ew.
    + (* it fits the live segment *)
      apply bl_write_some in Ew as Ew'; [|assumption]. destruct Ew' as [-> Hle].
      destruct (bl_write_fit s evs Hle) as [offs' [H1 [H2 H3]]]. rewrite Ew in H1. inversion H1; subst offs'.
      exists 0, offs. cbn [fst snd]. split; [reflexivity|]. split.
      * exists (bl_wo s). unfold bl_wf. simp_bl. repeat split; auto; try lia; left; repeat split; lia.
      * unfold bl_wf. simp_bl. lia.
    + (* SegmentFull: the stored size exceeded the free space although the estimate did not *)
      apply bl_write_fail in Ew. destruct Ew as [-> Hgt].
      destruct (SEGMENT_HEADER_SIZE <? bl_wo s) eqn:E3; [|unfold SEGMENT_HEADER_SIZE in *; lia].
      destruct (bl_write_fit (bl_rollover s) evs) as [offs [H1 [H2 H3]]]; [simp_bl; lia|].
      rewrite H1. exists 1, offs. cbn [fst snd]. split; [reflexivity|]. split.
      * exists SEGMENT_HEADER_SIZE. unfold bl_wf. simp_bl. repeat split; auto; try lia; right; repeat split; lia.
      * unfold bl_wf. simp_bl. lia.
Qed.

(* every append, accepted or not, leaves a well-formed live segment of the same configuration *)
Lemma bl_append_wf s evs : bl_wf s ->
  bl_wf (fst (bl_append s evs)) /\ bl_size (fst (bl_append s evs)) = bl_size s /\ bl_comp (fst (bl_append s evs)) = bl_comp s.
Proof.
  intros [W1 W2]. unfold bl_append.
  destruct (bl_size s <? estimate evs + SEGMENT_HEADER_SIZE) eqn:E1; [unfold bl_wf; simp_bl; lia|]. cbv zeta.
  set (s1 := if bl_size s <? bl_wo s + estimate evs then bl_rollover s else s).
  assert (Hs1 : bl_wf s1 /\ bl_size s1 = bl_size s /\ bl_comp s1 = bl_comp s).
  { subst s1. destruct (bl_size s <? bl_wo s + estimate evs); unfold bl_wf; simp_bl; lia. }
  destruct Hs1 as [[A1 A2] [A3 A4]].
  destruct (bl_write s1 evs) as [s2 [offs|]] eqn:Ew.
  - apply bl_write_some in Ew; [|assumption]. destruct Ew as [-> Hle]. unfold bl_wf. simp_bl. lia.
  - apply bl_write_fail in Ew. destruct Ew as [-> _].
    destruct (SEGMENT_HEADER_SIZE <? bl_wo s1) eqn:E3; [|unfold bl_wf; simp_bl; lia].
    destruct (bl_write (bl_rollover s1) evs) as [s3 [offs|]] eqn:Ew2.
    + apply bl_write_some in Ew2; [|simp_bl; lia]. destruct Ew2 as [-> Hle]. unfold bl_wf. simp_bl. lia.
    + apply bl_write_fail in Ew2. destruct Ew2 as [-> _]. unfold bl_wf. simp_bl. lia.
Qed.

Lemma bl_run_wf txns : forall s, bl_wf s ->
  bl_wf (bl_run s txns) /\ bl_size (bl_run s txns) = bl_size s /\ bl_comp (bl_run s txns) = bl_comp s.
Proof.
  induction txns as [|t r IH]; intros s W; cbn [bl_run fold_left]; [auto|].
  destruct (bl_append_wf s t W) as [W' [S' C']].
  destruct (IH _ W') as [A [B C]]. unfold bl_run in *. rewrite B, C. auto.
Qed.

Lemma bl_init_wf size comp : SEGMENT_HEADER_SIZE <= size -> bl_wf (bl_init size comp).
Proof. unfold bl_wf. cbn. lia. Qed.

(* the theorem over histories: whatever was appended (or refused) before, from an empty database *)
Lemma bl_history_fits size comp txns evs :
  SEGMENT_HEADER_SIZE <= size -> evs <> [] -> ~ known_c19 size evs -> fits size comp evs ->
  let s := bl_run (bl_init size comp) txns in
  exists k offs, snd (bl_append s evs) = BOk k offs /\ landed s (fst (bl_append s evs)) evs k offs.
Proof.
  intros Hs Hne Hk Hf s.
  destruct (bl_run_wf txns (bl_init size comp) (bl_init_wf size comp Hs)) as [W [S C]]. fold s in W, S, C. cbn in S, C.
  destruct (bl_append_fits s evs W Hne) as [k [offs [H1 [H2 _]]]]; [rewrite S; assumption|rewrite S, C; assumption|].
  eauto.
Qed.

(* attempts: a transaction of the covered class is accepted at the first attempt, so the attempt list is [BOk] *)
Lemma bl_attempts_fits n s evs :
  bl_wf s -> evs <> [] -> ~ known_c19 (bl_size s) evs -> fits (bl_size s) (bl_comp s) evs ->
  exists k offs, snd (bl_attempts bl_append n s evs) = [BOk k offs].
Proof.
  intros W Hne Hk Hf. destruct (bl_append_fits s evs W Hne Hk Hf) as [k [offs [H1 _]]].
  exists k, offs. destruct n; cbn [bl_attempts]; destruct (bl_append s evs) as [s1 r]; cbn in H1; subst r; reflexivity.
Qed.

(* full strength without compression: estimate = stored size, nothing is excluded *)
Lemma bl_append_fits_nocomp s evs :
  bl_wf s -> bl_comp s = false -> evs <> [] -> fits (bl_size s) false evs ->
  exists k offs, snd (bl_append s evs) = BOk k offs /\ landed s (fst (bl_append s evs)) evs k offs.
Proof.
  intros W Hc Hne Hf.
  destruct (bl_append_fits s evs W Hne) as [k [offs [H1 [H2 _]]]].
  - unfold known_c19, fits in *. rewrite estimate_exact_nocomp. lia.
  - rewrite Hc. assumption.
  - eauto.
Qed.

(* ... and in general whenever compression does not make any record larger *)
Lemma bl_append_fits_no_growth s evs :
  bl_wf s -> no_growth (bl_comp s) evs -> evs <> [] -> estimate evs + SEGMENT_HEADER_SIZE <= bl_size s ->
  exists k offs, snd (bl_append s evs) = BOk k offs /\ landed s (fst (bl_append s evs)) evs k offs.
Proof.
  intros W Hg Hne He.
  destruct (bl_append_fits s evs W Hne) as [k [offs [H1 [H2 _]]]].
  - unfold known_c19. lia.
  - unfold fits. pose proof (actual_le_estimate _ _ Hg). lia.
  - eauto.
Qed.

(** * the known finding, exactly *)
Lemma bl_append_known s evs : known_c19 (bl_size s) evs -> bl_append s evs = (s, BTooBig).
Proof. unfold known_c19, bl_append. intros H. destruct (bl_size s <? estimate evs + SEGMENT_HEADER_SIZE) eqn:E; [reflexivity|lia]. Qed.

Lemma bl_append_toobig_iff s evs : snd (bl_append s evs) = BTooBig <-> known_c19 (bl_size s) evs.
Proof.
  split; [|intros H; rewrite bl_append_known by assumption; reflexivity].
  unfold known_c19, bl_append. destruct (bl_size s <? estimate evs + SEGMENT_HEADER_SIZE) eqn:E; [lia|]. cbv zeta.
  destruct (bl_write _ evs) as [s2 [o|]]; [discriminate|].
  destruct (SEGMENT_HEADER_SIZE <? _); [|discriminate].
  destruct (bl_write _ evs) as [s3 [o|]]; discriminate.
Qed.

(* what does not fit an empty segment is refused; at most one segment is wasted, and only the first time *)
Lemma bl_append_unfit s evs : bl_wf s -> ~ fits (bl_size s) (bl_comp s) evs ->
  ~ accepted (snd (bl_append s evs)).
Proof.
  intros [W1 W2] Hf [k [offs H]]. unfold fits in Hf. unfold bl_append in H.
  destruct (bl_size s <? estimate evs + SEGMENT_HEADER_SIZE) eqn:E1; [discriminate|]. cbv zeta in H.
  set (s1 := if bl_size s <? bl_wo s + estimate evs then bl_rollover s else s) in *.
  assert (Hs1 : SEGMENT_HEADER_SIZE <= bl_wo s1 /\ bl_wo s1 <= bl_size s1 /\ bl_size s1 = bl_size s /\ bl_comp s1 = bl_comp s).
  { subst s1. destruct (bl_size s <? bl_wo s + estimate evs) eqn:E2; simp_bl; lia. }
  destruct Hs1 as [A1 [A2 [A3 A4]]].
  destruct (bl_write s1 evs) as [s2 [o|]] eqn:Ew.
  - apply bl_write_some in Ew; [|lia]. rewrite A3, A4 in Ew. unfold SEGMENT_HEADER_SIZE in *. lia.
  - apply bl_write_fail in Ew. destruct Ew as [-> _].
    destruct (SEGMENT_HEADER_SIZE <? bl_wo s1); [|discriminate].
    destruct (bl_write (bl_rollover s1) evs) as [s3 [o|]] eqn:Ew2; [|discriminate].
    apply bl_write_some in Ew2; [|simp_bl; lia]. simp_bl. rewrite A3, A4 in Ew2. lia.
Qed.

Lemma bl_append_refused_empty s evs : bl_wo s = SEGMENT_HEADER_SIZE ->
  ~ accepted (snd (bl_append s evs)) -> fst (bl_append s evs) = s.
Proof.
  intros Hwo Hna. unfold bl_append in *.
  destruct (bl_size s <? estimate evs + SEGMENT_HEADER_SIZE) eqn:E1; [reflexivity|]. cbv zeta in *.
  destruct (bl_size s <? bl_wo s + estimate evs) eqn:E2; [lia|].
  destruct (bl_write s evs) as [s2 [o|]] eqn:Ew.
  - exfalso. apply Hna. eexists _, _. reflexivity.
  - apply bl_write_fail in Ew. destruct Ew as [-> _].
    destruct (SEGMENT_HEADER_SIZE <? bl_wo s) eqn:E3; [lia|reflexivity].
Qed.

(** * the code before the repair *)
Lemma bl_append_v0_full_fixpoint s evs s' : bl_append_v0 s evs = (s', BFull) ->
  bl_size s <? bl_wo s + estimate evs = false -> s' = s.
Proof.
  unfold bl_append_v0. destruct (bl_size s <? estimate evs + SEGMENT_HEADER_SIZE); [discriminate|]. cbv zeta.
  intros H E. rewrite E in H. destruct (bl_write s evs) as [s2 [o|]] eqn:Ew; [discriminate|].
  apply bl_write_fail in Ew. destruct Ew as [-> _]. inversion H. reflexivity.
Qed.

Lemma bl_attempts_v0_forever n : forall s evs,
  bl_append_v0 s evs = (s, BFull) -> bl_attempts bl_append_v0 n s evs = (s, repeat BFull (S n)).
Proof.
  induction n as [|n IH]; intros s evs H; cbn [bl_attempts repeat]; rewrite H; [reflexivity|].
  cbn [is_ok]. rewrite (IH s evs H). reflexivity.
Qed.

(* (a): incompressible data, free space between the estimate and the stored size *)
Definition wit_a_state : bstate := mkBL 131072 true [] 125976.
Definition wit_a_txn : list bev := [mkBev 5002 5100].       (* one event: 5000 payload bytes, stored 9 + 5100 = 5109 > 93 + 5002 = 5095 *)

Lemma bl_v0_refuted_a :
  bl_wf wit_a_state /\ fits 131072 true wit_a_txn /\ ~ known_c19 131072 wit_a_txn /\
  forall n, bl_attempts bl_append_v0 n wit_a_state wit_a_txn = (wit_a_state, repeat BFull (S n)).
Proof.
  split; [unfold bl_wf, SEGMENT_HEADER_SIZE; cbn; lia|]. split; [unfold fits; vm_compute; discriminate|].
  split; [unfold known_c19; vm_compute; intros H; discriminate H|].
  intros n. apply bl_attempts_v0_forever. vm_compute. reflexivity.
Qed.

(* the same instance on the code as it is *)
Lemma bl_fixed_a : bl_append wit_a_state wit_a_txn = (mkBL 131072 true [125976] 5157, BOk 1 [48]).
Proof. vm_compute. reflexivity. Qed.

(* (c): a compressible transaction whose uncompressed estimate exceeds the segment although its stored size is tiny *)
Definition wit_c_txn : list bev := [mkBev 262146 8839].
Lemma bl_refuted_c :
  fits 131072 true wit_c_txn /\ known_c19 131072 wit_c_txn /\
  forall s, bl_size s = 131072 -> bl_comp s = true ->
    bl_append s wit_c_txn = (s, BTooBig) /\ bl_append_v0 s wit_c_txn = (s, BTooBig).
Proof.
  split; [unfold fits; vm_compute; discriminate|]. split; [unfold known_c19; vm_compute; reflexivity|].
  intros s Hs Hc. unfold bl_append, bl_append_v0. rewrite Hs. split; reflexivity.
Qed.

(* (b): the estimate fits an empty segment, the stored record does not: refused with SegmentFull.  Not an instance of
   the property (the stored size does not fit), shown for completeness *)
Definition wit_b_txn : list bev := [mkBev 130931 131031].
Lemma bl_b_not_fit :
  ~ fits 131072 true wit_b_txn /\ ~ known_c19 131072 wit_b_txn /\
  bl_append (bl_init 131072 true) wit_b_txn = (bl_init 131072 true, BFull).
Proof.
  split; [unfold fits; vm_compute; intros H; apply H; reflexivity|].
  split; [unfold known_c19; vm_compute; intros H; discriminate H|]. vm_compute. reflexivity.
Qed.
