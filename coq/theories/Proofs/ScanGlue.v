(** C03: the writer's invariant [Inv] (Proofs/StoreInv.v) gives [Scannable] for every key, so the
    scan theorems hold for every reachable store [run ops]. *)
From Coq Require Import NArith List Bool Lia Arith.
From SV Require Import Model.StoreIter.
From SV Require Proofs.StoreInv Proofs.StoreSimProofs.
From SV Require Import Proofs.ScanProofs.
Import ListNotations.
Open Scope N_scope.

Lemma wf_group_of_inv g es : StoreInv.wf_group g es -> wf_group g es.
Proof. intros [e He|es' tx c Hne Hall]; constructor; assumption. Qed.

Lemma wf_recs_of_inv recs gs : StoreInv.wf_recs recs gs -> wf_recs recs gs.
Proof. induction 1; constructor; auto using wf_group_of_inv. Qed.

Lemma nseq_seq : forall n a, StoreInv.nseq (N.of_nat a) n = map N.of_nat (seq a n).
Proof.
  induction n as [|n IH]; intros a; [reflexivity|]. cbn. f_equal.
  replace (N.of_nat a + 1) with (N.of_nat (S a)) by lia. apply IH.
Qed.

Theorem Inv_Scannable s k : StoreInv.Inv s -> Scannable s k.
Proof.
  intros I. pose proof (StoreSimProofs.Inv_good_visible s I) as [HG [Hver [Hseq _]]].
  constructor.
  - pose proof (StoreInv.inv_sealed s I) as HF. apply Forall_forall. intros g Hg.
    eapply Forall_forall in HF; [|exact Hg]. destruct HF as [[gs Hwf] Hidx].
    split; [exists gs; apply wf_recs_of_inv; assumption|assumption].
  - apply (StoreInv.inv_le s I).
  - destruct (StoreInv.inv_pub s I) as (g1 & g2 & W1 & _). split.
    + exists g1. apply wf_recs_of_inv. exact W1.
    + apply (StoreInv.inv_idx s I).
  - destruct k as [sid|pid].
    + specialize (Hver sid). unfold StoreInv.kfilter in Hver.
      change (map (key_pos (KStream sid)) (filter (matches (KStream sid)) (all_events (abs_visible s))))
        with (map e_ver (filter (fun e => e_sid e =? sid) (all_events (abs_visible s)))).
      rewrite Hver. apply (nseq_seq _ 0%nat).
    + specialize (Hseq pid). unfold StoreInv.kfilter in Hseq.
      change (map (key_pos (KPartition pid)) (filter (matches (KPartition pid)) (all_events (abs_visible s))))
        with (map e_seq (filter (fun e => e_pid e =? pid) (all_events (abs_visible s)))).
      rewrite Hseq. apply (nseq_seq _ 0%nat).
  - apply same_pid_closed. intros g e e' Hg He He'.
    eapply Forall_forall in HG; [|exact Hg]. destruct HG as (_ & Hsame & _). apply (Hsame e e' He He').
Qed.

Theorem run_Scannable ops k : Forall StoreSimProofs.wf_op ops -> Scannable (run ops) k.
Proof. intros H. apply Inv_Scannable, StoreSimProofs.run_Inv, H. Qed.

(** ** the scan theorems for every reachable store *)
Notation wf_ops ops := (Forall StoreSimProofs.wf_op ops).

Theorem run_forward_exact ops k from limit : wf_ops ops -> (0 < limit)%nat ->
  exists batches, scan (run ops) k from Fwd limit = Some batches /\
    scan_events batches
    = filter (fun e => matches k e && (from <=? key_pos k e)) (all_events (abs_visible (run ops))).
Proof. intros H. apply forward_exact, run_Scannable, H. Qed.

Theorem run_forward_groups ops k from limit : wf_ops ops -> (0 < limit)%nat ->
  exists batches, scan (run ops) k from Fwd limit = Some batches /\
    map committed_events (concat batches)
    = filter nonnil (map (filter (fun e => matches k e && (from <=? key_pos k e))) (abs_visible (run ops))) /\
    Forall (fun b => 1 <= length b <= limit)%nat batches.
Proof. intros H. apply forward_groups, run_Scannable, H. Qed.

Theorem run_forward_positions ops k from limit batches : wf_ops ops -> (0 < limit)%nat ->
  scan (run ops) k from Fwd limit = Some batches ->
  map (key_pos k) (scan_events batches)
  = map (fun i => from + N.of_nat i) (seq 0 (length (scan_events batches))).
Proof. intros H. apply forward_positions, run_Scannable, H. Qed.

Theorem run_independent_of_sealing ops1 ops2 k from limit : wf_ops ops1 -> wf_ops ops2 ->
  abs_visible (run ops1) = abs_visible (run ops2) -> (0 < limit)%nat ->
  exists b1 b2, scan (run ops1) k from Fwd limit = Some b1 /\ scan (run ops2) k from Fwd limit = Some b2 /\
    scan_events b1 = scan_events b2 /\
    map committed_events (concat b1) = map committed_events (concat b2).
Proof. intros H1 H2. apply forward_independent; apply run_Scannable; assumption. Qed.

Theorem run_reverse_groups ops k from limit : wf_ops ops -> U64ok (run ops) k -> (0 < limit)%nat ->
  exists batches, scan (run ops) k from Rev limit = Some batches /\
    map committed_events (concat batches)
    = rev (map ucons (filter (fun x => key_pos k (fst x) <=? from)
                             (concat (map (ksufp k) (abs_visible (run ops)))))) /\
    Forall (fun b => 1 <= length b <= limit)%nat batches.
Proof. intros H. apply reverse_groups, run_Scannable, H. Qed.

Theorem run_reverse_exact ops k from limit batches : wf_ops ops -> U64ok (run ops) k -> (0 < limit)%nat ->
  scan (run ops) k from Rev limit = Some batches ->
  forall e, In e (filter (fun e => key_pos k e <=? from) (scan_events batches)) <->
            In e (filter (fun e => matches k e && (key_pos k e <=? from)) (all_events (abs_visible (run ops)))).
Proof. intros H. apply reverse_exact, run_Scannable, H. Qed.

Theorem run_never_error ops k from d limit : wf_ops ops -> (d = Rev -> U64ok (run ops) k) ->
  scan (run ops) k from d limit <> None.
Proof. intros H. apply never_error, run_Scannable, H. Qed.
