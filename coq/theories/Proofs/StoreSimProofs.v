(** Simulation between the concrete store (Model/Store.v) and the abstract event log
    (Model/StoreSpec.v): every operation of the store is matched by the abstract log through
    [abs_all] (everything written) and [abs_visible] (what readers see), under the invariant
    [Inv] of Proofs/StoreInv.v, which holds in every reachable state. *)
From Coq Require Import NArith List Bool Lia Arith.
From SV Require Import Model.Store Proofs.StoreInv.
Import ListNotations.
Open Scope N_scope.

(** * 1. the lookup chains are the abstract state *)
Lemma Inv_good_visible s : Inv s -> good_log (abs_visible s).
Proof. intros I. exact (good_log_prefix _ _ (Inv_visible_prefix s I) (inv_good s I)). Qed.

Lemma indexed_stream_spec s sid : Inv s ->
  indexed_stream s sid = stream_state (all_events (abs_visible s)) sid.
Proof.
  intros I. destruct (Inv_good_visible s I) as [_ (G & _ & P)].
  destruct (Inv_events s I) as [EV _]. rewrite EV in *.
  pose proof (sidx_lookup _ _ sid G P) as L. rewrite stream_state_app.
  unfold indexed_stream. destruct (sidx_get (s_idx (live s)) sid) as [k|]; rewrite <- L; [reflexivity|].
  apply sealed_stream; [exact (inv_sealed s I)|exact (gapless_app_l _ _ _ _ G)|].
  intros e1 e2 I1 I2. apply P; apply in_or_app; left; assumption.
Qed.

Lemma indexed_partition_spec s pid : Inv s ->
  indexed_partition s pid = partition_last (all_events (abs_visible s)) pid.
Proof.
  intros I. destruct (Inv_good_visible s I) as [_ (_ & G & _)].
  destruct (Inv_events s I) as [EV _]. rewrite EV in *.
  pose proof (pidx_lookup _ _ pid G) as L. rewrite partition_last_app.
  unfold indexed_partition. destruct (pidx_get (s_idx (live s)) pid) as [k|]; rewrite <- L; [reflexivity|].
  apply sealed_partition; [exact (inv_sealed s I)|exact (gapless_app_l _ _ _ _ G)].
Qed.

Lemma writer_stream_spec s sid : Inv s ->
  writer_stream s sid = stream_state (all_events (abs_all s)) sid.
Proof.
  intros I. unfold writer_stream. rewrite (indexed_stream_spec s sid I), pending_stream_spec.
  destruct (Inv_events s I) as [EV EA]. rewrite EA, <- EV, stream_state_app. reflexivity.
Qed.

Lemma writer_next_seq_spec s pid : Inv s ->
  writer_next_seq s pid = next_seq_of (all_events (abs_all s)) pid.
Proof.
  intros I. unfold writer_next_seq. destruct (assoc (nextseq s) pid) as [n|] eqn:A.
  - exact (inv_next s I pid n A).
  - rewrite (indexed_partition_spec s pid I). unfold next_seq_of.
    destruct (Inv_events s I) as [EV EA]. rewrite EA, <- EV, partition_last_app.
    assert (Z : partition_last (map i_ev (pending s)) pid = None).
    { rewrite partition_last_eq. unfold klast, kfilter. rewrite filter_none; [reflexivity|].
      intros e Ie. apply in_map_iff in Ie. destruct Ie as (en & <- & Ie). apply N.eqb_neq. intros <-.
      exact (inv_next_pending s I en Ie A). }
    rewrite Z. reflexivity.
Qed.

(** * 2. validation is [assign_versions] *)
Lemma assoc_filter_other l k k' : k <> k' ->
  assoc (filter (fun ab : N * N => negb (fst ab =? k)) l) k' = assoc l k'.
Proof.
  intros NE. induction l as [|[a b] l IH]; [reflexivity|]. cbn [filter fst assoc].
  destruct (a =? k) eqn:E; cbn [negb assoc].
  - apply N.eqb_eq in E. subst a. destruct (k =? k') eqn:E'; [apply N.eqb_eq in E'; contradiction|exact IH].
  - rewrite IH. reflexivity.
Qed.

Lemma assoc_set_spec l k v k' : assoc (assoc_set l k v) k' = if k =? k' then Some v else assoc l k'.
Proof.
  unfold assoc_set. cbn [assoc]. destruct (k =? k') eqn:E; [reflexivity|].
  apply assoc_filter_other. apply N.eqb_neq. exact E.
Qed.

Definition intx_rel (intx : list (N * N)) (acc : list event) : Prop :=
  forall sid, assoc intx sid = option_map snd (stream_state acc sid).

Lemma stream_state_one e sid :
  stream_state [e] sid = if e_sid e =? sid then Some (e_pk e, e_ver e) else None.
Proof. rewrite stream_state_eq. unfold kfilter. cbn [filter]. destruct (e_sid e =? sid); reflexivity. Qed.

Lemma intx_rel_step intx acc e :
  intx_rel intx acc -> intx_rel (assoc_set intx (e_sid e) (e_ver e)) (acc ++ [e]).
Proof.
  intros R sid. rewrite assoc_set_spec, stream_state_app, stream_state_one.
  destruct (e_sid e =? sid); [reflexivity|apply R].
Qed.

Lemma validate_sim s t : Inv s -> forall news intx acc seq,
  intx_rel intx acc -> Forall (fun e => e_pk e = t_pk t) acc ->
  match validate s (t_pk t) intx news with
  | inl curs => assign_versions (all_events (abs_all s)) t seq acc news
                = inl (acc ++ build_events t seq news curs)
  | inr r => assign_versions (all_events (abs_all s)) t seq acc news = inr r
  end.
Proof.
  intros I. induction news as [|n rest IH]; intros intx acc seq R F.
  - cbn. rewrite app_nil_r. reflexivity.
  - set (E := all_events (abs_all s)) in *.
    assert (CONT : forall cur,
      match (match validate s (t_pk t) (assoc_set intx (n_sid n) (next_version cur)) rest with
             | inl l => inl (cur :: l) | inr r => inr r end) with
      | inl curs => assign_versions E t (seq + 1)
                      (acc ++ [mkEvent (n_id n) (t_pk t) (t_pid t) (t_tx t) (t_flag t) seq (n_sid n) (next_version cur)]) rest
                    = inl (acc ++ build_events t seq (n :: rest) curs)
      | inr r => assign_versions E t (seq + 1)
                      (acc ++ [mkEvent (n_id n) (t_pk t) (t_pid t) (t_tx t) (t_flag t) seq (n_sid n) (next_version cur)]) rest
                    = inr r
      end).
    { intros cur.
      set (e := mkEvent (n_id n) (t_pk t) (t_pid t) (t_tx t) (t_flag t) seq (n_sid n) (next_version cur)).
      specialize (IH (assoc_set intx (n_sid n) (next_version cur)) (acc ++ [e]) (seq + 1)
                     (intx_rel_step intx acc e R)).
      assert (F' : Forall (fun e0 => e_pk e0 = t_pk t) (acc ++ [e]))
        by (apply Forall_app; split; [exact F|constructor; [reflexivity|constructor]]).
      specialize (IH F').
      destruct (validate s (t_pk t) (assoc_set intx (n_sid n) (next_version cur)) rest) as [l|r]; [|exact IH].
      rewrite IH, <- app_assoc. reflexivity. }
    cbn [validate assign_versions]. fold E. rewrite stream_state_app.
    pose proof (R (n_sid n)) as Rn.
    destruct (assoc intx (n_sid n)) as [c|].
    + destruct (stream_state acc (n_sid n)) as [[pk v]|] eqn:SS; [|discriminate Rn].
      cbn in Rn. injection Rn as ->.
      destruct (stream_state_Some _ _ _ _ SS) as (e' & Ie & _ & Pe & _).
      rewrite Forall_forall in F. rewrite (F e' Ie) in Pe. subst pk. rewrite N.eqb_refl. cbn [negb].
      destruct (n_expect n) as [| | |x]; cbn [holds];
        try exact (CONT (Some v)); try reflexivity.
      destruct (v =? x); [exact (CONT (Some v))|reflexivity].
    + destruct (stream_state acc (n_sid n)) as [[pk v]|] eqn:SS; [discriminate Rn|].
      pose proof (writer_stream_spec s (n_sid n) I) as WS. fold E in WS. rewrite <- WS.
      destruct (writer_stream s (n_sid n)) as [[epk v]|].
      * destruct (epk =? t_pk t); cbn [negb]; [|reflexivity].
        destruct (n_expect n) as [| | |x]; cbn [holds];
          try exact (CONT (Some v)); try reflexivity.
        destruct (v =? x); [exact (CONT (Some v))|reflexivity].
      * destruct (n_expect n) as [| | |x]; cbn [holds];
          try exact (CONT None); reflexivity.
Qed.

(** * 3. publish, rollover *)
Lemma firstn_length_le {A} (l : list A) n : (n <= length l)%nat -> length (firstn n l) = n.
Proof. intros H. rewrite firstn_length. lia. Qed.

Lemma publish_abs_all s : abs_all (publish s) = abs_all s.
Proof. reflexivity. Qed.

Lemma publish_abs_visible s : abs_visible (publish s) = abs_all s.
Proof. unfold abs_visible, abs_all, publish. cbn. rewrite firstn_all. reflexivity. Qed.

Lemma publish_Inv s : Inv s -> Inv (publish s).
Proof.
  intros I. destruct (Inv_view s I) as (g1 & g2 & W1 & W2 & W & EA & EV).
  pose proof (inv_le s I) as LE.
  constructor; cbn.
  - exact (inv_sealed s I).
  - exists (g1 ++ g2), []. rewrite firstn_all, skipn_all. split; [exact W|constructor].
  - lia.
  - rewrite firstn_all, (inv_idx s I), (inv_pending s I).
    rewrite <- (firstn_skipn (published s) (s_recs (live s))) at 3.
    rewrite hydrate_app, firstn_length_le by lia. reflexivity.
  - rewrite skipn_all. reflexivity.
  - exact (inv_next s I).
  - intros ? [].
  - exact (inv_good s I).
Qed.

Lemma sealed_groups_snoc segs g :
  concat (map (fun g => groups (s_recs g)) (segs ++ [g]))
  = concat (map (fun g => groups (s_recs g)) segs) ++ groups (s_recs g).
Proof. rewrite map_app, concat_app. cbn. rewrite app_nil_r. reflexivity. Qed.

Lemma rollover_abs_all s : abs_all (rollover s) = abs_all s.
Proof.
  unfold abs_all, rollover. cbn. rewrite sealed_groups_snoc. cbn. rewrite app_nil_r. reflexivity.
Qed.

Lemma rollover_abs_visible s : abs_visible (rollover s) = abs_all s.
Proof.
  unfold abs_visible, abs_all, rollover. cbn. rewrite sealed_groups_snoc. cbn. rewrite app_nil_r. reflexivity.
Qed.

Lemma rollover_Inv s : Inv s -> Inv (rollover s).
Proof.
  intros I0. pose proof (publish_Inv s I0) as I.
  destruct (Inv_view _ I) as (g1 & g2 & W1 & W2 & W & EA & EV).
  constructor; try rewrite rollover_abs_all; cbn.
  - apply Forall_app. split; [exact (inv_sealed s I0)|]. constructor; [|constructor].
    split; [exists (g1 ++ g2); exact W|]. pose proof (inv_idx _ I) as X. cbn in X.
    rewrite firstn_all in X. exact X.
  - exists [], []. split; constructor.
  - lia.
  - reflexivity.
  - reflexivity.
  - exact (inv_next s I0).
  - intros ? [].
  - exact (inv_good s I0).
Qed.

(** * 4. append *)
Definition set_synced (s : store) (n : nat) : store :=
  mkStore (sealed s) (live s) (pending s) (nextseq s) n (published s).

Lemma set_synced_Inv s n : Inv s -> (published s <= n <= length (s_recs (live s)))%nat -> Inv (set_synced s n).
Proof.
  intros I L. constructor; cbn;
    [exact (inv_sealed s I)|exact (inv_pub s I)|exact L|exact (inv_idx s I)|exact (inv_pending s I)
    |exact (inv_next s I)|exact (inv_next_pending s I)|exact (inv_good s I)].
Qed.

Lemma check_xseq_spec x evs pid :
  check_xseq x (next_seq_of evs pid) = holds x (partition_last evs pid) /\
  (if next_seq_of evs pid =? 0 then None else Some (next_seq_of evs pid - 1)) = partition_last evs pid.
Proof.
  unfold next_seq_of. destruct (partition_last evs pid) as [q|].
  - assert (E : q + 1 =? 0 = false) by (apply N.eqb_neq; lia). rewrite E.
    replace (q + 1 - 1) with q by lia. split; [|reflexivity].
    destruct x; cbn [check_xseq holds]; rewrite ?E; try reflexivity.
    replace (q + 1 - 1) with q by lia. reflexivity.
  - split; [|reflexivity]. destruct x; reflexivity.
Qed.

Lemma partition_last_none evs pid : (forall e, In e evs -> e_pid e <> pid) -> partition_last evs pid = None.
Proof.
  intros H. rewrite partition_last_eq. unfold klast, kfilter. rewrite filter_none; [reflexivity|].
  intros e Ie. apply N.eqb_neq. apply H. exact Ie.
Qed.

(** writing one committed group at the end of the live segment *)
Lemma write_group_Inv s r evs pid nxt :
  Inv s -> wf_group r evs -> good_log (abs_all s ++ [evs]) ->
  (forall e, In e evs -> e_pid e = pid) ->
  nxt = next_seq_of (all_events (abs_all s ++ [evs])) pid ->
  let s' := mkStore (sealed s) (mkSeg (s_recs (live s) ++ r) (s_idx (live s)))
                    (pending s ++ entries_from evs (length (s_recs (live s))))
                    (assoc_set (nextseq s) pid nxt) (synced s) (published s) in
  Inv s' /\ abs_all s' = abs_all s ++ [evs] /\ abs_visible s' = abs_visible s.
Proof.
  intros I Wg G Hp Hn s'. destruct (Inv_view s I) as (g1 & g2 & W1 & W2 & W & EA & EV).
  pose proof (inv_le s I) as LE.
  assert (F1 : firstn (published s) (s_recs (live s) ++ r) = firstn (published s) (s_recs (live s))).
  { rewrite firstn_app. replace (published s - length (s_recs (live s)))%nat with 0%nat by lia.
    cbn [firstn]. apply app_nil_r. }
  assert (S1 : skipn (published s) (s_recs (live s) ++ r) = skipn (published s) (s_recs (live s)) ++ r).
  { rewrite skipn_app. replace (published s - length (s_recs (live s)))%nat with 0%nat by lia. reflexivity. }
  assert (A' : abs_all s' = abs_all s ++ [evs]).
  { unfold abs_all, s'. cbn [sealed live s_recs]. rewrite (groups_wf _ _ (wf_recs_app _ _ _ _ W (wf_recs_one _ _ Wg))).
    rewrite (groups_wf _ _ W). rewrite !app_assoc. reflexivity. }
  split; [|split; [exact A'|]].
  - constructor; try rewrite A'; unfold s'; cbn [sealed live s_recs s_idx pending nextseq synced published].
    + exact (inv_sealed s I).
    + exists g1, (g2 ++ [evs]). rewrite F1, S1. split; [exact W1|].
      apply wf_recs_app; [exact W2|apply wf_recs_one; exact Wg].
    + rewrite app_length. lia.
    + rewrite F1. exact (inv_idx s I).
    + rewrite S1, hydrate_app, (inv_pending s I), (wf_group_hydrate _ _ _ Wg). do 2 f_equal.
      rewrite skipn_length. lia.
    + intros pid' n. rewrite assoc_set_spec. destruct (pid =? pid') eqn:E.
      * apply N.eqb_eq in E. subst pid'. intros H. injection H as <-. exact Hn.
      * intros H. rewrite (inv_next s I pid' n H). unfold next_seq_of, all_events.
        rewrite concat_app. cbn [concat]. rewrite app_nil_r, partition_last_app.
        rewrite (partition_last_none evs pid'); [reflexivity|].
        intros e Ie. rewrite (Hp e Ie). apply N.eqb_neq. exact E.
    + intros en Ien. rewrite assoc_set_spec. destruct (pid =? e_pid (i_ev en)) eqn:E; [discriminate|].
      apply in_app_or in Ien. destruct Ien as [Ien|Ien]; [exact (inv_next_pending s I en Ien)|].
      exfalso. apply N.eqb_neq in E. apply E. symmetry. apply Hp.
      rewrite <- (entries_events evs (length (s_recs (live s)))). apply in_map. exact Ien.
    + exact G.
  - unfold abs_visible, s'. cbn. rewrite F1. reflexivity.
Qed.

Lemma build_events_length t news : forall seq curs, length curs = length news ->
  length (build_events t seq news curs) = length news.
Proof.
  induction news as [|n news IH]; intros seq [|c curs] L; cbn in *; try discriminate; [reflexivity|].
  rewrite IH; [reflexivity|lia].
Qed.

Lemma next_seq_of_after evs new pid :
  good_events (evs ++ new) -> (forall e, In e new -> e_pid e = pid) ->
  next_seq_of (evs ++ new) pid = next_seq_of evs pid + N.of_nat (length new).
Proof.
  intros G H. rewrite (next_seq_of_knext _ _ G), (next_seq_of_knext _ _ (good_events_app_l _ _ G)).
  rewrite knext_app. f_equal. unfold knext, kfilter. f_equal. f_equal. clear G.
  induction new as [|e new IH]; [reflexivity|]. cbn [filter].
  rewrite (H e (or_introl eq_refl)), N.eqb_refl. f_equal. apply IH. intros e' I'. apply H. right. exact I'.
Qed.

(** the simulation for [append]: same answer (events with their numbers, or the same reject)
    as [spec_append] on everything written so far; the invariant is kept; nothing of the new
    transaction is visible; a rollover on the way only publishes what was already written *)
Theorem append_sim s t roll big s' r :
  Inv s -> wf_txn t -> append s t roll big = (s', r) ->
  spec_append (abs_all s) t (negb big) = (abs_all s', r) /\ Inv s' /\
  (abs_visible s' = abs_visible s \/ (roll = true /\ abs_visible s' = abs_all s)) /\
  (roll = false -> sealed s' = sealed s /\ s_idx (live s') = s_idx (live s) /\ published s' = published s /\
                   exists more, s_recs (live s') = s_recs (live s) ++ more).
Proof.
  intros I Wt. unfold append.
  pose proof (validate_sim s t I (t_events t) [] [] (next_seq_of (all_events (abs_all s)) (t_pid t))
                (fun sid => eq_refl) (Forall_nil _)) as V.
  pose proof (spec_append_accept (abs_all s) t (negb big)) as ACC.
  unfold spec_append in *. fold (next_seq_of (all_events (abs_all s)) (t_pid t)) in *.
  assert (KEEP : forall x : store, x = s ->
     (abs_visible x = abs_visible s \/ roll = true /\ abs_visible x = abs_all s) /\
     (roll = false -> sealed x = sealed s /\ s_idx (live x) = s_idx (live s) /\ published x = published s /\
                   exists more, s_recs (live x) = s_recs (live s) ++ more)).
  { intros x ->. split; [left; reflexivity|]. intros _. repeat split. exists []. rewrite app_nil_r. reflexivity. }
  destruct (validate s (t_pk t) [] (t_events t)) as [curs|rej].
  2:{ intros H. injection H as <- <-. rewrite V. split; [reflexivity|]. split; [exact I|]. apply KEEP. reflexivity. }
  rewrite V in *. cbn [app] in *.
  destruct big; cbn [negb] in *.
  { intros H. injection H as <- <-. split; [reflexivity|]. split; [exact I|]. apply KEEP. reflexivity. }
  set (s1 := if roll then rollover s else s).
  assert (I1 : Inv s1) by (unfold s1; destruct roll; [apply rollover_Inv|]; exact I).
  assert (A1 : abs_all s1 = abs_all s) by (unfold s1; destruct roll; [apply rollover_abs_all|reflexivity]).
  assert (V1 : (abs_visible s1 = abs_visible s \/ roll = true /\ abs_visible s1 = abs_all s) /\
     (roll = false -> sealed s1 = sealed s /\ s_idx (live s1) = s_idx (live s) /\ published s1 = published s /\
                   exists more, s_recs (live s1) = s_recs (live s) ++ more)).
  { unfold s1. destruct roll; [|apply KEEP; reflexivity]. split; [|discriminate].
    right. split; [reflexivity|apply rollover_abs_visible]. }
  clear KEEP.
  rewrite (writer_next_seq_spec s1 (t_pid t) I1), A1.
  destruct (check_xseq_spec (t_xseq t) (all_events (abs_all s)) (t_pid t)) as [CX CN].
  rewrite CX, CN.
  destruct (holds (t_xseq t) (partition_last (all_events (abs_all s)) (t_pid t))); cbn [negb].
  2:{ intros H. injection H as <- <-. rewrite A1. split; [reflexivity|]. split; [exact I1|exact V1]. }
  destruct (forallb n_ts_ok (t_events t)); cbn [negb].
  2:{ intros H. injection H as <- <-. split; [unfold abs_all; cbn; fold (abs_all s1); rewrite A1; reflexivity|].
      split; [|exact V1].
      apply (set_synced_Inv s1 _ I1). pose proof (inv_le s1 I1).
      destruct (Nat.eqb (first_bad (t_events t)) 0); lia. }
  intros H. injection H as <- <-.
  set (evs := build_events t (next_seq_of (all_events (abs_all s)) (t_pid t)) (t_events t) curs) in *.
  destruct (ACC _ evs (inv_good s I) Wt eq_refl) as (_ & G & St & Sq & Ss & Si & _).
  assert (L : length evs = length (t_events t)) by (rewrite <- (map_length e_sid), Ss, map_length; reflexivity).
  rewrite Forall_forall in St.
  assert (Wg : wf_group (map REvent evs ++ (if t_flag t then [] else [RCommit (t_tx t) (N.of_nat (length evs))])) evs).
  { destruct Wt as [W1 W2]. destruct (t_flag t) eqn:Fl.
    - specialize (W2 eq_refl). rewrite <- L in W2. destruct evs as [|e [|e' evs']]; try discriminate W2.
      cbn. constructor. destruct (St e (or_introl eq_refl)) as (_ & _ & _ & ->). exact Fl.
    - constructor.
      + intros E. rewrite E in L. destruct (t_events t); [apply W1; reflexivity|discriminate L].
      + apply Forall_forall. intros e Ie. destruct (St e Ie) as (_ & _ & -> & ->). split; [exact Fl|reflexivity]. }
  rewrite <- A1 in G.
  assert (Hp : forall e, In e evs -> e_pid e = t_pid t) by (intros e Ie; apply (St e Ie)).
  destruct (write_group_Inv s1 _ evs (t_pid t)
              (next_seq_of (all_events (abs_all s)) (t_pid t) + N.of_nat (length evs)) I1 Wg G Hp)
    as (I' & A' & V').
  { destruct G as [_ G]. unfold all_events in *. rewrite concat_app in *. cbn [concat] in *. rewrite app_nil_r in *.
    rewrite (next_seq_of_after _ _ _ G Hp), A1. reflexivity. }
  split; [rewrite A', A1; reflexivity|]. split; [exact I'|]. rewrite V'. split; [apply V1|].
  intros Hr. cbn. destruct (proj2 V1 Hr) as (Q1 & Q2 & Q3 & more & Q4). repeat split; try assumption.
  exists (more ++ map REvent evs ++ (if t_flag t then [] else [RCommit (t_tx t) (N.of_nat (length evs))])).
  rewrite Q4, <- app_assoc. reflexivity.
Qed.

(** * 5. reopen, crash *)
Lemma reopen_general s0 A p gA :
  Forall seg_ok (sealed s0) -> s_recs (live s0) = A ++ p -> wf_recs A gA -> torn p ->
  good_log (sealed_groups s0 ++ gA) ->
  Inv (reopen s0) /\ abs_all (reopen s0) = sealed_groups s0 ++ gA /\
  abs_visible (reopen s0) = sealed_groups s0 ++ gA /\
  s_recs (live (reopen s0)) = A /\ sealed (reopen s0) = sealed s0 /\
  published (reopen s0) = length A /\ synced (reopen s0) = length A.
Proof.
  intros FS E W T G. unfold reopen. rewrite E, (complete_prefix_wf_torn _ _ _ W T).
  rewrite firstn_app, firstn_all, Nat.sub_diag. cbn [firstn]. rewrite app_nil_r.
  assert (AA : abs_all (mkStore (sealed s0) (mkSeg A (hydrate_from A 0)) [] [] (length A) (length A))
               = sealed_groups s0 ++ gA).
  { unfold abs_all. cbn [sealed live s_recs]. rewrite (groups_wf _ _ W). reflexivity. }
  split; [|split; [exact AA|split; [|repeat split]]].
  - constructor; try rewrite AA; cbn [sealed live s_recs s_idx pending nextseq synced published].
    + exact FS.
    + exists gA, []. rewrite firstn_all, skipn_all. split; [exact W|constructor].
    + lia.
    + rewrite firstn_all. reflexivity.
    + rewrite skipn_all. reflexivity.
    + intros ? ? H. discriminate H.
    + intros ? [].
    + exact G.
  - unfold abs_visible. cbn [sealed live s_recs published]. rewrite firstn_all, (groups_wf _ _ W). reflexivity.
Qed.

Lemma torn_nil : torn [].
Proof. exists []. split; [reflexivity|constructor]. Qed.

Lemma reopen_spec s : Inv s ->
  Inv (reopen s) /\ abs_all (reopen s) = abs_all s /\ abs_visible (reopen s) = abs_all s.
Proof.
  intros I. destruct (Inv_view s I) as (g1 & g2 & W1 & W2 & W & EA & EV).
  destruct (reopen_general s (s_recs (live s)) [] (g1 ++ g2)) as (I' & A' & V' & _).
  - exact (inv_sealed s I).
  - rewrite app_nil_r. reflexivity.
  - exact W.
  - exact torn_nil.
  - rewrite <- EA. exact (inv_good s I).
  - rewrite EA. split; [exact I'|split; assumption].
Qed.

Definition cut_store (s : store) (keep : nat) : store :=
  mkStore (sealed s) (mkSeg (firstn keep (s_recs (live s))) (s_idx (live s))) (pending s) (nextseq s)
          (synced s) (published s).

Lemma crash_eq s keep : crash s keep = reopen (cut_store s keep).
Proof. reflexivity. Qed.

(** a crash keeps exactly the transactions whose last record reached the disk *)
Lemma crash_spec s keep : Inv s ->
  Inv (crash s keep) /\
  abs_all (crash s keep) = sealed_groups s ++ groups (firstn keep (s_recs (live s))) /\
  abs_visible (crash s keep) = abs_all (crash s keep) /\
  prefix (abs_all (crash s keep)) (abs_all s).
Proof.
  intros I. destruct (Inv_view s I) as (g1 & g2 & W1 & W2 & W & EA & EV).
  destruct (wf_recs_cut _ _ W keep) as (r1 & h1 & h2 & p & E & Wr & T & Eg & _).
  assert (P : prefix (sealed_groups s ++ h1) (abs_all s)).
  { rewrite EA, Eg. exists h2. rewrite <- app_assoc. reflexivity. }
  rewrite crash_eq.
  destruct (reopen_general (cut_store s keep) r1 p h1) as (I' & A' & V' & _).
  - exact (inv_sealed s I).
  - exact E.
  - exact Wr.
  - exact T.
  - exact (good_log_prefix _ _ P (inv_good s I)).
  - rewrite A', V'. change (sealed_groups (cut_store s keep)) with (sealed_groups s).
    rewrite E, (groups_wf_torn _ _ _ Wr T). split; [exact I'|split; [reflexivity|split; [reflexivity|exact P]]].
Qed.

Lemma crash_keeps_visible s keep : Inv s -> (published s <= keep)%nat ->
  prefix (abs_visible s) (abs_all (crash s keep)).
Proof.
  intros I L. destruct (crash_spec s keep I) as (_ & -> & _ & _).
  destruct (Inv_view s I) as (g1 & g2 & W1 & W2 & W & EA & EV). rewrite EV.
  pose proof (inv_le s I) as LE.
  rewrite <- (firstn_skipn (published s) (s_recs (live s))) at 1.
  rewrite firstn_app, firstn_length_le by lia.
  rewrite (firstn_all2 (firstn (published s) (s_recs (live s)))) by (rewrite firstn_length_le; lia).
  destruct (wf_recs_cut _ _ W2 (keep - published s)) as (r1 & h1 & h2 & p & E & Wr & T & Eg & _).
  rewrite E, app_assoc, (groups_wf_torn _ _ _ (wf_recs_app _ _ _ _ W1 Wr) T).
  exists h1. rewrite app_assoc. reflexivity.
Qed.

(** * 6. every reachable state satisfies the invariant *)
Definition wf_op (o : op) : Prop :=
  match o with OAppend t _ _ => wf_txn t | _ => True end.

Lemma step_Inv s o : Inv s -> wf_op o -> Inv (step s o).
Proof.
  intros I W. destruct o as [t roll big| | |keep]; cbn [step].
  - destruct (append s t roll big) as [s' r] eqn:E. exact (proj1 (proj2 (append_sim _ _ _ _ _ _ I W E))).
  - exact (publish_Inv s I).
  - exact (proj1 (reopen_spec _ (publish_Inv s I))).
  - exact (proj1 (crash_spec s keep I)).
Qed.

Lemma steps_Inv ops : forall s, Inv s -> Forall wf_op ops -> Inv (fold_left step ops s).
Proof.
  induction ops as [|o ops IH]; intros s I F; [exact I|]. inversion F; subst.
  cbn [fold_left]. apply IH; [apply step_Inv|]; assumption.
Qed.

Theorem run_Inv ops : Forall wf_op ops -> Inv (run ops).
Proof. apply steps_Inv. exact Inv_init. Qed.

(** the abstract transition of each operation *)
Definition crash_ok (s : store) (o : op) : Prop :=
  match o with OCrash keep => (published s <= keep)%nat | _ => True end.

Lemma step_abs s o : Inv s -> wf_op o ->
  match o with
  | OAppend t roll big => spec_append (abs_all s) t (negb big) = (abs_all (step s o), snd (append s t roll big))
  | OSync | OReopen => abs_all (step s o) = abs_all s /\ abs_visible (step s o) = abs_all s
  | OCrash keep => prefix (abs_all (step s o)) (abs_all s) /\ abs_visible (step s o) = abs_all (step s o)
  end.
Proof.
  intros I W. destruct o as [t roll big| | |keep]; cbn [step].
  - destruct (append s t roll big) as [s' r] eqn:E. exact (proj1 (append_sim _ _ _ _ _ _ I W E)).
  - split; [apply publish_abs_all|apply publish_abs_visible].
  - destruct (reopen_spec _ (publish_Inv s I)) as (_ & A & V). rewrite A, V. split; reflexivity.
  - destruct (crash_spec s keep I) as (_ & _ & V & P). split; assumption.
Qed.

(** what readers see only grows (a crash is assumed to keep at least the published records) *)
Lemma step_visible_monotone s o : Inv s -> wf_op o -> crash_ok s o ->
  prefix (abs_visible s) (abs_visible (step s o)).
Proof.
  intros I W C. destruct o as [t roll big| | |keep]; cbn [step].
  - destruct (append s t roll big) as [s' r] eqn:E.
    destruct (append_sim _ _ _ _ _ _ I W E) as (_ & _ & [V|[_ V]] & _); cbn [fst]; rewrite V.
    + apply prefix_refl.
    + exact (Inv_visible_prefix s I).
  - rewrite publish_abs_visible. exact (Inv_visible_prefix s I).
  - destruct (reopen_spec _ (publish_Inv s I)) as (_ & _ & V). rewrite V. exact (Inv_visible_prefix s I).
  - destruct (crash_spec s keep I) as (_ & _ & V & _). rewrite V. exact (crash_keeps_visible s keep I C).
Qed.

Fixpoint ops_ok (s : store) (ops : list op) : Prop :=
  match ops with
  | [] => True
  | o :: r => wf_op o /\ crash_ok s o /\ ops_ok (step s o) r
  end.

Lemma steps_visible_monotone ops : forall s, Inv s -> ops_ok s ops ->
  Inv (fold_left step ops s) /\ prefix (abs_visible s) (abs_visible (fold_left step ops s)).
Proof.
  induction ops as [|o ops IH]; intros s I K; [split; [exact I|apply prefix_refl]|].
  destruct K as (W & C & K). cbn [fold_left].
  destruct (IH _ (step_Inv s o I W) K) as (I' & P). split; [exact I'|].
  exact (prefix_trans _ _ _ (step_visible_monotone s o I W C) P).
Qed.

(** * 7. reads *)
Lemma get_stream_version_spec s sid : Inv s ->
  get_stream_version s sid = spec_stream_version (abs_visible s) sid.
Proof. apply indexed_stream_spec. Qed.

Lemma get_partition_sequence_spec s pid : Inv s ->
  get_partition_sequence s pid = spec_partition_sequence (abs_visible s) pid.
Proof. apply indexed_partition_spec. Qed.

Lemma newest_first_app {A} (f : seg -> option A) l1 l2 :
  newest_first f (l1 ++ l2) = match newest_first f l1 with Some a => Some a | None => newest_first f l2 end.
Proof. induction l1 as [|x l1 IH]; [reflexivity|]. cbn. destruct (f x); [reflexivity|exact IH]. Qed.

Lemma newest_first_none {A} (f : seg -> option A) l : (forall x, In x l -> f x = None) -> newest_first f l = None.
Proof.
  induction l as [|x l IH]; intros H; [reflexivity|]. cbn. rewrite (H x (or_introl eq_refl)).
  apply IH. intros y Iy. apply H. right. exact Iy.
Qed.

Lemma NoDup_app_disj {A} (a b : list A) : NoDup (a ++ b) -> forall x, In x a -> In x b -> False.
Proof.
  induction a as [|y a IH]; intros ND x Ia Ib; [destruct Ia|]. cbn in ND. inversion ND as [|? ? NI ND']; subst.
  destruct Ia as [->|Ia]; [apply NI; apply in_or_app; right; exact Ib|exact (IH ND' x Ia Ib)].
Qed.

Lemma NoDup_app_remove_l {A} (a b : list A) : NoDup (a ++ b) -> NoDup b.
Proof. induction a as [|y a IH]; intros ND; [exact ND|]. inversion ND; subst. apply IH. assumption. Qed.

Lemma NoDup_app_remove_r {A} (a b : list A) : NoDup (a ++ b) -> NoDup a.
Proof.
  induction a as [|y a IH]; intros ND; [constructor|]. cbn in ND. inversion ND as [|? ? NI ND']; subst.
  constructor; [|apply IH; exact ND']. intros H. apply NI. apply in_or_app. left. exact H.
Qed.

Lemma NoDup_mid {A B} (f : A -> B) (X M Y : list A) : NoDup (map f (X ++ M ++ Y)) ->
  NoDup (map f M) /\ forall x, In x M -> ~ In (f x) (map f X) /\ ~ In (f x) (map f Y).
Proof.
  intros ND. rewrite !map_app in ND. split.
  - apply NoDup_app_remove_l in ND. apply NoDup_app_remove_r in ND. exact ND.
  - intros x Ix. split; intros H.
    + apply (NoDup_app_disj _ _ ND (f x) H). apply in_or_app. left. apply in_map. exact Ix.
    + apply NoDup_app_remove_l in ND. apply (NoDup_app_disj _ _ ND (f x)); [apply in_map; exact Ix|exact H].
Qed.

Lemma eidx_get_none_of idx id : ~ In id (map e_id (map i_ev idx)) -> eidx_get idx id = None.
Proof.
  intros H. unfold eidx_get. rewrite filter_none; [reflexivity|]. intros en Ien. apply N.eqb_neq. intros E.
  apply H. rewrite <- E. apply in_map. apply in_map. exact Ien.
Qed.

Lemma firstn_le_split {A} (l : list A) a b : (a <= b)%nat ->
  firstn b l = firstn a l ++ firstn (b - a) (skipn a l).
Proof.
  intros L. destruct (Nat.le_gt_cases a (length l)) as [H|H].
  - rewrite <- (firstn_skipn a l) at 1. rewrite firstn_app, firstn_length_le by exact H.
    rewrite (firstn_all2 (firstn a l)) by (rewrite firstn_length_le; lia). reflexivity.
  - rewrite skipn_all2 by lia. rewrite firstn_nil, app_nil_r, !firstn_all2 by lia. reflexivity.
Qed.

(** reading inside one whole-group record list whose event ids are unique *)
Lemma seg_read recs gs grp p1 e p2 :
  wf_recs recs gs -> NoDup (map e_id (rec_events recs)) -> In grp gs -> grp = p1 ++ e :: p2 ->
  exists c off, eidx_get (hydrate_from recs 0) (e_id e) = Some off /\ committed_events c = e :: p2 /\
                forall X, fst (read_committed (recs ++ X) off) = Some c.
Proof.
  intros W ND Ig Eg. destruct (in_split _ _ Ig) as (gA & gR & ->).
  destruct (wf_recs_split _ _ _ _ W) as (A & r & R & -> & WA & Wg & WR).
  assert (Nt : nth_error grp (length p1) = Some e).
  { rewrite Eg, nth_error_app2, Nat.sub_diag by lia. reflexivity. }
  destruct (read_committed_at A r grp R (length p1) e Wg Nt) as (c & C1 & C2).
  exists c, (length A + length p1)%nat. split; [|split].
  - pose proof (hydrate_events (A ++ r ++ R) 0) as EV.
    assert (H : hydrate_from (A ++ r ++ R) 0
                = (hydrate_from A 0 ++ entries_from p1 (length A)) ++ mkEntry e (length A + length p1)
                  :: (entries_from p2 (S (length A + length p1)) ++ hydrate_from R (length A + length r))).
    { rewrite !hydrate_app, (wf_group_hydrate _ _ _ Wg), Eg, entries_from_app.
      cbn [entries_from]. rewrite !Nat.add_0_l, <- !app_assoc. reflexivity. }
    rewrite H in EV |- *.
    apply (eidx_get_unique _ (mkEntry e (length A + length p1)) _).
    rewrite <- (map_map i_ev e_id), EV. exact ND.
  - rewrite C1, Eg, skipn_app, skipn_all, Nat.sub_diag. reflexivity.
  - intros X. rewrite <- !app_assoc. apply C2.
Qed.

Lemma in_sealed_groups grp segs : In grp (concat (map (fun g => groups (s_recs g)) segs)) ->
  exists S1 g S2, segs = S1 ++ g :: S2 /\ In grp (groups (s_recs g)).
Proof.
  intros H. apply in_concat in H. destruct H as (gs & H1 & H2). apply in_map_iff in H1.
  destruct H1 as (g & <- & Ig). destruct (in_split _ _ Ig) as (S1 & S2 & ->). exists S1, g, S2. split; [reflexivity|exact H2].
Qed.

(** every event of a visible transaction is found by id, and reading at it returns the rest of
    its transaction (the whole transaction when it is the first event) *)
Theorem read_visible s grp p1 e p2 :
  Inv s -> NoDup (map e_id (all_events (abs_visible s))) ->
  In grp (abs_visible s) -> grp = p1 ++ e :: p2 ->
  exists c, read_transaction s (e_id e) = Some c /\ committed_events c = e :: p2.
Proof.
  intros I ND Ig Eg. destruct (Inv_view s I) as (g1 & g2 & W1 & W2 & W & EA & EV).
  destruct (Inv_events s I) as [EE _]. rewrite EE in ND. rewrite EV in Ig.
  pose proof (inv_le s I) as LE.
  assert (Ie : In e grp) by (rewrite Eg; apply in_or_app; right; left; reflexivity).
  unfold read_transaction. apply in_app_or in Ig. destruct Ig as [Ig|Ig].
  - (* in a sealed segment *)
    destruct (in_sealed_groups _ _ Ig) as (S1 & g & S2 & ES & Igg).
    pose proof (inv_sealed s I) as FS. rewrite ES in FS, ND.
    apply Forall_app in FS. destruct FS as [FS1 FS2]. destruct (Forall_inv FS2) as [[gs Wg] Ix]. pose proof (Forall_inv_tail FS2) as FS3.
    rewrite (groups_wf _ _ Wg) in Igg.
    rewrite flat_map_app in ND. cbn [flat_map] in ND. rewrite <- !app_assoc in ND.
    destruct (NoDup_mid e_id _ _ _ ND) as [NDg OUT].
    assert (Ieg : In e (seg_events g)).
    { unfold seg_events. rewrite (wf_recs_events _ _ Wg). apply in_concat. exists grp. split; assumption. }
    destruct (OUT e Ieg) as [_ OUTR]. rewrite map_app in OUTR.
    rewrite eidx_get_none_of by (intros H; apply OUTR; apply in_or_app; right; exact H).
    destruct (seg_read _ _ _ _ _ _ Wg NDg Igg Eg) as (c & off & G & C1 & C2).
    exists c. split; [|exact C1].
    rewrite ES, rev_app_distr. cbn [rev]. rewrite <- app_assoc, newest_first_app.
    rewrite newest_first_none.
    + cbn [app newest_first]. rewrite Ix, G. specialize (C2 []). rewrite app_nil_r in C2. rewrite C2. reflexivity.
    + intros g' Ig'. apply in_rev in Ig'. rewrite eidx_get_none_of; [reflexivity|].
      intros H. apply OUTR. apply in_or_app. left. rewrite Forall_forall in FS3.
      rewrite (seg_ok_idx_events _ (FS3 g' Ig')) in H.
      apply in_map_iff in H. destruct H as (x & Hx & Ix'). rewrite <- Hx. apply in_map.
      apply in_flat_map. exists g'. split; assumption.
  - (* in the published part of the live segment *)
    rewrite <- (app_nil_r (map i_ev (s_idx (live s)))) in ND.
    destruct (NoDup_mid e_id _ _ _ ND) as [NDg _].
    rewrite (inv_idx s I), hydrate_events in NDg.
    destruct (seg_read _ _ _ _ _ _ W1 NDg Ig Eg) as (c & off & G & C1 & C2).
    exists c. split; [|exact C1]. rewrite (inv_idx s I), G.
    rewrite (firstn_le_split _ (published s) (synced s)) by lia. apply C2.
Qed.

Corollary read_event_visible s grp e :
  Inv s -> NoDup (map e_id (all_events (abs_visible s))) ->
  In grp (abs_visible s) -> In e grp -> read_event s (e_id e) = Some e.
Proof.
  intros I ND Ig Ie. destruct (in_split _ _ Ie) as (p1 & p2 & Eg).
  destruct (read_visible s grp p1 e p2 I ND Ig Eg) as (c & R & C).
  unfold read_event. rewrite R, C. reflexivity.
Qed.

(** the flushed offset does not matter to readers (only published entries are looked up) *)
Lemma read_transaction_synced s n id : Inv s -> (published s <= n)%nat ->
  read_transaction (set_synced s n) id = read_transaction s id.
Proof.
  intros I L. unfold read_transaction, set_synced. cbn [live sealed synced].
  destruct (eidx_get (s_idx (live s)) id) as [off|] eqn:G; [|reflexivity].
  destruct (eidx_get_In _ _ _ G) as (en & Ien & _ & <-).
  destruct (Inv_view s I) as (g1 & g2 & W1 & W2 & W & EA & EV). pose proof (inv_le s I) as LE.
  rewrite (inv_idx s I) in Ien.
  destruct (hydrate_locate _ _ W1 _ _ Ien) as (A & gA & r & g & R & gR & i & E & _ & Wg & _ & _ & O & Nt).
  destruct (read_committed_at A r g R i _ Wg Nt) as (c & _ & C).
  rewrite (firstn_le_split _ (published s) n), (firstn_le_split _ (published s) (synced s)) by lia.
  rewrite E, O, <- !app_assoc. cbn [Nat.add]. rewrite !C. reflexivity.
Qed.

(** * 8. a rejected append changes nothing observable *)
(** two stores that no read API can tell apart *)
Definition obs_eq (s1 s2 : store) : Prop :=
  abs_visible s1 = abs_visible s2 /\
  (forall id, read_transaction s1 id = read_transaction s2 id) /\
  (forall id, read_event s1 id = read_event s2 id) /\
  (forall sid, get_stream_version s1 sid = get_stream_version s2 sid) /\
  (forall pid, get_partition_sequence s1 pid = get_partition_sequence s2 pid).

Lemma obs_eq_intro s1 s2 :
  abs_visible s1 = abs_visible s2 ->
  (forall id, read_transaction s1 id = read_transaction s2 id) ->
  (forall sid, get_stream_version s1 sid = get_stream_version s2 sid) ->
  (forall pid, get_partition_sequence s1 pid = get_partition_sequence s2 pid) ->
  obs_eq s1 s2.
Proof.
  intros H1 H2 H3 H4. split; [exact H1|split; [exact H2|split; [|split; assumption]]].
  intros id. unfold read_event. rewrite H2. reflexivity.
Qed.

Lemma obs_eq_refl s : obs_eq s s.
Proof. apply obs_eq_intro; reflexivity. Qed.

Lemma obs_eq_trans a b c : obs_eq a b -> obs_eq b c -> obs_eq a c.
Proof.
  intros (A1 & A2 & A3 & A4 & A5) (B1 & B2 & B3 & B4 & B5).
  split; [congruence|split; [|split; [|split]]]; intros x; [rewrite A2|rewrite A3|rewrite A4|rewrite A5]; auto.
Qed.

Lemma obs_eq_set_synced s n : Inv s -> (published s <= n)%nat -> obs_eq (set_synced s n) s.
Proof.
  intros I L. apply obs_eq_intro; try reflexivity. intros id. apply read_transaction_synced; assumption.
Qed.

(** a rollover is, for readers, a sync *)
Lemma obs_eq_rollover s : obs_eq (rollover s) (publish s).
Proof.
  apply obs_eq_intro.
  - rewrite rollover_abs_visible, publish_abs_visible. reflexivity.
  - intros id. unfold read_transaction, rollover, publish.
    cbn [live sealed s_idx s_recs synced empty_seg]. rewrite rev_app_distr. cbn [rev app newest_first s_idx s_recs].
    change (eidx_get [] id) with (@None nat). cbv iota.
    destruct (eidx_get (s_idx (live s) ++ pending s) id); [rewrite firstn_all|]; reflexivity.
  - intros sid. unfold get_stream_version, indexed_stream, rollover, publish.
    cbn [live sealed s_idx s_recs empty_seg]. rewrite rev_app_distr. cbn [rev app newest_first s_idx].
    change (sidx_get [] sid) with (@None keyrec). cbv iota.
    destruct (sidx_get (s_idx (live s) ++ pending s) sid); reflexivity.
  - intros pid. unfold get_partition_sequence, indexed_partition, rollover, publish.
    cbn [live sealed s_idx s_recs empty_seg]. rewrite rev_app_distr. cbn [rev app newest_first s_idx].
    change (pidx_get [] pid) with (@None keyrec). cbv iota.
    destruct (pidx_get (s_idx (live s) ++ pending s) pid); reflexivity.
Qed.

Lemma append_reject_shape s t roll big s' r : append s t roll big = (s', inr r) ->
  s' = s \/
  exists n, s' = set_synced (if roll then rollover s else s) n /\
            (n = synced (if roll then rollover s else s) \/
             n = length (s_recs (live (if roll then rollover s else s)))).
Proof.
  unfold append. destruct (validate _ _ _ _); [|intros H; injection H as <- _; left; reflexivity].
  destruct big; [intros H; injection H as <- _; left; reflexivity|].
  set (s1 := if roll then rollover s else s).
  assert (E : set_synced s1 (synced s1) = s1) by (destruct s1; reflexivity).
  destruct (negb (check_xseq _ _)).
  { intros H; injection H as <- _. right. exists (synced s1). rewrite E. split; [reflexivity|left; reflexivity]. }
  destruct (negb (forallb _ _)); [|intros H; discriminate H].
  intros H; injection H as <- _. right.
  destruct (Nat.eqb _ 0).
  - exists (synced s1). split; [reflexivity|left; reflexivity].
  - exists (length (s_recs (live s1))). split; [reflexivity|right; reflexivity].
Qed.

Theorem append_reject_obs s t roll big s' r :
  Inv s -> wf_txn t -> append s t roll big = (s', inr r) ->
  abs_all s' = abs_all s /\ (obs_eq s' s \/ (roll = true /\ obs_eq s' (publish s))).
Proof.
  intros I W H. destruct (append_sim _ _ _ _ _ _ I W H) as (SP & _).
  split; [exact (spec_append_reject _ _ _ _ _ SP)|].
  destruct (append_reject_shape _ _ _ _ _ _ H) as [->|(n & -> & Hn)]; [left; apply obs_eq_refl|].
  destruct roll.
  - right. split; [reflexivity|]. pose proof (rollover_Inv s I) as I1.
    apply (obs_eq_trans _ (rollover s)); [|apply obs_eq_rollover].
    apply obs_eq_set_synced; [exact I1|]. pose proof (inv_le _ I1). destruct Hn as [->| ->]; lia.
  - left. apply obs_eq_set_synced; [exact I|]. pose proof (inv_le _ I). destruct Hn as [->| ->]; lia.
Qed.

(** when nothing is waiting for its sync, [publish] changes nothing, so the rejected append is
    unobservable whatever the rollover decision *)
Lemma quiescent_publish s : Inv s -> abs_visible s = abs_all s -> publish s = s.
Proof.
  intros I Q. destruct (Inv_view s I) as (g1 & g2 & W1 & W2 & W & EA & EV). pose proof (inv_le s I) as LE.
  rewrite EA, EV in Q. apply app_inv_head in Q. rewrite <- (app_nil_r g1) in Q at 1. apply app_inv_head in Q.
  subst g2. apply wf_recs_nil_inv in W2.
  assert (L : published s = length (s_recs (live s))).
  { assert (X : length (skipn (published s) (s_recs (live s))) = 0%nat) by (rewrite W2; reflexivity).
    rewrite skipn_length in X. lia. }
  pose proof (inv_pending s I) as P. rewrite W2 in P. cbn in P.
  unfold publish. rewrite P, app_nil_r. destruct s as [sl [lr li] pe ns sy pu]. cbn in *. subst pe.
  f_equal; lia.
Qed.

Corollary append_reject_quiescent s t roll big s' r :
  Inv s -> wf_txn t -> abs_visible s = abs_all s -> append s t roll big = (s', inr r) -> obs_eq s' s.
Proof.
  intros I W Q H. destruct (append_reject_obs _ _ _ _ _ _ I W H) as (_ & [O|[_ O]]); [exact O|].
  rewrite (quiescent_publish s I Q) in O. exact O.
Qed.

(** * 9. an accepted append: the numbers it gets, and what the latest-position queries return *)
Lemma nth_error_split_firstn {A} (l : list A) : forall i x,
  nth_error l i = Some x -> l = firstn i l ++ x :: skipn (S i) l.
Proof.
  induction l as [|y l IH]; intros [|i] x H; cbn in H; try discriminate.
  - injection H as ->. reflexivity.
  - cbn [firstn skipn app]. f_equal. apply IH. exact H.
Qed.

Theorem append_accept_numbers s t roll big s' evs :
  Inv s -> wf_txn t -> append s t roll big = (s', inl evs) ->
  let E := all_events (abs_all s) in
  let next := next_seq_of E (t_pid t) in
  abs_all s' = abs_all s ++ [evs] /\ good_log (abs_all s') /\ Inv s' /\
  Forall (stamped t) evs /\
  map e_id evs = map n_id (t_events t) /\ map e_sid evs = map n_sid (t_events t) /\
  (* partition sequences continue the partition: next, next+1, … *)
  map e_seq evs = nseq next (length (t_events t)) /\
  (* each version continues its stream, counting the earlier events of this transaction *)
  (forall i e, nth_error evs i = Some e ->
     e_ver e = next_version (option_map snd (stream_state (E ++ firstn i evs) (e_sid e)))) /\
  (* after the sync the latest-position queries return the new positions *)
  (forall sid, get_stream_version (publish s') sid =
               match stream_state evs sid with Some r => Some r | None => stream_state E sid end) /\
  (forall pid, get_partition_sequence (publish s') pid =
               match partition_last evs pid with Some q => Some q | None => partition_last E pid end) /\
  get_partition_sequence (publish s') (t_pid t) = Some (next + N.of_nat (length evs) - 1).
Proof.
  intros I W H E next. destruct (append_sim _ _ _ _ _ _ I W H) as (SP & I' & _).
  destruct (spec_append_accept _ _ _ _ _ (inv_good s I) W SP) as (A' & G & St & Sq & Ss & Si & _).
  pose proof (publish_Inv _ I') as IP.
  assert (EV : all_events (abs_visible (publish s')) = E ++ evs).
  { rewrite publish_abs_visible, A'. unfold all_events. rewrite concat_app. cbn [concat]. rewrite app_nil_r. reflexivity. }
  assert (GE : good_events (E ++ evs)) by (rewrite <- EV, publish_abs_visible; apply (inv_good _ I')).
  split; [exact A'|]. split; [exact G|]. split; [exact I'|].
  split; [exact St|]. split; [exact Si|]. split; [exact Ss|]. split; [exact Sq|].
  split; [|split; [|split]].
  - intros i e Nt. pose proof (nth_error_split_firstn _ _ _ Nt) as Sp.
    assert (GP : good_events ((E ++ firstn i evs) ++ [e])).
    { apply (good_events_app_l _ (skipn (S i) evs)). rewrite <- !app_assoc. cbn [app]. rewrite <- Sp. exact GE. }
    destruct GP as (GV & _ & _). apply gapless_snoc in GV. destruct GV as [GV ->].
    symmetry. apply next_version_knext. apply (good_events_app_l _ (e :: skipn (S i) evs)).
    rewrite <- app_assoc, <- Sp. exact GE.
  - intros sid. rewrite (get_stream_version_spec _ sid IP). unfold spec_stream_version.
    rewrite EV. apply stream_state_app.
  - intros pid. rewrite (get_partition_sequence_spec _ pid IP). unfold spec_partition_sequence.
    rewrite EV. apply partition_last_app.
  - rewrite (get_partition_sequence_spec _ _ IP). unfold spec_partition_sequence. rewrite EV.
    assert (Hp : forall e, In e evs -> e_pid e = t_pid t) by (rewrite Forall_forall in St; intros e Ie; apply (St e Ie)).
    pose proof (next_seq_of_after E evs (t_pid t) GE Hp) as NS. fold next in NS.
    assert (L : length evs <> 0%nat).
    { rewrite <- (map_length e_sid), Ss, map_length. destruct W as [W1 _]. destruct (t_events t); [contradiction|discriminate]. }
    unfold next_seq_of in NS at 1. destruct (partition_last (E ++ evs) (t_pid t)) as [q|]; [f_equal; lia|lia].
Qed.

(** * 10. acknowledged transactions stay readable *)
Theorem ack_visible s t roll big s1 evs ops :
  Inv s -> wf_txn t -> append s t roll big = (s1, inl evs) -> ops_ok (publish s1) ops ->
  let s3 := fold_left step ops (publish s1) in
  Inv s3 /\ In evs (abs_visible s3) /\
  (forall e, In e evs -> In e (all_events (abs_visible s3))) /\
  (NoDup (map e_id (all_events (abs_visible s3))) ->
     (forall e, In e evs -> read_event s3 (e_id e) = Some e) /\
     (forall p1 e p2, evs = p1 ++ e :: p2 ->
        exists c, read_transaction s3 (e_id e) = Some c /\ committed_events c = e :: p2)).
Proof.
  intros I W H K s3. destruct (append_sim _ _ _ _ _ _ I W H) as (SP & I1 & _).
  destruct (spec_append_accept _ _ _ _ _ (inv_good s I) W SP) as (A' & _).
  destruct (steps_visible_monotone ops _ (publish_Inv _ I1) K) as (I3 & P). fold s3 in I3, P.
  assert (V : In evs (abs_visible s3)).
  { apply (prefix_In _ _ _ P). rewrite publish_abs_visible, A'. apply in_or_app. right. left. reflexivity. }
  split; [exact I3|]. split; [exact V|]. split.
  - intros e Ie. apply in_concat. exists evs. split; assumption.
  - intros ND. split.
    + intros e Ie. exact (read_event_visible s3 evs e I3 ND V Ie).
    + intros p1 e p2 Eg. exact (read_visible s3 evs p1 e p2 I3 ND V Eg).
Qed.

(** * 11. crash recovery *)
Theorem crash_recover s keep :
  Inv s -> (published s <= keep)%nat ->
  let s' := crash s keep in
  Inv s' /\
  prefix (abs_all s') (abs_all s) /\ prefix (abs_visible s) (abs_all s') /\
  abs_visible s' = abs_all s' /\
  abs_all s' = sealed_groups s ++ groups (firstn keep (s_recs (live s))) /\
  (forall sid, get_stream_version s' sid = spec_stream_version (abs_all s') sid) /\
  (forall pid, get_partition_sequence s' pid = spec_partition_sequence (abs_all s') pid) /\
  (NoDup (map e_id (all_events (abs_all s'))) ->
     forall grp e, In grp (abs_all s') -> In e grp -> read_event s' (e_id e) = Some e).
Proof.
  intros I L s'. destruct (crash_spec s keep I) as (I' & A' & V' & P). fold s' in I', A', V', P.
  split; [exact I'|]. split; [exact P|]. split; [exact (crash_keeps_visible s keep I L)|].
  split; [exact V'|]. split; [exact A'|]. rewrite <- V'. split; [|split].
  - intros sid. apply get_stream_version_spec. exact I'.
  - intros pid. apply get_partition_sequence_spec. exact I'.
  - intros ND grp e Ig Ie. exact (read_event_visible s' grp e I' ND Ig Ie).
Qed.

Theorem crash_continue s keep t roll big s'' r :
  Inv s -> wf_txn t -> append (crash s keep) t roll big = (s'', r) ->
  spec_append (abs_all (crash s keep)) t (negb big) = (abs_all s'', r) /\ Inv s'' /\ good_log (abs_all s'').
Proof.
  intros I W H. destruct (crash_spec s keep I) as (I' & _).
  destruct (append_sim _ _ _ _ _ _ I' W H) as (SP & I'' & _).
  split; [exact SP|]. split; [exact I''|exact (inv_good _ I'')].
Qed.

(** * 12. the whole history refines the abstract log *)
(** abstract transitions on (everything written, what readers see) *)
Inductive astep : alog * alog -> op -> alog * alog -> Prop :=
  | as_append l v t roll big l' r v' :
      spec_append l t (negb big) = (l', r) -> (v' = v \/ (roll = true /\ v' = l)) ->
      astep (l, v) (OAppend t roll big) (l', v')
  | as_sync l v : astep (l, v) OSync (l, l)
  | as_reopen l v : astep (l, v) OReopen (l, l)
  | as_crash l v keep l' : prefix l' l -> prefix v l' -> astep (l, v) (OCrash keep) (l', l').

Inductive asteps : alog * alog -> list op -> alog * alog -> Prop :=
  | as_nil a : asteps a [] a
  | as_cons a o b ops c : astep a o b -> asteps b ops c -> asteps a (o :: ops) c.

Lemma step_refines s o : Inv s -> wf_op o -> crash_ok s o ->
  astep (abs_all s, abs_visible s) o (abs_all (step s o), abs_visible (step s o)).
Proof.
  intros I W C. destruct o as [t roll big| | |keep]; cbn [step].
  - destruct (append s t roll big) as [s' r] eqn:E. cbn [fst].
    destruct (append_sim _ _ _ _ _ _ I W E) as (SP & _ & V & _). exact (as_append _ _ _ _ _ _ _ _ SP V).
  - rewrite publish_abs_visible, publish_abs_all. constructor.
  - destruct (reopen_spec _ (publish_Inv s I)) as (_ & A & V). rewrite A, V, publish_abs_all. constructor.
  - destruct (crash_spec s keep I) as (_ & _ & V & P). rewrite V. constructor; [exact P|].
    exact (crash_keeps_visible s keep I C).
Qed.

Theorem steps_refine ops : forall s, Inv s -> ops_ok s ops ->
  asteps (abs_all s, abs_visible s) ops
         (abs_all (fold_left step ops s), abs_visible (fold_left step ops s)).
Proof.
  induction ops as [|o ops IH]; intros s I K; [constructor|]. destruct K as (W & C & K).
  cbn [fold_left]. econstructor; [exact (step_refines s o I W C)|]. apply IH; [apply step_Inv; assumption|exact K].
Qed.

(** * 13. the same statements for every reachable state [run ops] *)
Lemma ops_ok_wf s ops : ops_ok s ops -> Forall wf_op ops.
Proof. revert s; induction ops as [|o ops IH]; intros s K; [constructor|]. destruct K as (W & _ & K). constructor; [exact W|exact (IH _ K)]. Qed.

Theorem run_append_sim ops t roll big s' r :
  Forall wf_op ops -> wf_txn t -> append (run ops) t roll big = (s', r) ->
  spec_append (abs_all (run ops)) t (negb big) = (abs_all s', r) /\ Inv s' /\
  (abs_visible s' = abs_visible (run ops) \/ (roll = true /\ abs_visible s' = abs_all (run ops))).
Proof.
  intros F W H. destruct (append_sim _ _ _ _ _ _ (run_Inv ops F) W H) as (A & B & C & _).
  split; [exact A|split; [exact B|exact C]].
Qed.

Theorem append_reject_no_roll s t big s' r :
  Inv s -> wf_txn t -> append s t false big = (s', inr r) -> abs_all s' = abs_all s /\ obs_eq s' s.
Proof.
  intros I W H. destruct (append_reject_obs _ _ _ _ _ _ I W H) as (A & [O|[X _]]); [split; assumption|discriminate X].
Qed.

Theorem run_append_reject ops t roll big s' r :
  Forall wf_op ops -> wf_txn t -> append (run ops) t roll big = (s', inr r) ->
  abs_all s' = abs_all (run ops) /\
  (obs_eq s' (run ops) \/ (roll = true /\ obs_eq s' (publish (run ops)))).
Proof. intros F. exact (append_reject_obs _ _ _ _ _ _ (run_Inv ops F)). Qed.

Theorem run_append_accept_numbers ops t roll big s' evs :
  Forall wf_op ops -> wf_txn t -> append (run ops) t roll big = (s', inl evs) ->
  let E := all_events (abs_all (run ops)) in
  let next := next_seq_of E (t_pid t) in
  abs_all s' = abs_all (run ops) ++ [evs] /\ good_log (abs_all s') /\ Inv s' /\
  Forall (stamped t) evs /\
  map e_id evs = map n_id (t_events t) /\ map e_sid evs = map n_sid (t_events t) /\
  map e_seq evs = nseq next (length (t_events t)) /\
  (forall i e, nth_error evs i = Some e ->
     e_ver e = next_version (option_map snd (stream_state (E ++ firstn i evs) (e_sid e)))) /\
  (forall sid, get_stream_version (publish s') sid =
               match stream_state evs sid with Some r => Some r | None => stream_state E sid end) /\
  (forall pid, get_partition_sequence (publish s') pid =
               match partition_last evs pid with Some q => Some q | None => partition_last E pid end) /\
  get_partition_sequence (publish s') (t_pid t) = Some (next + N.of_nat (length evs) - 1).
Proof. intros F. exact (append_accept_numbers _ _ _ _ _ _ (run_Inv ops F)). Qed.

Theorem run_latest_queries ops : Forall wf_op ops ->
  (forall sid, get_stream_version (run ops) sid = spec_stream_version (abs_visible (run ops)) sid) /\
  (forall pid, get_partition_sequence (run ops) pid = spec_partition_sequence (abs_visible (run ops)) pid).
Proof.
  intros F. pose proof (run_Inv ops F) as I. split; intros x;
    [apply get_stream_version_spec|apply get_partition_sequence_spec]; exact I.
Qed.

Theorem latest_queries s : Inv s ->
  (forall sid, get_stream_version s sid = spec_stream_version (abs_visible s) sid) /\
  (forall pid, get_partition_sequence s pid = spec_partition_sequence (abs_visible s) pid).
Proof. intros I. split; intros x; [apply get_stream_version_spec|apply get_partition_sequence_spec]; exact I. Qed.

Theorem run_crash_recover ops keep :
  Forall wf_op ops -> (published (run ops) <= keep)%nat ->
  let s' := crash (run ops) keep in
  Inv s' /\
  prefix (abs_all s') (abs_all (run ops)) /\ prefix (abs_visible (run ops)) (abs_all s') /\
  abs_visible s' = abs_all s' /\
  abs_all s' = sealed_groups (run ops) ++ groups (firstn keep (s_recs (live (run ops)))) /\
  (forall sid, get_stream_version s' sid = spec_stream_version (abs_all s') sid) /\
  (forall pid, get_partition_sequence s' pid = spec_partition_sequence (abs_all s') pid) /\
  (NoDup (map e_id (all_events (abs_all s'))) ->
     forall grp e, In grp (abs_all s') -> In e grp -> read_event s' (e_id e) = Some e).
Proof. intros F. exact (crash_recover _ keep (run_Inv ops F)). Qed.

Theorem run_crash_continue ops keep t roll big s'' r :
  Forall wf_op ops -> wf_txn t -> append (crash (run ops) keep) t roll big = (s'', r) ->
  spec_append (abs_all (crash (run ops) keep)) t (negb big) = (abs_all s'', r) /\ Inv s'' /\ good_log (abs_all s'').
Proof. intros F. exact (crash_continue _ keep _ _ _ _ _ (run_Inv ops F)). Qed.

Theorem run_ack_visible ops0 t roll big s1 evs ops :
  Forall wf_op ops0 -> wf_txn t -> append (run ops0) t roll big = (s1, inl evs) -> ops_ok (publish s1) ops ->
  let s3 := fold_left step ops (publish s1) in
  Inv s3 /\ In evs (abs_visible s3) /\
  (forall e, In e evs -> In e (all_events (abs_visible s3))) /\
  (NoDup (map e_id (all_events (abs_visible s3))) ->
     (forall e, In e evs -> read_event s3 (e_id e) = Some e) /\
     (forall p1 e p2, evs = p1 ++ e :: p2 ->
        exists c, read_transaction s3 (e_id e) = Some c /\ committed_events c = e :: p2)).
Proof. intros F. exact (ack_visible _ _ _ _ _ _ _ (run_Inv ops0 F)). Qed.

Theorem run_refines ops : ops_ok store_init ops ->
  asteps ([], []) ops (abs_all (run ops), abs_visible (run ops)).
Proof. intros K. exact (steps_refine ops store_init Inv_init K). Qed.

(** * 14. the gap in "a rejected append changes nothing observable" *)
(** An append that is rejected AFTER the size-based rollover decision (wrong expected partition
    sequence, or a bad timestamp) leaves the rollover in place, and a rollover syncs: the
    transactions written earlier and not yet acknowledged become visible at that moment.
    Witness: one unsynced append, then an append with a wrong expected sequence and roll = true. *)
Definition gap_t1 : txn := mkTxn 7 1 100 true [mkNew 1 10 XEmpty true] XAny.
Definition gap_t2 : txn := mkTxn 7 1 101 true [mkNew 2 10 XAny true] (XExact 5).

Lemma reject_rollover_publishes :
  exists ops t roll big s' r,
    Forall wf_op ops /\ wf_txn t /\ append (run ops) t roll big = (s', inr r) /\
    abs_all s' = abs_all (run ops) /\ abs_visible s' <> abs_visible (run ops) /\
    get_stream_version s' 10 <> get_stream_version (run ops) 10.
Proof.
  exists [OAppend gap_t1 false false], gap_t2, true, false.
  eexists. eexists. split; [|split; [|split; [vm_compute; reflexivity|]]].
  - constructor; [|constructor]. split; [discriminate|reflexivity].
  - split; [discriminate|reflexivity].
  - split; [vm_compute; reflexivity|]. split; vm_compute; discriminate.
Qed.

Theorem writer_view s : Inv s ->
  (forall sid, writer_stream s sid = stream_state (all_events (abs_all s)) sid) /\
  (forall pid, writer_next_seq s pid = next_seq_of (all_events (abs_all s)) pid).
Proof. intros I. split; intros x; [apply writer_stream_spec|apply writer_next_seq_spec]; exact I. Qed.

Lemma publish_spec s : abs_all (publish s) = abs_all s /\ abs_visible (publish s) = abs_all s.
Proof. split; [apply publish_abs_all|apply publish_abs_visible]. Qed.
