(** Proofs about Model/Replicator.v (C12). *)
From Coq Require Import NArith List Bool Lia Permutation.
From Coq Require Import ZifyBool ZifyNat ZifyN.
From SV Require Import Model.Replicator.
Import ListNotations.
Open Scope N_scope.

Ltac dN :=
  repeat match goal with
  | |- context [?a =? ?b] => destruct (N.eqb_spec a b)
  | |- context [?a <? ?b] => destruct (N.ltb_spec a b)
  | |- context [?a <=? ?b] => destruct (N.leb_spec a b)
  end.

(* ================================================================== 1. reply ids are conserved *)

Lemma count_occ_cons1 (a : N) l x : count_occ N.eq_dec (a :: l) x = (count_occ N.eq_dec [a] x + count_occ N.eq_dec l x)%nat.
Proof. cbn. destruct (N.eq_dec a x); reflexivity. Qed.

(* Permutation goals over ++ from Permutation hypotheses: compare occurrence counts *)
Ltac perm_lia :=
  let x := fresh "x" in
  cbn [map app] in *;
  apply (proj2 (Permutation_count_occ N.eq_dec _ _)); intro x;
  repeat match goal with H : Permutation _ _ |- _ =>
    let H' := fresh in pose proof (proj1 (Permutation_count_occ N.eq_dec _ _) H x) as H'; clear H end;
  repeat rewrite count_occ_app in *;
  repeat match goal with
  | |- context [count_occ _ (?a :: ?l) _] => lazymatch l with [] => fail | _ => rewrite (count_occ_cons1 a l) end
  | H : context [count_occ _ (?a :: ?l) _] |- _ => lazymatch l with [] => fail | _ => rewrite (count_occ_cons1 a l) in H end
  end;
  repeat rewrite count_occ_app in *;
  cbn [count_occ] in *; lia.

Lemma ev_rids_app a b : ev_rids (a ++ b) = ev_rids a ++ ev_rids b.
Proof.
  induction a as [|e a IH]; [reflexivity|]. destruct e; cbn [app ev_rids]; rewrite IH; reflexivity.
Qed.
Lemma ev_rids_ans o rs : ev_rids (ans_all o rs) = map fst rs.
Proof. induction rs as [|r rs IH]; [reflexivity|]. cbn. rewrite <- IH. reflexivity. Qed.
Lemma m_rids_app a b : m_rids (a ++ b) = m_rids a ++ m_rids b.
Proof. unfold m_rids. apply flat_map_app. Qed.
Lemma m_rids_cons p m : m_rids (p :: m) = e_rids (snd p) ++ m_rids m.
Proof. reflexivity. Qed.
Lemma ev_rids_stale st : ev_rids (stale_events st) = m_rids st.
Proof.
  induction st as [|p st IH]; [reflexivity|].
  unfold stale_events in *. cbn [flat_map]. rewrite ev_rids_app, IH, ev_rids_ans. reflexivity.
Qed.

Lemma filter_split_perm {A} (f : A -> bool) (l : list A) :
  Permutation l (filter f l ++ filter (fun x => negb (f x)) l).
Proof.
  induction l as [|x l IH]; [constructor|]. cbn. destruct (f x); cbn.
  - constructor. exact IH.
  - apply Permutation_cons_app. exact IH.
Qed.

Lemma filter_len_le {A} (f : A -> bool) (l : list A) : (length (filter f l) <= length l)%nat.
Proof. induction l as [|x l IH]; [cbn; lia|]. cbn. destruct (f x); cbn; lia. Qed.

Lemma gc_perm now T e : Permutation (e_rids e) (map fst (gc_alive now T e) ++ map fst (gc_dead now T e)).
Proof.
  unfold e_rids, gc_alive, gc_dead. rewrite <- map_app. apply Permutation_map. apply filter_split_perm.
Qed.

Lemma m_split_perm n m : Permutation (m_rids m) (m_rids (m_below n m) ++ m_rids (m_from n m)).
Proof.
  induction m as [|p m IH]; [constructor|].
  unfold m_below, m_from in *. cbn [filter]. destruct (fst p <? n); cbn [negb]; rewrite !m_rids_cons.
  - rewrite <- app_assoc. apply Permutation_app_head. exact IH.
  - rewrite IH. rewrite !app_assoc. apply Permutation_app_tail. apply Permutation_app_comm.
Qed.

Lemma m_remove_perm k m e : m_find k m = Some e ->
  Permutation (m_rids m) (e_rids e ++ m_rids (m_remove k m)).
Proof.
  induction m as [|[k' v] m IH]; cbn [m_find m_remove]; [discriminate|].
  destruct (k =? k').
  - intros [= ->]. reflexivity.
  - intros H. rewrite !m_rids_cons. cbn [snd]. rewrite (IH H). rewrite !app_assoc.
    apply Permutation_app_tail. apply Permutation_app_comm.
Qed.

Lemma m_remove_length k m e : m_find k m = Some e -> S (length (m_remove k m)) = length m.
Proof.
  induction m as [|[k' v] m IH]; cbn [m_find m_remove]; [discriminate|].
  destruct (k =? k'); [reflexivity|]. intros H. cbn [length]. rewrite (IH H). reflexivity.
Qed.

Lemma m_set_perm k v m e : m_find k m = Some e ->
  Permutation (e_rids e ++ m_rids (m_set k v m)) (e_rids v ++ m_rids m).
Proof.
  induction m as [|[k' v'] m IH]; cbn [m_find m_set]; [discriminate|].
  destruct (k =? k').
  - intros [= ->]. rewrite !m_rids_cons. cbn [snd]. rewrite !app_assoc. apply Permutation_app_tail.
    apply Permutation_app_comm.
  - intros H. rewrite !m_rids_cons. cbn [snd].
    transitivity (e_rids v' ++ e_rids e ++ m_rids (m_set k v m)).
    { rewrite !app_assoc. apply Permutation_app_tail. apply Permutation_app_comm. }
    rewrite (IH H). rewrite !app_assoc. apply Permutation_app_tail. apply Permutation_app_comm.
Qed.

Lemma m_set_merge_perm k v m e : m_find k m = Some e ->
  Permutation (m_rids (m_set k (e_merge e v) m)) (e_rids v ++ m_rids m).
Proof.
  induction m as [|[k' v'] m IH]; cbn [m_find m_set]; [discriminate|].
  destruct (k =? k').
  - intros [= ->]. rewrite !m_rids_cons. cbn [snd]. unfold e_merge, e_rids at 1, e_with_replies. cbn [e_replies].
    rewrite map_app. fold (e_rids e) (e_rids v). rewrite !app_assoc. apply Permutation_app_tail.
    apply Permutation_app_comm.
  - intros H. rewrite !m_rids_cons. cbn [snd]. rewrite (IH H). rewrite !app_assoc.
    apply Permutation_app_tail. apply Permutation_app_comm.
Qed.

Lemma m_put_perm k v m : Permutation (m_rids (m_put k v m)) (e_rids v ++ m_rids m).
Proof.
  induction m as [|[k' v'] m IH]; cbn [m_put].
  - reflexivity.
  - destruct (k <? k'); [reflexivity|]. rewrite !m_rids_cons. cbn [snd]. rewrite IH. rewrite !app_assoc.
    apply Permutation_app_tail. apply Permutation_app_comm.
Qed.

Lemma m_put_length k v m : length (m_put k v m) = S (length m).
Proof.
  induction m as [|[k' v'] m IH]; cbn [m_put]; [reflexivity|].
  destruct (k <? k'); [reflexivity|]. cbn [length]. rewrite IH. reflexivity.
Qed.

Lemma m_last_removelast m p : m_last m = Some p -> m = removelast m ++ [p].
Proof.
  induction m as [|a m IH]; [discriminate|]. destruct m as [|b m].
  - cbn. intros [= ->]. reflexivity.
  - intros H. change (m_last (a :: b :: m)) with (m_last (b :: m)) in H.
    change (removelast (a :: b :: m)) with (a :: removelast (b :: m)). cbn [app]. f_equal. apply IH. exact H.
Qed.

Lemma m_last_perm m p : m_last m = Some p ->
  Permutation (m_rids m) (e_rids (snd p) ++ m_rids (removelast m)).
Proof.
  intros H. rewrite (m_last_removelast _ _ H) at 1. rewrite m_rids_app. cbn [m_rids flat_map].
  rewrite app_nil_r. apply Permutation_app_comm.
Qed.

Definition opt_rids (o : option rentry) : list N := match o with Some e => e_rids e | None => [] end.
Definition ins_rids (r : ins_result) : list N :=
  match r with
  | InsReady w _ => e_rids w
  | InsBuffered _ (Some (_, w)) => e_rids w
  | InsBuffered _ None => []
  | InsConflict v | InsFull _ v | InsStale _ v => e_rids v
  end.

Lemma e_rids_merge a b : e_rids (e_merge a b) = e_rids a ++ e_rids b.
Proof. unfold e_merge, e_rids, e_with_replies. cbn [e_replies]. apply map_app. Qed.

Lemma rq_insert_perm q k v q' r : rq_insert q k v = (q', r) ->
  Permutation (ins_rids r ++ m_rids (q_map q')) (e_rids v ++ m_rids (q_map q)).
Proof.
  unfold rq_insert. destruct (k =? q_next q).
  - destruct (m_find k (q_map q)) as [ex|] eqn:F.
    + destruct (e_key_eq v ex); intros [= <- <-]; cbn [ins_rids q_map q_with_map]; [|reflexivity].
      rewrite e_rids_merge. rewrite (m_remove_perm _ _ _ F).
      rewrite !app_assoc. apply Permutation_app_tail. apply Permutation_app_comm.
    + intros [= <- <-]. reflexivity.
  - destruct (k <? q_next q); [intros [= <- <-]; reflexivity|].
    destruct (m_find k (q_map q)) as [ex|] eqn:F.
    + destruct (e_key_eq v ex); intros [= <- <-]; cbn [ins_rids q_map q_with_map app]; [|reflexivity].
      apply m_set_merge_perm. exact F.
    + destruct (rq_full q).
      * destruct (m_last (q_map q)) as [[lk lv]|] eqn:L; [|intros [= <- <-]; reflexivity].
        destruct (k <? lk); intros [= <- <-]; cbn [ins_rids q_map q_with_map]; [|reflexivity].
        rewrite m_put_perm. rewrite (m_last_perm _ _ L). cbn [snd].
        rewrite !app_assoc. apply Permutation_app_tail. apply Permutation_app_comm.
      * intros [= <- <-]. cbn [ins_rids q_map q_with_map app]. apply m_put_perm.
Qed.

Lemma rq_pop_perm q q' r : rq_pop q = (q', r) ->
  Permutation (opt_rids r ++ m_rids (q_map q')) (m_rids (q_map q)).
Proof.
  unfold rq_pop. destruct (m_find (q_next q) (q_map q)) eqn:F; intros [= <- <-]; cbn [opt_rids q_map q_with_map app].
  - symmetry. apply m_remove_perm. exact F.
  - reflexivity.
Qed.

Lemma rq_progress_perm q n q' st : rq_progress q n = (q', st) ->
  Permutation (m_rids st ++ m_rids (q_map q')) (m_rids (q_map q)).
Proof. unfold rq_progress. intros [= <- <-]. cbn [q_map]. symmetry. apply m_split_perm. Qed.

Lemma rtq_update_q now t : tq_q (rtq_update now t) = tq_q t.
Proof. unfold rtq_update. destruct (q_map (tq_q t)) as [|[k v] m]; reflexivity. Qed.
Lemma rtq_update_timeout now t : tq_timeout (rtq_update now t) = tq_timeout t.
Proof. unfold rtq_update. destruct (q_map (tq_q t)) as [|[k v] m]; reflexivity. Qed.

Lemma rtq_insert_q now t k v : tq_q (fst (rtq_insert now t k v)) = fst (rq_insert (tq_q t) k v)
  /\ snd (rtq_insert now t k v) = snd (rq_insert (tq_q t) k v).
Proof.
  unfold rtq_insert. destruct (rq_insert (tq_q t) k v) as [q' r]. cbn [fst snd]. split; [|reflexivity].
  match goal with |- context [if ?b then _ else _] => destruct b end; [rewrite rtq_update_q|]; reflexivity.
Qed.
Lemma rtq_pop_q now t : tq_q (fst (rtq_pop now t)) = fst (rq_pop (tq_q t))
  /\ snd (rtq_pop now t) = snd (rq_pop (tq_q t)).
Proof.
  unfold rtq_pop. destruct (rq_pop (tq_q t)) as [q' r]. cbn [fst snd]. split; [|reflexivity].
  destruct r; [rewrite rtq_update_q|]; reflexivity.
Qed.
Lemma rtq_progress_q now t n : tq_q (fst (rtq_progress now t n)) = fst (rq_progress (tq_q t) n)
  /\ snd (rtq_progress now t n) = snd (rq_progress (tq_q t) n).
Proof.
  unfold rtq_progress. destruct (rq_progress (tq_q t) n) as [q' r]. cbn [fst snd]. split; [|reflexivity].
  rewrite rtq_update_q. reflexivity.
Qed.

(* what one function does to the pair (events, buffered map) *)
Definition conserves (before : list N) (s' : rstate) (evs : list revent) (extra : list N) : Prop :=
  Permutation (ev_rids evs ++ extra ++ m_rids (r_map s')) before.

Lemma r_write_tx_perm now s tx more ok ex s' r evs : r_write_tx now s tx more ok ex = (s', r, evs) ->
  Permutation (ev_rids evs ++ m_rids (r_map s')) (m_rids (r_map s)).
Proof.
  unfold r_write_tx. destruct (db_check (r_dbnext s) ex ok); [intros [= <- <- <-]; reflexivity|].
  destruct (rtq_progress now (r_tq s) (r_dbnext s + more + 1)) as [t' st] eqn:P.
  intros [= <- <- <-]. unfold r_map. cbn [r_tq].
  pose proof (rtq_progress_q now (r_tq s) (r_dbnext s + more + 1)) as [H1 H2]. rewrite P in H1, H2. cbn [fst snd] in H1, H2.
  rewrite H1, H2, ev_rids_stale. apply (rq_progress_perm (tq_q (r_tq s)) (r_dbnext s + more + 1)).
  apply surjective_pairing.
Qed.

Lemma r_write_tx_length now s tx more ok ex s' r evs : r_write_tx now s tx more ok ex = (s', r, evs) ->
  (length (r_map s') <= length (r_map s))%nat.
Proof.
  unfold r_write_tx. destruct (db_check (r_dbnext s) ex ok); [intros [= <- <- <-]; lia|].
  destruct (rtq_progress now (r_tq s) (r_dbnext s + more + 1)) as [t' st] eqn:P.
  intros [= <- <- <-]. unfold r_map. cbn [r_tq].
  pose proof (rtq_progress_q now (r_tq s) (r_dbnext s + more + 1)) as [H1 _]. rewrite P in H1. cbn [fst] in H1.
  rewrite H1. unfold rq_progress. cbn [fst q_map]. unfold m_from. apply filter_len_le.
Qed.

Lemma r_write_buffered_perm now s w s' r evs : r_write_buffered now s w = (s', r, evs) ->
  Permutation (ev_rids evs ++ m_rids (r_map s')) (e_rids w ++ m_rids (r_map s)).
Proof.
  unfold r_write_buffered.
  destruct (r_write_tx now s (e_tx w) (e_more w) (e_ok w) (Some (e_seq w))) as [[s1 r1] evs1] eqn:W.
  intros [= <- <- <-]. rewrite ev_rids_app, ev_rids_ans. fold (e_rids w).
  pose proof (r_write_tx_perm _ _ _ _ _ _ _ _ _ W). perm_lia.
Qed.

Lemma r_write_buffered_length now s w s' r evs : r_write_buffered now s w = (s', r, evs) ->
  (length (r_map s') <= length (r_map s))%nat.
Proof.
  unfold r_write_buffered.
  destruct (r_write_tx now s (e_tx w) (e_more w) (e_ok w) (Some (e_seq w))) as [[s1 r1] evs1] eqn:W.
  intros [= <- <- <-]. eapply r_write_tx_length. exact W.
Qed.

Lemma e_rids_with e al : e_rids (e_with_replies e al) = map fst al.
Proof. reflexivity. Qed.

Lemma r_pop_next_perm now s s' w evs : r_pop_next now s = (s', w, evs) ->
  Permutation (ev_rids evs ++ opt_rids w ++ m_rids (r_map s')) (m_rids (r_map s)).
Proof.
  unfold r_pop_next. destruct (rtq_pop now (r_tq s)) as [t' r] eqn:P.
  pose proof (rtq_pop_q now (r_tq s)) as [H1 H2]. rewrite P in H1, H2. cbn [fst snd] in H1, H2.
  pose proof (rq_pop_perm (tq_q (r_tq s)) _ _ (surjective_pairing _)) as HP. rewrite <- H1, <- H2 in HP.
  fold (r_map s) in HP.
  destruct r as [w0|].
  - pose proof (gc_perm now (r_buftimeout s) w0) as G. cbn [opt_rids] in HP.
    destruct (gc_alive now (r_buftimeout s) w0) as [|a al] eqn:GA; intros [= <- <- <-];
      rewrite ev_rids_ans; cbn [opt_rids]; rewrite ?e_rids_with; unfold r_map at 1; cbn [rs_with_tq r_tq]; perm_lia.
  - intros [= <- <- <-]. exact HP.
Qed.

Lemma r_pop_next_length now s s' w evs : r_pop_next now s = (s', Some w, evs) ->
  S (length (r_map s')) = length (r_map s).
Proof.
  unfold r_pop_next. destruct (rtq_pop now (r_tq s)) as [t' r] eqn:P.
  pose proof (rtq_pop_q now (r_tq s)) as [H1 H2]. rewrite P in H1, H2. cbn [fst snd] in H1, H2.
  destruct r as [w0|]; [|discriminate].
  assert (L : S (length (q_map (tq_q t'))) = length (r_map s)).
  { rewrite H1. unfold rq_pop in *. unfold r_map. destruct (m_find (q_next (tq_q (r_tq s))) (q_map (tq_q (r_tq s)))) eqn:F;
      [|discriminate]. cbn [fst q_map q_with_map]. eapply m_remove_length. exact F. }
  destruct (gc_alive now (r_buftimeout s) w0); [discriminate|]. intros [= <- _ _]. exact L.
Qed.

Lemma r_drain_perm fuel now : forall s w s' evs,
  (w = None \/ (length (r_map s) < fuel)%nat) ->
  r_drain fuel now s w = (s', evs) ->
  Permutation (ev_rids evs ++ m_rids (r_map s')) (opt_rids w ++ m_rids (r_map s)).
Proof.
  induction fuel as [|f IH]; intros s w s' evs HF.
  - destruct w; [destruct HF as [?|?]; [discriminate|lia]|]. intros [= <- <-]. reflexivity.
  - destruct w as [w|]; [|intros [= <- <-]; reflexivity].
    destruct HF as [?|HF]; [discriminate|]. cbn [r_drain].
    destruct (r_write_buffered now s w) as [[s1 r] evs1] eqn:W.
    pose proof (r_write_buffered_perm _ _ _ _ _ _ W) as PW.
    pose proof (r_write_buffered_length _ _ _ _ _ _ W) as LW.
    destruct r as [pos|e].
    + destruct (r_pop_next now s1) as [[s2 w2] evs2] eqn:PN.
      destruct (r_drain f now s2 w2) as [s3 evs3] eqn:D. intros [= <- <-].
      pose proof (r_pop_next_perm _ _ _ _ _ PN) as PP.
      assert (HF2 : w2 = None \/ (length (r_map s2) < f)%nat).
      { destruct w2 as [w2|]; [right|left; reflexivity]. pose proof (r_pop_next_length _ _ _ _ _ PN). lia. }
      pose proof (IH _ _ _ _ HF2 D) as PD.
      rewrite !ev_rids_app. cbn [opt_rids]. perm_lia.
    + intros [= <- <-]. exact PW.
Qed.

Lemma first_reply_err_rids v e : ev_rids (first_reply_err v e) = e_rids v.
Proof.
  unfold first_reply_err, e_rids. destruct (e_replies v) as [|r rest]; [reflexivity|].
  cbn [ev_rids map]. rewrite ev_rids_ans. reflexivity.
Qed.

Lemma r_fuel_ok s (w : option rentry) : w = None \/ (length (r_map s) < r_fuel s)%nat.
Proof. right. unfold r_fuel. lia. Qed.

Lemma r_deliver_perm now s rid key tx more ok s' evs : r_deliver now s rid key tx more ok = (s', evs) ->
  Permutation (ev_rids evs ++ m_rids (r_map s')) ([rid] ++ m_rids (r_map s)).
Proof.
  unfold r_deliver.
  set (v := mk_rentry tx key more ok [(rid, now)]).
  destruct (rtq_insert now (r_tq s) key v) as [t1 res] eqn:I.
  pose proof (rtq_insert_q now (r_tq s) key v) as [H1 H2]. rewrite I in H1, H2. cbn [fst snd] in H1, H2.
  pose proof (rq_insert_perm (tq_q (r_tq s)) key v _ _ (surjective_pairing _)) as HP.
  rewrite <- H1, <- H2 in HP. change (e_rids v) with [rid] in HP. fold (r_map s) in HP.
  set (s1 := rs_with_tq s t1) in *.
  change (q_map (tq_q t1)) with (r_map s1) in HP.
  destruct res as [w merged|merged ev|v'|k' v'|k' v']; cbn [ins_rids] in HP.
  - (* ready *)
    pose proof (gc_perm now (r_buftimeout s) w) as G.
    destruct (gc_alive now (r_buftimeout s) w) as [|a al] eqn:GA.
    + destruct (r_pop_next now s1) as [[s2 w2] evs2] eqn:PN.
      destruct (r_drain (r_fuel s2) now s2 w2) as [s3 evs3] eqn:D. intros [= <- <-].
      pose proof (r_pop_next_perm _ _ _ _ _ PN) as PP.
      pose proof (r_drain_perm _ _ _ _ _ _ (r_fuel_ok s2 w2) D) as PD.
      rewrite !ev_rids_app, ev_rids_ans. perm_lia.
    + destruct (r_drain (r_fuel s1) now s1 (Some (e_with_replies w (a :: al)))) as [s3 evs3] eqn:D. intros [= <- <-].
      pose proof (r_drain_perm _ _ _ _ _ _ (r_fuel_ok s1 _) D) as PD. cbn [opt_rids] in PD. rewrite e_rids_with in PD.
      rewrite !ev_rids_app, ev_rids_ans. perm_lia.
  - (* buffered *)
    destruct (r_pop_next now s1) as [[s2 w2] evs2] eqn:PN.
    destruct (r_drain (r_fuel s2) now s2 w2) as [s3 evs3] eqn:D. intros [= <- <-].
    pose proof (r_pop_next_perm _ _ _ _ _ PN) as PP.
    pose proof (r_drain_perm _ _ _ _ _ _ (r_fuel_ok s2 w2) D) as PD.
    rewrite !ev_rids_app.
    destruct ev as [[ek w]|].
    + pose proof (gc_perm now (r_buftimeout s) w) as G. rewrite ev_rids_app, !ev_rids_ans. perm_lia.
    + cbn [ev_rids app] in *. perm_lia.
  - intros [= <- <-]. rewrite first_reply_err_rids. exact HP.
  - intros [= <- <-]. rewrite first_reply_err_rids. exact HP.
  - intros [= <- <-]. rewrite first_reply_err_rids. exact HP.
Qed.

Lemma r_expire_front_perm now T m m' d evs : r_expire_front now T m = (m', d, evs) ->
  Permutation (ev_rids evs ++ m_rids m') (m_rids m).
Proof.
  revert m' d evs. induction m as [|[k e] m IH]; intros m' d evs; cbn [r_expire_front].
  - intros [= <- <- <-]. reflexivity.
  - pose proof (gc_perm now T e) as G.
    destruct (gc_alive now T e) as [|a al] eqn:GA.
    + destruct (r_expire_front now T m) as [[m1 d1] evs1] eqn:R. intros [= <- <- <-].
      pose proof (IH _ _ _ eq_refl) as P1.
      rewrite ev_rids_app, ev_rids_ans, m_rids_cons. cbn [snd]. perm_lia.
    + intros [= <- <- <-]. rewrite ev_rids_ans, !m_rids_cons. cbn [snd]. rewrite e_rids_with. perm_lia.
Qed.

Lemma r_tick_map now s p : exists m' d evs0,
  r_expire_front now (r_buftimeout s) (r_map s) = (m', d, evs0) /\
  r_map (fst (r_tick now s p)) = m' /\
  (snd (r_tick now s p) = evs0 \/ exists e, snd (r_tick now s p) = evs0 ++ [e] /\ ev_rids [e] = []).
Proof.
  unfold r_tick. fold (r_map s).
  destruct (r_expire_front now (r_buftimeout s) (r_map s)) as [[m' d] evs0] eqn:X.
  exists m', d, evs0. split; [reflexivity|].
  set (t1 := tq_with_q (r_tq s) (q_with_map (tq_q (r_tq s)) m')).
  set (t2 := if d then rtq_update now t1 else t1).
  assert (M : q_map (tq_q t2) = m').
  { unfold t2. destruct d; [rewrite rtq_update_q|]; reflexivity. }
  set (s1 := rs_with_tq s t2).
  assert (M1 : r_map s1 = m') by exact M.
  assert (M2 : r_map (rs_with_catching s1 true) = m') by exact M.
  destruct (negb p); [cbn [fst snd]; auto|].
  destruct m' as [|[oldest w] m'']; [cbn [fst snd]; auto|].
  destruct ((oldest =? 0) || (oldest <? q_next (tq_q (r_tq s)))).
  { cbn [fst snd]. split; [exact M1|]. right. eexists. split; reflexivity. }
  destruct ((0 <? oldest - q_next (tq_q (r_tq s))) && negb (r_catching s)); cbn [fst snd].
  - split; [exact M2|]. right. eexists. split; reflexivity.
  - auto.
Qed.

Lemma r_tick_perm now s p s' evs : r_tick now s p = (s', evs) ->
  Permutation (ev_rids evs ++ m_rids (r_map s')) (m_rids (r_map s)).
Proof.
  intros E. destruct (r_tick_map now s p) as (m' & d & evs0 & X & M & EV). rewrite E in M, EV. cbn [fst snd] in M, EV.
  pose proof (r_expire_front_perm _ _ _ _ _ _ X) as PX. rewrite M.
  destruct EV as [->|(e & -> & Z)]; [exact PX|]. rewrite ev_rids_app, Z, app_nil_r. exact PX.
Qed.

Lemma r_apply_commits_perm now cs : forall s s' b evs, r_apply_commits now s cs = (s', b, evs) ->
  Permutation (ev_rids evs ++ m_rids (r_map s')) (m_rids (r_map s)).
Proof.
  induction cs as [|c cs IH]; intros s s' b evs; cbn [r_apply_commits].
  - intros [= <- <- <-]. reflexivity.
  - destruct (r_write_tx now s (c_tx c) (c_more c) (c_ok c) (Some (c_seq c))) as [[s1 r] evs1] eqn:W.
    pose proof (r_write_tx_perm _ _ _ _ _ _ _ _ _ W) as PW.
    destruct r.
    + destruct (r_apply_commits now s1 cs) as [[s2 b2] evs2] eqn:A. intros [= <- <- <-].
      pose proof (IH _ _ _ _ A). rewrite ev_rids_app. perm_lia.
    + intros [= <- <- <-]. exact PW.
Qed.

Lemma r_map_update_timer now s : r_map (rs_update_timer now s) = r_map s.
Proof. unfold rs_update_timer, r_map. cbn [r_tq rs_with_tq]. rewrite rtq_update_q. reflexivity. Qed.

Lemma r_sync_perm now s res s' evs : r_sync now s res = (s', evs) ->
  Permutation (ev_rids evs ++ m_rids (r_map s')) (m_rids (r_map s)).
Proof.
  unfold r_sync. destruct res as [cs|]; [|intros [= <- <-]; rewrite r_map_update_timer; reflexivity].
  destruct (r_apply_commits now (rs_with_catching s false) cs) as [[s1 allok] evs1] eqn:A.
  pose proof (r_apply_commits_perm _ _ _ _ _ _ A) as PA. change (r_map (rs_with_catching s false)) with (r_map s) in PA.
  destruct allok.
  - destruct (r_pop_next now s1) as [[s2 w2] evs2] eqn:PN.
    destruct (r_drain (r_fuel s2) now s2 w2) as [s3 evs3] eqn:D. intros [= <- <-].
    pose proof (r_pop_next_perm _ _ _ _ _ PN) as PP.
    pose proof (r_drain_perm _ _ _ _ _ _ (r_fuel_ok s2 w2) D) as PD.
    rewrite r_map_update_timer, !ev_rids_app. perm_lia.
  - intros [= <- <-]. rewrite r_map_update_timer. exact PA.
Qed.

Lemma r_step_perm s o s' evs : r_step s o = (s', evs) ->
  Permutation (ev_rids evs ++ m_rids (r_map s')) (op_rids o ++ m_rids (r_map s)).
Proof.
  destruct o; cbn [r_step op_rids].
  - apply r_deliver_perm.
  - apply r_tick_perm.
  - apply r_sync_perm.
Qed.

Lemma r_run_perm ops : forall s s' evs, r_run s ops = (s', evs) ->
  Permutation (ev_rids evs ++ m_rids (r_map s')) (ops_rids ops ++ m_rids (r_map s)).
Proof.
  induction ops as [|o ops IH]; intros s s' evs; cbn [r_run].
  - intros [= <- <-]. reflexivity.
  - destruct (r_step s o) as [s1 evs1] eqn:S1. destruct (r_run s1 ops) as [s2 evs2] eqn:R. intros [= <- <-].
    unfold ops_rids. cbn [flat_map]. fold (ops_rids ops).
    pose proof (IH _ _ _ R). pose proof (r_step_perm _ _ _ _ S1).
    rewrite ev_rids_app. perm_lia.
Qed.

(** every delivered reply id is, after any history, either answered exactly once or still buffered exactly once *)
Lemma answered_exactly_once n0 limit T Tc ops :
  Permutation (ev_rids (snd (r_run (r_init n0 limit T Tc) ops)) ++ m_rids (r_map (fst (r_run (r_init n0 limit T Tc) ops))))
              (ops_rids ops).
Proof.
  destruct (r_run (r_init n0 limit T Tc) ops) as [s evs] eqn:R. cbn [fst snd].
  rewrite (r_run_perm _ _ _ _ R). cbn. rewrite app_nil_r. reflexivity.
Qed.

(* ================================================================== 2. the invariant *)

Lemma Forall_m_remove (P : N * rentry -> Prop) k m : Forall P m -> Forall P (m_remove k m).
Proof.
  induction m as [|[k' v] m IH]; cbn [m_remove]; intros H; [constructor|].
  inversion H; subst. destruct (k =? k'); [assumption|]. constructor; auto.
Qed.
Lemma Forall_m_set (P : N * rentry -> Prop) k v m : Forall P m -> P (k, v) -> Forall P (m_set k v m).
Proof.
  induction m as [|[k' v'] m IH]; cbn [m_set]; intros H Hp; [constructor|].
  inversion H; subst. destruct (k =? k'); constructor; auto.
Qed.
Lemma Forall_m_put (P : N * rentry -> Prop) k v m : Forall P m -> P (k, v) -> Forall P (m_put k v m).
Proof.
  induction m as [|[k' v'] m IH]; cbn [m_put]; intros H Hp; [constructor; auto|].
  inversion H; subst. destruct (k <? k'); constructor; auto.
Qed.
Lemma Forall_removelast {A} (P : A -> Prop) (m : list A) : Forall P m -> Forall P (removelast m).
Proof.
  induction m as [|a m IH]; intros H; [constructor|]. inversion H; subst.
  destruct m as [|b m]; [constructor|]. change (removelast (a :: b :: m)) with (a :: removelast (b :: m)).
  constructor; auto.
Qed.
Lemma Forall_filter' {A} (P : A -> Prop) f (m : list A) : Forall P m -> Forall P (filter f m).
Proof.
  induction m as [|a m IH]; intros H; [constructor|]. inversion H; subst. cbn. destruct (f a); [constructor|]; auto.
Qed.
Lemma m_find_In k m e : m_find k m = Some e -> In (k, e) m.
Proof.
  induction m as [|[k' v] m IH]; cbn [m_find]; [discriminate|].
  destruct (N.eqb_spec k k'); [intros [= ->]; subst; left; reflexivity|]. intros H. right. auto.
Qed.
Lemma m_last_In m p : m_last m = Some p -> In p m.
Proof.
  intros H. rewrite (m_last_removelast _ _ H). apply in_or_app. right. left. reflexivity.
Qed.

Fixpoint m_sorted (m : rmap) : Prop :=
  match m with
  | [] => True
  | p :: t => Forall (fun x => fst p < fst x) t /\ m_sorted t
  end.

Lemma m_find_above k m : Forall (fun x => k < fst x) m -> m_find k m = None.
Proof.
  induction m as [|[k' v] m IH]; [reflexivity|]. intros H. inversion H; subst. cbn [fst] in *. cbn [m_find].
  destruct (N.eqb_spec k k'); [lia|]. auto.
Qed.
Lemma m_find_remove_same k m : m_sorted m -> m_find k (m_remove k m) = None.
Proof.
  induction m as [|[k' v] m IH]; [reflexivity|]. intros [H1 H2]. cbn [m_remove].
  destruct (N.eqb_spec k k').
  - subst. apply m_find_above. exact H1.
  - cbn [m_find]. destruct (N.eqb_spec k k'); [contradiction|]. auto.
Qed.
Lemma m_find_remove_other k k' m : k <> k' -> m_find k (m_remove k' m) = m_find k m.
Proof.
  intros Hne. induction m as [|[k2 v] m IH]; [reflexivity|]. cbn [m_remove m_find].
  destruct (N.eqb_spec k' k2).
  - subst. destruct (N.eqb_spec k k2); [contradiction|reflexivity].
  - cbn [m_find]. rewrite IH. reflexivity.
Qed.
Lemma m_find_set_other k k' v m : k <> k' -> m_find k (m_set k' v m) = m_find k m.
Proof.
  intros Hne. induction m as [|[k2 v2] m IH]; [reflexivity|]. cbn [m_set m_find].
  destruct (N.eqb_spec k' k2).
  - subst. cbn [m_find]. destruct (N.eqb_spec k k2); [contradiction|reflexivity].
  - cbn [m_find]. rewrite IH. reflexivity.
Qed.
Lemma m_find_set_same k v m e : m_find k m = Some e -> m_find k (m_set k v m) = Some v.
Proof.
  induction m as [|[k2 v2] m IH]; cbn [m_find m_set]; [discriminate|].
  destruct (N.eqb_spec k k2).
  - intros _. cbn [m_find]. rewrite N.eqb_refl. reflexivity.
  - intros H. cbn [m_find]. destruct (N.eqb_spec k k2); [contradiction|]. auto.
Qed.
Lemma m_find_put_other k k' v m : k <> k' -> m_find k (m_put k' v m) = m_find k m.
Proof.
  intros Hne. induction m as [|[k2 v2] m IH]; cbn [m_put m_find].
  - destruct (N.eqb_spec k k'); [contradiction|reflexivity].
  - destruct (k' <? k2); cbn [m_find].
    + destruct (N.eqb_spec k k'); [contradiction|reflexivity].
    + rewrite IH. reflexivity.
Qed.
Lemma m_find_removelast_none k m : m_find k m = None -> m_find k (removelast m) = None.
Proof.
  induction m as [|[k2 v2] m IH]; [reflexivity|]. destruct m as [|b m]; [reflexivity|].
  change (removelast ((k2, v2) :: b :: m)) with ((k2, v2) :: removelast (b :: m)).
  cbn [m_find]. destruct (k =? k2); [discriminate|]. exact IH.
Qed.
Lemma m_find_filter_none k f m : m_find k m = None -> m_find k (filter f m) = None.
Proof.
  induction m as [|[k2 v2] m IH]; [reflexivity|]. cbn [m_find filter].
  destruct (k =? k2) eqn:E; [discriminate|]. intros H. destruct (f (k2, v2)); [cbn [m_find]; rewrite E|]; auto.
Qed.

Lemma m_keys_set k v m : map fst (m_set k v m) = map fst m.
Proof.
  induction m as [|[k2 v2] m IH]; [reflexivity|]. cbn [m_set].
  destruct (N.eqb_spec k k2); cbn [map fst]; [subst; reflexivity|]. rewrite IH. reflexivity.
Qed.
Lemma m_sorted_keys m m' : map fst m = map fst m' -> m_sorted m -> m_sorted m'.
Proof.
  revert m'. induction m as [|p m IH]; intros [|p' m'] E; try discriminate; [auto|].
  cbn [map] in E. injection E as E1 E2. intros [H1 H2]. split; [|apply IH; assumption].
  rewrite <- E1. clear - H1 E2. revert m' E2. induction m as [|a m IH]; intros [|a' m'] E; try discriminate; [constructor|].
  cbn [map] in E. injection E as Ea Em. inversion H1; subst. constructor; [rewrite <- Ea; assumption|]. apply IH; assumption.
Qed.
Lemma m_sorted_remove k m : m_sorted m -> m_sorted (m_remove k m).
Proof.
  induction m as [|[k' v] m IH]; [auto|]. intros [H1 H2]. cbn [m_remove].
  destruct (k =? k'); [assumption|]. split; [apply Forall_m_remove; assumption|auto].
Qed.
Lemma m_sorted_put k v m : m_sorted m -> m_find k m = None -> m_sorted (m_put k v m).
Proof.
  induction m as [|[k' v'] m IH]; [intros; cbn; auto|]. intros [H1 H2]. cbn [m_find m_put].
  destruct (N.eqb_spec k k'); [discriminate|]. intros F.
  destruct (N.ltb_spec k k').
  - split; [|split; assumption]. constructor; [assumption|]. cbn [fst] in *.
    eapply Forall_impl; [|exact H1]. cbn. intros; lia.
  - split; [|auto]. apply Forall_m_put; [assumption|]. cbn [fst]. lia.
Qed.
Lemma m_sorted_removelast m : m_sorted m -> m_sorted (removelast m).
Proof.
  induction m as [|a m IH]; [auto|]. intros [H1 H2]. destruct m as [|b m]; [exact I|].
  change (removelast (a :: b :: m)) with (a :: removelast (b :: m)). split; [apply Forall_removelast; assumption|auto].
Qed.
Lemma m_sorted_filter f m : m_sorted m -> m_sorted (filter f m).
Proof.
  induction m as [|a m IH]; [auto|]. intros [H1 H2]. cbn [filter]. destruct (f a); [|auto].
  split; [apply Forall_filter'; assumption|auto].
Qed.

Lemma tq_with_q_id t : tq_with_q t (tq_q t) = t.
Proof. destruct t; reflexivity. Qed.
Lemma q_with_map_id q : q_with_map q (q_map q) = q.
Proof. destruct q; reflexivity. Qed.
Lemma rs_with_tq_id s : rs_with_tq s (r_tq s) = s.
Proof. destruct s; reflexivity. Qed.

Lemma rq_insert_rejected q k v : ins_accepted (snd (rq_insert q k v)) = false -> fst (rq_insert q k v) = q.
Proof.
  unfold rq_insert. destruct (k =? q_next q).
  - destruct (m_find k (q_map q)); [destruct (e_key_eq v r)|]; cbn; congruence.
  - destruct (k <? q_next q); [reflexivity|]. destruct (m_find k (q_map q)).
    + destruct (e_key_eq v r); cbn; congruence.
    + destruct (rq_full q); [|cbn; congruence]. destruct (m_last (q_map q)) as [[lk lv]|]; [|reflexivity].
      destruct (k <? lk); cbn; congruence.
Qed.

Ltac splits := repeat match goal with |- _ /\ _ => split end.

Section Inv.
Variable Dk : N -> N -> Prop.     (* Dk rid key: reply id [rid] was delivered with a write for sequence [key] *)

Definition val_ok (k : N) (e : rentry) : Prop :=
  e_seq e = k /\ e_replies e <> [] /\ Forall (fun r => Dk (fst r) k) (e_replies e).
Definition ent_ok (p : N * rentry) : Prop := 0 < fst p /\ val_ok (fst p) (snd p).
Definition map_ok (n : N) (m : rmap) : Prop :=
  Forall (fun p => n <= fst p) m /\ Forall ent_ok m /\ m_sorted m.

Lemma val_ok_merge k a b : val_ok k a -> val_ok k b -> val_ok k (e_merge a b).
Proof.
  intros (A1 & A2 & A3) (B1 & B2 & B3). unfold e_merge, e_with_replies, val_ok. cbn [e_seq e_replies].
  split; [assumption|]. split; [|apply Forall_app; auto]. destruct (e_replies a); [contradiction|discriminate].
Qed.
Lemma val_ok_gc k w now T a al : val_ok k w -> gc_alive now T w = a :: al -> val_ok k (e_with_replies w (a :: al)).
Proof.
  intros (A1 & A2 & A3) G. unfold val_ok, e_with_replies. cbn [e_seq e_replies].
  split; [assumption|]. split; [discriminate|]. rewrite <- G. unfold gc_alive. apply Forall_filter'. assumption.
Qed.

Lemma map_ok_find n m k e : map_ok n m -> m_find k m = Some e -> n <= k /\ 0 < k /\ val_ok k e.
Proof.
  intros (H1 & H2 & _) F. apply m_find_In in F. rewrite Forall_forall in H1, H2.
  specialize (H1 _ F). destruct (H2 _ F) as [Hp Hv]. cbn [fst snd] in *. auto.
Qed.
Lemma map_ok_remove n m k : map_ok n m -> map_ok n (m_remove k m).
Proof.
  intros (H1 & H2 & H3). split; [|split]; [apply Forall_m_remove|apply Forall_m_remove|apply m_sorted_remove]; assumption.
Qed.
Lemma map_ok_set n m k v e : map_ok n m -> m_find k m = Some e -> val_ok k v -> map_ok n (m_set k v m).
Proof.
  intros M F V. destruct (map_ok_find _ _ _ _ M F) as (A & B & _). destruct M as (H1 & H2 & H3).
  split; [|split].
  - apply Forall_m_set; [assumption|exact A].
  - apply Forall_m_set; [assumption|]. split; assumption.
  - eapply m_sorted_keys; [|exact H3]. symmetry. apply m_keys_set.
Qed.
Lemma map_ok_put n m k v : map_ok n m -> n <= k -> 0 < k -> val_ok k v -> m_find k m = None -> map_ok n (m_put k v m).
Proof.
  intros (H1 & H2 & H3) A B V F. split; [|split].
  - apply Forall_m_put; [assumption|exact A].
  - apply Forall_m_put; [assumption|]. split; assumption.
  - apply m_sorted_put; assumption.
Qed.
Lemma map_ok_removelast n m : map_ok n m -> map_ok n (removelast m).
Proof.
  intros (H1 & H2 & H3). split; [|split]; [apply Forall_removelast|apply Forall_removelast|apply m_sorted_removelast]; assumption.
Qed.
Lemma m_put_nonempty k v m : m_put k v m <> [].
Proof. destruct m as [|[a b] t]; cbn [m_put]; [discriminate|]. destruct (k <? a); discriminate. Qed.

Definition ins_val_ok (n : N) (r : ins_result) : Prop :=
  match r with InsReady w _ => val_ok n w | _ => True end.

Lemma rq_insert_ok q k v : map_ok (q_next q) (q_map q) -> val_ok k v ->
  map_ok (q_next q) (q_map (fst (rq_insert q k v))) /\ q_next (fst (rq_insert q k v)) = q_next q /\
  ins_val_ok (q_next q) (snd (rq_insert q k v)) /\
  (forall w mg, snd (rq_insert q k v) = InsReady w mg -> m_find (q_next q) (q_map (fst (rq_insert q k v))) = None) /\
  (forall k', k' <> k -> m_find k' (q_map q) = None -> m_find k' (q_map (fst (rq_insert q k v))) = None) /\
  (forall mg ev, snd (rq_insert q k v) = InsBuffered mg ev -> q_map (fst (rq_insert q k v)) <> [] /\ q_next q < k).
Proof.
  intros M V. unfold rq_insert.
  destruct (N.eqb_spec k (q_next q)) as [->|Hne].
  - destruct (m_find (q_next q) (q_map q)) as [ex|] eqn:F.
    + destruct (map_ok_find _ _ _ _ M F) as (_ & _ & Vx).
      destruct (e_key_eq v ex); cbn [fst snd q_map q_next q_with_map ins_val_ok]; splits; try discriminate; auto.
      * apply map_ok_remove. assumption.
      * apply val_ok_merge; assumption.
      * intros. apply m_find_remove_same. apply M.
      * intros k' Hk Fk. rewrite m_find_remove_other by assumption. assumption.
    + cbn [fst snd q_map q_next ins_val_ok]. splits; try discriminate; auto.
  - destruct (N.ltb_spec k (q_next q)) as [Hlt|Hge].
    + cbn [fst snd q_map q_next ins_val_ok]. splits; try discriminate; auto.
    + assert (Hk : q_next q < k) by lia.
      destruct (m_find k (q_map q)) as [ex|] eqn:F.
      * destruct (map_ok_find _ _ _ _ M F) as (_ & _ & Vx).
        destruct (e_key_eq v ex); cbn [fst snd q_map q_next q_with_map ins_val_ok]; splits; try discriminate; auto.
        -- eapply map_ok_set; [assumption|exact F|]. apply val_ok_merge; assumption.
        -- intros k' Hk' Fk. rewrite m_find_set_other by assumption. assumption.
        -- intros mg ev _. split; [|assumption].
           intros E0. pose proof (m_find_set_same k (e_merge ex v) _ _ F) as X. rewrite E0 in X. discriminate.
      * destruct (rq_full q).
        -- destruct (m_last (q_map q)) as [[lk lv]|] eqn:L;
             [|cbn [fst snd q_map q_next ins_val_ok]; splits; try discriminate; auto].
           destruct (k <? lk); cbn [fst snd q_map q_next q_with_map ins_val_ok]; splits; try discriminate; auto.
           ++ apply map_ok_put; try assumption; try lia; [apply map_ok_removelast; assumption|apply m_find_removelast_none; assumption].
           ++ intros k' Hk' Fk. rewrite m_find_put_other by assumption. apply m_find_removelast_none. assumption.
           ++ intros mg ev _. split; [apply m_put_nonempty|assumption].
        -- cbn [fst snd q_map q_next q_with_map ins_val_ok]. splits; try discriminate; auto.
           ++ apply map_ok_put; try assumption; lia.
           ++ intros k' Hk' Fk. rewrite m_find_put_other by assumption. assumption.
           ++ intros mg ev _. split; [apply m_put_nonempty|assumption].
Qed.

Lemma rq_pop_ok q : map_ok (q_next q) (q_map q) ->
  map_ok (q_next q) (q_map (fst (rq_pop q))) /\ q_next (fst (rq_pop q)) = q_next q /\
  (forall w, snd (rq_pop q) = Some w -> val_ok (q_next q) w) /\
  m_find (q_next q) (q_map (fst (rq_pop q))) = None.
Proof.
  intros M. unfold rq_pop.
  destruct (m_find (q_next q) (q_map q)) as [w|] eqn:F; cbn [fst snd q_map q_next q_with_map]; splits; auto.
  - apply map_ok_remove. assumption.
  - destruct (map_ok_find _ _ _ _ M F) as (_ & _ & V). intros w' [= <-]. assumption.
  - apply m_find_remove_same. apply M.
  - discriminate.
Qed.

Lemma rq_progress_ok q n n1 : map_ok n1 (q_map q) -> map_ok n (q_map (fst (rq_progress q n))) /\ q_next (fst (rq_progress q n)) = n.
Proof.
  intros (M1 & M2 & M3). unfold rq_progress. cbn [fst q_map q_next]. split; [|reflexivity]. unfold m_from. split; [|split].
  - rewrite Forall_forall. intros p Hp. apply filter_In in Hp. destruct Hp as [_ Hp]. destruct (N.ltb_spec (fst p) n); [discriminate|assumption].
  - apply Forall_filter'. assumption.
  - apply m_sorted_filter. assumption.
Qed.

(* the timer is armed exactly when something is buffered *)
Definition timer_ok (t : tqueue) : Prop := tq_timer t = None <-> q_map (tq_q t) = [].
Lemma timer_ok_update now t : timer_ok (rtq_update now t).
Proof.
  unfold timer_ok, rtq_update. destruct (q_map (tq_q t)) as [|[k v] m] eqn:E; cbn [tq_timer tq_q]; rewrite E;
    split; intros; try reflexivity; discriminate.
Qed.

Lemma rtq_insert_timer now t k v : timer_ok t ->
  (forall mg ev, snd (rq_insert (tq_q t) k v) = InsBuffered mg ev -> q_map (fst (rq_insert (tq_q t) k v)) <> []) ->
  timer_ok (fst (rtq_insert now t k v)).
Proof.
  intros T NE. unfold rtq_insert.
  pose proof (rq_insert_rejected (tq_q t) k v) as RJ.
  destruct (rq_insert (tq_q t) k v) as [q' r]. cbn [fst snd] in *.
  destruct r as [w mg|mg ev| | |]; cbn [fst].
  - apply timer_ok_update.
  - destruct mg; cbn [orb]; [apply timer_ok_update|].
    destruct (tq_timer t) as [[ck cd]|] eqn:TT; [|apply timer_ok_update].
    destruct (k <? ck); [apply timer_ok_update|].
    unfold timer_ok, tq_with_q. cbn [tq_timer tq_q]. rewrite TT. split; [discriminate|]. intros E. exfalso. eapply NE; eauto.
  - rewrite RJ by reflexivity. rewrite tq_with_q_id. assumption.
  - rewrite RJ by reflexivity. rewrite tq_with_q_id. assumption.
  - rewrite RJ by reflexivity. rewrite tq_with_q_id. assumption.
Qed.

Lemma rtq_insert_rejected now t k v :
  ins_accepted (snd (rq_insert (tq_q t) k v)) = false -> fst (rtq_insert now t k v) = t.
Proof.
  intros E. pose proof (rq_insert_rejected _ _ _ E) as RJ. unfold rtq_insert.
  destruct (rq_insert (tq_q t) k v) as [q' r']. cbn [fst snd] in *. subst q'.
  destruct r'; try discriminate; cbn [fst]; apply tq_with_q_id.
Qed.

Lemma rtq_pop_timer now t : timer_ok t -> timer_ok (fst (rtq_pop now t)).
Proof.
  intros T. unfold rtq_pop, rq_pop. destruct (m_find (q_next (tq_q t)) (q_map (tq_q t))); cbn [fst].
  - apply timer_ok_update.
  - rewrite tq_with_q_id. assumption.
Qed.

Lemma rtq_progress_timer now t n : timer_ok (fst (rtq_progress now t n)).
Proof. unfold rtq_progress. destruct (rq_progress (tq_q t) n). cbn [fst]. apply timer_ok_update. Qed.

(* ------------------------------------------------------------------ the log *)
Inductive log_ok (n0 : N) : list logent -> N -> Prop :=
| log_nil : log_ok n0 [] n0
| log_snoc log nxt le : log_ok n0 log nxt -> l_pos le = nxt -> 1 <= l_cnt le ->
    l_assigned le = Some nxt -> log_ok n0 (log ++ [le]) (nxt + l_cnt le).

Definition ev_ok (e : revent) : Prop :=
  match e with
  | EvAns rid (OApplied pos) => Dk rid pos
  | EvAns _ (OErr EWrongSeq) => False
  | EvGapPanic => False
  | _ => True
  end.

Definition rinv (n0 : N) (s : rstate) : Prop :=
  map_ok (r_next s) (r_map s) /\ r_dbnext s = r_next s /\ log_ok n0 (r_log s) (r_dbnext s) /\ timer_ok (r_tq s).

Lemma rinv_init n0 limit T Tc : rinv n0 (r_init n0 limit T Tc).
Proof.
  unfold rinv, r_init, r_map, r_next, rtq_new, rq_new, timer_ok, map_ok. cbn.
  splits; try constructor; auto.
Qed.

Lemma Forall_ev_ok_ans o rs : (forall r, In r rs -> ev_ok (EvAns (fst r) o)) -> Forall ev_ok (ans_all o rs).
Proof.
  intros H. unfold ans_all. rewrite Forall_forall. intros e He. apply in_map_iff in He. destruct He as (r & <- & Hr). auto.
Qed.
Lemma Forall_ev_ok_ans_triv o rs : (forall rid, ev_ok (EvAns rid o)) -> Forall ev_ok (ans_all o rs).
Proof. intros H. apply Forall_ev_ok_ans. intros. apply H. Qed.
Lemma Forall_ev_ok_expired rs : Forall ev_ok (ans_all OExpired rs).
Proof. apply Forall_ev_ok_ans_triv. intros; exact I. Qed.
Lemma Forall_ev_ok_stale st : Forall ev_ok (stale_events st).
Proof.
  unfold stale_events. induction st as [|p st IH]; [constructor|]. cbn [flat_map]. apply Forall_app. split; [|assumption].
  apply Forall_ev_ok_ans_triv. intros; exact I.
Qed.

Lemma r_write_tx_ok n0 now s tx more ok k : rinv n0 s ->
  rinv n0 (fst (fst (r_write_tx now s tx more ok (Some k)))) /\ Forall ev_ok (snd (r_write_tx now s tx more ok (Some k))) /\
  match snd (fst (r_write_tx now s tx more ok (Some k))) with
  | WErr e => fst (fst (r_write_tx now s tx more ok (Some k))) = s /\ snd (r_write_tx now s tx more ok (Some k)) = [] /\
              (k = r_dbnext s -> e = EDb)
  | WOk p => p = r_dbnext s /\ r_next s < r_next (fst (fst (r_write_tx now s tx more ok (Some k))))
  end.
Proof.
  intros I. pose proof I as (M & D & L & T). unfold r_write_tx.
  destruct (db_check (r_dbnext s) (Some k) ok) as [e|] eqn:C; cbn [fst snd].
  - split; [assumption|]. split; [constructor|]. split; [reflexivity|]. split; [reflexivity|].
    intros ->. unfold db_check in C. rewrite N.eqb_refl in C. destruct ok; congruence.
  - assert (K : k = r_dbnext s).
    { unfold db_check in C. destruct (N.eqb_spec k (r_dbnext s)); [assumption|discriminate]. }
    pose proof (rtq_progress_q now (r_tq s) (r_dbnext s + more + 1)) as [H1 H2].
    pose proof (rtq_progress_timer now (r_tq s) (r_dbnext s + more + 1)) as TT.
    destruct (rtq_progress now (r_tq s) (r_dbnext s + more + 1)) as [t' st]. cbn [fst snd] in *.
    destruct (rq_progress_ok (tq_q (r_tq s)) (r_dbnext s + more + 1) _ M) as [PM PN]. rewrite <- H1 in PM, PN.
    split; [|split; [apply Forall_ev_ok_stale|split; [reflexivity|]]].
    + unfold rinv, r_map, r_next. cbn [r_tq r_log r_dbnext]. rewrite PN. splits; auto.
      replace (r_dbnext s + more + 1) with (r_dbnext s + l_cnt (mk_logent (r_dbnext s) tx (more + 1) (Some k))) by (cbn [l_cnt]; lia).
      apply log_snoc; cbn [l_pos l_cnt l_assigned]; auto; [lia|congruence].
    + unfold r_next at 2. cbn [r_tq]. rewrite PN. lia.
Qed.

Lemma r_write_buffered_ok n0 now s w : rinv n0 s -> val_ok (r_next s) w ->
  rinv n0 (fst (fst (r_write_buffered now s w))) /\ Forall ev_ok (snd (r_write_buffered now s w)) /\
  match snd (fst (r_write_buffered now s w)) with
  | WErr _ => fst (fst (r_write_buffered now s w)) = s
  | WOk _ => r_next s < r_next (fst (fst (r_write_buffered now s w)))
  end.
Proof.
  intros I (V1 & V2 & V3). unfold r_write_buffered.
  assert (HX : e_seq w = r_dbnext s) by (destruct I as (_ & D & _); rewrite D; assumption).
  pose proof (r_write_tx_ok n0 now s (e_tx w) (e_more w) (e_ok w) (e_seq w) I) as H.
  destruct (r_write_tx now s (e_tx w) (e_more w) (e_ok w) (Some (e_seq w))) as [[s1 r] evs]. cbn [fst snd] in *.
  destruct H as (I1 & E1 & R). split; [assumption|]. split.
  - apply Forall_app. split; [assumption|]. destruct r as [p|e]; cbn [wres_outcome].
    + destruct R as [-> _]. apply Forall_ev_ok_ans. intros r Hr. cbn [ev_ok].
      rewrite Forall_forall in V3. destruct I as (_ & D & _). rewrite D. apply V3. assumption.
    + destruct R as (_ & _ & R). rewrite (R HX). apply Forall_ev_ok_ans_triv. intros; exact Logic.I.
  - destruct r; tauto.
Qed.

Lemma r_pop_next_ok n0 now s : rinv n0 s ->
  rinv n0 (fst (fst (r_pop_next now s))) /\ Forall ev_ok (snd (r_pop_next now s)) /\
  r_next (fst (fst (r_pop_next now s))) = r_next s /\ r_drained (fst (fst (r_pop_next now s))) /\
  (forall w', snd (fst (r_pop_next now s)) = Some w' -> val_ok (r_next s) w').
Proof.
  intros (M & D & L & T). unfold r_pop_next.
  pose proof (rtq_pop_q now (r_tq s)) as [H1 H2].
  pose proof (rtq_pop_timer now (r_tq s) T) as TT.
  destruct (rtq_pop now (r_tq s)) as [t' r]. cbn [fst snd] in H1, H2, TT.
  destruct (rq_pop_ok (tq_q (r_tq s)) M) as (PM & PN & PV & PD). rewrite <- H1 in PM, PN, PD. rewrite <- H2 in PV.
  assert (I' : rinv n0 (rs_with_tq s t')).
  { unfold rinv, r_map, r_next. cbn [rs_with_tq r_tq r_log r_dbnext]. rewrite PN. splits; assumption. }
  assert (Dr : r_drained (rs_with_tq s t')).
  { unfold r_drained, r_map, r_next. cbn [rs_with_tq r_tq]. rewrite PN. assumption. }
  assert (Nx : r_next (rs_with_tq s t') = r_next s) by (unfold r_next; cbn [rs_with_tq r_tq]; assumption).
  destruct r as [w0|].
  - specialize (PV w0 eq_refl).
    destruct (gc_alive now (r_buftimeout s) w0) as [|a al] eqn:G; cbn [fst snd]; splits; try assumption; try apply Forall_ev_ok_expired.
    + discriminate.
    + intros w' [= <-]. eapply val_ok_gc; eassumption.
  - cbn [fst snd]. splits; try assumption; try constructor; try discriminate.
Qed.

Lemma r_drain_ok n0 now fuel : forall s w, rinv n0 s -> (forall w', w = Some w' -> val_ok (r_next s) w') -> r_drained s ->
  rinv n0 (fst (r_drain fuel now s w)) /\ Forall ev_ok (snd (r_drain fuel now s w)) /\
  r_drained (fst (r_drain fuel now s w)) /\ r_next s <= r_next (fst (r_drain fuel now s w)).
Proof.
  induction fuel as [|f IH]; intros s w I V Dr.
  - destruct w; cbn [r_drain fst snd]; splits; try assumption; try constructor; lia.
  - destruct w as [w|]; cbn [r_drain]; [|cbn [fst snd]; splits; try assumption; try constructor; lia].
    pose proof (r_write_buffered_ok n0 now s w I (V w eq_refl)) as H.
    destruct (r_write_buffered now s w) as [[s1 r] evs1]. cbn [fst snd] in H. destruct H as (I1 & E1 & R).
    destruct r as [p|e].
    + pose proof (r_pop_next_ok n0 now s1 I1) as H.
      destruct (r_pop_next now s1) as [[s2 w2] evs2]. cbn [fst snd] in H. destruct H as (I2 & E2 & N2 & D2 & V2).
      rewrite <- N2 in V2.
      pose proof (IH s2 w2 I2 V2 D2) as H.
      destruct (r_drain f now s2 w2) as [s3 evs3]. cbn [fst snd] in *. destruct H as (I3 & E3 & D3 & N3).
      splits; try assumption. { repeat (apply Forall_app; split); assumption. } lia.
    + subst s1. cbn [fst snd]. splits; try assumption. lia.
Qed.

Lemma Forall_ev_ok_first_reply v e : e <> EWrongSeq -> Forall ev_ok (first_reply_err v e).
Proof.
  intros He. unfold first_reply_err. destruct (e_replies v) as [|r rest]; [constructor|].
  constructor; [destruct e; try exact I; contradiction|]. apply Forall_ev_ok_expired.
Qed.

Lemma r_deliver_ok n0 now s rid key tx more ok : rinv n0 s -> Dk rid key ->
  rinv n0 (fst (r_deliver now s rid key tx more ok)) /\ Forall ev_ok (snd (r_deliver now s rid key tx more ok)) /\
  (r_drained s -> r_drained (fst (r_deliver now s rid key tx more ok))) /\
  (ins_accepted (snd (rq_insert (tq_q (r_tq s)) key (mk_rentry tx key more ok [(rid, now)]))) = true ->
     r_drained (fst (r_deliver now s rid key tx more ok))) /\
  (ins_accepted (snd (rq_insert (tq_q (r_tq s)) key (mk_rentry tx key more ok [(rid, now)]))) = false ->
     fst (r_deliver now s rid key tx more ok) = s) /\
  r_next s <= r_next (fst (r_deliver now s rid key tx more ok)).
Proof.
  intros I HD. pose proof I as (M & D & L & T). unfold r_deliver.
  set (v := mk_rentry tx key more ok [(rid, now)]).
  assert (V : val_ok key v).
  { unfold val_ok, v. cbn [e_seq e_replies]. splits; [reflexivity|discriminate|]. constructor; [assumption|constructor]. }
  pose proof (rtq_insert_q now (r_tq s) key v) as [H1 H2].
  destruct (rq_insert_ok (tq_q (r_tq s)) key v M V) as (PM & PN & PV & PR & PF & PB).
  pose proof (rq_insert_rejected (tq_q (r_tq s)) key v) as RJ.
  assert (TT : timer_ok (fst (rtq_insert now (r_tq s) key v))).
  { apply rtq_insert_timer; [assumption|]. intros mg ev E. eapply PB; eauto. }
  pose proof (rtq_insert_rejected now (r_tq s) key v) as RJT.
  destruct (rtq_insert now (r_tq s) key v) as [t1 res]. cbn [fst snd] in H1, H2, TT, RJT.
  rewrite <- H1 in PM, PN, PR, PF, PB. rewrite <- H2 in PV, PR, PB, RJT. rewrite <- H2. clear RJ.
  set (s1 := rs_with_tq s t1).
  assert (I1 : rinv n0 s1).
  { unfold rinv, r_map, r_next. cbn [s1 rs_with_tq r_tq r_log r_dbnext]. rewrite PN. splits; assumption. }
  assert (N1 : r_next s1 = r_next s) by (unfold r_next; cbn [s1 rs_with_tq r_tq]; assumption).
  assert (RJ' : ins_accepted res = false -> s1 = s).
  { intros E. unfold s1. rewrite (RJT E). apply rs_with_tq_id. }
  destruct res as [w merged|merged ev|v'|k' v'|k' v']; cbn [ins_accepted ins_val_ok] in *.
  - (* ready *)
    specialize (PR w merged eq_refl).
    assert (D1 : r_drained s1) by (unfold r_drained, r_map, r_next; cbn [s1 rs_with_tq r_tq]; rewrite PN; assumption).
    destruct (gc_alive now (r_buftimeout s) w) as [|a al] eqn:G.
    + pose proof (r_pop_next_ok n0 now s1 I1) as H.
      destruct (r_pop_next now s1) as [[s2 w2] evs2]. cbn [fst snd] in H. destruct H as (I2 & E2 & N2 & D2 & V2). rewrite <- N2 in V2.
      pose proof (r_drain_ok n0 now (r_fuel s2) s2 w2 I2 V2 D2) as H.
      destruct (r_drain (r_fuel s2) now s2 w2) as [s3 evs3]. cbn [fst snd] in *. destruct H as (I3 & E3 & D3 & N3).
      splits; try assumption; try discriminate; try tauto; try lia.
      repeat (apply Forall_app; split); try assumption. apply Forall_ev_ok_expired.
    + assert (V2 : forall w', Some (e_with_replies w (a :: al)) = Some w' -> val_ok (r_next s1) w').
      { intros w' [= <-]. rewrite N1. eapply val_ok_gc; eassumption. }
      pose proof (r_drain_ok n0 now (r_fuel s1) s1 _ I1 V2 D1) as H.
      destruct (r_drain (r_fuel s1) now s1 (Some (e_with_replies w (a :: al)))) as [s3 evs3]. cbn [fst snd] in *.
      destruct H as (I3 & E3 & D3 & N3).
      splits; try assumption; try discriminate; try tauto; try lia.
      apply Forall_app; split; [apply Forall_ev_ok_expired|assumption].
  - (* buffered *)
    pose proof (r_pop_next_ok n0 now s1 I1) as H.
    destruct (r_pop_next now s1) as [[s2 w2] evs2]. cbn [fst snd] in H. destruct H as (I2 & E2 & N2 & D2 & V2). rewrite <- N2 in V2.
    pose proof (r_drain_ok n0 now (r_fuel s2) s2 w2 I2 V2 D2) as H.
    destruct (r_drain (r_fuel s2) now s2 w2) as [s3 evs3]. cbn [fst snd] in *. destruct H as (I3 & E3 & D3 & N3).
    splits; try assumption; try discriminate; try tauto; try lia.
    repeat (apply Forall_app; split); try assumption.
    destruct ev as [[ek ew]|]; [|constructor]. apply Forall_app; split; apply Forall_ev_ok_ans_triv; intros; exact Logic.I.
  - cbn [fst snd]. rewrite (RJ' eq_refl). splits; try assumption; try tauto; try discriminate; try lia. apply Forall_ev_ok_first_reply. discriminate.
  - cbn [fst snd]. rewrite (RJ' eq_refl). splits; try assumption; try tauto; try discriminate; try lia. apply Forall_ev_ok_first_reply. discriminate.
  - cbn [fst snd]. rewrite (RJ' eq_refl). splits; try assumption; try tauto; try discriminate; try lia. apply Forall_ev_ok_first_reply. discriminate.
Qed.

Lemma r_expire_front_ok now T n m : map_ok n m ->
  map_ok n (fst (fst (r_expire_front now T m))) /\ Forall ev_ok (snd (r_expire_front now T m)) /\
  (snd (fst (r_expire_front now T m)) = false -> (fst (fst (r_expire_front now T m)) = [] <-> m = [])) /\
  (forall k, m_find k m = None -> m_find k (fst (fst (r_expire_front now T m))) = None).
Proof.
  induction m as [|[k e] m IH]; intros M; cbn [r_expire_front].
  - cbn [fst snd]. splits; auto; try constructor; tauto.
  - destruct M as (M1 & M2 & M3). inversion M1 as [|? ? K1 M1']; subst. inversion M2 as [|? ? K2 M2']; subst.
    destruct M3 as [S1 S2].
    destruct (gc_alive now T e) as [|a al] eqn:G.
    + assert (M' : map_ok n m) by (split; [|split]; assumption). specialize (IH M').
      destruct (r_expire_front now T m) as [[m1 d1] evs1]. cbn [fst snd] in *. destruct IH as (A & B & C & F).
      splits; try assumption; try discriminate. { apply Forall_app; split; [apply Forall_ev_ok_expired|assumption]. }
      intros k0. cbn [m_find]. destruct (k0 =? k); [discriminate|]. apply F.
    + cbn [fst snd]. splits; try discriminate.
      * split; [|split]; [constructor; assumption| |split; assumption].
        constructor; [|assumption]. destruct K2 as [P V]. split; [assumption|]. cbn [fst snd] in *. eapply val_ok_gc; eassumption.
      * apply Forall_ev_ok_expired.
      * intros _. split; discriminate.
      * intros k0. cbn [m_find]. destruct (k0 =? k); [discriminate|]. auto.
Qed.

Lemma r_tick_ok n0 now s p : rinv n0 s ->
  rinv n0 (fst (r_tick now s p)) /\ Forall ev_ok (snd (r_tick now s p)) /\
  (r_drained s -> r_drained (fst (r_tick now s p))) /\ r_next (fst (r_tick now s p)) = r_next s.
Proof.
  intros (M & D & L & T). unfold r_tick.
  pose proof (r_expire_front_ok now (r_buftimeout s) _ _ M) as H. fold (r_map s) in *.
  change (q_map (tq_q (r_tq s))) with (r_map s).
  destruct (r_expire_front now (r_buftimeout s) (r_map s)) as [[m' d] evs0]. cbn [fst snd] in H. destruct H as (XM & XE & XD & XF).
  set (t1 := tq_with_q (r_tq s) (q_with_map (tq_q (r_tq s)) m')).
  set (t2 := if d then rtq_update now t1 else t1).
  assert (Q2 : tq_q t2 = q_with_map (tq_q (r_tq s)) m').
  { unfold t2. destruct d; [rewrite rtq_update_q|]; reflexivity. }
  assert (T2 : timer_ok t2).
  { unfold t2. destruct d; [apply timer_ok_update|]. unfold timer_ok, t1. cbn [tq_with_q tq_timer tq_q q_with_map q_map].
    rewrite (XD eq_refl). exact T. }
  set (s1 := rs_with_tq s t2).
  assert (I1 : forall b, rinv n0 (rs_with_catching s1 b)).
  { intros b. unfold rinv, r_map, r_next. cbn [s1 rs_with_catching rs_with_tq r_tq r_log r_dbnext]. rewrite Q2.
    cbn [q_with_map q_map q_next]. splits; assumption. }
  assert (I1' : rinv n0 s1) by (exact (I1 (r_catching s))).
  assert (N1 : r_next s1 = r_next s) by (unfold r_next; cbn [s1 rs_with_tq r_tq]; rewrite Q2; reflexivity).
  assert (D1 : r_drained s -> r_drained s1).
  { unfold r_drained. rewrite N1. unfold r_map at 2. cbn [s1 rs_with_tq r_tq]. rewrite Q2. cbn [q_with_map q_map]. apply XF. }
  destruct (negb p); [cbn [fst snd]; splits; assumption|].
  destruct m' as [|[oldest w] m'']; [cbn [fst snd]; splits; assumption|].
  destruct XM as (X1 & X2 & _). inversion X1; subst. inversion X2 as [|? ? [P0 _] ?]; subst. cbn [fst] in *.
  fold (r_next s).
  destruct (N.eqb_spec oldest 0); [lia|]. destruct (N.ltb_spec oldest (r_next s)); [lia|]. cbn [orb].
  destruct ((0 <? oldest - r_next s) && negb (r_catching s)); cbn [fst snd].
  - splits; [apply (I1 true)| |exact D1|exact N1]. apply Forall_app; split; [assumption|]. constructor; [exact I|constructor].
  - splits; assumption.
Qed.

Lemma r_apply_commits_ok n0 now cs : forall s, rinv n0 s ->
  rinv n0 (fst (fst (r_apply_commits now s cs))) /\ Forall ev_ok (snd (r_apply_commits now s cs)) /\
  r_next s <= r_next (fst (fst (r_apply_commits now s cs))).
Proof.
  induction cs as [|c cs IH]; intros s I; cbn [r_apply_commits].
  - cbn [fst snd]. splits; auto; try constructor; lia.
  - pose proof (r_write_tx_ok n0 now s (c_tx c) (c_more c) (c_ok c) (c_seq c) I) as H.
    destruct (r_write_tx now s (c_tx c) (c_more c) (c_ok c) (Some (c_seq c))) as [[s1 r] evs1] eqn:W. cbn [fst snd] in H. destruct H as (I1 & E1 & R).
    destruct r as [p|e].
    + specialize (IH s1 I1). destruct (r_apply_commits now s1 cs) as [[s2 b2] evs2]. cbn [fst snd] in *. destruct IH as (I2 & E2 & N2).
      splits; try assumption. { apply Forall_app; split; assumption. } lia.
    + destruct R as (-> & _ & _). cbn [fst snd]. splits; try assumption; try lia.
Qed.

Lemma rinv_update_timer n0 now s : rinv n0 s -> rinv n0 (rs_update_timer now s).
Proof.
  intros (M & D & L & T). unfold rinv, rs_update_timer, r_map, r_next. cbn [rs_with_tq r_tq r_log r_dbnext].
  rewrite rtq_update_q. splits; try assumption. apply timer_ok_update.
Qed.
Lemma r_drained_update_timer now s : r_drained s -> r_drained (rs_update_timer now s).
Proof. unfold r_drained, rs_update_timer, r_map, r_next. cbn [rs_with_tq r_tq]. rewrite rtq_update_q. auto. Qed.
Lemma r_next_update_timer now s : r_next (rs_update_timer now s) = r_next s.
Proof. unfold rs_update_timer, r_next. cbn [rs_with_tq r_tq]. rewrite rtq_update_q. reflexivity. Qed.

Lemma r_sync_ok n0 now s res : rinv n0 s ->
  rinv n0 (fst (r_sync now s res)) /\ Forall ev_ok (snd (r_sync now s res)) /\
  (step_clean s (OpSync now res) -> r_drained s -> r_drained (fst (r_sync now s res))) /\
  (forall cs, res = Some cs -> step_clean s (OpSync now res) -> r_drained (fst (r_sync now s res))) /\
  r_next s <= r_next (fst (r_sync now s res)).
Proof.
  intros I. unfold r_sync, step_clean.
  assert (I0 : rinv n0 (rs_with_catching s false)) by exact I.
  destruct res as [cs|].
  - pose proof (r_apply_commits_ok n0 now cs _ I0) as H.
    destruct (r_apply_commits now (rs_with_catching s false) cs) as [[s1 allok] evs1] eqn:A. cbn [fst snd] in *.
    destruct H as (I1 & E1 & NN). change (r_next (rs_with_catching s false)) with (r_next s) in NN.
    destruct allok.
    + pose proof (r_pop_next_ok n0 now s1 I1) as H.
      destruct (r_pop_next now s1) as [[s2 w2] evs2]. cbn [fst snd] in H. destruct H as (I2 & E2 & N2 & D2 & V2). rewrite <- N2 in V2.
      pose proof (r_drain_ok n0 now (r_fuel s2) s2 w2 I2 V2 D2) as H.
      destruct (r_drain (r_fuel s2) now s2 w2) as [s3 evs3]. cbn [fst snd] in *. destruct H as (I3 & E3 & D3 & N3).
      splits.
      * apply rinv_update_timer. assumption.
      * repeat (apply Forall_app; split); assumption.
      * intros. apply r_drained_update_timer. assumption.
      * intros. apply r_drained_update_timer. assumption.
      * rewrite r_next_update_timer. lia.
    + cbn [fst snd]. splits; try assumption.
      * apply rinv_update_timer. assumption.
      * discriminate.
      * intros cs' _ X. discriminate.
      * rewrite r_next_update_timer. lia.
  - cbn [fst snd]. splits.
    + apply rinv_update_timer. assumption.
    + constructor.
    + intros _ Dr. apply r_drained_update_timer. exact Dr.
    + discriminate.
    + rewrite r_next_update_timer. change (r_next (rs_with_catching s false)) with (r_next s). lia.
Qed.

(* ------------------------------------------------------------------ steps and runs *)
Definition op_ok (o : rop) : Prop := match o with OpDeliver _ rid key _ _ _ => Dk rid key | _ => True end.

Lemma r_step_ok n0 s o : rinv n0 s -> op_ok o ->
  rinv n0 (fst (r_step s o)) /\ Forall ev_ok (snd (r_step s o)) /\
  (step_clean s o -> r_drained s -> r_drained (fst (r_step s o))) /\ r_next s <= r_next (fst (r_step s o)).
Proof.
  intros I O. destruct o as [now rid key tx more ok|now p|now res]; cbn [r_step].
  - destruct (r_deliver_ok n0 now s rid key tx more ok I O) as (A & B & C & _ & _ & E). splits; auto.
  - destruct (r_tick_ok n0 now s p I) as (A & B & C & E). splits; auto. lia.
  - destruct (r_sync_ok n0 now s res I) as (A & B & C & _ & E). splits; auto.
Qed.

Lemma r_run_ok n0 ops : forall s, rinv n0 s -> Forall op_ok ops ->
  rinv n0 (fst (r_run s ops)) /\ Forall ev_ok (snd (r_run s ops)) /\
  (run_clean s ops -> r_drained s -> r_drained (fst (r_run s ops))) /\ r_next s <= r_next (fst (r_run s ops)).
Proof.
  induction ops as [|o ops IH]; intros s I O; cbn [r_run run_clean].
  - cbn [fst snd]. splits; auto; try constructor; lia.
  - inversion O as [|? ? O1 O2]; subst.
    destruct (r_step_ok n0 s o I O1) as (A & B & C & E).
    destruct (r_step s o) as [s1 evs1]. cbn [fst snd] in *.
    destruct (IH s1 A O2) as (A2 & B2 & C2 & E2).
    destruct (r_run s1 ops) as [s2 evs2]. cbn [fst snd] in *.
    splits; auto.
    + apply Forall_app; split; assumption.
    + intros [SC1 SC2] Dr. auto.
    + lia.
Qed.

End Inv.

(* ================================================================== 3. the statements used by Props/C12.v *)

Definition delivered (ops : list rop) (rid key : N) : Prop := In (rid, key) (ops_deliveries ops).

Lemma ops_all_delivered ops : Forall (op_ok (delivered ops)) ops.
Proof.
  rewrite Forall_forall. intros o Ho. destruct o as [now rid key tx more ok| |]; cbn [op_ok]; try exact I.
  unfold delivered, ops_deliveries. apply in_flat_map. exists (OpDeliver now rid key tx more ok). split; [assumption|left; reflexivity].
Qed.

Lemma run0_ok n0 limit T Tc ops :
  rinv (delivered ops) n0 (fst (r_run0 n0 limit T Tc ops)) /\
  Forall (ev_ok (delivered ops)) (snd (r_run0 n0 limit T Tc ops)) /\
  (run_clean (r_init n0 limit T Tc) ops -> r_drained (fst (r_run0 n0 limit T Tc ops))).
Proof.
  destruct (r_run_ok (delivered ops) n0 ops (r_init n0 limit T Tc) (rinv_init _ n0 limit T Tc) (ops_all_delivered ops))
    as (A & B & C & _).
  unfold r_run0. splits; auto. intros SC. apply C; [assumption|]. reflexivity.
Qed.

Lemma m_find_of_In k e m : In (k, e) m -> m_find k m <> None.
Proof.
  induction m as [|[k' v] m IH]; [intros []|]. intros [H|H]; cbn [m_find].
  - injection H as -> ->. rewrite N.eqb_refl. discriminate.
  - destruct (k =? k'); [discriminate|auto].
Qed.

(** no buffered write is pending below the next expected sequence; with honest catch-up answers none is
    pending AT it either *)
Lemma no_stale_pending n0 limit T Tc ops k e :
  In (k, e) (r_map (fst (r_run0 n0 limit T Tc ops))) ->
  r_next (fst (r_run0 n0 limit T Tc ops)) <= k /\
  (run_clean (r_init n0 limit T Tc) ops -> r_next (fst (r_run0 n0 limit T Tc ops)) < k).
Proof.
  intros HI. destruct (run0_ok n0 limit T Tc ops) as (((M1 & _) & _) & _ & Dr).
  rewrite Forall_forall in M1. specialize (M1 _ HI). cbn [fst] in M1. split; [assumption|].
  intros SC. specialize (Dr SC). unfold r_drained in Dr.
  destruct (N.eq_dec (r_next (fst (r_run0 n0 limit T Tc ops))) k) as [E|E]; [|lia].
  exfalso. rewrite E in Dr. exact (m_find_of_In _ _ _ HI Dr).
Qed.

Lemma buffer_drain n0 limit T Tc ops : run_clean (r_init n0 limit T Tc) ops -> r_drained (fst (r_run0 n0 limit T Tc ops)).
Proof. intros SC. apply (run0_ok n0 limit T Tc ops). assumption. Qed.

(** whatever happened before (even an aborted catch-up): a write the queue takes, and a catch-up answer
    that is applied completely, leave nothing waiting at the next sequence *)
Lemma buffer_drain_step n0 limit T Tc ops :
  let s := fst (r_run0 n0 limit T Tc ops) in
  (forall now rid key tx more ok,
     ins_accepted (snd (rq_insert (tq_q (r_tq s)) key (mk_rentry tx key more ok [(rid, now)]))) = true ->
     r_drained (fst (r_deliver now s rid key tx more ok))) /\
  (forall now cs, step_clean s (OpSync now (Some cs)) -> r_drained (fst (r_sync now s (Some cs)))) /\
  (forall o, step_clean s o -> r_drained s -> r_drained (fst (r_step s o))).
Proof.
  intros s. destruct (run0_ok n0 limit T Tc ops) as (I & _). fold s in I. splits.
  - intros now rid key tx more ok A.
    pose (Dk := fun r k => delivered ops r k \/ (r = rid /\ k = key)).
    assert (I' : rinv Dk n0 s).
    { destruct I as ((M1 & M2 & M3) & D & L & TT). split; [|splits; assumption]. split; [assumption|split; [|assumption]].
      eapply Forall_impl; [|exact M2]. intros p (P1 & P2 & P3 & P4). split; [assumption|]. split; [assumption|]. split; [assumption|].
      eapply Forall_impl; [|exact P4]. intros r Hr. left. exact Hr. }
    assert (HD : Dk rid key) by (right; split; reflexivity).
    destruct (r_deliver_ok Dk n0 now s rid key tx more ok I' HD) as (_ & _ & _ & X & _). apply X. assumption.
  - intros now cs C. destruct (r_sync_ok (delivered ops) n0 now s (Some cs) I) as (_ & _ & _ & X & _). eapply X; eauto.
  - intros o SC Dr. destruct o as [now rid key tx more ok|now p|now res]; cbn [r_step].
    + pose (Dk := fun r k => delivered ops r k \/ (r = rid /\ k = key)).
      assert (I' : rinv Dk n0 s).
      { destruct I as ((M1 & M2 & M3) & D & L & TT). split; [|splits; assumption]. split; [assumption|split; [|assumption]].
        eapply Forall_impl; [|exact M2]. intros q (P1 & P2 & P3 & P4). split; [assumption|]. split; [assumption|]. split; [assumption|].
        eapply Forall_impl; [|exact P4]. intros r Hr. left. exact Hr. }
      assert (HD : Dk rid key) by (right; split; reflexivity).
      destruct (r_deliver_ok Dk n0 now s rid key tx more ok I' HD) as (_ & _ & X & _). auto.
    + destruct (r_tick_ok (delivered ops) n0 now s p I) as (_ & _ & X & _). auto.
    + destruct (r_sync_ok (delivered ops) n0 now s res I) as (_ & _ & X & _). auto.
Qed.

Lemma log_contig_snoc a l b le : log_contig a l b -> l_pos le = b -> 1 <= l_cnt le -> log_contig a (l ++ [le]) (b + l_cnt le).
Proof.
  revert a. induction l as [|x l IH]; intros a; cbn [log_contig app].
  - intros -> P C. splits; auto.
  - intros (A & B & C) P Q. splits; auto.
Qed.
Lemma log_ok_contig n0 log nxt : log_ok n0 log nxt -> log_contig n0 log nxt.
Proof. induction 1; [reflexivity|]. apply log_contig_snoc; assumption. Qed.
Lemma log_ok_assigned n0 log nxt : log_ok n0 log nxt ->
  forall le, In le log -> l_assigned le = Some (l_pos le).
Proof.
  induction 1 as [|log nxt le0 L IH P C A]; [intros ? []|].
  intros le HI. apply in_app_or in HI. destruct HI as [HI|[<-|[]]]; [eauto|]. rewrite P. assumption.
Qed.

(** an append happens only at the sequence the coordinator assigned, which is the replicator's [next]:
    the log is gap-free, each replicated entry sits at its assigned sequence, the database is never
    offered a write at a wrong sequence, and an "applied" answer names the sequence its write was sent for *)
Lemma apply_at_assigned n0 limit T Tc ops :
  let s := fst (r_run0 n0 limit T Tc ops) in
  let evs := snd (r_run0 n0 limit T Tc ops) in
  log_contig n0 (r_log s) (r_dbnext s) /\
  (forall le, In le (r_log s) -> l_assigned le = Some (l_pos le)) /\
  r_dbnext s = r_next s /\
  (forall rid, ~ In (EvAns rid (OErr EWrongSeq)) evs) /\
  (forall rid pos, In (EvAns rid (OApplied pos)) evs -> In (rid, pos) (ops_deliveries ops)).
Proof.
  intros s evs. destruct (run0_ok n0 limit T Tc ops) as ((M & D & L & TT) & E & _). fold s in M, D, L, TT. fold evs in E.
  rewrite Forall_forall in E. splits.
  - apply log_ok_contig. assumption.
  - eapply log_ok_assigned. eassumption.
  - assumption.
  - intros rid HI. exact (E _ HI).
  - intros rid pos HI. exact (E _ HI).
Qed.

Lemma no_gap_panic n0 limit T Tc ops : ~ In EvGapPanic (snd (r_run0 n0 limit T Tc ops)).
Proof.
  destruct (run0_ok n0 limit T Tc ops) as (_ & E & _). rewrite Forall_forall in E. intros HI. exact (E _ HI).
Qed.

Lemma timer_armed n0 limit T Tc ops :
  tq_timer (r_tq (fst (r_run0 n0 limit T Tc ops))) = None <-> r_map (fst (r_run0 n0 limit T Tc ops)) = [].
Proof. destruct (run0_ok n0 limit T Tc ops) as ((_ & _ & _ & TT) & _). exact TT. Qed.

(** the buffer is a map: keys strictly increasing; every entry is stored under its own transaction's sequence,
    above 0, and has a reply sender (so `received_at()` is total) *)
Fixpoint keys_increasing (m : rmap) : Prop :=
  match m with
  | [] => True
  | p :: t => Forall (fun x => fst p < fst x) t /\ keys_increasing t
  end.
Lemma buffer_wf n0 limit T Tc ops :
  let m := r_map (fst (r_run0 n0 limit T Tc ops)) in
  keys_increasing m /\ Forall (fun p => 0 < fst p /\ e_seq (snd p) = fst p /\ e_replies (snd p) <> []) m.
Proof.
  intros m. destruct (run0_ok n0 limit T Tc ops) as (((_ & M2 & M3) & _) & _). fold m in M2, M3. split; [exact M3|].
  eapply Forall_impl; [|exact M2]. intros p (A & B & C & _). auto.
Qed.

Lemma answered_once_nodup n0 limit T Tc ops : NoDup (ops_rids ops) ->
  NoDup (ev_rids (snd (r_run0 n0 limit T Tc ops)) ++ m_rids (r_map (fst (r_run0 n0 limit T Tc ops)))) /\
  (forall rid, In rid (ops_rids ops) <->
     In rid (ev_rids (snd (r_run0 n0 limit T Tc ops)) ++ m_rids (r_map (fst (r_run0 n0 limit T Tc ops))))).
Proof.
  intros ND. pose proof (answered_exactly_once n0 limit T Tc ops) as P. fold (r_run0 n0 limit T Tc ops) in P. split.
  - eapply Permutation_NoDup; [symmetry; exact P|assumption].
  - intros rid. split; intros H; [eapply Permutation_in; [symmetry; exact P|assumption]|eapply Permutation_in; [exact P|assumption]].
Qed.

(* ------------------------------------------------------------------ duplicates, conflicts, stale writes *)
Lemma deliver_stale now s rid key tx more ok : key < r_next s ->
  r_deliver now s rid key tx more ok = (s, [EvAns rid (OErr EStale)]).
Proof.
  intros H. unfold r_deliver, rtq_insert, rq_insert. fold (r_next s).
  destruct (N.eqb_spec key (r_next s)); [lia|]. destruct (N.ltb_spec key (r_next s)); [|lia].
  rewrite tq_with_q_id, rs_with_tq_id. reflexivity.
Qed.

Lemma deliver_conflict now s rid key tx more ok ex : r_next s <= key ->
  m_find key (r_map s) = Some ex -> e_tx ex <> tx ->
  r_deliver now s rid key tx more ok = (s, [EvAns rid (OErr EConflict)]).
Proof.
  intros H F X. unfold r_deliver, rtq_insert, rq_insert. fold (r_next s) (r_map s).
  assert (KE : e_key_eq (mk_rentry tx key more ok [(rid, now)]) ex = false).
  { unfold e_key_eq. cbn [e_tx]. destruct (N.eqb_spec tx (e_tx ex)); [congruence|reflexivity]. }
  destruct (N.eqb_spec key (r_next s)).
  - rewrite F, KE. rewrite tq_with_q_id, rs_with_tq_id. reflexivity.
  - destruct (N.ltb_spec key (r_next s)); [lia|]. rewrite F, KE. rewrite tq_with_q_id, rs_with_tq_id. reflexivity.
Qed.

Lemma deliver_rejected now s rid key tx more ok :
  ins_accepted (snd (rq_insert (tq_q (r_tq s)) key (mk_rentry tx key more ok [(rid, now)]))) = false ->
  fst (r_deliver now s rid key tx more ok) = s /\
  exists e, snd (r_deliver now s rid key tx more ok) = [EvAns rid (OErr e)] /\ (e = EConflict \/ e = EFull \/ e = EStale).
Proof.
  intros A. unfold r_deliver.
  pose proof (rtq_insert_rejected now (r_tq s) key _ A) as RJ.
  pose proof (rtq_insert_q now (r_tq s) key (mk_rentry tx key more ok [(rid, now)])) as [_ H2].
  destruct (rtq_insert now (r_tq s) key (mk_rentry tx key more ok [(rid, now)])) as [t1 res]. cbn [fst snd] in *.
  subst t1. rewrite <- H2 in A.
  assert (V : forall v', res = InsConflict v' \/ (exists k, res = InsFull k v') \/ (exists k, res = InsStale k v') ->
              e_replies v' = [(rid, now)]).
  { intros v' HV. revert H2. unfold rq_insert.
    repeat match goal with
    | |- context [if ?b then _ else _] => destruct b
    | |- context [match m_find ?k ?m with _ => _ end] => destruct (m_find k m)
    | |- context [match m_last ?m with _ => _ end] => destruct (m_last m) as [[? ?]|]
    end; cbn [snd]; intros ->; destruct HV as [HV|[[k HV]|[k HV]]]; try discriminate; injection HV; intros; subst; reflexivity. }
  rewrite rs_with_tq_id.
  destruct res as [w mg|mg ev|v'|k' v'|k' v']; try discriminate; cbn [fst snd]; (split; [reflexivity|]);
    unfold first_reply_err; rewrite V by eauto; cbn [fst ans_all map]; eexists; (split; [reflexivity|tauto]).
Qed.

Lemma r_pop_next_none now s : m_find (r_next s) (r_map s) = None -> r_pop_next now s = (s, None, []).
Proof.
  intros H. unfold r_pop_next, rtq_pop, rq_pop. fold (r_next s) (r_map s). rewrite H.
  rewrite tq_with_q_id, rs_with_tq_id. reflexivity.
Qed.

Lemma deliver_duplicate_buffered now s rid key tx more ok ex : r_next s < key ->
  m_find key (r_map s) = Some ex -> e_tx ex = tx -> r_drained s ->
  let s' := fst (r_deliver now s rid key tx more ok) in
  snd (r_deliver now s rid key tx more ok) = [] /\ r_log s' = r_log s /\ r_dbnext s' = r_dbnext s /\ r_next s' = r_next s /\
  m_find key (r_map s') = Some (e_with_replies ex (e_replies ex ++ [(rid, now)])) /\
  (forall k', k' <> key -> m_find k' (r_map s') = m_find k' (r_map s)).
Proof.
  intros H F X Dr. unfold r_deliver, rtq_insert, rq_insert. fold (r_next s) (r_map s).
  assert (KE : e_key_eq (mk_rentry tx key more ok [(rid, now)]) ex = true).
  { unfold e_key_eq. cbn [e_tx]. rewrite X. apply N.eqb_refl. }
  destruct (N.eqb_spec key (r_next s)); [lia|]. destruct (N.ltb_spec key (r_next s)); [lia|].
  rewrite F, KE. cbn [orb].
  set (m1 := m_set key (e_merge ex (mk_rentry tx key more ok [(rid, now)])) (r_map s)).
  set (t1 := rtq_update now (tq_with_q (r_tq s) (q_with_map (tq_q (r_tq s)) m1))).
  assert (Q1 : tq_q t1 = q_with_map (tq_q (r_tq s)) m1) by (unfold t1; rewrite rtq_update_q; reflexivity).
  assert (M1 : r_map (rs_with_tq s t1) = m1) by (unfold r_map; cbn [rs_with_tq r_tq]; rewrite Q1; reflexivity).
  assert (N1 : r_next (rs_with_tq s t1) = r_next s) by (unfold r_next; cbn [rs_with_tq r_tq]; rewrite Q1; reflexivity).
  assert (F1 : m_find (r_next (rs_with_tq s t1)) (r_map (rs_with_tq s t1)) = None).
  { rewrite M1, N1. unfold m1. rewrite m_find_set_other by lia. exact Dr. }
  set (s1 := rs_with_tq s t1) in *.
  rewrite (r_pop_next_none now _ F1).
  assert (DN : forall fuel, r_drain fuel now s1 None = (s1, [])) by (intros [|f]; reflexivity).
  rewrite DN. cbn [fst snd app]. rewrite M1, N1. splits; try reflexivity.
  - unfold m1. erewrite m_find_set_same by exact F. reflexivity.
  - intros k' Hk. unfold m1. apply m_find_set_other. assumption.
Qed.

Lemma insert_duplicate_at_next q v ex : m_find (q_next q) (q_map q) = Some ex -> e_tx v = e_tx ex ->
  rq_insert q (q_next q) v = (q_with_map q (m_remove (q_next q) (q_map q)), InsReady (e_merge ex v) true).
Proof.
  intros F X. unfold rq_insert. rewrite N.eqb_refl, F. unfold e_key_eq. rewrite X, N.eqb_refl. reflexivity.
Qed.
