(** C03, part C3: segment selection ([try_live], [try_closed], [closed_search], [new_inner])
    and the batch loop, forward direction. *)
From Coq Require Import NArith List Bool Lia Arith.
From SV Require Import Model.StoreIter Proofs.ScanRecs Proofs.ScanSeg Proofs.ScanPos Proofs.ScanStore.
Import ListNotations.
Open Scope N_scope.

(** ** index lookups on an index built from located events *)
Lemma filter_entries (p : event -> bool) oes :
  filter (fun en => p (i_ev en)) (map entry_of oes) = map entry_of (filter (fun oe => p (snd oe)) oes).
Proof.
  induction oes as [|x l IH]; [reflexivity|]. cbn. destruct (p (snd x)); cbn; rewrite IH; reflexivity.
Qed.

Lemma key_get_entries k oes :
  key_get k (map entry_of oes) =
  match filter (kmatch k) oes with
  | [] => None
  | (o, e) :: r =>
      let vs := map (fun oe => key_pos k (snd oe)) ((o, e) :: r) in
      Some (mkKey (e_pk e) (fold_min vs (key_pos k e)) (fold_max vs (key_pos k e)) (map fst ((o, e) :: r)))
  end.
Proof.
  destruct k as [sid|pid]; cbn [key_get]; unfold sidx_get, pidx_get, kmatch; cbn [matches].
  - rewrite (filter_entries (fun e => e_sid e =? sid)).
    destruct (filter (fun oe => e_sid (snd oe) =? sid) oes) as [|[o e] r]; [reflexivity|].
    cbn [map entry_of fst snd i_ev i_off key_pos]. rewrite !map_map. reflexivity.
  - rewrite (filter_entries (fun e => e_pid e =? pid)).
    destruct (filter (fun oe => e_pid (snd oe) =? pid) oes) as [|[o e] r]; [reflexivity|].
    cbn [map entry_of fst snd i_ev i_off key_pos]. rewrite !map_map. reflexivity.
Qed.

Lemma key_get_posincr k oes c : posincr k snd c oes ->
  match filter (kmatch k) oes with
  | [] => key_get k (map entry_of oes) = None
  | _ => exists kr, key_get k (map entry_of oes) = Some kr /\ k_min kr = c /\
                    k_offs kr = map fst (filter (kmatch k) oes)
  end.
Proof.
  intros Hp. rewrite key_get_entries. destruct (filter (kmatch k) oes) as [|[o e] r] eqn:Hf; [reflexivity|].
  eexists; split; [reflexivity|]. cbn [k_min k_offs]. split; [|reflexivity].
  assert (He : key_pos k e = c) by (apply (posincr_first k snd _ _ _ _ Hp Hf)).
  rewrite He. apply fold_min_first. intros x Hx. apply in_map_iff in Hx. destruct Hx as [oe [<- Hoe]].
  rewrite <- Hf in Hoe. apply filter_In in Hoe. destruct Hoe as [Hin Hm].
  apply (posincr_bounds k snd _ _ _ Hp Hin Hm).
Qed.

(** ** [closed_search] finds the newest admissible closed segment *)
Definition skipf (d : dir) (next_seg j : nat) : bool :=
  match d with Fwd => Nat.ltb j next_seg | Rev => Nat.ltb next_seg j end.

Lemma closed_search_spec s k p d n0 : forall cnt,
  match closed_search s k p d n0 cnt with
  | Some (i, offs, oi) =>
      (i < cnt)%nat /\ skipf d n0 i = false /\ try_closed s k p d i = Some (offs, oi) /\
      forall j, (i < j < cnt)%nat -> skipf d n0 j = true \/ try_closed s k p d j = None
  | None => forall j, (j < cnt)%nat -> skipf d n0 j = true \/ try_closed s k p d j = None
  end.
Proof.
  induction cnt as [|i IH]; cbn [closed_search].
  - intros j Hj. lia.
  - fold (skipf d n0 i). destruct (skipf d n0 i) eqn:Hsk.
    + destruct (closed_search s k p d n0 i) as [[[i' offs] oi]|].
      * destruct IH as (H1 & H2 & H3 & H4). repeat split; auto.
        intros j Hj. destruct (Nat.eq_dec j i) as [->|Hne]; [left; assumption|apply H4; lia].
      * intros j Hj. destruct (Nat.eq_dec j i) as [->|Hne]; [left; assumption|apply IH; lia].
    + destruct (try_closed s k p d i) as [[offs oi]|] eqn:Htc.
      * repeat split; auto. intros j Hj. lia.
      * destruct (closed_search s k p d n0 i) as [[[i' offs] oi]|].
        -- destruct IH as (H1 & H2 & H3 & H4). repeat split; auto.
           intros j Hj. destruct (Nat.eq_dec j i) as [->|Hne]; [right; assumption|apply H4; lia].
        -- intros j Hj. destruct (Nat.eq_dec j i) as [->|Hne]; [right; assumption|apply IH; lia].
Qed.

(** ** one step of [next_batch] *)
Definition lastp_of (k : skey) (d : dir) (evss : list (list event)) (dflt : N) : N :=
  match rev evss with
  | l :: _ => match rev l with
              | e :: _ => match d with Fwd => key_pos k e + 1 | Rev => key_pos k e - 1 end
              | [] => dflt
              end
  | [] => dflt
  end.

Lemma next_batch_empty s k d limit it f si :
  b_seg it = Some si -> skipn (si_idx si) (si_offs si) = [] ->
  next_batch s k d limit it (S f) =
  if b_live it && negb (b_next it) then BDone
  else match d, si_seg si with
       | Rev, O => BDone
       | _, cur => next_batch s k d limit
                     (new_inner s k (b_last it) d (match d with Fwd => S cur | Rev => (cur - 1)%nat end) (b_next it)) f
       end.
Proof. intros H1 H2. cbn [next_batch]. rewrite H1, H2. reflexivity. Qed.

Lemma next_batch_some s k d limit it f si cs n :
  b_seg it = Some si -> skipn (si_idx si) (si_offs si) <> [] ->
  seg_next (seg_recs s (si_seg si)) (skipn (si_idx si) (si_offs si)) limit
           (length (skipn (si_idx si) (si_offs si))) = inl (cs, n) ->
  filter_map (filter_commit k) cs <> [] ->
  next_batch s k d limit it (S f) =
  BBatch (filter_map (filter_commit k) cs)
         (mkBI (Some (mkSI (si_seg si) (si_offs si) (si_idx si + n)))
               (lastp_of k d (map committed_events (filter_map (filter_commit k) cs)) (b_last it))
               (b_live it) (b_next it)).
Proof.
  intros H1 H2 H3 H4. cbn [next_batch]. rewrite H1.
  destruct (skipn (si_idx si) (si_offs si)) as [|o rest] eqn:Hrem; [congruence|].
  rewrite H3. destruct (filter_map (filter_commit k) cs) as [|c cs'] eqn:Hcs; [congruence|].
  f_equal. f_equal. unfold lastp_of. rewrite <- map_rev.
  destruct (rev (c :: cs')) as [|c0 r]; [reflexivity|]. cbn [map]. unfold last_pos.
  destruct (rev (committed_events c0)); reflexivity.
Qed.

(** ** expected results, forward *)
Definition nonnil {A} (l : list A) : bool := match l with [] => false | _ => true end.

Section Expect.
Variable k : skey.
Definition Pge (p : N) (e : event) : bool := matches k e && (p <=? key_pos k e).
(* the groups a forward scan from [p] must return: every stored transaction restricted to the
   key's events at or after [p], empty ones dropped *)
Definition Efwd (p : N) (log : alog) : list (list event) := filter nonnil (map (filter (Pge p)) log).
Definition Eseg (p : N) (L : list lgrp) : list (list event) := Efwd p (map gevs L).

Lemma Efwd_app p a b : Efwd p (a ++ b) = Efwd p a ++ Efwd p b.
Proof. unfold Efwd. rewrite map_app, filter_app. reflexivity. Qed.

Lemma Efwd_concat p (ll : list alog) : Efwd p (concat ll) = concat (map (Efwd p) ll).
Proof. induction ll as [|a ll IH]; [reflexivity|]. cbn [concat map]. rewrite Efwd_app, IH. reflexivity. Qed.

Lemma concat_filter_nonnil {A} (l : list (list A)) : concat (filter nonnil l) = concat l.
Proof. induction l as [|x l IH]; [reflexivity|]. cbn. destruct x; cbn; rewrite IH; reflexivity. Qed.

Lemma filter_concat {A} (p : A -> bool) (l : list (list A)) : filter p (concat l) = concat (map (filter p) l).
Proof. induction l as [|x l IH]; [reflexivity|]. cbn. rewrite filter_app, IH. reflexivity. Qed.

Lemma Efwd_events p log : concat (Efwd p log) = filter (Pge p) (all_events log).
Proof. unfold Efwd, all_events. rewrite concat_filter_nonnil, filter_concat. reflexivity. Qed.

Definition Gcut (p : N) (L : list lgrp) : list lgrp := Lk k (map (cutg (qge k snd p)) L).

Lemma koffs_Lk L : koffs k (Lk k L) = koffs k L.
Proof.
  induction L as [|g L IH]; [reflexivity|]. unfold Lk in *. cbn [filter]. destruct (gmatch k g) eqn:Hg.
  - rewrite !koffs_cons, IH. reflexivity.
  - rewrite koffs_cons, (gmatch_false _ _ Hg). exact IH.
Qed.

Lemma gmatch_nonnil g : gmatch k g = nonnil (kfilter k g).
Proof.
  rewrite kfilter_eq. unfold gmatch. induction (fst g) as [|x l IH]; [reflexivity|]. cbn.
  destruct (kmatch k x); cbn; [reflexivity|exact IH].
Qed.

Lemma upclosed_group q L : upclosed k q (lay_events L) -> forall g, In g L -> upclosed k q (fst g).
Proof.
  unfold lay_events. induction L as [|g0 L IH]; intros Hu g Hg; [contradiction|]. cbn in Hu.
  destruct Hg as [<-|Hg].
  - eapply upclosed_app_l; eauto.
  - apply IH; auto. eapply upclosed_app_r; eauto.
Qed.

Lemma map_snd_filter (q : event -> bool) (l : list (nat * event)) :
  map snd (filter (fun oe => q (snd oe)) l) = filter q (map snd l).
Proof. induction l as [|x l IH]; [reflexivity|]. cbn. destruct (q (snd x)); cbn; rewrite IH; reflexivity. Qed.

Lemma Gcut_facts recs lb p c L : layout_ok k recs lb L -> posincr k snd c (lay_events L) ->
  layout_ok k recs lb (Gcut p L) /\ Forall (fun g => gmatch k g = true) (Gcut p L) /\
  koffs k (Gcut p L) = skipn (clamp_sub p c (kcount k snd (lay_events L))) (koffs k L) /\
  map (kfilter k) (Gcut p L) = Eseg p L.
Proof.
  intros Hok Hp. pose proof (posincr_upclosed k c _ p Hp) as Hu. unfold Gcut. split; [|split; [|split]].
  - apply layout_ok_filter, layout_ok_cut. assumption.
  - apply Forall_forall. intros g Hg. apply filter_In in Hg. tauto.
  - rewrite koffs_Lk. unfold koffs. rewrite (filter_cut_layout k _ _ Hu).
    rewrite (posincr_filter_ge k snd _ _ p Hp). rewrite skipn_map. reflexivity.
  - unfold Eseg, Efwd, Lk. 
    assert (Hm : forall X, map (kfilter k) (filter (gmatch k) X) = filter nonnil (map (kfilter k) X)).
    { induction X as [|x X IHX]; [reflexivity|]. cbn. rewrite gmatch_nonnil.
      destruct (nonnil (kfilter k x)); cbn; rewrite IHX; reflexivity. }
    rewrite Hm. f_equal. rewrite !map_map. apply map_ext_in. intros g Hg.
    rewrite kfilter_eq. cbn [cutg fst]. rewrite (filter_dropw k _ _ (upclosed_group _ _ Hu g Hg)).
    unfold qge, mt, Pge, gevs. apply (map_snd_filter (fun e => matches k e && (p <=? key_pos k e))).
Qed.
End Expect.

Section Iter.
Variables (s : store) (k : skey).
Hypothesis HS : Scannable s k.
Notation lid := (live_id s).
Notation L := (Lat s).
Notation c := (cpos s k).
Notation cnt := (cnt s k).

Lemma koffs_length i : length (koffs k (L i)) = cnt i.
Proof. unfold koffs, ScanStore.cnt, kcount. rewrite map_length. reflexivity. Qed.

Lemma key_fact i : (i <= lid)%nat ->
  (cnt i = 0%nat -> key_get k (idx_at s i) = None) /\
  (cnt i <> 0%nat -> exists kr, key_get k (idx_at s i) = Some kr /\ k_min kr = c i /\ k_offs kr = koffs k (L i)).
Proof.
  intros H. rewrite (seg_idx_fact s k HS i H). pose proof (key_get_posincr k _ _ (seg_pos_fact s k HS i H)) as Hk.
  rewrite <- koffs_length. unfold koffs. rewrite map_length.
  destruct (filter (kmatch k) (lay_events (L i))) as [|x r]; cbn [length]; split; intros H0; try congruence; try lia; try exact Hk.
Qed.

Lemma try_live_spec p d :
  try_live s k p d =
  if Nat.eqb (cnt lid) 0 || (p <? c lid) then None
  else Some (koffs k (L lid), offsets_index d p (c lid) (cnt lid)).
Proof.
  unfold try_live. destruct (key_fact lid (le_n _)) as [H0 H1].
  assert (Hidx : idx_at s lid = s_idx (live s)) by (unfold idx_at; rewrite Nat.eqb_refl; reflexivity).
  rewrite Hidx in *. destruct (Nat.eqb_spec (cnt lid) 0) as [Hz|Hnz]; cbn [orb].
  - rewrite (H0 Hz). reflexivity.
  - destruct (H1 Hnz) as (kr & -> & Hmin & Hoffs). rewrite Hmin, Hoffs, koffs_length. reflexivity.
Qed.

Lemma try_closed_spec p d i : (i < lid)%nat ->
  try_closed s k p d i =
  if Nat.eqb (cnt i) 0 || negb (c i <=? p) then None
  else Some (koffs k (L i), offsets_index d p (c i) (cnt i)).
Proof.
  intros Hi. unfold try_closed. destruct (key_fact i ltac:(lia)) as [H0 H1].
  destruct (seg_cases s i ltac:(lia)) as [[-> _]|(g & _ & Hnth & _ & Hidx)]; [lia|].
  rewrite Hnth. rewrite Hidx in *. destruct (Nat.eqb_spec (cnt i) 0) as [Hz|Hnz]; cbn [orb].
  - rewrite (H0 Hz). reflexivity.
  - destruct (H1 Hnz) as (kr & -> & Hmin & Hoffs). rewrite Hmin, Hoffs, koffs_length.
    destruct (N.leb_spec (c i) p) as [Hle|Hgt]; cbn [orb negb]; [reflexivity|].
    destruct (Nat.eqb_spec i 0) as [->|Hne]; cbn [orb].
    + rewrite cpos_0 in Hgt. lia.
    + destruct d; [reflexivity|]. unfold nsegs. fold lid.
      destruct (Nat.eqb_spec i (S lid - 1)); [lia|reflexivity].
Qed.

Lemma try_closed_none p d i : (lid <= i)%nat -> try_closed s k p d i = None.
Proof.
  intros Hi. unfold try_closed. destruct (nth_error (sealed s) i) eqn:Hn; [|reflexivity].
  assert (i < length (sealed s))%nat by (apply nth_error_Some; congruence). unfold live_id in Hi. lia.
Qed.

(** *** expected results per segment *)
Lemma Eseg_nil_if p X : (forall g, In g X -> filter (Pge k p) (gevs g) = []) -> Eseg k p X = [].
Proof.
  unfold Eseg, Efwd. induction X as [|g X IH]; intros H; [reflexivity|]. cbn.
  rewrite (H g) by (left; reflexivity). cbn. apply IH. intros g' Hg'. apply H. right. assumption.
Qed.

Lemma Eseg_ext p p' X : (forall g e, In g X -> In e (gevs g) -> Pge k p e = Pge k p' e) -> Eseg k p X = Eseg k p' X.
Proof.
  intros H. unfold Eseg, Efwd. f_equal. rewrite !map_map. apply map_ext_in. intros g Hg.
  apply filter_ext_in. intros e He. eapply H; eauto.
Qed.

Lemma gevs_in X g e : In g X -> In e (gevs g) -> exists oe, In oe (lay_events X) /\ snd oe = e.
Proof.
  intros Hg He. unfold gevs in He. apply in_map_iff in He. destruct He as [oe [<- Hoe]].
  exists oe. split; [|reflexivity]. unfold lay_events. apply in_concat. exists (fst g). split; [|assumption].
  apply in_map. assumption.
Qed.

Lemma seg_bounds i oe : (i <= lid)%nat -> In oe (lay_events (L i)) -> kmatch k oe = true ->
  c i <= key_pos k (snd oe) /\ key_pos k (snd oe) < c (S i).
Proof.
  intros Hi Hin Hm. rewrite (cpos_S s k i Hi).
  apply (posincr_bounds k snd _ _ _ (seg_pos_fact s k HS i Hi) Hin Hm).
Qed.

Lemma Eseg_none i p : (i <= lid)%nat -> c (S i) <= p -> Eseg k p (L i) = [].
Proof.
  intros Hi Hp. apply Eseg_nil_if. intros g Hg.
  assert (Hall : forall e, In e (gevs g) -> Pge k p e = false).
  { intros e He. destruct (gevs_in _ _ _ Hg He) as (oe & Hoe & <-). unfold Pge.
    destruct (matches k (snd oe)) eqn:Hm; [|reflexivity]. destruct (seg_bounds i oe Hi Hoe Hm) as [_ Hb].
    cbn. apply N.leb_gt. lia. }
  induction (gevs g) as [|e l IH]; [reflexivity|]. cbn. rewrite Hall by (left; reflexivity).
  apply IH. intros e' He'. apply Hall. right. assumption.
Qed.

Lemma Eseg_all i p : (i <= lid)%nat -> p <= c i -> Eseg k p (L i) = Eseg k 0 (L i).
Proof.
  intros Hi Hp. apply Eseg_ext. intros g e Hg He. destruct (gevs_in _ _ _ Hg He) as (oe & Hoe & <-). unfold Pge.
  destruct (matches k (snd oe)) eqn:Hm; [|reflexivity]. destruct (seg_bounds i oe Hi Hoe Hm) as [Hb _].
  cbn. transitivity true; [apply N.leb_le; lia|symmetry; apply N.leb_le; lia].
Qed.

Lemma nokey_kmatch i oe : cnt i = 0%nat -> In oe (lay_events (L i)) -> kmatch k oe = false.
Proof.
  intros Hz Hin. destruct (kmatch k oe) eqn:Hm; [|reflexivity]. unfold ScanStore.cnt, kcount in Hz.
  assert (In oe (filter (mt k snd) (lay_events (L i)))) by (apply filter_In; split; assumption).
  destruct (filter (mt k snd) (lay_events (L i))); [contradiction|discriminate].
Qed.

Lemma Eseg_nokey i p : cnt i = 0%nat -> Eseg k p (L i) = [].
Proof.
  intros Hz. apply Eseg_nil_if. intros g Hg.
  assert (Hall : forall e, In e (gevs g) -> Pge k p e = false).
  { intros e He. destruct (gevs_in _ _ _ Hg He) as (oe & Hoe & <-). unfold Pge.
    pose proof (nokey_kmatch i oe Hz Hoe) as Hm. unfold kmatch in Hm. rewrite Hm. reflexivity. }
  induction (gevs g) as [|e l IH]; [reflexivity|]. cbn. rewrite Hall by (left; reflexivity).
  apply IH. intros e' He'. apply Hall. right. assumption.
Qed.

Definition Efrom (n : nat) (p : N) : list (list event) := concat (map (Eseg k p) (skipn n (Ls s))).

Lemma Efrom_unfold n p : (n <= lid)%nat -> Efrom n p = Eseg k p (L n) ++ Efrom (S n) p.
Proof.
  intros Hn. unfold Efrom. rewrite (skipn_nth [] n (Ls s)) by (rewrite Ls_length; unfold nsegs, live_id in *; lia).
  reflexivity.
Qed.

Lemma Efrom_end p : Efrom (S lid) p = [].
Proof. unfold Efrom. rewrite skipn_all2; [reflexivity|]. rewrite Ls_length. unfold nsegs, live_id. lia. Qed.

Lemma Efrom_skip p : forall j n, (n <= j <= S lid)%nat ->
  (forall i, (n <= i < j)%nat -> Eseg k p (L i) = []) -> Efrom n p = Efrom j p.
Proof.
  induction j as [|j IH]; intros n Hn H.
  - replace n with 0%nat by lia. reflexivity.
  - destruct (Nat.eq_dec n (S j)) as [->|Hne]; [reflexivity|].
    rewrite (IH n) by (try lia; intros i Hi; apply H; lia).
    rewrite Efrom_unfold by lia. rewrite (H j) by lia. reflexivity.
Qed.

Lemma Efrom_ext p p' : forall m n, (S lid - n = m)%nat ->
  (forall i, (n <= i <= lid)%nat -> Eseg k p (L i) = Eseg k p' (L i)) -> Efrom n p = Efrom n p'.
Proof.
  induction m as [|m IH]; intros n Hm H.
  - unfold Efrom. rewrite skipn_all2; [reflexivity|]. rewrite Ls_length. unfold nsegs, live_id in *. lia.
  - rewrite (Efrom_unfold n p), (Efrom_unfold n p') by lia. rewrite (H n) by lia. f_equal. apply IH; [lia|].
    intros i Hi. apply H. lia.
Qed.

Lemma Efwd_visible p : Efwd k p (abs_visible s) = Efrom 0 p.
Proof.
  rewrite (abs_visible_Ls s), Efwd_concat. unfold Efrom. cbn [skipn]. rewrite map_map. reflexivity.
Qed.

(* if from some segment on every segment either lacks the key or starts after [p], and the
   position reached is already <= p, then no later segment has the key *)
Lemma no_key_from p : forall m n, (S lid - n = m)%nat -> c n <= p ->
  (forall i, (n <= i <= lid)%nat -> cnt i = 0%nat \/ p < c i) ->
  forall i, (n <= i <= lid)%nat -> cnt i = 0%nat.
Proof.
  induction m as [|m IH]; intros n Hm Hc H i Hi; [lia|].
  assert (Hn : cnt n = 0%nat) by (destruct (H n ltac:(lia)); [assumption|lia]).
  destruct (Nat.eq_dec i n) as [->|Hne]; [assumption|].
  apply (IH (S n)); try lia.
  - rewrite cpos_S by (auto; lia). rewrite Hn. lia.
  - intros j Hj. apply H. lia.
Qed.

(** *** the forward iterator: invariant and one batch *)
Definition Elater (i : nat) : list (list event) := Efrom (S i) 0.

Record FwdState (it : biter) (i : nat) (G : list lgrp) : Prop := {
  fs_seg : exists offs idx, b_seg it = Some (mkSI i offs idx) /\ skipn idx offs = koffs k G;
  fs_ok : layout_ok k (seg_recs s i) 0 G;
  fs_match : Forall (fun g => gmatch k g = true) G;
  fs_i : (i <= lid)%nat;
  fs_live : b_live it = Nat.eqb i lid;
  fs_next : b_next it = Nat.ltb i lid;
  fs_last : forall x r, rev (concat (map (kfilter k) G)) = x :: r -> key_pos k x + 1 = c (S i);
  fs_done : G = [] -> c (S i) <= b_last it /\ Efrom (S i) (b_last it) = Elater i
}.

Lemma Forall_firstn' {A} (P : A -> Prop) n l : Forall P l -> Forall P (firstn n l).
Proof. intros H. rewrite <- (firstn_skipn n l) in H. apply Forall_app in H. tauto. Qed.

Lemma Forall_skipn' {A} (P : A -> Prop) n l : Forall P l -> Forall P (skipn n l).
Proof. intros H. rewrite <- (firstn_skipn n l) in H. apply Forall_app in H. tauto. Qed.

Lemma koffs_nonempty G : G <> [] -> Forall (fun g => gmatch k g = true) G -> koffs k G <> [].
Proof.
  intros Hne HF. destruct G as [|g G]; [congruence|]. inversion HF as [|? ? Hg _]; subst.
  rewrite koffs_cons. destruct (dropto_spec k _ Hg) as (j & o & e & rest & _ & _ & _ & Hfl).
  unfold kof. rewrite Hfl. discriminate.
Qed.

Lemma lastp_fwd (evss : list (list event)) d : Forall (fun l => l <> []) evss -> evss <> [] ->
  exists x r, rev (concat evss) = x :: r /\ lastp_of k Fwd evss d = key_pos k x + 1.
Proof.
  intros HF Hne. unfold lastp_of. destruct (rev evss) as [|l rr] eqn:Hr.
  - apply (f_equal (@rev _)) in Hr. rewrite rev_involutive in Hr. cbn in Hr. congruence.
  - assert (He : evss = rev rr ++ [l]).
    { apply (f_equal (@rev _)) in Hr. rewrite rev_involutive in Hr. exact Hr. }
    assert (Hl : l <> []).
    { eapply Forall_forall in HF; [exact HF|]. rewrite He. apply in_or_app. right. left. reflexivity. }
    rewrite He, concat_app. cbn [concat]. rewrite app_nil_r, rev_app_distr.
    destruct (rev l) as [|x r'] eqn:Hrl.
    + apply (f_equal (@rev _)) in Hrl. rewrite rev_involutive in Hrl. cbn in Hrl. congruence.
    + exists x, (r' ++ rev (concat (rev rr))). split; reflexivity.
Qed.

Lemma fwd_step it i G limit f : FwdState it i G -> G <> [] -> (1 <= limit)%nat ->
  exists cs it', next_batch s k Fwd limit it (S f) = BBatch cs it' /\
    map committed_events cs = map (kfilter k) (firstn limit G) /\ FwdState it' i (skipn limit G).
Proof.
  intros [Hseg Hok Hmatch Hi Hlive Hnext Hlast Hdone] Hne Hlim.
  destruct Hseg as (offs & idx & Hseg & Hrem).
  pose proof (seg_next_fwd k (seg_recs s i) G 0%nat limit (length (koffs k G)) Hok Hlim (le_n _)) as Hsn.
  rewrite (Lk_all k G Hmatch) in Hsn.
  destruct Hok as [HokF HokI].
  destruct (filter_first_commits k (seg_recs s i) (firstn limit G)) as [Hfc Hnn];
    [apply Forall_firstn'; assumption|apply Forall_firstn'; assumption|].
  assert (Hfn : firstn limit G <> []) by (destruct G; [congruence|]; destruct limit; [lia|discriminate]).
  set (cs := map (first_commit k) (firstn limit G)) in *.
  assert (Hcs' : filter_map (filter_commit k) cs <> []).
  { intros Heq. rewrite Heq in Hfc. cbn in Hfc. destruct (firstn limit G); [congruence|discriminate]. }
  pose (si := mkSI i offs idx).
  pose proof (next_batch_some s k Fwd limit it f si cs (length (koffs k (firstn limit G))) Hseg) as Hnb.
  cbn [si si_idx si_offs si_seg] in Hnb. rewrite Hrem in Hnb.
  specialize (Hnb (koffs_nonempty G Hne Hmatch) Hsn Hcs').
  eexists; eexists. split; [exact Hnb|]. split; [exact Hfc|].
  assert (Hsplit : koffs k G = koffs k (firstn limit G) ++ koffs k (skipn limit G))
    by (rewrite <- koffs_app, firstn_skipn; reflexivity).
  constructor; cbn [b_seg b_last b_live b_next]; auto.
  - exists offs, (idx + length (koffs k (firstn limit G)))%nat. split; [reflexivity|].
    rewrite <- skipn_skipn', Hrem, Hsplit. apply skipn_app_exact. reflexivity.
  - apply layout_ok_skipn. split; assumption.
  - apply Forall_skipn'. assumption.
  - intros x r Hr. apply (Hlast x (r ++ rev (concat (map (kfilter k) (firstn limit G))))).
    rewrite <- (firstn_skipn limit G) at 1. rewrite map_app, concat_app, rev_app_distr, Hr. reflexivity.
  - intros Hnil. rewrite Hfc.
    assert (HG : firstn limit G = G) by (rewrite <- (firstn_skipn limit G) at 2; rewrite Hnil, app_nil_r; reflexivity).
    rewrite HG in *.
    destruct (lastp_fwd (map (kfilter k) G) (b_last it) Hnn) as (x & r & Hr & ->).
    { destruct G; [congruence|discriminate]. }
    rewrite (Hlast x r Hr). split; [lia|]. unfold Elater.
    apply (Efrom_ext (c (S i)) 0 (S lid - S i) (S i) eq_refl). intros j Hj. apply Eseg_all; [lia|].
    apply cpos_mono; lia.
Qed.

(** *** entering a segment at position [p] *)
Lemma evs_of_concat X : evs_of X = concat (map gevs X).
Proof. unfold evs_of, lay_events, gevs. rewrite concat_map, map_map. reflexivity. Qed.

Lemma rev_skipn_head {A} m (X : list A) x r : rev (skipn m X) = x :: r -> exists r', rev X = x :: r'.
Proof.
  intros H. exists (r ++ rev (firstn m X)).
  assert (He : rev X = rev (skipn m X) ++ rev (firstn m X)) by (rewrite <- rev_app_distr, firstn_skipn; reflexivity).
  rewrite He, H. reflexivity.
Qed.

Lemma seg_pos_events i : (i <= lid)%nat -> posincr k (fun e => e) (c i) (evs_of (L i)).
Proof. intros Hi. apply (posincr_map k snd). apply (seg_pos_fact s k HS i Hi). Qed.

Lemma cut_state i p bl bn : (i <= lid)%nat -> c i <= p ->
  bl = Nat.eqb i lid -> bn = Nat.ltb i lid -> Efrom (S i) p = Elater i ->
  FwdState (mkBI (Some (mkSI i (koffs k (L i)) (clamp_sub p (c i) (cnt i)))) p bl bn) i (Gcut k p (L i))
  /\ map (kfilter k) (Gcut k p (L i)) = Eseg k p (L i).
Proof.
  intros Hi Hp Hbl Hbn Hlater.
  destruct (Gcut_facts k (seg_recs s i) 0%nat p (c i) (L i) (seg_layout_fact s k HS i Hi) (seg_pos_fact s k HS i Hi))
    as (Hok & Hm & Hoffs & HE).
  fold (cnt i) in Hoffs. split; [|exact HE].
  constructor; cbn [b_seg b_last b_live b_next]; auto.
  - eexists; eexists. split; [reflexivity|]. symmetry. exact Hoffs.
  - intros x r Hr. rewrite HE in Hr. unfold Eseg in Hr. rewrite Efwd_events in Hr.
    unfold all_events in Hr. rewrite <- evs_of_concat in Hr.
    pose proof (seg_pos_events i Hi) as Hpe.
    change (Pge k p) with (qge k (fun e : event => e) p) in Hr.
    rewrite (posincr_filter_ge k (fun e => e) _ _ p Hpe) in Hr.
    destruct (rev_skipn_head _ _ _ _ Hr) as [r' Hr'].
    rewrite (posincr_last k (fun e => e) _ _ _ _ Hpe Hr'). rewrite cpos_S by (auto; lia).
    unfold ScanStore.cnt, evs_of. rewrite kcount_map. reflexivity.
  - intros HG. assert (Hc : c (S i) <= p).
    { rewrite HG in Hoffs. cbn in Hoffs. apply (f_equal (@length _)) in Hoffs.
      rewrite skipn_length, koffs_length in Hoffs. cbn in Hoffs. rewrite cpos_S by (auto; lia).
      unfold clamp_sub in Hoffs. destruct (N.leb_spec (N.of_nat (cnt i)) (p - c i)); lia. }
    split; assumption.
Qed.

Lemma Efrom_at n0 j p : (n0 <= j <= lid)%nat -> c j <= p ->
  (forall i, (j < i <= lid)%nat -> cnt i = 0%nat \/ p < c i) ->
  Efrom n0 p = Eseg k p (L j) ++ Elater j /\ Efrom (S j) p = Elater j.
Proof.
  intros Hj Hp Hafter.
  assert (Hl : Efrom (S j) p = Elater j).
  { unfold Elater. apply (Efrom_ext p 0 (S lid - S j) (S j) eq_refl). intros i Hi.
    destruct (Hafter i ltac:(lia)) as [Hz|Hlt].
    + rewrite !Eseg_nokey by assumption. reflexivity.
    + apply Eseg_all; lia. }
  split; [|exact Hl].
  rewrite (Efrom_skip p j n0); [|lia|].
  2:{ intros i Hi. apply Eseg_none; [lia|].
      pose proof (cpos_mono s k (S i) j ltac:(lia) ltac:(lia)). lia. }
  rewrite Efrom_unfold by lia. f_equal. exact Hl.
Qed.

Lemma new_inner_fwd n0 p : (n0 <= lid)%nat -> c n0 <= p ->
  let it := new_inner s k p Fwd n0 true in
  (b_seg it = None /\ Efrom n0 p = []) \/
  (exists j G, (n0 <= j)%nat /\ FwdState it j G /\ map (kfilter k) G ++ Elater j = Efrom n0 p).
Proof.
  intros Hn0 Hc. unfold new_inner. replace (Nat.leb n0 lid) with true by (symmetry; apply Nat.leb_le; lia).
  rewrite try_live_spec. cbn [negb].
  destruct (Nat.eqb (cnt lid) 0 || (p <? c lid)) eqn:Htl.
  - (* the live segment does not contain [p] *)
    assert (Hlive : cnt lid = 0%nat \/ p < c lid).
    { apply orb_prop in Htl. destruct Htl as [H|H]; [left; apply Nat.eqb_eq; assumption|right; apply N.ltb_lt; assumption]. }
    pose proof (closed_search_spec s k p Fwd n0 (nsegs s)) as Hcs.
    destruct (closed_search s k p Fwd n0 (nsegs s)) as [[[i offs] oi]|].
    + destruct Hcs as (Hi & Hsk & Htc & Hafter).
      destruct (Nat.lt_ge_cases i lid) as [Hlt|Hge]; [|rewrite try_closed_none in Htc by assumption; discriminate].
      rewrite try_closed_spec in Htc by assumption.
      destruct (Nat.eqb (cnt i) 0 || negb (c i <=? p)) eqn:Hcond; [discriminate|].
      inversion Htc; subst offs oi. clear Htc.
      apply orb_false_elim in Hcond. destruct Hcond as [Hcnt Hci].
      apply Nat.eqb_neq in Hcnt. apply negb_false_iff, N.leb_le in Hci.
      cbn [skipf] in Hsk. apply Nat.ltb_ge in Hsk.
      assert (Hafter' : forall j, (i < j <= lid)%nat -> cnt j = 0%nat \/ p < c j).
      { intros j Hj. destruct (Nat.eq_dec j lid) as [->|Hne]; [assumption|].
        destruct (Hafter j) as [H|H]; [unfold nsegs; fold lid; lia| |].
        - cbn [skipf] in H. apply Nat.ltb_lt in H. lia.
        - rewrite try_closed_spec in H by lia.
          destruct (Nat.eqb (cnt j) 0 || negb (c j <=? p)) eqn:Hcj; [|discriminate].
          apply orb_prop in Hcj. destruct Hcj as [Hz|Hz]; [left; apply Nat.eqb_eq; assumption|].
          right. apply negb_true_iff, N.leb_gt in Hz. assumption. }
      destruct (Efrom_at n0 i p ltac:(lia) Hci Hafter') as [HE Hnone].
      right. exists i, (Gcut k p (L i)).
      unfold segiter_new, offsets_index.
      destruct (cut_state i p false (Nat.ltb i (nsegs s - 1)) ltac:(lia) Hci) as [Hst HG]; auto.
      * symmetry. apply Nat.eqb_neq. lia.
      * unfold nsegs. fold lid. replace (S lid - 1)%nat with lid by lia. reflexivity.
      * split; [lia|]. split; [exact Hst|]. rewrite HG, HE. reflexivity.
    + left. cbn [b_seg]. split; [reflexivity|].
      assert (Hall : forall i, (n0 <= i <= lid)%nat -> cnt i = 0%nat \/ p < c i).
      { intros j Hj. destruct (Nat.eq_dec j lid) as [->|Hne]; [assumption|].
        destruct (Hcs j) as [H|H]; [unfold nsegs; fold lid; lia| |].
        - cbn [skipf] in H. apply Nat.ltb_lt in H. lia.
        - rewrite try_closed_spec in H by lia.
          destruct (Nat.eqb (cnt j) 0 || negb (c j <=? p)) eqn:Hcj; [|discriminate].
          apply orb_prop in Hcj. destruct Hcj as [Hz|Hz]; [left; apply Nat.eqb_eq; assumption|].
          right. apply negb_true_iff, N.leb_gt in Hz. assumption. }
      pose proof (no_key_from p (S lid - n0) n0 eq_refl Hc Hall) as Hnk.
      rewrite (Efrom_skip p (S lid) n0); [apply Efrom_end|lia|].
      intros i Hi. apply Eseg_nokey. apply Hnk. lia.
  - (* the live segment contains [p] *)
    apply orb_false_elim in Htl. destruct Htl as [Hcnt Hcl]. apply Nat.eqb_neq in Hcnt. apply N.ltb_ge in Hcl.
    destruct (Efrom_at n0 lid p ltac:(lia) Hcl ltac:(intros; lia)) as [HE Hnone].
    right. exists lid, (Gcut k p (L lid)). unfold segiter_new, offsets_index.
    destruct (cut_state lid p true false (le_n _) Hcl) as [Hst HG]; auto.
    + symmetry. apply Nat.eqb_refl.
    + symmetry. apply Nat.ltb_irrefl.
    + split; [lia|]. split; [exact Hst|]. rewrite HG, HE. reflexivity.
Qed.

(** *** one call of [next_batch], forward: the next 1..limit expected groups, or the end *)
Lemma firstn_app_exact {A} (l1 l2 : list A) n : length l1 = n -> firstn n (l1 ++ l2) = l1.
Proof. intros <-. rewrite firstn_app, firstn_all, Nat.sub_diag. cbn. apply app_nil_r. Qed.

Lemma next_batch_none d limit it f : b_seg it = None -> next_batch s k d limit it (S f) = BDone.
Proof. intros H. cbn [next_batch]. rewrite H. reflexivity. Qed.

Definition fwd_result (limit : nat) (E : list (list event)) (r : batch_result) : Prop :=
  (E = [] /\ r = BDone) \/
  (exists cs it' j G' n, r = BBatch cs it' /\ (1 <= n <= limit)%nat /\ length cs = n /\
     map committed_events cs = firstn n E /\ FwdState it' j G' /\
     map (kfilter k) G' ++ Elater j = skipn n E).

Lemma fwd_batch_step limit it i G f : (1 <= limit)%nat -> FwdState it i G -> G <> [] ->
  fwd_result limit (map (kfilter k) G ++ Elater i) (next_batch s k Fwd limit it (S f)).
Proof.
  intros Hlim Hst HG. destruct (fwd_step it i G limit f Hst HG Hlim) as (cs & it' & Hnb & Hcs & Hst').
  right. exists cs, it', i, (skipn limit G), (length (firstn limit G)).
  assert (Hn : (1 <= length (firstn limit G) <= limit)%nat).
  { rewrite firstn_length. destruct G; [congruence|]. cbn [length]. lia. }
  split; [exact Hnb|]. split; [exact Hn|]. split.
  { apply (f_equal (@length _)) in Hcs. rewrite !map_length in Hcs. exact Hcs. }
  assert (HE : map (kfilter k) G ++ Elater i
               = map (kfilter k) (firstn limit G) ++ (map (kfilter k) (skipn limit G) ++ Elater i)).
  { rewrite app_assoc, <- map_app, firstn_skipn. reflexivity. }
  rewrite HE. split; [|split; [exact Hst'|]].
  - rewrite firstn_app_exact by (rewrite map_length; reflexivity). exact Hcs.
  - rewrite skipn_app_exact by (rewrite map_length; reflexivity). reflexivity.
Qed.

Lemma fwd_batch limit : (1 <= limit)%nat -> forall m it i G fuel,
  (lid - i <= m)%nat -> (m + 2 <= fuel)%nat -> FwdState it i G ->
  fwd_result limit (map (kfilter k) G ++ Elater i) (next_batch s k Fwd limit it fuel).
Proof.
  intros Hlim. induction m as [|m IH]; intros it i G fuel Hm Hfuel Hst.
  - destruct fuel as [|f]; [lia|]. destruct G as [|g G'] eqn:HG.
    + pose proof Hst as [Hseg Hok Hmatch Hi Hlive Hnext Hlast Hdone].
      destruct Hseg as (offs & idx & Hseg & Hrem).
      rewrite (next_batch_empty s k Fwd limit it f (mkSI i offs idx) Hseg Hrem).
      assert (i = lid) by lia. subst i. rewrite Hlive, Hnext, Nat.eqb_refl, Nat.ltb_irrefl. cbn.
      left. split; [apply Efrom_end|reflexivity].
    + rewrite <- HG in *. apply fwd_batch_step; auto. congruence.
  - destruct fuel as [|f]; [lia|]. destruct G as [|g G'] eqn:HG.
    + pose proof Hst as [Hseg Hok Hmatch Hi Hlive Hnext Hlast Hdone].
      destruct Hseg as (offs & idx & Hseg & Hrem).
      rewrite (next_batch_empty s k Fwd limit it f (mkSI i offs idx) Hseg Hrem).
      rewrite Hlive, Hnext. destruct (Nat.eqb_spec i lid) as [->|Hne].
      * rewrite Nat.ltb_irrefl. cbn. left. split; [apply Efrom_end|reflexivity].
      * assert (Hlt : (i < lid)%nat) by lia. replace (Nat.ltb i lid) with true by (symmetry; apply Nat.ltb_lt; assumption).
        cbn [andb negb si_seg]. destruct (Hdone eq_refl) as [Hc HE].
        cbn [map app]. rewrite <- HE.
        destruct (new_inner_fwd (S i) (b_last it) ltac:(lia) Hc) as [[Hnone HE0]|(j & G2 & Hji & Hst2 & HE2)].
        -- destruct f as [|f']; [lia|]. rewrite next_batch_none by assumption. left. split; [assumption|reflexivity].
        -- rewrite <- HE2. apply IH; [lia|lia|assumption].
    + rewrite <- HG in *. apply fwd_batch_step; auto. congruence.
Qed.

(** *** the whole forward scan *)
Definition total_recs : nat :=
  (length (concat (map (fun g => s_recs g) (sealed s))) + length (s_recs (live s)))%nat.

Lemma fwd_scan_loop limit : (1 <= limit)%nat -> forall fuel it i G, FwdState it i G ->
  (length (map (kfilter k) G ++ Elater i) < fuel)%nat ->
  exists batches, scan_loop s k Fwd limit it fuel = Some batches /\
    map committed_events (concat batches) = map (kfilter k) G ++ Elater i /\
    Forall (fun b => 1 <= length b <= limit)%nat batches.
Proof.
  intros Hlim. induction fuel as [|f IH]; intros it i G Hst Hlen; [lia|].
  cbn [scan_loop].
  pose proof (fwd_batch limit Hlim lid it i G
     (S (S (nsegs s + length (concat (map (fun g => s_recs g) (sealed s))) + length (s_recs (live s)))))
     ltac:(lia) ltac:(unfold nsegs; fold lid; lia) Hst) as Hr.
  destruct Hr as [[HE ->]|(cs & it' & j & G' & n & -> & Hn & Hcsn & Hcs & Hst' & HE')].
  - exists []. rewrite HE. repeat split; constructor.
  - destruct (IH it' j G' Hst') as (r & Hr & Hev & Hall).
    { rewrite HE', skipn_length. pose proof (f_equal (@length _) Hcs) as Hl.
      rewrite map_length, firstn_length in Hl. lia. }
    rewrite Hr. exists (cs :: r). split; [reflexivity|]. split.
    + cbn [concat]. rewrite map_app, Hcs, Hev, HE'. apply firstn_skipn.
    + constructor; [lia|assumption].
Qed.

Lemma wf_groups_length recs gs : wf_recs recs gs -> (length gs <= length recs)%nat.
Proof.
  induction 1 as [|g es r gs Hg Hr IH]; [cbn; lia|]. rewrite app_length. cbn [length].
  destruct (wf_group_size _ _ Hg) as [Hl Hne]. pose proof (gsize_ge es). destruct es; [congruence|]. cbn in *. lia.
Qed.

Lemma visible_length : (length (abs_visible s) <= total_recs)%nat.
Proof.
  unfold abs_visible, total_recs. rewrite app_length. apply Nat.add_le_mono.
  - pose proof (sc_sealed _ _ HS) as HF. induction HF as [|g l [[gs Hwf] _] _ IH]; [cbn; lia|].
    cbn [map concat]. rewrite !app_length. rewrite (wf_groups _ _ Hwf).
    pose proof (wf_groups_length _ _ Hwf). lia.
  - destruct (sc_live _ _ HS) as [[gs Hwf] _]. fold (pubrecs s). rewrite (wf_groups _ _ Hwf).
    pose proof (wf_groups_length _ _ Hwf). unfold pubrecs in *. rewrite firstn_length in *. lia.
Qed.

Lemma Efwd_length p log : (length (Efwd k p log) <= length log)%nat.
Proof.
  unfold Efwd. induction log as [|g log IH]; [cbn; lia|]. cbn [map filter length].
  destruct (nonnil (filter (Pge k p) g)); cbn [length]; lia.
Qed.

Theorem scan_fwd from limit : limit <> 0%nat ->
  exists batches, scan s k from Fwd limit = Some batches /\
    map committed_events (concat batches) = Efwd k from (abs_visible s) /\
    Forall (fun b => 1 <= length b <= limit)%nat batches.
Proof.
  intros Hlim. unfold scan. replace (Nat.eqb limit 0) with false by (symmetry; apply Nat.eqb_neq; assumption).
  unfold iter_new. rewrite Efwd_visible.
  destruct (new_inner_fwd 0 from ltac:(lia) ltac:(rewrite cpos_0; lia)) as [[Hnone HE]|(j & G & _ & Hst & HE)].
  - cbn [scan_loop]. rewrite next_batch_none by assumption. exists []. rewrite HE. repeat split; constructor.
  - rewrite <- HE. apply fwd_scan_loop; [lia|assumption|].
    rewrite HE, <- Efwd_visible. pose proof (Efwd_length from (abs_visible s)). pose proof visible_length.
    unfold total_recs in *. lia.
Qed.
End Iter.
