(** C10/C11 proofs, part 3: the global invariant [Inv], its monotonicity under growth [ext], and the frame lemma for a step of one node. *)
From Coq Require Import NArith List Bool Lia.
From SV Require Import Model.Replication.
From SV Require Import Proofs.ReplLog Proofs.ReplExt.
Import ListNotations.
Open Scope N_scope.

Lemma filter_length_mono {A} (f g : A -> bool) : forall l, (forall x, In x l -> f x = true -> g x = true) ->
  (length (filter f l) <= length (filter g l))%nat.
Proof.
  induction l as [|a t IH]; intros H; cbn; auto.
  assert (IH' := IH (fun x Hx => H x (or_intror Hx))).
  destruct (f a) eqn:Fa.
  - rewrite (H a (or_introl eq_refl) Fa). cbn. lia.
  - destruct (g a); cbn; lia.
Qed.

Lemma filter_both_length {A} (f g : A -> bool) : forall l,
  (length (filter f l) + length (filter g l) <= length l + length (filter (fun x => f x && g x) l))%nat.
Proof. induction l as [|a t IH]; cbn; auto. destruct (f a), (g a); cbn; lia. Qed.

Lemma orig_of_cons_other o T v X : X <> T -> orig_of ((T, v) :: o) X = orig_of o X.
Proof. intros H. cbn. destruct (T =? X) eqn:E; auto. apply N.eqb_eq in E. congruence. Qed.

Section Global.
  Variable cfg : config.
  Let q := c_q cfg.
  Let reps := c_reps cfg.

  Definition lg (st : gstate) (n : node) : log := ns_log (g_nodes st n).
  Definition Orig (st : gstate) (T : N) (c : node) (s k : N) : Prop := orig_of (g_orig st) T = Some (c, s, k).
  Definition Justified (st : gstate) (T : N) : Prop := q <= N.of_nat (length (holders cfg st T)).

  Definition orig_part (st : gstate) (e : ent) : Prop :=
    exists c s k, Orig st (en_tx e) c s k /\ en_first e = s + en_off e /\ en_off e + en_nev e = k.
  Definition ent_ok (st : gstate) (e : ent) : Prop :=
    orig_part st e /\ (q <= en_cnt e -> Justified st (en_tx e)).
  (* weaker, while node n is appending: the node itself may be the quorum (q <= 1) *)
  Definition ent_ok_w (st : gstate) (n : node) (e : ent) : Prop :=
    orig_part st e /\ (q <= en_cnt e -> Justified st (en_tx e) \/ (q <= 1 /\ en_off e = 0 /\ In n reps)).
  Definition bw_ok (st : gstate) (w : bwrite) : Prop :=
    (exists c, Orig st (bw_tx w) c (bw_key w) (bw_nev w)) /\ bw_cnt w = cnt0 (c_rf cfg).

  Definition stored_q (st : gstate) (c : node) (T s : N) : Prop :=
    exists e, In e (lg st c) /\ ent_is T e = true /\ en_first e = s /\ q <= en_cnt e.

  Definition msg_ok (st : gstate) (m : msg) : Prop :=
    match m with
    | MRep c r _ _ T ex k cnt =>
        match ex with RxAt s => (exists c', Orig st T c' s k) /\ cnt = cnt0 (c_rf cfg) | RxAny => False end
    | MRepAns r _ _ T res =>
        match res with AOk _ => In r reps /\ holds_whole (lg st r) T = true | AErr _ => True end
    | MConf _ _ T s k cnt _ => (exists c', Orig st T c' s k) /\ q <= cnt /\ Justified st T
    | MSyncReq _ _ _ _ => True
    | MSyncResp _ _ cs => match cs with Some cs => Forall (ent_ok st) cs | None => True end
    | MClient c T res => match res with AOk s => stored_q st c T s /\ Justified st T | AErr _ => True end
    end.

  Definition task_ok (st : gstate) (c : node) (t : ctask) : Prop :=
    In c reps /\ Orig st (ct_tx t) c (ct_first t) (ct_nev t) /\ In c (ct_confirmed t) /\
    NoDup (ct_confirmed t) /\ (forall r, In r (ct_confirmed t) -> In r reps /\ holds_whole (lg st r) (ct_tx t) = true) /\
    NoDup (ct_pending t) /\ (forall r, In r (ct_pending t) -> ~ In r (ct_confirmed t)) /\
    match ct_phase t with
    | PhCollect => True
    | PhQuorum => q <= N.of_nat (length (ct_confirmed t))
    | PhConfirmed => q <= N.of_nat (length (ct_confirmed t)) /\ stored_q st c (ct_tx t) (ct_first t)
    | PhLate cnt => q <= cnt /\ q <= N.of_nat (length (ct_confirmed t)) /\ stored_q st c (ct_tx t) (ct_first t)
    end.

  Definition node_ok (st : gstate) (n : node) : Prop :=
    chain (lg st n) /\ Forall (ent_ok st) (lg st n) /\
    (forall rp, ns_rp (g_nodes st n) = Some rp -> In n reps /\ BufP (bw_ok st) rp) /\
    Forall (task_ok st n) (ns_tasks (g_nodes st n)) /\
    NoDup (map fst (ns_view (g_nodes st n))).

  Definition Inv (st : gstate) : Prop :=
    (forall n, node_ok st n) /\ (forall m, In m (g_net st) -> msg_ok st m).

  (* ---------------------------------------------------------------- growth *)
  Definition ext (st st' : gstate) : Prop :=
    (forall n, keeps q (lg st n) (lg st' n)) /\
    (forall T v, orig_of (g_orig st) T = Some v -> orig_of (g_orig st') T = Some v).

  Definition IE (st st' : gstate) : Prop := Inv st' /\ ext st st'.

  Lemma ext_trans st1 st2 st3 : ext st1 st2 -> ext st2 st3 -> ext st1 st3.
  Proof. intros (K1 & O1) (K2 & O2). split; [intros n; eapply keeps_trans; eauto|auto]. Qed.

  Lemma ext_refl st : ext st st.
  Proof. split; [intros; apply keeps_refl|auto]. Qed.

  Lemma ext_holds st st' n T : ext st st' -> holds_whole (lg st n) T = true -> holds_whole (lg st' n) T = true.
  Proof. intros (K & _). apply keeps_holds with (q := q). apply K. Qed.

  Lemma Justified_mono st st' T : ext st st' -> Justified st T -> Justified st' T.
  Proof.
    intros E J. unfold Justified, holders in *.
    assert (length (filter (fun n => holds_whole (ns_log (g_nodes st n)) T) (c_reps cfg))
            <= length (filter (fun n => holds_whole (ns_log (g_nodes st' n)) T) (c_reps cfg)))%nat.
    { apply filter_length_mono. intros x _ Hx. eapply (ext_holds st st' x T E). exact Hx. }
    lia.
  Qed.

  Lemma orig_part_mono st st' e : ext st st' -> orig_part st e -> orig_part st' e.
  Proof. intros (_ & O) (c & s & k & H & R). exists c, s, k. split; auto. apply O. exact H. Qed.

  Lemma ent_ok_mono st st' e : ext st st' -> ent_ok st e -> ent_ok st' e.
  Proof. intros E (O & J). split; [eapply orig_part_mono; eauto|]. intros H. eapply Justified_mono; eauto. Qed.

  Lemma bw_ok_mono st st' w : ext st st' -> bw_ok st w -> bw_ok st' w.
  Proof. intros (_ & O) ((c & H) & C). split; auto. exists c. apply O. exact H. Qed.

  Lemma stored_q_mono st st' c T s : ext st st' -> stored_q st c T s -> stored_q st' c T s.
  Proof.
    intros (K & _) (e & He & Hi & Hf & Hq). destruct (K c e He) as (e' & A & B & C).
    exists e'. split; auto. split; [rewrite <- (same_ent_is e e' T B); auto|]. split; [destruct B as (_ & <- & _); auto|auto].
  Qed.

  Lemma msg_ok_mono st st' m : ext st st' -> msg_ok st m -> msg_ok st' m.
  Proof.
    intros E H. pose proof E as (K & O). destruct m; cbn in *; auto.
    - destruct ex; auto. destruct H as ((c' & H) & C). split; auto. exists c'. apply O. exact H.
    - destruct res; auto. destruct H. split; auto. eapply ext_holds; eauto.
    - destruct H as ((c' & H) & C & J). split; [exists c'; apply O; exact H|]. split; auto. eapply Justified_mono; eauto.
    - destruct cs; auto. eapply Forall_impl; [|exact H]. intros a. apply ent_ok_mono. exact E.
    - destruct res; auto. destruct H. split; [eapply stored_q_mono; eauto|eapply Justified_mono; eauto].
  Qed.

  Lemma task_ok_mono st st' c t : ext st st' -> task_ok st c t -> task_ok st' c t.
  Proof.
    intros E (H1 & H2 & H2' & H3 & H4 & H5 & H6 & H7). pose proof E as (K & O).
    split; auto. split; [apply O; exact H2|]. split; auto. split; auto. split.
    { intros r Hr. destruct (H4 r Hr). split; auto. eapply ext_holds; eauto. }
    split; auto. split; auto.
    destruct (ct_phase t); auto.
    - destruct H7. split; auto. eapply stored_q_mono; eauto.
    - destruct H7 as (A & B & C). split; auto. split; auto. eapply stored_q_mono; eauto.
  Qed.

  Lemma node_ok_mono st st' n : ext st st' -> g_nodes st' n = g_nodes st n -> node_ok st n -> node_ok st' n.
  Proof.
    intros E Hn (H1 & H2 & H3 & H4 & H5). unfold node_ok, lg. rewrite Hn. split; auto. split.
    { eapply Forall_impl; [|exact H2]. intros a. apply ent_ok_mono. exact E. }
    split.
    { intros rp Hrp. destruct (H3 rp Hrp). split; auto. intros w Hw. eapply bw_ok_mono; eauto. }
    split; auto. eapply Forall_impl; [|exact H4]. intros a. apply task_ok_mono. exact E.
  Qed.

  (* ---------------------------------------------------------------- one node acts, the ghost map is untouched *)
  Definition step_to (st : gstate) (n : node) (ns' : nstate) (outs : list msg) : gstate :=
    mk_gs (upd (g_nodes st) n ns') (g_net st ++ outs) (g_orig st).

  Lemma upd_same f n v : upd f n v n = v.
  Proof. unfold upd. rewrite N.eqb_refl. reflexivity. Qed.
  Lemma upd_other f n v m : m <> n -> upd f n v m = f m.
  Proof. unfold upd. intros H. destruct (m =? n) eqn:E; auto. apply N.eqb_eq in E. congruence. Qed.

  Section NodeStep.
    Variables (st : gstate) (n : node) (ns' : nstate) (outs : list msg).
    Variables (PA : ent -> Prop) (PS : N -> N -> Prop).
    Hypothesis HI : Inv st.
    Hypothesis Hlext : lext PA PS (lg st n) (ns_log ns').
    Hypothesis HPA : forall e, PA e -> ent_ok_w st n e.
    Hypothesis HPS : forall T c, PS T c -> q <= c /\ Justified st T.
    Let st' := step_to st n ns' outs.

    Lemma ns_ext : ext st st'.
    Proof.
      split; [|auto]. intros m. unfold lg, st', step_to. cbn [g_nodes]. destruct (N.eq_dec m n) as [->|Hm].
      - rewrite upd_same. eapply lext_keeps; [|exact Hlext]. intros T c H. apply HPS in H. tauto.
      - rewrite upd_other by exact Hm. apply keeps_refl.
    Qed.

    Lemma ent_ok_w_post e : In e (ns_log ns') -> ent_ok_w st n e -> ent_ok st' e.
    Proof.
      intros Hin (O & J). split; [eapply orig_part_mono; [apply ns_ext|exact O]|]. intros Hq.
      destruct (J Hq) as [Hj|(Hq1 & Hoff & Hn)]; [eapply Justified_mono; [apply ns_ext|exact Hj]|].
      unfold Justified, holders.
      assert (Hh : holds_whole (ns_log (g_nodes st' n)) (en_tx e) = true).
      { unfold st', step_to. cbn [g_nodes]. rewrite upd_same. apply holds_whole_spec. exists e. split; auto.
        unfold ent_is. rewrite N.eqb_refl, Hoff. reflexivity. }
      assert (In n (filter (fun m => holds_whole (ns_log (g_nodes st' m)) (en_tx e)) (c_reps cfg))).
      { apply filter_In. split; auto. }
      destruct (filter (fun m => holds_whole (ns_log (g_nodes st' m)) (en_tx e)) (c_reps cfg)); [destruct H|]. cbn [length]. lia.
    Qed.

    Lemma log_post_ok : Forall (ent_ok st') (ns_log ns').
    Proof.
      assert (G : Forall (ent_ok_w st n) (ns_log ns')).
      { eapply lext_forall; [exact HPA| |exact Hlext|].
        - intros e T c Hs (O & J) Hi. destruct (HPS T c Hs) as (Hc & Hj). split; [exact O|]. intros _. left.
          unfold ent_is in Hi. apply andb_true_iff in Hi. destruct Hi as (Ht & _). apply N.eqb_eq in Ht. cbn. rewrite Ht. exact Hj.
        - destruct HI as (HN & _). destruct (HN n) as (_ & F & _). eapply Forall_impl; [|exact F].
          intros a (O & J). split; auto. }
      rewrite Forall_forall in *. intros e He. apply ent_ok_w_post; auto.
    Qed.

    Hypothesis Hrp : forall rp, ns_rp ns' = Some rp -> In n reps /\ BufP (bw_ok st) rp.
    Hypothesis Htasks : Forall (task_ok st' n) (ns_tasks ns').
    Hypothesis Houts : forall m, In m outs -> msg_ok st' m.
    Hypothesis Hview : NoDup (map fst (ns_view ns')).

    Lemma node_step_inv : Inv st'.
    Proof.
      pose proof ns_ext as E. destruct HI as (HN & HM). split.
      - intros m. destruct (N.eq_dec m n) as [->|Hm].
        + unfold node_ok, lg, st', step_to. cbn [g_nodes]. rewrite upd_same. split.
          { destruct (HN n) as (C & _). eapply lext_chain; eauto. }
          split; [apply log_post_ok|]. split; [|split; [exact Htasks|exact Hview]].
          intros rp Hr. destruct (Hrp rp Hr). split; auto.
        + apply node_ok_mono with (st := st); auto. unfold st', step_to. cbn [g_nodes]. apply upd_other. exact Hm.
      - intros m Hm. unfold st', step_to in Hm. cbn [g_net] in Hm. apply in_app_or in Hm. destruct Hm as [Hm|Hm]; auto.
        eapply msg_ok_mono; eauto.
    Qed.
    Lemma node_step_ie : IE st st'.
    Proof. split; [apply node_step_inv|apply ns_ext]. Qed.
  End NodeStep.
End Global.
