(** C03, part C2: the hypothesis [Scannable] and what it gives for every segment of a store. *)
From Coq Require Import NArith List Bool Lia Arith.
From SV Require Import Model.StoreIter Proofs.ScanRecs Proofs.ScanSeg Proofs.ScanPos.
Import ListNotations.
Open Scope N_scope.

Definition pubrecs (s : store) : list rec := firstn (published s) (s_recs (live s)).

(* a segment file that is a concatenation of committed groups, with the index of exactly its events *)
Definition seg_wf (recs : list rec) (idx : list ientry) : Prop :=
  (exists gs, wf_recs recs gs) /\ idx = hydrate_from recs 0.

Record Scannable (s : store) (k : skey) : Prop := {
  (* S1 *) sc_sealed : Forall (fun g => seg_wf (s_recs g) (s_idx g)) (sealed s);
  (* S2 *) sc_bounds : (published s <= synced s)%nat;
           sc_live : seg_wf (pubrecs s) (s_idx (live s));
  (* S3 *) sc_gapless : map (key_pos k) (filter (matches k) (all_events (abs_visible s)))
                        = map N.of_nat (seq 0 (length (filter (matches k) (all_events (abs_visible s)))));
  (* S4 *) sc_closed : forall g e e', In g (abs_visible s) -> In e g -> In e' g ->
                        matches k e = true -> key_matches k e' = true -> matches k e' = true
}.

(* positions fit the on-disk u64 fields (needed only by reverse scans, for the special start
   position u64::MAX) *)
Definition U64ok (s : store) (k : skey) : Prop :=
  forall e, In e (all_events (abs_visible s)) -> matches k e = true -> key_pos k e <= U64MAX.

(* S4 in the form the writer gives it: a transaction belongs to one partition *)
Lemma same_pid_closed (l : alog) k :
  (forall g e e', In g l -> In e g -> In e' g -> e_pid e = e_pid e') ->
  forall g e e', In g l -> In e g -> In e' g ->
    matches k e = true -> key_matches k e' = true -> matches k e' = true.
Proof.
  intros H g e e' Hg He He' Hm Hk. destruct k as [sid|pid]; cbn in *; [assumption|].
  rewrite <- (H g e e' Hg He He'). assumption.
Qed.

Definition seg_layout (recs : list rec) : list lgrp := layout_of 0 (groups recs) (commit_counts recs).
Definition Ls (s : store) : list (list lgrp) :=
  map (fun g => seg_layout (s_recs g)) (sealed s) ++ [seg_layout (pubrecs s)].
Definition Lat (s : store) (i : nat) : list lgrp := nth i (Ls s) [].
Definition idx_at (s : store) (i : nat) : list ientry :=
  if Nat.eqb i (live_id s) then s_idx (live s)
  else match nth_error (sealed s) i with Some g => s_idx g | None => [] end.
Definition evs_of (L : list lgrp) : list event := map snd (lay_events L).
Definition gevs (g : lgrp) : list event := map snd (fst g).

Lemma concat_concat {A} (l : list (list (list A))) : concat (concat l) = concat (map (@concat A) l).
Proof. induction l as [|x l IH]; [reflexivity|]. cbn. rewrite concat_app, IH. reflexivity. Qed.

Lemma evs_of_seg_layout recs : evs_of (seg_layout recs) = concat (groups recs).
Proof. apply lay_events_snd. Qed.

Lemma groups_seg_layout recs : map gevs (seg_layout recs) = groups recs.
Proof. apply layout_groups. Qed.

Lemma Ls_length s : length (Ls s) = nsegs s.
Proof. unfold Ls, nsegs. rewrite app_length, map_length. cbn. lia. Qed.

Lemma abs_visible_Ls s : abs_visible s = concat (map (map gevs) (Ls s)).
Proof.
  unfold abs_visible, Ls. rewrite map_app, concat_app. cbn [map concat]. rewrite app_nil_r.
  fold (pubrecs s). rewrite groups_seg_layout. f_equal. rewrite map_map. f_equal.
  apply map_ext. intros g. symmetry. apply groups_seg_layout.
Qed.

Lemma all_events_Ls s : all_events (abs_visible s) = concat (map evs_of (Ls s)).
Proof.
  unfold all_events, abs_visible, Ls. rewrite map_app, !concat_app, concat_concat. cbn [map concat].
  rewrite app_nil_r. fold (pubrecs s). rewrite evs_of_seg_layout. f_equal. rewrite !map_map. f_equal.
  apply map_ext. intros g. symmetry. apply evs_of_seg_layout.
Qed.

Lemma Lat_sealed s i g : nth_error (sealed s) i = Some g -> Lat s i = seg_layout (s_recs g).
Proof.
  intros H. unfold Lat, Ls. assert (i < length (sealed s))%nat by (apply nth_error_Some; congruence).
  rewrite app_nth1 by (rewrite map_length; assumption).
  apply nth_error_nth with (d := []). rewrite nth_error_map, H. reflexivity.
Qed.

Lemma Lat_live s : Lat s (live_id s) = seg_layout (pubrecs s).
Proof.
  unfold Lat, Ls, live_id. rewrite app_nth2 by (rewrite map_length; lia).
  rewrite map_length, Nat.sub_diag. reflexivity.
Qed.

Lemma skipn_nth {A} (d : A) : forall i l, (i < length l)%nat -> skipn i l = nth i l d :: skipn (S i) l.
Proof.
  induction i as [|i IH]; intros [|x l] H; cbn in H; try lia; [reflexivity|].
  cbn [skipn nth]. apply IH. lia.
Qed.

Lemma Ls_split s i : (i <= live_id s)%nat ->
  Ls s = firstn i (Ls s) ++ Lat s i :: skipn (S i) (Ls s).
Proof.
  intros H. pose proof (Ls_length s). unfold nsegs, live_id in *.
  rewrite <- (firstn_skipn i (Ls s)) at 1. f_equal. apply skipn_nth. lia.
Qed.

(** positions before segment [i] *)
Definition cpos (s : store) (k : skey) (i : nat) : N :=
  N.of_nat (kcount k (fun e => e) (concat (map evs_of (firstn i (Ls s))))).

Section Facts.
Variables (s : store) (k : skey).
Hypothesis HS : Scannable s k.

Lemma seg_layout_ok recs extra : (exists gs, wf_recs recs gs) ->
  (forall g, In g (groups recs) -> In g (abs_visible s)) ->
  layout_ok k (recs ++ extra) 0 (seg_layout recs).
Proof.
  intros [gs Hwf] Hvis. unfold seg_layout. rewrite (wf_groups _ _ Hwf) in *. split.
  - apply Forall_forall. intros g Hg. repeat split.
    + intros j o e rest Hsk. apply (wf_read _ _ Hwf extra 0%nat [] eq_refl g Hg j o e rest Hsk).
    + destruct (in_layout_of _ _ _ _ Hg) as (b' & es & Hes & Hfst). unfold kclosed. rewrite Hfst.
      intros oe oe' H1 H2. unfold kmatch. apply (sc_closed _ _ HS es); auto.
      * apply in_map with (f := snd) in H1. rewrite loc_snd in H1. assumption.
      * apply in_map with (f := snd) in H2. rewrite loc_snd in H2. assumption.
    + exact (proj2 (wf_kind_single _ _ Hwf 0%nat g Hg)).
  - apply layout_incr.
Qed.

Lemma sealed_in_visible g : In g (sealed s) -> forall x, In x (groups (s_recs g)) -> In x (abs_visible s).
Proof.
  intros Hg x Hx. unfold abs_visible. apply in_or_app. left. apply in_concat.
  exists (groups (s_recs g)). split; [|assumption]. apply in_map_iff. exists g. auto.
Qed.

Lemma seg_recs_sealed i g : nth_error (sealed s) i = Some g -> seg_recs s i = s_recs g.
Proof.
  intros H. unfold seg_recs, live_id. assert (i < length (sealed s))%nat by (apply nth_error_Some; congruence).
  destruct (Nat.eqb_spec i (length (sealed s))); [lia|]. rewrite H. reflexivity.
Qed.

Lemma seg_recs_live : exists extra, seg_recs s (live_id s) = pubrecs s ++ extra.
Proof.
  unfold seg_recs. rewrite Nat.eqb_refl. exists (skipn (published s) (firstn (synced s) (s_recs (live s)))).
  unfold pubrecs. rewrite <- (firstn_skipn (published s) (firstn (synced s) (s_recs (live s)))) at 1.
  f_equal. rewrite firstn_firstn. rewrite Nat.min_l by apply (sc_bounds _ _ HS). reflexivity.
Qed.

Lemma seg_cases i : (i <= live_id s)%nat ->
  (i = live_id s /\ idx_at s i = s_idx (live s)) \/
  (exists g, (i < live_id s)%nat /\ nth_error (sealed s) i = Some g /\ In g (sealed s) /\ idx_at s i = s_idx g).
Proof.
  intros H. unfold idx_at. destruct (Nat.eqb_spec i (live_id s)) as [->|Hne]; [left; auto|right].
  unfold live_id in *. destruct (nth_error (sealed s) i) as [g|] eqn:Hg.
  - exists g. repeat split; auto; [lia|]. eapply nth_error_In; eauto.
  - apply nth_error_None in Hg. lia.
Qed.

(* (a) reading in segment i *)
Lemma seg_layout_fact i : (i <= live_id s)%nat -> layout_ok k (seg_recs s i) 0 (Lat s i).
Proof.
  intros H. destruct (seg_cases i H) as [[-> _]|(g & Hlt & Hnth & Hin & _)].
  - rewrite Lat_live. destruct seg_recs_live as [extra ->]. apply seg_layout_ok.
    + apply (sc_live _ _ HS).
    + intros x Hx. unfold abs_visible. apply in_or_app. right. exact Hx.
  - rewrite (Lat_sealed _ _ _ Hnth), (seg_recs_sealed _ _ Hnth).
    rewrite <- (app_nil_r (s_recs g)) at 1. apply seg_layout_ok.
    + pose proof (sc_sealed _ _ HS) as HF. eapply Forall_forall in HF; [|exact Hin]. apply HF.
    + apply sealed_in_visible. assumption.
Qed.

(* (b) the index of segment i *)
Lemma seg_idx_fact i : (i <= live_id s)%nat -> idx_at s i = map entry_of (lay_events (Lat s i)).
Proof.
  intros H. destruct (seg_cases i H) as [[-> ->]|(g & Hlt & Hnth & Hin & ->)].
  - rewrite Lat_live. destruct (sc_live _ _ HS) as [[gs Hwf] ->]. unfold seg_layout.
    rewrite (wf_groups _ _ Hwf). apply wf_hydrate. assumption.
  - rewrite (Lat_sealed _ _ _ Hnth). pose proof (sc_sealed _ _ HS) as HF.
    eapply Forall_forall in HF; [|exact Hin]. destruct HF as [[gs Hwf] ->]. unfold seg_layout.
    rewrite (wf_groups _ _ Hwf). apply wf_hydrate. assumption.
Qed.

(* (c) positions in segment i *)
Lemma all_posincr : posincr k (fun e => e) 0 (concat (map evs_of (Ls s))).
Proof.
  rewrite <- all_events_Ls. change 0 with (N.of_nat 0). eapply seq_posincr. apply (sc_gapless _ _ HS).
Qed.

Lemma seg_pos_fact i : (i <= live_id s)%nat -> posincr k snd (cpos s k i) (lay_events (Lat s i)).
Proof.
  intros H. pose proof all_posincr as Hp. rewrite (Ls_split s i H) in Hp.
  rewrite map_app, concat_app in Hp. cbn [map concat] in Hp.
  apply posincr_app in Hp. destruct Hp as [_ Hp]. apply posincr_app in Hp. destruct Hp as [Hp _].
  rewrite N.add_0_l in Hp. apply posincr_map. exact Hp.
Qed.

Definition cnt (i : nat) : nat := kcount k snd (lay_events (Lat s i)).

Lemma kcount_map {A} (ev : A -> event) l : kcount k (fun e => e) (map ev l) = kcount k ev l.
Proof.
  unfold kcount. induction l as [|x l IH]; [reflexivity|]. cbn. unfold mt in *.
  destruct (matches k (ev x)); cbn; rewrite IH; reflexivity.
Qed.

Lemma cpos_S i : (i <= live_id s)%nat -> cpos s k (S i) = cpos s k i + N.of_nat (cnt i).
Proof.
  intros H. unfold cpos, cnt. rewrite (Ls_split s i H) at 1.
  assert (Hl : length (firstn i (Ls s)) = i).
  { rewrite firstn_length, Ls_length. unfold nsegs, live_id in *. lia. }
  replace (S i) with (length (firstn i (Ls s)) + 1)%nat by lia.
  rewrite firstn_app_2. cbn [firstn]. rewrite map_app, concat_app, kcount_app. cbn [map concat].
  rewrite app_nil_r. unfold evs_of at 2. rewrite kcount_map. lia.
Qed.

Lemma cpos_0 : cpos s k 0 = 0.
Proof. reflexivity. Qed.

Lemma cpos_mono i j : (i <= j)%nat -> (j <= S (live_id s))%nat -> cpos s k i <= cpos s k j.
Proof.
  induction 1 as [|j Hij IH]; intros Hj; [lia|]. rewrite cpos_S by lia. specialize (IH ltac:(lia)). lia.
Qed.

(* (f) positions fit in u64 *)
Lemma seg_u64_fact i oe : U64ok s k -> (i <= live_id s)%nat -> In oe (lay_events (Lat s i)) -> kmatch k oe = true ->
  key_pos k (snd oe) <= U64MAX.
Proof.
  intros HU H Hin Hm. apply HU; [|exact Hm]. rewrite all_events_Ls. apply in_concat.
  exists (evs_of (Lat s i)). split.
  - apply in_map. rewrite (Ls_split s i H). apply in_or_app. right. left. reflexivity.
  - unfold evs_of. apply in_map. assumption.
Qed.
End Facts.
