(** Proofs about the bit-serial CRC-32 model: linearity, the ≤32-bit burst theorem (for every
    message, every length, every initial register), and the byte-level ↔ bit-level connection. *)
From Coq Require Import NArith List Lia Bool.
From SV Require Import Model.Crc32.
Import ListNotations.
Open Scope N_scope.

Lemma lt_pow2_bits x n : x < 2^n -> forall m, n <= m -> N.testbit x m = false.
Proof.
  intros H m Hm. destruct (N.eq_dec x 0) as [->|Hx]; [apply N.bits_0|].
  apply N.bits_above_log2. apply N.log2_lt_pow2 in H; lia.
Qed.

Lemma bits_lt_pow2 x n : (forall m, n <= m -> N.testbit x m = false) -> x < 2^n.
Proof.
  intros H. destruct (N.eq_dec x 0) as [->|Hx]. { apply N.neq_0_lt_0, N.pow_nonzero; lia. }
  apply N.log2_lt_pow2; [lia|].
  destruct (N.lt_ge_cases (N.log2 x) n) as [|Hge]; [assumption|].
  specialize (H _ Hge). rewrite N.bit_log2 in H by assumption. discriminate.
Qed.

Lemma lxor_lt_pow2 a b n : a < 2^n -> b < 2^n -> N.lxor a b < 2^n.
Proof.
  intros Ha Hb. apply bits_lt_pow2. intros m Hm.
  rewrite N.lxor_spec, (lt_pow2_bits a n Ha m Hm), (lt_pow2_bits b n Hb m Hm). reflexivity.
Qed.

Lemma crc_poly_bit31 : N.testbit crc_poly 31 = true. Proof. reflexivity. Qed.
Lemma crc_poly_lt : crc_poly < 2^32. Proof. reflexivity. Qed.

Lemma crc_step_bound x : x < 2^32 -> crc_step x < 2^32.
Proof.
  intros H. apply bits_lt_pow2. intros m Hm. unfold crc_step.
  rewrite N.lxor_spec, N.shiftr_spec by lia.
  rewrite (lt_pow2_bits x 32 H (m+1)) by lia.
  destruct (N.testbit x 0); [rewrite (lt_pow2_bits crc_poly 32 crc_poly_lt m Hm)|rewrite N.bits_0]; reflexivity.
Qed.

Lemma testbit_ge x n : N.testbit x n = true -> 2^n <= x.
Proof.
  intros H. destruct (N.lt_ge_cases x (2^n)) as [Hlt|]; [|assumption].
  rewrite (lt_pow2_bits x n Hlt n) in H by lia. discriminate.
Qed.

(* the backward lemma: a small register after a step forces a small, even register before it *)
Lemma crc_step_back x j : x < 2^32 -> j <= 31 -> crc_step x < 2^j -> x < 2^(j+1) /\ N.testbit x 0 = false.
Proof.
  intros Hx Hj Hs. unfold crc_step in Hs. destruct (N.testbit x 0) eqn:Hb.
  - exfalso. assert (Hbit : N.testbit (N.lxor (N.shiftr x 1) crc_poly) 31 = true).
    { rewrite N.lxor_spec, N.shiftr_spec by lia. rewrite (lt_pow2_bits x 32 Hx (31+1)) by lia.
      rewrite crc_poly_bit31. reflexivity. }
    apply testbit_ge in Hbit. assert (2^j <= 2^31) by (apply N.pow_le_mono_r; lia). lia.
  - split; [|reflexivity]. rewrite N.lxor_0_r, N.shiftr_div_pow2 in Hs. change (2^1) with 2 in Hs.
    rewrite N.pow_add_r. change (2^1) with 2.
    pose proof (N.div_mod x 2 ltac:(lia)). pose proof (N.mod_lt x 2 ltac:(lia)). lia.
Qed.

Lemma crc_step_zero_inv x : x < 2^32 -> crc_step x = 0 -> x = 0.
Proof.
  intros Hx H0. destruct (crc_step_back x 0 Hx ltac:(lia)) as [Hlt Hb]. { rewrite H0. reflexivity. }
  change (2^(0+1)) with 2 in Hlt. assert (x = 0 \/ x = 1) as [->| ->] by lia; [reflexivity|discriminate].
Qed.

Lemma lxor_bit0_bound s b k : 1 <= k -> s < 2^k -> N.lxor s (if b:bool then 1 else 0) < 2^k.
Proof.
  intros Hk Hs. apply bits_lt_pow2. intros m Hm. rewrite N.lxor_spec, (lt_pow2_bits s k Hs m Hm).
  destruct b; [|rewrite N.bits_0; reflexivity].
  rewrite N.bits_above_log2; [reflexivity|]. change (N.log2 1) with 0. lia.
Qed.

Lemma lxor_bit0_back s b k : 1 <= k -> N.lxor s (if b:bool then 1 else 0) < 2^k -> s < 2^k.
Proof.
  intros Hk H. replace s with (N.lxor (N.lxor s (if b then 1 else 0)) (if b then 1 else 0)).
  - apply lxor_bit0_bound; assumption.
  - rewrite N.lxor_assoc, N.lxor_nilpotent, N.lxor_0_r. reflexivity.
Qed.

Lemma crc_feed_bound s b : s < 2^32 -> crc_feed s b < 2^32.
Proof. intros. apply crc_step_bound, lxor_bit0_bound; [lia|assumption]. Qed.

Lemma crc_run_bound : forall bs d, d < 2^32 -> crc_run d bs < 2^32.
Proof. induction bs; intros; cbn; [assumption|]. apply IHbs, crc_feed_bound; assumption. Qed.

Lemma crc_run_app s a b : crc_run s (a ++ b) = crc_run (crc_run s a) b.
Proof. unfold crc_run. apply fold_left_app. Qed.

Lemma crc_run_cons s a b : crc_run s (a :: b) = crc_run (crc_feed s a) b.
Proof. reflexivity. Qed.

(* after feeding bits bs from a state d < 2^32, if the result is < 2^j then d < 2^(j + length bs) *)
Lemma crc_run_back : forall bs d j, d < 2^32 -> j + N.of_nat (length bs) <= 32 ->
  crc_run d bs < 2^j -> d < 2^(j + N.of_nat (length bs)).
Proof.
  induction bs as [|b bs IH]; intros d j Hd Hlen Hr.
  - cbn [length]. rewrite N.add_0_r. exact Hr.
  - rewrite crc_run_cons in Hr. cbn [length] in *. rewrite Nat2N.inj_succ in *.
    assert (Hf : crc_feed d b < 2^(j + N.of_nat (length bs))).
    { apply IH; [apply crc_feed_bound; assumption| lia | exact Hr]. }
    unfold crc_feed in Hf.
    destruct (crc_step_back (N.lxor d (if b then 1 else 0)) (j + N.of_nat (length bs))) as [Hx _];
      [apply lxor_bit0_bound; [lia|assumption] | lia | exact Hf |].
    apply lxor_bit0_back in Hx; [|lia].
    replace (j + N.succ (N.of_nat (length bs))) with (j + N.of_nat (length bs) + 1) by lia. exact Hx.
Qed.

(* a burst: first error bit set, at most 31 further bits: the difference register is non-zero *)
Theorem crc_burst_nonzero : forall rest, (length rest <= 31)%nat -> crc_run 0 (true :: rest) <> 0.
Proof.
  intros rest Hlen H0. rewrite crc_run_cons in H0.
  assert (Hb : crc_feed 0 true < 2^(0 + N.of_nat (length rest))).
  { apply crc_run_back; [apply crc_feed_bound; reflexivity | lia | rewrite H0; reflexivity]. }
  assert (Hp : crc_feed 0 true = crc_poly) by reflexivity. rewrite Hp in Hb.
  assert (2^(0 + N.of_nat (length rest)) <= 2^31) by (apply N.pow_le_mono_r; lia).
  assert (2^31 <= crc_poly) by (apply testbit_ge, crc_poly_bit31). lia.
Qed.

(* trailing zero bits keep a non-zero register non-zero *)
Theorem crc_zeros_keep_nonzero : forall n d, d < 2^32 -> d <> 0 -> crc_run d (repeat false n) <> 0.
Proof.
  induction n as [|n IH]; intros d Hd Hnz; cbn [repeat]; [exact Hnz|].
  rewrite crc_run_cons. apply IH; [apply crc_feed_bound; assumption|].
  unfold crc_feed. rewrite N.lxor_0_r. intro H0. apply Hnz, crc_step_zero_inv; assumption.
Qed.

Lemma crc_run_zeros0 : forall n, crc_run 0 (repeat false n) = 0.
Proof. induction n; cbn; [reflexivity|assumption]. Qed.

(* ---- linearity: the register difference evolves by the error bits alone ---- *)
Lemma crc_step_lin a b : crc_step (N.lxor a b) = N.lxor (crc_step a) (crc_step b).
Proof.
  unfold crc_step. apply N.bits_inj. intro n.
  rewrite !N.lxor_spec, !N.shiftr_spec, !N.lxor_spec by lia.
  destruct (N.testbit a 0), (N.testbit b 0); cbn [xorb];
    rewrite ?N.bits_0, ?xorb_false_r, ?xorb_false_l;
    destruct (N.testbit a (n+1)), (N.testbit b (n+1)), (N.testbit crc_poly n); reflexivity.
Qed.

Definition bitN (b : bool) : N := if b then 1 else 0.
Lemma bitN_xorb b e : bitN (xorb b e) = N.lxor (bitN b) (bitN e).
Proof. destruct b, e; reflexivity. Qed.

Lemma crc_feed_lin s d b e : crc_feed (N.lxor s d) (xorb b e) = N.lxor (crc_feed s b) (crc_feed d e).
Proof.
  unfold crc_feed. fold (bitN (xorb b e)) (bitN b) (bitN e). rewrite bitN_xorb, <- crc_step_lin. f_equal.
  rewrite !N.lxor_assoc. f_equal. rewrite <- !N.lxor_assoc. f_equal. apply N.lxor_comm.
Qed.

Theorem crc_run_lin : forall bs es s d, length bs = length es ->
  crc_run (N.lxor s d) (xor_bits bs es) = N.lxor (crc_run s bs) (crc_run d es).
Proof.
  induction bs as [|b bs IH]; intros [|e es] s d Hl; try discriminate; cbn [xor_bits].
  - reflexivity.
  - rewrite !crc_run_cons, crc_feed_lin. apply IH. injection Hl; auto.
Qed.

Lemma lxor_cancel_l a b : N.lxor a b = a -> b = 0.
Proof.
  intros H. apply (f_equal (N.lxor a)) in H.
  rewrite <- N.lxor_assoc, N.lxor_nilpotent, N.lxor_0_l in H. exact H.
Qed.

(* corrupted message = message xor (zeros ++ burst ++ zeros): registers differ, whatever the start register *)
Theorem crc_burst_detected_bits : forall s m e,
  s < 2^32 -> length m = length e -> burst32_bits e ->
  crc_run s (xor_bits m e) <> crc_run s m.
Proof.
  intros s m e Hs Hl (pre & rest & post & -> & Hr) Heq.
  assert (H := crc_run_lin m _ s 0 Hl).
  rewrite N.lxor_0_r in H. rewrite H in Heq. apply lxor_cancel_l in Heq.
  rewrite !crc_run_app, crc_run_zeros0 in Heq.
  revert Heq. apply crc_zeros_keep_nonzero; [|apply crc_burst_nonzero; assumption].
  apply crc_run_bound. reflexivity.
Qed.

(* ---- bytes <-> bits ---- *)
Lemma crc_step_shift c : N.testbit c 0 = false -> crc_step c = N.shiftr c 1.
Proof. intros H. unfold crc_step. rewrite H, N.lxor_0_r. reflexivity. Qed.

Lemma byte_split b : b = N.lxor (bitN (N.testbit b 0)) (N.shiftl (N.shiftr b 1) 1).
Proof.
  apply N.bits_inj. intro n. rewrite N.lxor_spec.
  destruct (N.eq_dec n 0) as [->|Hn].
  - rewrite N.shiftl_spec_low by lia. destruct (N.testbit b 0); reflexivity.
  - rewrite N.shiftl_spec_high' by lia. rewrite N.shiftr_spec'. replace (n - 1 + 1) with n by lia.
    replace (N.testbit (bitN (N.testbit b 0)) n) with false; [rewrite xorb_false_l; reflexivity|].
    destruct (N.testbit b 0); cbn [bitN]; [|rewrite N.bits_0; reflexivity].
    symmetry. apply N.bits_above_log2. change (N.log2 1) with 0. lia.
Qed.

Lemma crc_steps_bits : forall k s b, b < 2^(N.of_nat k) ->
  crc_steps k (N.lxor s b) = crc_run s (bits_of k b).
Proof.
  induction k as [|k IH]; intros s b Hb.
  - cbn in Hb. assert (b = 0) by lia. subst. cbn. apply N.lxor_0_r.
  - cbn [crc_steps bits_of]. rewrite crc_run_cons.
    assert (E : N.lxor s b = N.lxor (N.lxor s (bitN (N.testbit b 0))) (N.shiftl (N.shiftr b 1) 1))
      by (rewrite N.lxor_assoc, <- byte_split; reflexivity).
    rewrite E. rewrite crc_step_lin. unfold bitN. fold (crc_feed s (N.testbit b 0)).
    rewrite (crc_step_shift (N.shiftl _ 1)) by (apply N.shiftl_spec_low; lia).
    rewrite N.shiftr_shiftl_l by lia. rewrite N.sub_diag, N.shiftl_0_r.
    apply IH. rewrite Nat2N.inj_succ in Hb. rewrite N.shiftr_div_pow2. change (2^1) with 2.
    rewrite N.pow_succ_r' in Hb. apply N.div_lt_upper_bound; lia.
Qed.

Lemma crc_byte_bits s b : is_byte b -> crc_byte s b = crc_run s (byte_bits b).
Proof. intros H. apply (crc_steps_bits 8). exact H. Qed.

Lemma crc_update_bits : forall bs s, all_bytes bs -> crc_update s bs = crc_run s (bytes_bits bs).
Proof.
  induction bs as [|b bs IH]; intros s H; [reflexivity|].
  inversion H; subst. cbn [crc_update fold_left bytes_bits flat_map].
  rewrite crc_run_app, <- crc_byte_bits by assumption. apply IH. assumption.
Qed.

Lemma crc_update_app s a b : crc_update s (a ++ b) = crc_update (crc_update s a) b.
Proof. apply fold_left_app. Qed.

Lemma crc_steps_bound : forall k x, x < 2^32 -> crc_steps k x < 2^32.
Proof. induction k; intros; cbn; [assumption|]. apply IHk, crc_step_bound; assumption. Qed.

Lemma crc_update_bound : forall bs s, all_bytes bs -> s < 2^32 -> crc_update s bs < 2^32.
Proof.
  induction bs as [|b bs IH]; intros s H Hs; [assumption|]. inversion H; subst.
  cbn [crc_update fold_left]. apply IH; [assumption|]. unfold crc_byte. apply crc_steps_bound, lxor_lt_pow2; [assumption|].
  unfold is_byte in *. assert (2^8 <= 2^32) by (apply N.pow_le_mono_r; lia). change (2^8) with 256 in *. lia.
Qed.

Lemma crc32_bound bs : all_bytes bs -> crc32 bs < 2^32.
Proof. intros. apply lxor_lt_pow2; [apply crc_update_bound; [assumption|reflexivity]|reflexivity]. Qed.

Lemma bits_of_length k b : length (bits_of k b) = k.
Proof. revert b; induction k; intros; cbn; [reflexivity|]. rewrite IHk. reflexivity. Qed.

Lemma bits_of_xor : forall k a b, bits_of k (N.lxor a b) = xor_bits (bits_of k a) (bits_of k b).
Proof.
  induction k as [|k IH]; intros; cbn [bits_of xor_bits]; [reflexivity|].
  rewrite N.lxor_spec, N.shiftr_lxor, IH. reflexivity.
Qed.

Lemma xor_bits_app : forall a a' b b', length a = length a' ->
  xor_bits (a ++ b) (a' ++ b') = xor_bits a a' ++ xor_bits b b'.
Proof.
  induction a as [|x a IH]; intros [|y a'] b b' H; try discriminate; [reflexivity|].
  cbn. rewrite IH by (injection H; auto). reflexivity.
Qed.

Lemma bytes_bits_xor : forall m e, bytes_bits (xor_bytes m e) = xor_bits (bytes_bits m) (bytes_bits e).
Proof.
  induction m as [|a m IH]; intros [|b e]; cbn [xor_bytes bytes_bits flat_map xor_bits]; try reflexivity.
  rewrite xor_bits_app by (unfold byte_bits; rewrite !bits_of_length; reflexivity).
  unfold byte_bits at 1. rewrite bits_of_xor. f_equal. apply IH.
Qed.

Lemma bytes_bits_length l : length (bytes_bits l) = (8 * length l)%nat.
Proof.
  induction l as [|a l IH]; [reflexivity|]. cbn [bytes_bits flat_map length].
  rewrite app_length. fold (bytes_bits l). rewrite IH. unfold byte_bits. rewrite bits_of_length. lia.
Qed.

Lemma xor_bytes_all_bytes : forall m e, all_bytes m -> all_bytes e -> all_bytes (xor_bytes m e).
Proof.
  induction m as [|a m IH]; intros [|b e] Hm He; cbn; try constructor.
  - inversion Hm; inversion He; subst. unfold is_byte in *. change 256 with (2^8). apply lxor_lt_pow2; assumption.
  - inversion Hm; inversion He; subst. apply IH; assumption.
Qed.

Lemma xor_bytes_length : forall m e, length m = length e -> length (xor_bytes m e) = length m.
Proof. induction m; intros [|] H; try discriminate; cbn; [reflexivity|]. rewrite IHm; auto. Qed.

(** The burst theorem at the byte level, for every start register (so also for a message that is
    embedded between an unchanged prefix and suffix), every message and every length. *)
Theorem crc_update_burst : forall s m e, s < 2^32 -> all_bytes m -> all_bytes e ->
  length m = length e -> burst32 e -> crc_update s (xor_bytes m e) <> crc_update s m.
Proof.
  intros s m e Hs Hm He Hl Hb.
  rewrite !crc_update_bits by (try apply xor_bytes_all_bytes; assumption).
  rewrite bytes_bits_xor. apply crc_burst_detected_bits; [assumption| |exact Hb].
  rewrite !bytes_bits_length, Hl. reflexivity.
Qed.

Lemma lxor_inj_r a b c : N.lxor a c = N.lxor b c -> a = b.
Proof.
  intros H. apply (f_equal (fun x => N.lxor x c)) in H.
  rewrite !N.lxor_assoc, N.lxor_nilpotent, !N.lxor_0_r in H. exact H.
Qed.

Theorem crc32_burst : forall m e, all_bytes m -> all_bytes e -> length m = length e -> burst32 e ->
  crc32 (xor_bytes m e) <> crc32 m.
Proof.
  intros m e Hm He Hl Hb H. unfold crc32 in H. apply lxor_inj_r in H.
  revert H. apply crc_update_burst; try assumption. reflexivity.
Qed.

Lemma calculate_crc_eq l h d : calculate_crc l h d = crc32 (l ++ h ++ d).
Proof. unfold calculate_crc, crc32. rewrite !crc_update_app. reflexivity. Qed.

(* single-bit errors are bursts *)
Lemma burst32_single_bit : forall e, (exists pre post, bytes_bits e = repeat false pre ++ true :: repeat false post) -> burst32 e.
Proof.
  intros e (pre & post & H). exists pre, [], post. split; [exact H|cbn; lia].
Qed.

(* test vector: CRC-32("123456789") = 0xCBF43926 *)
Example crc32_check : crc32 [49;50;51;52;53;54;55;56;57] = 0xCBF43926.
Proof. vm_compute. reflexivity. Qed.
