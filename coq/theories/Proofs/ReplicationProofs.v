(** C10/C11 proofs, final part: the invariant holds in every reachable state; agreement, quorum evidence,
    acknowledgement theorems, the watermark consequences and the witnesses. *)
From Coq Require Import NArith List Bool Lia.
From SV Require Import Model.Replication.
From SV Require Import Proofs.ReplLog Proofs.ReplExt Proofs.ReplInv Proofs.ReplSteps.
Import ListNotations.
Open Scope N_scope.

Section Main.
  Variable cfg : config.
  Hypothesis cfg_fixed : c_cufix cfg = true.
  Let q := c_q cfg.

  Lemma step_ie st a : Inv cfg st -> IE cfg st (g_step cfg st a).
  Proof.
    intros HI. destruct a.
    - apply step_view; auto.
    - apply step_client; auto.
    - cbn [g_step]. destruct (nth_error (g_net st) i) as [m|] eqn:E; [|split; [auto|apply ext_refl]].
      apply nth_error_In in E. destruct m.
      + apply deliver_rep; auto.
      + apply deliver_repans; auto.
      + apply deliver_conf; auto.
      + apply deliver_syncreq; auto.
      + apply deliver_syncresp; auto.
      + cbn [deliver]. split; [auto|apply ext_refl].
    - apply step_finish1; auto.
    - apply step_finish2; auto.
    - apply step_timeout; auto.
    - apply step_tick; auto.
    - apply step_expire; auto.
    - apply step_wm; auto.
    - apply step_crash; auto.
  Qed.

  Lemma init_inv : Inv cfg (g_init cfg).
  Proof.
    split; [|intros m []]. intros n. unfold node_ok, lg, g_init. cbn.
    split; auto. split; [constructor|]. split; [|split; [constructor|constructor; [intros []|constructor]]].
    destruct (memb n (c_reps cfg)) eqn:M; intros rp H; inversion H; subst. split; [apply memb_in; exact M|intros w []].
  Qed.

  Lemma run_from_inv : forall acts st, Inv cfg st -> IE cfg st (fold_left (g_step cfg) acts st).
  Proof.
    induction acts as [|a t IH]; intros st HI; cbn [fold_left]; [split; [auto|apply ext_refl]|].
    destruct (step_ie st a HI) as (H1 & E1). destruct (IH _ H1) as (H2 & E2). split; auto. eapply ext_trans; eauto.
  Qed.

  Lemma run_inv acts : Inv cfg (g_run cfg acts).
  Proof. unfold g_run. apply run_from_inv. apply init_inv. Qed.

  Lemma run_app acts acts' : g_run cfg (acts ++ acts') = fold_left (g_step cfg) acts' (g_run cfg acts).
  Proof. unfold g_run. apply fold_left_app. Qed.

  Lemma run_ext acts acts' : ext cfg (g_run cfg acts) (g_run cfg (acts ++ acts')).
  Proof. rewrite run_app. apply run_from_inv. apply run_inv. Qed.

  (* ---------------------------------------------------------------- C10 *)
  (* (i) a log only grows: every entry stays at its place, and a quorum count is never lost *)
  Lemma stable acts acts' n e : In e (lg (g_run cfg acts) n) ->
    exists e', In e' (lg (g_run cfg (acts ++ acts')) n) /\ ent_same e e' /\ (q <= en_cnt e -> q <= en_cnt e').
  Proof. intros H. destruct (run_ext acts acts') as (K & _). exact (K n e H). Qed.

  Lemma log_chain acts n : chain (lg (g_run cfg acts) n).
  Proof. destruct (run_inv acts) as (HN & _). destruct (HN n) as (C & _). exact C. Qed.

  (* (ii) a quorum count is only ever written for a transaction that a quorum of the replicas stores whole *)
  Lemma quorum_evidence acts n e : In e (lg (g_run cfg acts) n) -> q <= en_cnt e ->
    q <= N.of_nat (length (holders cfg (g_run cfg acts) (en_tx e))).
  Proof.
    intros H Hq. destruct (run_inv acts) as (HN & _). destruct (HN n) as (_ & F & _). rewrite Forall_forall in F.
    destruct (F e H) as (_ & J). exact (J Hq).
  Qed.

  (* where a holder stores it: at the sequence the coordinator assigned *)
  Lemma entry_origin acts n e : In e (lg (g_run cfg acts) n) ->
    exists c s k, orig_of (g_orig (g_run cfg acts)) (en_tx e) = Some (c, s, k) /\ en_first e = s + en_off e /\ en_off e + en_nev e = k.
  Proof.
    intros H. destruct (run_inv acts) as (HN & _). destruct (HN n) as (_ & F & _). rewrite Forall_forall in F.
    destruct (F e H) as (O & _). exact O.
  Qed.

  Hypothesis reps_le_rf : N.of_nat (length (c_reps cfg)) <= c_rf cfg.

  Lemma two_quorums_meet (f g : node -> bool) :
    q <= N.of_nat (length (filter f (c_reps cfg))) -> q <= N.of_nat (length (filter g (c_reps cfg))) ->
    exists m, In m (c_reps cfg) /\ f m = true /\ g m = true.
  Proof.
    intros Hf Hg. pose proof (filter_both_length f g (c_reps cfg)) as Hb.
    assert (Hq : c_rf cfg < 2 * q).
    { unfold q, c_q, quorum. pose proof (N.div_mod (c_rf cfg) 2 ltac:(lia)). pose proof (N.mod_lt (c_rf cfg) 2 ltac:(lia)). lia. }
    destruct (filter (fun x => f x && g x) (c_reps cfg)) as [|m r] eqn:Fb.
    - cbn [length] in Hb. lia.
    - assert (Hin : In m (filter (fun x => f x && g x) (c_reps cfg))) by (rewrite Fb; left; auto).
      apply filter_In in Hin. destruct Hin as (Hm & Hfg). apply andb_true_iff in Hfg. exists m. tauto.
  Qed.

  Theorem agreement acts n1 n2 e1 e2 x :
    let st := g_run cfg acts in
    In e1 (lg st n1) -> In e2 (lg st n2) -> q <= en_cnt e1 -> q <= en_cnt e2 ->
    covers e1 x = true -> covers e2 x = true ->
    en_tx e1 = en_tx e2 /\ en_off e1 + (x - en_first e1) = en_off e2 + (x - en_first e2).
  Proof.
    intros st H1 H2 Q1 Q2 C1 C2.
    pose proof (quorum_evidence acts n1 e1 H1 Q1) as J1. pose proof (quorum_evidence acts n2 e2 H2 Q2) as J2.
    unfold holders in J1, J2.
    destruct (two_quorums_meet _ _ J1 J2) as (m & Hm & M1 & M2).
    apply holds_whole_spec in M1. apply holds_whole_spec in M2.
    destruct M1 as (a1 & A1 & I1). destruct M2 as (a2 & A2 & I2).
    unfold ent_is in I1, I2. apply andb_true_iff in I1, I2. destruct I1 as (T1 & O1), I2 as (T2 & O2).
    apply N.eqb_eq in T1, T2, O1, O2.
    destruct (entry_origin acts n1 e1 H1) as (c1 & s1 & k1 & Or1 & F1 & K1).
    destruct (entry_origin acts n2 e2 H2) as (c2 & s2 & k2 & Or2 & F2 & K2).
    destruct (entry_origin acts m a1 A1) as (c1' & s1' & k1' & Or1' & F1' & K1').
    destruct (entry_origin acts m a2 A2) as (c2' & s2' & k2' & Or2' & F2' & K2').
    rewrite T1, Or1 in Or1'. inversion Or1'; subst c1' s1' k1'. rewrite T2, Or2 in Or2'. inversion Or2'; subst c2' s2' k2'.
    apply covers_spec in C1. apply covers_spec in C2.
    assert (Ca1 : covers a1 x = true) by (apply covers_spec; lia).
    assert (Ca2 : covers a2 x = true) by (apply covers_spec; lia).
    pose proof (chain_cover_unique _ a1 a2 x (log_chain acts m) A1 A2 Ca1 Ca2) as Eq. subst a2.
    split; [congruence|]. assert (s1 = s2) by lia. lia.
  Qed.

  (* ---------------------------------------------------------------- C11 *)
  Theorem ack_quorum acts c T s :
    let st := g_run cfg acts in
    acked st c T s ->
    (exists e, In e (lg st c) /\ en_tx e = T /\ en_off e = 0 /\ en_first e = s /\ q <= en_cnt e) /\
    q <= N.of_nat (length (holders cfg st T)) /\
    (forall m, In m (holders cfg st T) ->
       In m (c_reps cfg) /\ exists e, In e (lg st m) /\ en_tx e = T /\ en_off e = 0 /\ en_first e = s).
  Proof.
    intros st Ha. destruct (run_inv acts) as (HN & HM). pose proof (HM _ Ha) as Hok. cbn in Hok.
    destruct Hok as ((e & He & Hi & Hf & Hq) & J).
    unfold ent_is in Hi. apply andb_true_iff in Hi. destruct Hi as (Ht & Ho). apply N.eqb_eq in Ht, Ho.
    split; [exists e; auto|]. split; [exact J|].
    intros m Hm. unfold holders in Hm. apply filter_In in Hm. destruct Hm as (Hr & Hh). split; auto.
    apply holds_whole_spec in Hh. destruct Hh as (a & Ha' & Hia).
    unfold ent_is in Hia. apply andb_true_iff in Hia. destruct Hia as (Hta & Hoa). apply N.eqb_eq in Hta, Hoa.
    exists a. repeat split; auto.
    destruct (entry_origin acts c e He) as (c1 & s1 & k1 & Or1 & F1 & _).
    destruct (entry_origin acts m a Ha') as (c2 & s2 & k2 & Or2 & F2 & _).
    rewrite Ht in Or1. rewrite Hta, Or1 in Or2. inversion Or2; subst. lia.
  Qed.
End Main.

(* ------------------------------------------------------------------ sent messages stay sent *)
Lemma net_mono cfg st a m : In m (g_net st) -> In m (g_net (g_step cfg st a)).
Proof.
  intros H. destruct a; cbn [g_step].
  - destruct (view_ok cfg n v); auto.
  - destruct (orig_of (g_orig st) T); auto. destruct (n_client cfg c orc (g_nodes st c) T k). cbn. apply in_or_app; auto.
  - destruct (nth_error (g_net st) i) as [m0|]; auto. destruct m0; cbn [deliver].
    + destruct (n_replicate r orc (g_nodes st r) c alive rid T ex k cnt). cbn. apply in_or_app; auto.
    + destruct (n_rep_reply cfg c (g_nodes st c) r T res). cbn. apply in_or_app; auto.
    + destruct (n_confirm (g_nodes st r) T s k cnt idsok dbok). cbn. auto.
    + cbn. apply in_or_app; auto.
    + destruct (n_sync_resp cfg r orc (g_nodes st r) cs). cbn. apply in_or_app; auto.
    + auto.
  - destruct (n_finish1 cfg c (g_nodes st c) T dbok). cbn. apply in_or_app; auto.
  - destruct (n_finish2 cfg c (g_nodes st c) T). cbn. apply in_or_app; auto.
  - destruct (n_timeout c (g_nodes st c) T). cbn. apply in_or_app; auto.
  - destruct (n_tick r (g_nodes st r)). cbn. apply in_or_app; auto.
  - auto.
  - destruct (w <=? wm_ideal (c_q cfg) (ns_log (g_nodes st n))); auto.
  - destruct (ns_alive (g_nodes st n) <=? alive); auto.
Qed.

Lemma net_mono_run cfg acts acts' m : In m (g_net (g_run cfg acts)) -> In m (g_net (g_run cfg (acts ++ acts'))).
Proof.
  rewrite run_app. generalize (g_run cfg acts). induction acts' as [|a t IH]; intros st H; cbn [fold_left]; auto.
  apply IH. apply net_mono. exact H.
Qed.

(* ------------------------------------------------------------------ the ideal watermark *)
Fixpoint fchain (s : N) (l : list ent) : Prop :=
  match l with [] => True | e :: t => en_first e = s /\ 1 <= en_nev e /\ fchain (s + en_nev e) t end.
Fixpoint fend (s : N) (l : list ent) : N := match l with [] => s | e :: t => fend (s + en_nev e) t end.

Lemma fchain_app : forall l1 l2 s, fchain s l1 -> fchain (fend s l1) l2 -> fchain s (l1 ++ l2).
Proof. induction l1 as [|e t IH]; intros l2 s H1 H2; cbn in *; auto. destruct H1 as (A & B & C). auto. Qed.
Lemma fend_app : forall l1 l2 s, fend s (l1 ++ l2) = fend (fend s l1) l2.
Proof. induction l1 as [|e t IH]; intros; cbn; auto. Qed.

Lemma chain_fchain : forall l, chain l -> fchain 0 (rev l) /\ fend 0 (rev l) = log_next l.
Proof.
  induction l as [|e t IH]; intros H; cbn; auto. destruct H as (Hf & Hk & Hc). destruct (IH Hc) as (A & B).
  split.
  - apply fchain_app; auto. cbn. rewrite B. auto.
  - rewrite fend_app. cbn. rewrite B, Hf. reflexivity.
Qed.

Lemma fchain_first_ge : forall l s e, fchain s l -> In e l -> s <= en_first e.
Proof.
  induction l as [|a t IH]; intros s e H Hin; [destruct Hin|]. destruct H as (A & B & C).
  destruct Hin as [<-|Hin]; [lia|]. specialize (IH _ _ C Hin). lia.
Qed.
Lemma fend_ge : forall l s, s <= fend s l.
Proof. induction l as [|a t IH]; intros s; cbn; [lia|]. specialize (IH (s + en_nev a)). lia. Qed.
Lemma wm_old_ge q : forall l s, fchain s l -> l <> [] -> s <= wm_old q l.
Proof.
  induction l as [|e t IH]; intros s H Hne; [congruence|]. destruct H as (A & B & C). cbn [wm_old].
  destruct (q <=? en_cnt e); [|lia]. destruct t as [|e' t']; [lia|].
  assert (s + en_nev e <= wm_old q (e' :: t')) by (apply IH; [exact C|discriminate]). lia.
Qed.

Lemma wm_old_spec q : forall l s x, fchain s l -> l <> [] -> s <= x ->
  (x < wm_old q l <-> x < fend s l /\ forall e, In e l -> en_first e <= x -> q <= en_cnt e).
Proof.
  induction l as [|e t IH]; intros s x H Hne Hsx; [congruence|]. destruct H as (A & B & C). cbn [wm_old fend].
  destruct (q <=? en_cnt e) eqn:Q.
  - apply N.leb_le in Q. destruct t as [|e' t'].
    + cbn [fend]. split.
      * intros Hx. split; [lia|]. intros a [<-|[]] _. exact Q.
      * intros (Hx & _). lia.
    + assert (Hne' : e' :: t' <> []) by discriminate.
      destruct (N.lt_ge_cases x (s + en_nev e)) as [Hlt|Hge].
      * pose proof (wm_old_ge q _ _ C Hne'). pose proof (fend_ge (e' :: t') (s + en_nev e)).
        split; [|intros _; lia]. intros _. split; [lia|]. intros a [<-|Ha] Hfa; [exact Q|].
        pose proof (fchain_first_ge _ _ _ C Ha). lia.
      * rewrite (IH (s + en_nev e) x C Hne' Hge). split.
        -- intros (H1 & H2). split; auto. intros a [<-|Ha] Hfa; auto.
        -- intros (H1 & H2). split; auto. intros a Ha. apply H2. right; auto.
  - apply N.leb_gt in Q. split; [lia|]. intros (_ & H2). specialize (H2 e (or_introl eq_refl)). lia.
Qed.

Lemma wm_ideal_spec q l x : chain l ->
  (x < wm_ideal q l <-> x < log_next l /\ forall e, In e l -> en_first e <= x -> q <= en_cnt e).
Proof.
  intros Hc. destruct l as [|e t]; [cbn; split; [lia|intros (H & _); lia]|].
  unfold wm_ideal. destruct (chain_fchain _ Hc) as (F & E).
  rewrite (wm_old_spec q (rev (e :: t)) 0 x F); [|intros Hr; apply (f_equal (@length _)) in Hr; rewrite rev_length in Hr; discriminate|lia].
  rewrite E. split; intros (H1 & H2); split; auto; intros a Ha; apply H2; [apply -> in_rev|apply in_rev]; exact Ha.
Qed.

Lemma chain_covers : forall l x, chain l -> x < log_next l -> exists e, In e l /\ covers e x = true.
Proof.
  induction l as [|e t IH]; intros x Hc Hx; [cbn in Hx; lia|]. destruct Hc as (Hf & Hk & Hc). cbn [log_next] in Hx.
  destruct (N.lt_ge_cases x (en_first e)) as [Hlt|Hge].
  - rewrite Hf in Hlt. destruct (IH x Hc Hlt) as (a & Ha & Ca). exists a. split; [right|]; auto.
  - exists e. split; [left; auto|]. apply covers_spec. lia.
Qed.

Lemma chain_nev : forall l a, chain l -> In a l -> 1 <= en_nev a.
Proof. induction l as [|z t IH]; intros a H Hin; [destruct Hin|]. destruct H as (? & ? & ?). destruct Hin as [<-|]; auto. Qed.

Section More.
  Variable cfg : config.
  Hypothesis cfg_fixed : c_cufix cfg = true.
  Hypothesis reps_le_rf : N.of_nat (length (c_reps cfg)) <= c_rf cfg.
  Let q := c_q cfg.

  (* the confirmed prefixes (everything below the ideal watermark) of any two nodes agree event for event *)
  Theorem confirmed_prefixes_agree acts n1 n2 x :
    let st := g_run cfg acts in
    x < wm_ideal q (lg st n1) -> x < wm_ideal q (lg st n2) ->
    exists e1 e2, In e1 (lg st n1) /\ In e2 (lg st n2) /\ covers e1 x = true /\ covers e2 x = true /\
                  en_tx e1 = en_tx e2 /\ en_off e1 + (x - en_first e1) = en_off e2 + (x - en_first e2).
  Proof.
    intros st H1 H2.
    apply (wm_ideal_spec q _ x (log_chain cfg cfg_fixed acts n1)) in H1.
    apply (wm_ideal_spec q _ x (log_chain cfg cfg_fixed acts n2)) in H2.
    destruct H1 as (X1 & Q1), H2 as (X2 & Q2).
    destruct (chain_covers _ x (log_chain cfg cfg_fixed acts n1) X1) as (e1 & I1 & C1).
    destruct (chain_covers _ x (log_chain cfg cfg_fixed acts n2) X2) as (e2 & I2 & C2).
    exists e1, e2. repeat split; auto; pose proof C1 as C1'; pose proof C2 as C2'; apply covers_spec in C1', C2';
      eapply (agreement cfg cfg_fixed reps_le_rf acts n1 n2 e1 e2 x); eauto; [apply Q1|apply Q2|apply Q1|apply Q2]; auto; lia.
  Qed.

  (* an acknowledged write is below the watermark of every node that stores it with a quorum count, as soon as
     everything before it on that node is confirmed *)
  Theorem ack_visible acts c T s n e :
    let st := g_run cfg acts in
    acked st c T s -> In e (lg st n) -> en_tx e = T -> en_off e = 0 -> q <= en_cnt e ->
    (forall e', In e' (lg st n) -> en_first e' < s -> q <= en_cnt e') ->
    forall x, covers e x = true -> x < wm_ideal q (lg st n).
  Proof.
    intros st Ha He Ht Ho Hq Hbefore x Cx.
    destruct (ack_quorum cfg cfg_fixed reps_le_rf acts c T s Ha) as ((e0 & He0 & Ht0 & Ho0 & Hf0 & Hq0) & _ & _).
    destruct (entry_origin cfg cfg_fixed acts n e He) as (c1 & s1 & k1 & Or1 & F1 & _).
    destruct (entry_origin cfg cfg_fixed acts c e0 He0) as (c2 & s2 & k2 & Or2 & F2 & _).
    rewrite Ht in Or1. rewrite Ht0, Or1 in Or2. inversion Or2 as [[Hc12 Hs12 Hk12]].
    assert (Hfs : en_first e = s) by lia.
    pose proof (log_chain cfg cfg_fixed acts n) as Hch.
    apply (wm_ideal_spec q _ x Hch). pose proof Cx as Cx'. apply covers_spec in Cx'.
    split.
    - pose proof (chain_below _ e Hch He). lia.
    - intros a Ha' Hfa. destruct (N.lt_ge_cases (en_first a) s) as [Hlt|Hge]; [apply Hbefore; auto|].
      pose proof (chain_nev _ a Hch Ha') as Hka.
      assert (a = e).
      { apply (chain_cover_unique _ a e (en_first a) Hch Ha' He); apply covers_spec; lia. }
      subst a. exact Hq.
  Qed.
End More.

(* ------------------------------------------------------------------ witnesses *)
Definition w_yes : oracle := fun _ _ _ => true.
Definition w_vA : list (node * N) := [(0,0);(1,0);(2,0)].
Definition w_vB : list (node * N) := [(1,0);(0,0);(2,0)].
(* two nodes believe they are the partition's leader; node 0's write loses, node 1's writes 20 and 30 win; node 0 then
   catches up from node 1 *)
Definition w_acts_catchup : list action :=
  [AView 0 w_vA; AView 1 w_vB; AView 2 w_vB; AClient 0 10 1 w_yes; AClient 1 20 1 w_yes;
   ADeliver 3 w_yes true seen_exact; ADeliver 4 w_yes true seen_exact; AFinish1 1 20 true; AFinish2 1 20; AWm 1 1; AClient 1 30 1 w_yes;
   ADeliver 7 w_yes true seen_exact; ATick 0; ADeliver 9 w_yes true seen_exact; ADeliver 10 w_yes true seen_exact;
   ADeliver 8 w_yes true seen_exact; ADeliver 12 w_yes true seen_exact; AFinish1 1 30 true].
(* the same start; node 0 restarts and then follows node 1 as a replica *)
Definition w_acts_hidden : list action :=
  [AView 0 w_vA; AView 1 w_vB; AView 2 w_vB; AClient 0 10 1 w_yes; AClient 1 20 1 w_yes;
   ADeliver 3 w_yes true seen_exact; ADeliver 4 w_yes true seen_exact; AFinish1 1 20 true; AFinish2 1 20; AClient 1 30 1 w_yes;
   ADeliver 8 w_yes true seen_exact; ADeliver 9 w_yes true seen_exact; AFinish1 1 30 true; AFinish2 1 30;
   ACrash 0 1; AView 0 [(0,1);(1,0);(2,0)]; ADeliver 7 w_yes true seen_exact; ADeliver 12 w_yes true seen_exact; ADeliver 13 w_yes true seen_exact].

Lemma orig_catchup_witness :
  let st := g_run (mk_cfg 3 [0;1;2] 4 false) w_acts_catchup in
  In (mk_ent 20 1 1 0 2) (lg st 0) /\ In (mk_ent 30 1 1 0 2) (lg st 1).
Proof. vm_compute. split; [left|left]; reflexivity. Qed.

Lemma fixed_catchup_run :
  let st := g_run (mk_cfg 3 [0;1;2] 4 true) w_acts_catchup in
  lg st 0 = [mk_ent 10 0 1 0 0] /\ In (mk_ent 20 0 1 0 2) (lg st 1).
Proof. vm_compute. split; [reflexivity|right; left; reflexivity]. Qed.

Lemma hidden_witness :
  let st := g_run (mk_cfg 3 [0;1;2] 4 true) w_acts_hidden in
  acked st 1 30 1 /\ In (mk_ent 30 1 1 0 3) (lg st 0) /\ wm_ideal 2 (lg st 0) = 0 /\ In (mk_ent 30 1 1 0 2) (lg st 1) /\ wm_ideal 2 (lg st 1) = 2.
Proof. vm_compute. repeat split; auto 20. Qed.

(* ------------------------------------------------------------------ statements as Props/C10.v and Props/C11.v give them *)
Lemma one_entry_per_sequence : forall cfg, c_cufix cfg = true -> forall acts n e1 e2 x,
  In e1 (ns_log (g_nodes (g_run cfg acts) n)) -> In e2 (ns_log (g_nodes (g_run cfg acts) n)) ->
  covers e1 x = true -> covers e2 x = true -> e1 = e2.
Proof. intros cfg Hf acts n e1 e2 x. apply chain_cover_unique. apply (log_chain cfg Hf). Qed.

Lemma ack_persists : forall cfg, c_cufix cfg = true -> N.of_nat (length (c_reps cfg)) <= c_rf cfg ->
  forall acts acts' c T s,
  acked (g_run cfg acts) c T s ->
  let st := g_run cfg (acts ++ acts') in
  (exists e, In e (ns_log (g_nodes st c)) /\ en_tx e = T /\ en_off e = 0 /\ en_first e = s /\ c_q cfg <= en_cnt e) /\
  c_q cfg <= N.of_nat (length (holders cfg st T)) /\
  (forall m, In m (holders cfg st T) ->
     In m (c_reps cfg) /\ exists e, In e (ns_log (g_nodes st m)) /\ en_tx e = T /\ en_off e = 0 /\ en_first e = s).
Proof.
  intros cfg Hf Hr acts acts' c T s Ha. apply (ack_quorum cfg Hf Hr). unfold acked. apply net_mono_run. exact Ha.
Qed.

Lemma orig_catchup_refuted :
  exists acts e1 e2,
    let cfg := mk_cfg 3 [0;1;2] 4 false in
    let st := g_run cfg acts in
    In e1 (ns_log (g_nodes st 0)) /\ In e2 (ns_log (g_nodes st 1)) /\
    c_q cfg <= en_cnt e1 /\ c_q cfg <= en_cnt e2 /\ covers e1 1 = true /\ covers e2 1 = true /\ en_tx e1 <> en_tx e2.
Proof.
  exists w_acts_catchup, (mk_ent 20 1 1 0 2), (mk_ent 30 1 1 0 2).
  destruct orig_catchup_witness as (A & B). cbv zeta. split; [exact A|]. split; [exact B|].
  vm_compute. repeat split; try discriminate.
Qed.

Lemma hidden_on_node_refuted :
  exists acts,
    let cfg := mk_cfg 3 [0;1;2] 4 true in
    let st := g_run cfg acts in
    acked st 1 30 1 /\
    In (mk_ent 30 1 1 0 3) (ns_log (g_nodes st 0)) /\ wm_ideal (c_q cfg) (ns_log (g_nodes st 0)) = 0 /\
    In (mk_ent 30 1 1 0 2) (ns_log (g_nodes st 1)) /\ wm_ideal (c_q cfg) (ns_log (g_nodes st 1)) = 2.
Proof. exists w_acts_hidden. exact hidden_witness. Qed.
