From Coq Require Import NArith List Bool Lia.
From Coq Require Import ZifyBool ZifyNat ZifyN.
From SV Require Import Model.Ids.
Import ListNotations.
Open Scope N_scope.

Lemma masks : MASK48 = N.ones 48 /\ MASK12 = N.ones 12 /\ MASK46 = N.ones 46 /\ MASK16 = N.ones 16.
Proof. repeat split; reflexivity. Qed.

Lemma ones_bit w i : N.testbit (N.ones w) i = (i <? w).
Proof.
  destruct (N.ltb_spec i w); [apply N.ones_spec_low|apply N.ones_spec_high]; lia.
Qed.

Lemma small_bit x w i : x < 2 ^ w -> w <= i -> N.testbit x i = false.
Proof.
  intros Hx Hi. destruct (N.eq_dec x 0) as [->|Hn]; [apply N.bits_0|].
  apply N.bits_above_log2. apply N.log2_lt_pow2 in Hx; lia.
Qed.

Lemma shiftl_bit x s i : N.testbit (N.shiftl x s) i = if s <=? i then N.testbit x (i - s) else false.
Proof.
  destruct (N.leb_spec s i); [apply N.shiftl_spec_high'; assumption|apply N.shiftl_spec_low; assumption].
Qed.

Lemma masked_field_bit x w s i :
  N.testbit (N.shiftl (N.land x (N.ones w)) s) i = if (s <=? i) && (i <? s + w) then N.testbit x (i - s) else false.
Proof.
  rewrite shiftl_bit, N.land_spec, ones_bit.
  destruct (N.leb_spec s i); cbn [andb]; [|reflexivity].
  destruct (N.ltb_spec (i - s) w), (N.ltb_spec i (s + w)); try lia; rewrite ?andb_true_r, ?andb_false_r; reflexivity.
Qed.

Lemma bounded_field_bit x w s i : x < 2 ^ w ->
  N.testbit (N.shiftl x s) i = if (s <=? i) && (i <? s + w) then N.testbit x (i - s) else false.
Proof.
  intros Hx. rewrite shiftl_bit. destruct (N.leb_spec s i); cbn [andb]; [|reflexivity].
  destruct (N.ltb_spec i (s + w)); [reflexivity|]. apply (small_bit x w); [assumption|lia].
Qed.

Lemma mk_id_bit ts r16 h r64 i : h < 2 ^ 16 ->
  N.testbit (mk_id ts r16 h r64) i =
    (if (80 <=? i) && (i <? 128) then N.testbit ts (i - 80) else false)
 || (if (68 <=? i) && (i <? 80) then N.testbit r16 (i - 68) else false)
 || (if (64 <=? i) && (i <? 67) then true else false)
 || (i =? 63)
 || (if (46 <=? i) && (i <? 62) then N.testbit h (i - 46) else false)
 || (if i <? 46 then N.testbit r64 i else false).
Proof.
  intros Hh. unfold mk_id. destruct masks as (-> & -> & -> & _).
  rewrite !N.lor_spec, !masked_field_bit, (bounded_field_bit h 16 46 i Hh), N.land_spec, ones_bit.
  rewrite (bounded_field_bit 7 3 64 i ltac:(reflexivity)), (bounded_field_bit 2 2 62 i ltac:(reflexivity)).
  replace (80 + 48) with 128 by reflexivity. replace (68 + 12) with 80 by reflexivity.
  replace (64 + 3) with 67 by reflexivity. replace (62 + 2) with 64 by reflexivity. replace (46 + 16) with 62 by reflexivity.
  assert (L7 : (if (64 <=? i) && (i <? 67) then N.testbit 7 (i - 64) else false) = (if (64 <=? i) && (i <? 67) then true else false)).
  { destruct (N.leb_spec 64 i); cbn [andb]; [|reflexivity]. destruct (N.ltb_spec i 67); [|reflexivity].
    assert (Hc : i - 64 = 0 \/ i - 64 = 1 \/ i - 64 = 2) by lia. destruct Hc as [-> |[-> | ->]]; reflexivity. }
  assert (L2 : (if (62 <=? i) && (i <? 64) then N.testbit 2 (i - 62) else false) = (i =? 63)).
  { destruct (N.leb_spec 62 i); cbn [andb].
    - destruct (N.ltb_spec i 64).
      + assert (Hc : i = 62 \/ i = 63) by lia. destruct Hc as [-> | ->]; reflexivity.
      + symmetry. apply N.eqb_neq. lia.
    - symmetry. apply N.eqb_neq. lia. }
  assert (Lr : N.testbit r64 i && (i <? 46) = (if i <? 46 then N.testbit r64 i else false)).
  { destruct (N.ltb_spec i 46); [apply andb_true_r|apply andb_false_r]. }
  rewrite L7, L2, Lr. rewrite !orb_assoc. reflexivity.
Qed.

Ltac decide_conds :=
  repeat match goal with
  | |- context [if ?c then _ else _] =>
      first [replace c with true by lia | replace c with false by lia]; cbv iota
  | |- context [N.eqb ?a ?b] =>
      first [replace (N.eqb a b) with true by lia | replace (N.eqb a b) with false by lia]
  end; cbn [orb].

Lemma hash_mk ts r16 h r64 : h < 2 ^ 16 -> hash_of (mk_id ts r16 h r64) = h.
Proof.
  intros Hh. apply N.bits_inj. intros i. unfold hash_of. destruct masks as (_ & _ & _ & ->).
  rewrite N.land_spec, N.shiftr_spec', ones_bit. destruct (N.ltb_spec i 16).
  - rewrite andb_true_r, mk_id_bit by assumption. decide_conds.
    rewrite ?orb_false_r. f_equal. lia.
  - rewrite andb_false_r. symmetry. now apply (small_bit h 16).
Qed.

Lemma validate_iff u h : validate_event_id u h = true <-> hash_of u = h.
Proof. unfold validate_event_id. apply N.eqb_eq. Qed.

Lemma hash_bound u : hash_of u < 2 ^ 16.
Proof.
  unfold hash_of. destruct masks as (_ & _ & _ & ->). rewrite N.land_ones. apply N.mod_lt. discriminate.
Qed.

Lemma mk_valid ts r16 h r64 : h < 2 ^ 16 ->
  validate_event_id (mk_id ts r16 h r64) h = true /\
  (forall h', validate_event_id (mk_id ts r16 h r64) h' = true -> h' = h).
Proof.
  intros Hh. split.
  - apply validate_iff. now apply hash_mk.
  - intros h' H. apply validate_iff in H. rewrite hash_mk in H by assumption. congruence.
Qed.

(** the other fields, version and variant; the value fits u128 *)
Lemma fields_mk ts r16 h r64 : h < 2 ^ 16 ->
  let u := mk_id ts r16 h r64 in
  ts_of u = N.land ts MASK48 /\ r12_of u = N.land r16 MASK12 /\ r46_of u = N.land r64 MASK46 /\
  version_of u = 7 /\ variant_of u = 2 /\ u < 2 ^ 128.
Proof.
  intros Hh u. subst u. destruct masks as (E48 & E12 & E46 & _).
  repeat split.
  - apply N.bits_inj. intros i. unfold ts_of. rewrite E48, N.shiftr_spec', N.land_spec, ones_bit, mk_id_bit by assumption.
    destruct (N.ltb_spec i 48).
    + decide_conds. rewrite ?orb_false_r, andb_true_r. f_equal. lia.
    + decide_conds. now rewrite andb_false_r.
  - apply N.bits_inj. intros i. unfold r12_of. rewrite E12, !N.land_spec, N.shiftr_spec', ones_bit, mk_id_bit by assumption.
    destruct (N.ltb_spec i 12).
    + decide_conds. rewrite ?orb_false_r, !andb_true_r. f_equal. lia.
    + now rewrite !andb_false_r.
  - apply N.bits_inj. intros i. unfold r46_of. rewrite E46, !N.land_spec, ones_bit, mk_id_bit by assumption.
    destruct (N.ltb_spec i 46).
    + decide_conds. now rewrite !andb_true_r.
    + now rewrite !andb_false_r.
  - apply N.bits_inj. intros i. unfold version_of. change 15 with (N.ones 4).
    rewrite !N.land_spec, N.shiftr_spec', ones_bit, mk_id_bit by assumption.
    destruct (N.ltb_spec i 4).
    + rewrite andb_true_r. assert (Hc : i = 0 \/ i = 1 \/ i = 2 \/ i = 3) by lia.
      destruct Hc as [->|[->|[->| ->]]]; reflexivity.
    + rewrite andb_false_r. symmetry. apply (small_bit 7 4); [reflexivity|assumption].
  - apply N.bits_inj. intros i. unfold variant_of. change 3 with (N.ones 2).
    rewrite !N.land_spec, N.shiftr_spec', ones_bit, mk_id_bit by assumption.
    destruct (N.ltb_spec i 2).
    + rewrite andb_true_r. assert (Hc : i = 0 \/ i = 1) by lia.
      destruct Hc as [->| ->]; decide_conds; rewrite ?orb_false_r.
      * reflexivity.
      * reflexivity.
    + rewrite andb_false_r. symmetry. apply (small_bit 2 2); [reflexivity|assumption].
  - destruct (N.eq_dec (mk_id ts r16 h r64) 0) as [->|Hn]; [reflexivity|].
    apply N.log2_lt_pow2; [lia|].
    destruct (N.lt_ge_cases (N.log2 (mk_id ts r16 h r64)) 128) as [|Hge]; [assumption|exfalso].
    pose proof (N.bit_log2 _ Hn) as Hb. rewrite mk_id_bit in Hb by assumption.
    revert Hb. decide_conds. discriminate.
Qed.

(** an id is determined by its fields: re-composing the extracted fields gives the id back (for ids with version 7 / variant 2) *)
Lemma recompose u : u < 2 ^ 128 -> version_of u = 7 -> variant_of u = 2 ->
  mk_id (ts_of u) (r12_of u) (hash_of u) (r46_of u) = u.
Proof.
  intros Hu Hver Hvar. apply N.bits_inj. intros i. rewrite mk_id_bit by apply hash_bound.
  assert (Bver : forall j, j < 4 -> N.testbit u (j + 64) = N.testbit 7 j).
  { intros j Hj. rewrite <- Hver. unfold version_of. change 15 with (N.ones 4).
    rewrite N.land_spec, N.shiftr_spec', ones_bit. replace (j <? 4) with true by lia. now rewrite andb_true_r. }
  assert (Bvar : forall j, j < 2 -> N.testbit u (j + 62) = N.testbit 2 j).
  { intros j Hj. rewrite <- Hvar. unfold variant_of. change 3 with (N.ones 2).
    rewrite N.land_spec, N.shiftr_spec', ones_bit. replace (j <? 2) with true by lia. now rewrite andb_true_r. }
  unfold ts_of, r12_of, hash_of, r46_of. destruct masks as (_ & -> & -> & ->).
  rewrite !N.land_spec, !N.shiftr_spec', !ones_bit.
  destruct (N.lt_ge_cases i 46); [decide_conds; now rewrite ?andb_true_r|].
  destruct (N.lt_ge_cases i 62); [decide_conds; rewrite ?orb_false_r; replace (i - 46 <? 16) with true by lia; rewrite andb_true_r; f_equal; lia|].
  destruct (N.eq_dec i 62) as [->|]; [cbn -[N.testbit]; symmetry; apply (Bvar 0); reflexivity|].
  destruct (N.eq_dec i 63) as [->|]; [cbn -[N.testbit]; symmetry; apply (Bvar 1); reflexivity|].
  destruct (N.lt_ge_cases i 67).
  { decide_conds. symmetry. replace i with (i - 64 + 64) by lia. rewrite Bver by lia.
    assert (Hc : i - 64 = 0 \/ i - 64 = 1 \/ i - 64 = 2) by lia. destruct Hc as [-> |[-> | ->]]; reflexivity. }
  destruct (N.eq_dec i 67) as [->|]; [cbn -[N.testbit]; symmetry; apply (Bver 3); reflexivity|].
  destruct (N.lt_ge_cases i 80); [decide_conds; rewrite ?orb_false_r; replace (i - 68 <? 12) with true by lia; rewrite andb_true_r; f_equal; lia|].
  destruct (N.lt_ge_cases i 128); [decide_conds; rewrite ?orb_false_r; f_equal; lia|].
  decide_conds. symmetry. now apply (small_bit u 128).
Qed.

(** * the single-event flag *)
Lemma set_flag_bit u b i : N.testbit (set_flag u b) i = if i =? 63 then b else N.testbit u i.
Proof.
  unfold set_flag, FLAG_BIT. destruct b.
  - rewrite N.setbit_eqb. rewrite (N.eqb_sym 63 i). destruct (i =? 63); reflexivity.
  - rewrite N.clearbit_eqb. rewrite (N.eqb_sym 63 i). destruct (i =? 63); cbn; [apply andb_false_r|apply andb_true_r].
Qed.

Lemma flag_frame u b :
  get_flag (set_flag u b) = b /\
  hash_of (set_flag u b) = hash_of u /\
  (forall i, i <> 63 -> N.testbit (set_flag u b) i = N.testbit u i) /\
  (u < 2 ^ 128 -> set_flag u b < 2 ^ 128).
Proof.
  repeat split.
  - unfold get_flag, FLAG_BIT. now rewrite set_flag_bit.
  - apply N.bits_inj. intros i. unfold hash_of. destruct masks as (_ & _ & _ & ->).
    rewrite !N.land_spec, !N.shiftr_spec', ones_bit, set_flag_bit.
    destruct (N.ltb_spec i 16); [|now rewrite !andb_false_r].
    replace (i + 46 =? 63) with false by lia. reflexivity.
  - intros i Hi. rewrite set_flag_bit. replace (i =? 63) with false by lia. reflexivity.
  - intros Hu. destruct (N.eq_dec (set_flag u b) 0) as [->|Hn]; [reflexivity|].
    apply N.log2_lt_pow2; [lia|].
    destruct (N.lt_ge_cases (N.log2 (set_flag u b)) 128) as [|Hge]; [assumption|exfalso].
    pose proof (N.bit_log2 _ Hn) as Hb. rewrite set_flag_bit in Hb.
    replace (N.log2 (set_flag u b) =? 63) with false in Hb by lia.
    rewrite (small_bit u 128) in Hb by assumption. discriminate.
Qed.

Lemma set_flag_fields u b : ts_of (set_flag u b) = ts_of u /\ r12_of (set_flag u b) = r12_of u /\
  r46_of (set_flag u b) = r46_of u /\ version_of (set_flag u b) = version_of u.
Proof.
  destruct masks as (_ & E12 & E46 & _).
  repeat split; apply N.bits_inj; intros i.
  - unfold ts_of. rewrite !N.shiftr_spec', set_flag_bit. replace (i + 80 =? 63) with false by lia. reflexivity.
  - unfold r12_of. rewrite E12, !N.land_spec, !N.shiftr_spec', set_flag_bit. replace (i + 68 =? 63) with false by lia. reflexivity.
  - unfold r46_of. rewrite E46, !N.land_spec, ones_bit, set_flag_bit.
    destruct (N.ltb_spec i 46); [|now rewrite !andb_false_r]. replace (i =? 63) with false by lia. reflexivity.
  - unfold version_of. rewrite !N.land_spec, !N.shiftr_spec', set_flag_bit. replace (i + 64 =? 63) with false by lia. reflexivity.
Qed.

Lemma set_flag_idem u b b' : set_flag (set_flag u b) b' = set_flag u b'.
Proof.
  apply N.bits_inj. intros i. rewrite !set_flag_bit. destruct (i =? 63); reflexivity.
Qed.

Lemma set_flag_same u : set_flag u (get_flag u) = u.
Proof.
  apply N.bits_inj. intros i. rewrite set_flag_bit. unfold get_flag, FLAG_BIT.
  destruct (N.eqb_spec i 63) as [->|]; reflexivity.
Qed.

(** * routing *)
Lemma routing_hash_only u u' np nb : hash_of u = hash_of u' ->
  primary_partition_id u np = primary_partition_id u' np /\ extract_event_id_bucket u nb = extract_event_id_bucket u' nb.
Proof. unfold primary_partition_id, extract_event_id_bucket. now intros ->. Qed.

Lemma routing_same_key key ts r16 r64 np nb b :
  let ev := set_flag (mk_id ts r16 (hash_of key) r64) b in
  primary_partition_id ev np = primary_partition_id key np /\
  extract_event_id_bucket ev nb = extract_event_id_bucket key nb /\
  (forall p, primary_partition_id key np = Some p ->
     primary_partition_id ev np = Some p /\ bucket_of_partition p nb = partition_id_to_bucket p nb /\ p < np).
Proof.
  intros ev. assert (Hh : hash_of ev = hash_of key).
  { subst ev. destruct (flag_frame (mk_id ts r16 (hash_of key) r64) b) as (_ & -> & _). apply hash_mk, hash_bound. }
  split; [|split].
  - now apply routing_hash_only.
  - now apply (routing_hash_only ev key np nb).
  - intros p Hp. split; [|split].
    + rewrite <- Hp. now apply routing_hash_only.
    + unfold bucket_of_partition, partition_id_to_bucket, rem16.
      destruct (N.eqb_spec nb 1) as [->|]; [|reflexivity]. cbn. f_equal. apply N.mod_1_r.
    + unfold primary_partition_id, rem16 in Hp. destruct (N.eqb_spec np 0); [discriminate|].
      injection Hp as <-. now apply N.mod_lt.
Qed.

Lemma bucket_via_partition u np nb : np <> 0 -> nb <> 0 -> (nb | np) ->
  extract_event_id_bucket u nb = partition_id_to_bucket (hash_of u mod np) nb.
Proof.
  intros Hp Hb [k Hk]. unfold extract_event_id_bucket, partition_id_to_bucket, rem16.
  destruct (nb =? 1); [reflexivity|]. destruct (N.eqb_spec nb 0); [contradiction|]. f_equal.
  set (h := hash_of u). rewrite (N.div_mod h np Hp) at 1. rewrite Hk.
  rewrite N.add_comm, (N.mul_comm (k * nb)), N.mul_assoc, N.mod_add by assumption. now rewrite <- Hk.
Qed.

Lemma bucket_via_partition_needs_divisibility :
  exists u np nb, np <> 0 /\ nb <> 0 /\ u < 2 ^ 128 /\
    extract_event_id_bucket u nb <> partition_id_to_bucket (hash_of u mod np) nb.
Proof.
  exists (N.shiftl 3 46), 3, 2. split; [discriminate|split; [discriminate|split; [vm_compute; reflexivity|vm_compute; discriminate]]].
Qed.

(** * Transaction::new *)
Lemma tx_new_spec key evs txid0 :
  match tx_new key evs txid0 with
  | TxNewEmpty => evs = []
  | TxNewInvalidEventId => evs <> [] /\ exists ev, In ev evs /\ hash_of ev <> hash_of key
  | TxNewOk tid => evs <> [] /\ (forall ev, In ev evs -> validate_event_id ev (hash_of key) = true) /\
                   get_flag tid = Nat.eqb (length evs) 1 /\ (forall i, i <> 63 -> N.testbit tid i = N.testbit txid0 i)
  end.
Proof.
  unfold tx_new. destruct evs as [|e r]; [reflexivity|].
  destruct (forallb _ (e :: r)) eqn:E.
  - split; [discriminate|]. split; [|split].
    + intros ev Hin. rewrite forallb_forall in E. now apply E.
    + apply flag_frame.
    + apply flag_frame.
  - split; [discriminate|].
    assert (Hx : exists ev, In ev (e :: r) /\ validate_event_id ev (hash_of key) = false).
    { clear -E. induction (e :: r) as [|a l IH]; [discriminate|]. cbn in E. apply andb_false_iff in E as [E|E].
      - exists a. split; [now left|assumption].
      - destruct (IH E) as (ev & Hin & Hv). exists ev. split; [now right|assumption]. }
    destruct Hx as (ev & Hin & Hv). exists ev. split; [assumption|].
    intros Heq. apply validate_iff in Heq. congruence.
Qed.

Lemma tx_new_generated key fields txid0 :
  fields <> [] ->
  exists tid, tx_new key (map (fun '(ts, r16, r64) => mk_id ts r16 (hash_of key) r64) fields) txid0 = TxNewOk tid.
Proof.
  intros Hne. unfold tx_new.
  destruct (map _ fields) as [|e r] eqn:Em; [destruct fields; [contradiction|discriminate]|].
  rewrite <- Em. 
  assert (H : forallb (fun ev => validate_event_id ev (hash_of key)) (map (fun '(ts, r16, r64) => mk_id ts r16 (hash_of key) r64) fields) = true).
  { apply forallb_forall. intros ev Hin. apply in_map_iff in Hin as ([[ts r16] r64] & <- & _).
    apply validate_iff, hash_mk, hash_bound. }
  rewrite H. eauto.
Qed.
