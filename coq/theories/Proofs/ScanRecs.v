(** C03, part A: well-formed record lists (concatenations of committed groups) and what
    [read_committed], [hydrate_from] and [groups] compute on them. *)
From Coq Require Import NArith List Bool Lia Arith.
From SV Require Import Model.StoreIter.
Import ListNotations.
Open Scope N_scope.

(** ** well-formed groups / record lists *)
Inductive wf_group : list rec -> list event -> Prop :=
| WG_single e : e_flag e = true -> wf_group [REvent e] [e]
| WG_multi es tx c : es <> [] -> Forall (fun e => e_flag e = false /\ e_tx e = tx) es ->
    wf_group (map REvent es ++ [RCommit tx c]) es.   (* the count is not checked by any reader *)

Inductive wf_recs : list rec -> list (list event) -> Prop :=
| WR_nil : wf_recs [] []
| WR_cons g es r gs : wf_group g es -> wf_recs r gs -> wf_recs (g ++ r) (es :: gs).

(** located events: (offset, event) *)
Fixpoint loc (b : nat) (es : list event) : list (nat * event) :=
  match es with [] => [] | e :: r => (b, e) :: loc (S b) r end.

(* a group is a flagged single event, or unflagged events closed by a commit record *)
Definition gflag (es : list event) : bool := match es with e :: _ => e_flag e | [] => true end.
Definition gtx (es : list event) : N := match es with e :: _ => e_tx e | [] => 0 end.
Definition gsize (es : list event) : nat := if gflag es then length es else S (length es).

(* the counts of the commit records, in order *)
Fixpoint commit_counts (recs : list rec) : list N :=
  match recs with
  | [] => []
  | REvent _ :: r => commit_counts r
  | RCommit _ c :: r => c :: commit_counts r
  end.

Definition lgrp := (list (nat * event) * option (N * N))%type.

(* the layout of a segment: its groups with the offsets of their events; [cs] = commit counts *)
Fixpoint layout_of (b : nat) (gs : list (list event)) (cs : list N) : list lgrp :=
  match gs with
  | [] => []
  | es :: r =>
      if gflag es then (loc b es, None) :: layout_of (b + gsize es) r cs
      else (loc b es, Some (gtx es, hd 0 cs)) :: layout_of (b + gsize es) r (tl cs)
  end.

(* what reading at the offset of a located event returns: [rest] = the later events of its group *)
Definition commit_of (kind : option (N * N)) (o : nat) (e : event) (rest : list (nat * event)) : committed :=
  match kind with
  | None => CSingle o e
  | Some (tx, c) => CTxn ((o, e) :: rest) tx c
  end.

Lemma loc_length b es : length (loc b es) = length es.
Proof. revert b; induction es; intros; cbn; auto. Qed.

Lemma loc_snd b es : map snd (loc b es) = es.
Proof. revert b; induction es; intros; cbn; f_equal; auto. Qed.

Lemma loc_skipn j b es : skipn j (loc b es) = loc (b + j) (skipn j es).
Proof.
  revert b es; induction j as [|j IH]; intros b es.
  - cbn. rewrite Nat.add_0_r. reflexivity.
  - destruct es as [|e es]; cbn; [reflexivity|]. rewrite IH. f_equal. lia.
Qed.

Lemma loc_app b es1 es2 : loc b (es1 ++ es2) = loc b es1 ++ loc (b + length es1) es2.
Proof.
  revert b; induction es1 as [|e es1 IH]; intros b; cbn.
  - rewrite Nat.add_0_r. reflexivity.
  - rewrite IH. do 3 f_equal. lia.
Qed.

Lemma loc_fst_bounds b es o e : In (o, e) (loc b es) -> (b <= o < b + length es)%nat.
Proof.
  revert b; induction es as [|x es IH]; intros b H; cbn in *; [contradiction|].
  destruct H as [H|H]; [inversion H; lia|]. apply IH in H. lia.
Qed.

Lemma commit_counts_app a b : commit_counts (a ++ b) = commit_counts a ++ commit_counts b.
Proof. induction a as [|x a IH]; [reflexivity|]. destruct x; cbn; rewrite IH; reflexivity. Qed.

Lemma commit_counts_events es : commit_counts (map REvent es) = [].
Proof. induction es; cbn; auto. Qed.

Lemma wf_group_size g es : wf_group g es -> length g = gsize es /\ es <> [].
Proof.
  intros [e He|es' tx c Hne Hall].
  - unfold gsize, gflag. rewrite He. split; [reflexivity|discriminate].
  - split; [|assumption]. rewrite app_length, map_length. unfold gsize, gflag.
    destruct es' as [|e r]; [congruence|]. inversion Hall as [|? ? [Hf _] _]; subst.
    rewrite Hf. cbn. lia.
Qed.

(* the first layout entry of a well-formed group followed by anything *)
Lemma layout_of_cons g es b gs r : wf_group g es ->
  layout_of b (es :: gs) (commit_counts (g ++ r))
  = (loc b es, match g with [REvent _] => None | _ => Some (gtx es, hd 0 (commit_counts g)) end)
    :: layout_of (b + length g) gs (commit_counts r).
Proof.
  intros Hg. destruct (wf_group_size _ _ Hg) as [Hlen _]. rewrite commit_counts_app. cbn [layout_of].
  rewrite <- Hlen. destruct Hg as [e He|es' tx c Hne Hall].
  - unfold gflag. rewrite He. reflexivity.
  - destruct es' as [|e r']; [congruence|]. inversion Hall as [|? ? [Hf _] _]; subst.
    unfold gflag. rewrite Hf. rewrite commit_counts_app, commit_counts_events. cbn [app commit_counts hd tl].
    destruct r'; reflexivity.
Qed.

(** ** read_committed *)
Lemma rc_loop_multi tx c post : forall es off acc,
  Forall (fun e => e_flag e = false /\ e_tx e = tx) es -> acc <> [] ->
  fst (rc_loop (map REvent es ++ RCommit tx c :: post) off acc (Some tx))
  = Some (CTxn (acc ++ loc off es) tx c).
Proof.
  induction es as [|e es IH]; intros off acc Hall Hacc; cbn.
  - rewrite N.eqb_refl. destruct acc; [congruence|]. cbn. rewrite app_nil_r. reflexivity.
  - inversion Hall as [|? ? [Hf Ht] Hall']; subst. rewrite Hf, N.eqb_refl.
    rewrite IH; auto.
    + rewrite <- app_assoc. reflexivity.
    + destruct acc; discriminate.
Qed.

Lemma skipn_app_exact {A} (l1 l2 : list A) n : length l1 = n -> skipn n (l1 ++ l2) = l2.
Proof. intros <-. rewrite skipn_app, skipn_all, Nat.sub_diag. reflexivity. Qed.

Lemma wf_read : forall recs gs, wf_recs recs gs -> forall extra b pre, length pre = b ->
  forall g, In g (layout_of b gs (commit_counts recs)) -> forall j o e rest, skipn j (fst g) = (o, e) :: rest ->
  fst (read_committed (pre ++ recs ++ extra) o) = Some (commit_of (snd g) o e rest).
Proof.
  induction 1 as [|g0 es r gs Hg Hr IH]; intros extra b pre Hpre g Hin j o e rest Hsk.
  - contradiction.
  - destruct (wf_group_size _ _ Hg) as [Hlen Hne].
    rewrite (layout_of_cons _ _ b gs r Hg) in Hin. destruct Hin as [<-|Hin].
    + cbn [fst snd] in *. rewrite loc_skipn in Hsk.
      assert (Hj : (j < length es)%nat).
      { destruct (Nat.lt_ge_cases j (length es)); auto.
        rewrite skipn_all2 in Hsk by lia. discriminate. }
      destruct (skipn j es) as [|e' es'] eqn:Hes; [discriminate|].
      cbn in Hsk. inversion Hsk; subst o e' rest. clear Hsk.
      unfold read_committed.
      destruct Hg as [e0 He0|es0 tx c Hne0 Hall].
      * destruct j; [|cbn in Hj; lia]. cbn in Hes. inversion Hes; subst.
        rewrite Nat.add_0_r. rewrite skipn_app_exact by reflexivity.
        cbn [app rc_loop]. rewrite He0. reflexivity.
      * assert (Hsplit : es0 = firstn j es0 ++ e :: es') by (rewrite <- Hes; symmetry; apply firstn_skipn).
        assert (Hfl : length (firstn j es0) = j) by (rewrite firstn_length; lia).
        rewrite Hsplit at 1. rewrite map_app. rewrite <- !app_assoc.
        rewrite app_assoc. rewrite skipn_app_exact by (rewrite app_length, map_length; lia).
        assert (Hall' : Forall (fun e => e_flag e = false /\ e_tx e = tx) (e :: es')).
        { rewrite Hsplit in Hall. apply Forall_app in Hall. tauto. }
        inversion Hall' as [|? ? [Hf Ht] Hall'']; subst.
        cbn [map app rc_loop]. rewrite Hf.
        cbn [app]. rewrite rc_loop_multi by (auto; discriminate).
        destruct es0 as [|x es0]; [congruence|].
        inversion Hall as [|? ? [Hfx Htx] _]; subst.
        rewrite commit_counts_app, commit_counts_events. cbn [app commit_counts hd gtx].
        assert (Hk : match map REvent (x :: es0) ++ [RCommit (e_tx e) c] with
                     | [REvent _] => None | _ => Some (e_tx x, c) end = Some (e_tx x, c)).
        { cbn. destruct es0; reflexivity. }
        rewrite Hk. cbn [commit_of app]. rewrite Htx. reflexivity.
    + replace (pre ++ (g0 ++ r) ++ extra) with ((pre ++ g0) ++ r ++ extra)
        by (rewrite <- !app_assoc; reflexivity).
      eapply (IH extra (b + length g0)%nat); [rewrite app_length; lia|exact Hin|exact Hsk].
Qed.

(** ** hydrate_from *)
Definition entry_of (oe : nat * event) : ientry := mkEntry (snd oe) (fst oe).
Definition lay_events (L : list lgrp) : list (nat * event) := concat (map fst L).

Lemma hydrate_app r1 r2 b : hydrate_from (r1 ++ r2) b = hydrate_from r1 b ++ hydrate_from r2 (b + length r1).
Proof.
  revert b; induction r1 as [|x r1 IH]; intros b; cbn.
  - rewrite Nat.add_0_r. reflexivity.
  - destruct x; cbn; rewrite IH; replace (S b + length r1)%nat with (b + S (length r1))%nat by lia; reflexivity.
Qed.

Lemma hydrate_events es b : hydrate_from (map REvent es) b = map entry_of (loc b es).
Proof. revert b; induction es as [|e es IH]; intros b; cbn; [reflexivity|]. rewrite IH. reflexivity. Qed.

Lemma wf_group_hydrate g es b : wf_group g es -> hydrate_from g b = map entry_of (loc b es).
Proof.
  intros [e He|es' tx c Hne Hall]; [reflexivity|].
  rewrite hydrate_app, hydrate_events. cbn. apply app_nil_r.
Qed.

Lemma wf_hydrate recs gs : wf_recs recs gs -> forall b,
  hydrate_from recs b = map entry_of (lay_events (layout_of b gs (commit_counts recs))).
Proof.
  induction 1 as [|g es r gs Hg Hr IH]; intros b; [reflexivity|].
  rewrite hydrate_app. rewrite (layout_of_cons _ _ b gs r Hg). unfold lay_events. cbn [map concat fst].
  rewrite map_app. rewrite (wf_group_hydrate _ _ b Hg). f_equal. apply IH.
Qed.

(** ** groups *)
Lemma groups_loop_multi tx c post : forall es cur,
  Forall (fun e => e_flag e = false /\ e_tx e = tx) es -> cur <> [] ->
  groups_loop (map REvent es ++ RCommit tx c :: post) cur (Some tx)
  = (cur ++ es) :: groups_loop post [] None.
Proof.
  induction es as [|e es IH]; intros cur Hall Hcur; cbn.
  - rewrite N.eqb_refl. destruct cur; [congruence|]. cbn. rewrite app_nil_r. reflexivity.
  - inversion Hall as [|? ? [Hf Ht] Hall']; subst. rewrite Hf, N.eqb_refl.
    rewrite IH; auto.
    + rewrite <- app_assoc. reflexivity.
    + destruct cur; discriminate.
Qed.

Lemma wf_groups_app recs gs : wf_recs recs gs -> forall extra,
  groups_loop (recs ++ extra) [] None = gs ++ groups_loop extra [] None.
Proof.
  induction 1 as [|g es r gs Hg Hr IH]; intros extra; [reflexivity|].
  destruct Hg as [e He|es tx c Hne Hall].
  - cbn. rewrite He. f_equal. apply IH.
  - destruct es as [|e es]; [congruence|].
    inversion Hall as [|? ? [Hf Ht] Hall']; subst.
    cbn [map app groups_loop]. rewrite Hf. rewrite <- !app_assoc. cbn [app].
    rewrite groups_loop_multi by (auto; discriminate). cbn. f_equal. apply IH.
Qed.

Lemma wf_groups recs gs : wf_recs recs gs -> groups recs = gs.
Proof.
  intros H. unfold groups. rewrite <- (app_nil_r recs). rewrite (wf_groups_app _ _ H). cbn. apply app_nil_r.
Qed.

Lemma lay_events_snd : forall gs b cs, map snd (lay_events (layout_of b gs cs)) = concat gs.
Proof.
  induction gs as [|es gs IH]; intros b cs; [reflexivity|].
  unfold lay_events in *. cbn [layout_of]. destruct (gflag es); cbn; rewrite map_app, loc_snd, IH; reflexivity.
Qed.

Lemma layout_groups : forall gs b cs, map (fun g : lgrp => map snd (fst g)) (layout_of b gs cs) = gs.
Proof.
  induction gs as [|es gs IH]; intros b cs; [reflexivity|].
  cbn [layout_of]. destruct (gflag es); cbn; rewrite loc_snd, IH; reflexivity.
Qed.

(** ** offsets are strictly increasing *)
Fixpoint incr (lb : nat) (l : list nat) : Prop :=
  match l with [] => True | x :: r => (lb <= x)%nat /\ incr (S x) r end.

Lemma incr_weaken lb lb' l : (lb' <= lb)%nat -> incr lb l -> incr lb' l.
Proof. destruct l; cbn; [auto|]. intros ? [? ?]; split; [lia|auto]. Qed.

Lemma incr_app lb l1 l2 : incr lb (l1 ++ l2) <->
  incr lb l1 /\ incr (match rev l1 with x :: _ => S x | [] => lb end) l2.
Proof.
  revert lb; induction l1 as [|x l1 IH]; intros lb; cbn [app incr rev].
  - tauto.
  - rewrite IH. destruct (rev l1) as [|y r] eqn:Hr; cbn [app]; tauto.
Qed.

Lemma incr_In lb l x : incr lb l -> In x l -> (lb <= x)%nat.
Proof.
  revert lb; induction l as [|y l IH]; intros lb H Hin; [contradiction|].
  destruct H as [H1 H2]. destruct Hin as [->|Hin]; [assumption|]. apply (IH (S y)) in Hin; [lia|assumption].
Qed.

Lemma incr_app_bound lb l1 l2 B : incr lb l1 -> (forall x, In x l1 -> x < B)%nat -> (lb <= B)%nat ->
  incr B l2 -> incr lb (l1 ++ l2).
Proof.
  intros H1 Hb Hlb H2. apply incr_app. split; [assumption|].
  destruct (rev l1) as [|x r] eqn:Hr.
  - eapply incr_weaken; eauto.
  - eapply incr_weaken; [|exact H2]. apply Hb. apply in_rev. rewrite Hr. left. reflexivity.
Qed.

Lemma incr_filter {A} (f : A -> nat) (p : A -> bool) lb l : incr lb (map f l) -> incr lb (map f (filter p l)).
Proof.
  revert lb; induction l as [|x l IH]; intros lb H; [exact I|].
  cbn in *. destruct H as [H1 H2]. destruct (p x); cbn.
  - split; [assumption|]. apply IH. assumption.
  - apply IH. eapply incr_weaken; [|exact H2]. lia.
Qed.

Lemma loc_incr b es : incr b (map fst (loc b es)).
Proof. revert b; induction es as [|e es IH]; intros b; cbn; [exact I|]. split; [lia|apply IH]. Qed.

Lemma gsize_ge es : (length es <= gsize es)%nat.
Proof. unfold gsize. destruct (gflag es); lia. Qed.

Lemma layout_incr : forall gs b cs, incr b (map fst (lay_events (layout_of b gs cs))).
Proof.
  induction gs as [|es gs IH]; intros b cs; [exact I|].
  assert (H : forall cs', incr b (map fst (loc b es ++ lay_events (layout_of (b + gsize es) gs cs')))).
  { intros cs'. rewrite map_app. apply incr_app_bound with (B := (b + gsize es)%nat).
    - apply loc_incr.
    - intros x Hx. apply in_map_iff in Hx. destruct Hx as [[o e] [<- Hin]]. apply loc_fst_bounds in Hin.
      pose proof (gsize_ge es). cbn. lia.
    - lia.
    - apply IH. }
  unfold lay_events in *. cbn [layout_of]. destruct (gflag es); cbn [map concat fst]; apply H.
Qed.

Lemma wf_kind_single recs gs : wf_recs recs gs -> forall b g, In g (layout_of b gs (commit_counts recs)) ->
  fst g <> [] /\ (snd g = None -> (length (fst g) <= 1)%nat).
Proof.
  induction 1 as [|g0 es r gs Hg Hr IH]; intros b g Hin; [contradiction|].
  rewrite (layout_of_cons _ _ b gs r Hg) in Hin. destruct Hin as [<-|Hin]; [|eapply IH; eauto].
  cbn [fst snd]. destruct Hg as [e He|es tx c Hne Hall].
  - split; [discriminate|]. cbn. lia.
  - split.
    + destruct es; [congruence|discriminate].
    + destruct es as [|x es]; [congruence|]. cbn. destruct es; discriminate.
Qed.

Lemma in_layout_of : forall gs b cs g, In g (layout_of b gs cs) -> exists b' es, In es gs /\ fst g = loc b' es.
Proof.
  induction gs as [|es gs IH]; intros b cs g H; [contradiction|]. cbn [layout_of] in H.
  destruct (gflag es); (destruct H as [<-|H];
    [exists b, es; split; [left|]; reflexivity
    |destruct (IH _ _ _ H) as (b' & es' & H1 & H2); exists b', es'; split; [right|]; assumption]).
Qed.

Lemma wf_recs_app r1 g1 r2 g2 : wf_recs r1 g1 -> wf_recs r2 g2 -> wf_recs (r1 ++ r2) (g1 ++ g2).
Proof.
  induction 1; intros H2; cbn; [assumption|]. rewrite <- app_assoc. constructor; auto.
Qed.

Lemma hydrate_length recs b : (length (hydrate_from recs b) <= length recs)%nat.
Proof. revert b; induction recs as [|x r IH]; intros b; cbn; [lia|]. destruct x; cbn; specialize (IH (S b)); lia. Qed.
