(** Bridge L2 -> L1 (sizes -> records) for C19 / C01: the two ORACLE inputs of [Store.append] — [roll] (the
    size-based rollover decision) and [big] (EventsExceedSegmentSize) — are exactly the decisions that
    Model/ByteLayout.v's [bl_append] takes from the write offset, the segment size, the transaction's event
    sizes and the stored-length oracle.

    * [l1_oracles s evs = (l1_roll s evs, l1_big s evs)]: the pair computed from the ByteLayout state.
    * [oracle_big_iff]: big = true <-> bl_append refuses with BTooBig.
    * [oracle_roll_sealed] / [oracle_roll_iff]: roll = true <-> bl_append seals the live segment (by the
      estimate-based rollover or by the second write after SegmentFull); for an accepted append the rollover
      count is [if roll then 1 else 0] ([oracle_roll_count]; a count of 2 is unreachable).
    * [bl_full_iff]: the ONLY ByteLayout outcome that L1 does not have is BFull (Writer(SegmentFull) for good);
      it is returned exactly on the class [l2_segment_full]: the uncompressed estimate fits an empty segment,
      the stored size does not.  There [big = false]: the L1 model does not refuse for size.
    * [l2_refines_l1_oracles]: the case analysis that makes "L1 theorem + L2 theorem" explicit;
      [l2_l1_composed]: for a transaction that fits (C19_fits' premises) the L1 append with the computed
      oracles is decided by the reference with fits = true, and both layers roll over together. *)
From Coq Require Import NArith List Bool Lia.
From Coq Require Import ZifyBool ZifyNat ZifyN.
From SV Require Import Model.ByteLayout Proofs.ByteLayoutProofs.
From SV Require Import Model.Store Proofs.StoreInv Proofs.StoreSimProofs.
Import ListNotations.
Open Scope N_scope.

(** * the oracles, computed from the L2 state *)
(* handle_append_events: `events_size + SEGMENT_HEADER_SIZE > segment_size` *)
Definition l1_big (s : bstate) (evs : list bev) : bool := bl_size s <? estimate evs + SEGMENT_HEADER_SIZE.
(* handle_append_events: `write_offset + events_size > segment_size` (from UNCOMPRESSED lengths) *)
Definition est_roll (s : bstate) (evs : list bev) : bool := bl_size s <? bl_wo s + estimate evs.
(* seglog Writer::append answers SegmentFull for some record of the transaction written at the live write offset
   (from STORED lengths: needs the stored-length oracle [b_st]) *)
Definition write_full (s : bstate) (evs : list bev) : bool := bl_size s <? bl_wo s + actual (bl_comp s) evs.
(* the second write: SegmentFull in a segment that is not empty *)
Definition full_roll (s : bstate) (evs : list bev) : bool :=
  negb (est_roll s evs) && write_full s evs && (SEGMENT_HEADER_SIZE <? bl_wo s).
Definition l1_roll (s : bstate) (evs : list bev) : bool := negb (l1_big s evs) && (est_roll s evs || full_roll s evs).
Definition l1_oracles (s : bstate) (evs : list bev) : bool * bool := (l1_roll s evs, l1_big s evs).

(** the outcome of ByteLayout that L1 does not have: the estimate fits an empty segment, the stored size does not
    (compression made the records larger): the code answers Writer(SegmentFull) on every attempt *)
Definition l2_segment_full (size : N) (comp : bool) (evs : list bev) : Prop :=
  ~ known_c19 size evs /\ ~ fits size comp evs.

(** * one write succeeds exactly when the stored size fits the free space *)
Lemma txn_lens_nonempty comp evs : txn_lens comp evs <> [].
Proof. unfold txn_lens. destruct evs as [|e [|e' r]]; cbn; discriminate. Qed.

Lemma bl_write_none_iff s evs : snd (bl_write s evs) = None <-> write_full s evs = true.
Proof.
  unfold write_full. split.
  - intros Hn. destruct (bl_write s evs) as [s' o] eqn:E. cbn [snd] in Hn. subst o.
    apply bl_write_fail in E. destruct E as [_ E]. apply N.ltb_lt. exact E.
  - intros Hf. apply N.ltb_lt in Hf. destruct (bl_write s evs) as [s' [o|]] eqn:E; [|reflexivity]. exfalso.
    unfold bl_write, actual in *. destruct (write_recs _ _ _ _) as [[offs wo']|wo'] eqn:Ew; [|discriminate].
    clear E. pose proof (txn_lens_nonempty (bl_comp s) evs) as Hne.
    destruct (txn_lens (bl_comp s) evs) as [|r rest]; [congruence|].
    cbn [write_recs nsum fold_right] in *. fold (nsum rest) in *.
    destruct (bl_size s <? bl_wo s + r) eqn:E1; [discriminate|]. apply N.ltb_ge in E1.
    apply write_recs_ok in Ew; [|exact E1]. lia.
Qed.

Lemma bl_write_cases s evs :
  (write_full s evs = true /\ bl_write s evs = (s, None)) \/
  (write_full s evs = false /\ exists offs, bl_write s evs = (bl_with_wo s (bl_wo s + actual (bl_comp s) evs), Some offs)).
Proof.
  destruct (write_full s evs) eqn:Ef.
  - left. split; [reflexivity|]. apply bl_write_none_iff in Ef. destruct (bl_write s evs) as [s' o] eqn:E.
    cbn [snd] in Ef. subst o. apply bl_write_fail in E as E'. destruct E' as [-> _]. reflexivity.
  - right. split; [reflexivity|]. unfold write_full in Ef.
    destruct (bl_write_fit s evs ltac:(lia)) as (offs & E & _). exists offs. exact E.
Qed.

(** * (1) big <-> EventsExceedSegmentSize *)
Theorem oracle_big_iff s evs : l1_big s evs = true <-> snd (bl_append s evs) = BTooBig.
Proof.
  rewrite bl_append_toobig_iff. unfold l1_big, known_c19. lia.
Qed.

(** * (2) roll <-> the append seals the live segment *)
Ltac simp_bl' := cbn [bl_wo bl_comp bl_size bl_sealed bl_rollover bl_with_wo fst snd] in *.

(* the complete description of bl_append in terms of the four decisions *)
Lemma bl_append_cases s evs :
  if l1_big s evs then bl_append s evs = (s, BTooBig)
  else if est_roll s evs then
    (if write_full (bl_rollover s) evs then bl_append s evs = (bl_rollover s, BFull)
     else exists offs, bl_append s evs =
                       (bl_with_wo (bl_rollover s) (SEGMENT_HEADER_SIZE + actual (bl_comp s) evs), BOk 1 offs))
  else if write_full s evs then
    (if SEGMENT_HEADER_SIZE <? bl_wo s then
       (if write_full (bl_rollover s) evs then bl_append s evs = (bl_rollover s, BFull)
        else exists offs, bl_append s evs =
                          (bl_with_wo (bl_rollover s) (SEGMENT_HEADER_SIZE + actual (bl_comp s) evs), BOk 1 offs))
     else bl_append s evs = (s, BFull))
  else exists offs, bl_append s evs = (bl_with_wo s (bl_wo s + actual (bl_comp s) evs), BOk 0 offs).
Proof.
  unfold bl_append, l1_big, est_roll.
  destruct (bl_size s <? estimate evs + SEGMENT_HEADER_SIZE); [reflexivity|]. cbv zeta.
  destruct (bl_size s <? bl_wo s + estimate evs) eqn:Er.
  - destruct (bl_write_cases (bl_rollover s) evs) as [[-> ->]|[-> (offs & ->)]].
    + simp_bl'. rewrite N.ltb_irrefl. reflexivity.
    + exists offs. reflexivity.
  - destruct (bl_write_cases s evs) as [[-> ->]|[-> (offs & ->)]].
    + destruct (SEGMENT_HEADER_SIZE <? bl_wo s); [|reflexivity].
      destruct (bl_write_cases (bl_rollover s) evs) as [[-> ->]|[-> (offs & ->)]]; [reflexivity|].
      exists offs. reflexivity.
    + exists offs. reflexivity.
Qed.

Theorem oracle_roll_sealed s evs :
  bl_sealed (fst (bl_append s evs)) = if l1_roll s evs then bl_sealed s ++ [bl_wo s] else bl_sealed s.
Proof.
  pose proof (bl_append_cases s evs) as C. unfold l1_roll, full_roll.
  destruct (l1_big s evs); [rewrite C; reflexivity|]. cbn [negb andb].
  destruct (est_roll s evs); cbn [orb negb andb].
  - destruct (write_full (bl_rollover s) evs); [rewrite C; reflexivity|destruct C as (offs & ->); reflexivity].
  - destruct (write_full s evs); cbn [andb].
    + destruct (SEGMENT_HEADER_SIZE <? bl_wo s).
      * destruct (write_full (bl_rollover s) evs); [rewrite C; reflexivity|destruct C as (offs & ->); reflexivity].
      * rewrite C. reflexivity.
    + destruct C as (offs & ->). reflexivity.
Qed.

Lemma app_one_neq {A} (l : list A) x : l ++ [x] <> l.
Proof. intros E. apply (f_equal (@length A)) in E. rewrite app_length in E. cbn in E. lia. Qed.

Theorem oracle_roll_iff s evs :
  (l1_roll s evs = true <-> bl_sealed (fst (bl_append s evs)) = bl_sealed s ++ [bl_wo s]) /\
  (l1_roll s evs = false <-> bl_sealed (fst (bl_append s evs)) = bl_sealed s).
Proof.
  rewrite oracle_roll_sealed. destruct (l1_roll s evs); split; split; intros E; try reflexivity; try discriminate.
  - exfalso. exact (app_one_neq _ _ E).
  - exfalso. symmetry in E. exact (app_one_neq _ _ E).
Qed.

(* an accepted append reports that many rollovers; 2 is unreachable *)
Theorem oracle_roll_count s evs k offs :
  snd (bl_append s evs) = BOk k offs -> k = (if l1_roll s evs then 1 else 0) /\ l1_big s evs = false.
Proof.
  pose proof (bl_append_cases s evs) as C. unfold l1_roll, full_roll.
  destruct (l1_big s evs); [rewrite C; discriminate|]. cbn [negb andb].
  destruct (est_roll s evs); cbn [orb negb andb].
  - destruct (write_full (bl_rollover s) evs); [rewrite C; discriminate|destruct C as (o & ->); intros [= <- _]; auto].
  - destruct (write_full s evs); cbn [andb].
    + destruct (SEGMENT_HEADER_SIZE <? bl_wo s).
      * destruct (write_full (bl_rollover s) evs); [rewrite C; discriminate|destruct C as (o & ->); intros [= <- _]; auto].
      * rewrite C. discriminate.
    + destruct C as (o & ->); intros [= <- _]; auto.
Qed.

(** * (3) the outcome L1 abstracts away: SegmentFull for good *)
Theorem bl_full_iff s evs : bl_wf s -> evs <> [] ->
  (snd (bl_append s evs) = BFull <-> l2_segment_full (bl_size s) (bl_comp s) evs).
Proof.
  intros W Hne. unfold l2_segment_full. split.
  - intros Hf. split.
    + intros Hk. apply bl_append_toobig_iff in Hk. congruence.
    + intros Hfit. assert (Hk : ~ known_c19 (bl_size s) evs) by (intros Hk; apply bl_append_toobig_iff in Hk; congruence).
      destruct (bl_append_fits s evs W Hne Hk Hfit) as (k & offs & E & _). congruence.
  - intros [Hk Hfit]. destruct (snd (bl_append s evs)) as [k offs| |] eqn:E; [| |reflexivity].
    + exfalso. apply (bl_append_unfit s evs W Hfit). exists k, offs. exact E.
    + exfalso. apply Hk. apply bl_append_toobig_iff. exact E.
Qed.

(* the three outcomes of ByteLayout, each characterised by sizes alone *)
Theorem bl_outcomes s evs : bl_wf s -> evs <> [] ->
  match snd (bl_append s evs) with
  | BTooBig => known_c19 (bl_size s) evs
  | BFull => l2_segment_full (bl_size s) (bl_comp s) evs
  | BOk k offs => ~ known_c19 (bl_size s) evs /\ fits (bl_size s) (bl_comp s) evs /\ k = (if l1_roll s evs then 1 else 0)
  end.
Proof.
  intros W Hne. destruct (snd (bl_append s evs)) as [k offs| |] eqn:E.
  - split; [intros Hk; apply bl_append_toobig_iff in Hk; congruence|]. split.
    + destruct (N.le_gt_cases (SEGMENT_HEADER_SIZE + actual (bl_comp s) evs) (bl_size s)) as [Hle|Hgt]; [exact Hle|].
      exfalso. apply (bl_append_unfit s evs W); [unfold fits; lia|]. exists k, offs. exact E.
    + exact (proj1 (oracle_roll_count s evs k offs E)).
  - apply bl_append_toobig_iff. exact E.
  - apply bl_full_iff; assumption.
Qed.

(** * the L1 side: [big] is the only source of TooBig *)
Lemma validate_not_toobig st pk : forall news intx r, validate st pk intx news = inr r -> r <> TooBig.
Proof.
  induction news as [|n rest IH]; intros intx r; cbn [validate]; [discriminate|].
  assert (K : forall cur after, match validate st pk (assoc_set intx (n_sid n) after) rest with
                                | inl l => inl (cur :: l) | inr r0 => inr r0 end = inr r -> r <> TooBig).
  { intros cur after. destruct (validate st pk (assoc_set intx (n_sid n) after) rest) eqn:E; [discriminate|].
    intros [= <-]. exact (IH _ _ E). }
  destruct (assoc intx (n_sid n)) as [c|].
  - destruct (n_expect n) as [| | |v]; try apply K; try (intros [= <-]; discriminate).
    destruct (c =? v); [apply K|intros [= <-]; discriminate].
  - destruct (writer_stream st (n_sid n)) as [[epk v]|].
    + destruct (negb (epk =? pk)); [intros [= <-]; discriminate|].
      destruct (n_expect n) as [| | |x]; try apply K; try (intros [= <-]; discriminate).
      destruct (v =? x); [apply K|intros [= <-]; discriminate].
    + destruct (n_expect n) as [| | |x]; try apply K; intros [= <-]; discriminate.
Qed.

Theorem append_not_toobig st t roll : snd (append st t roll false) <> inr TooBig.
Proof.
  unfold append. destruct (validate st (t_pk t) [] (t_events t)) as [curs|r] eqn:V.
  - destruct (negb (check_xseq _ _)); [cbn [snd]; discriminate|].
    destruct (negb (forallb _ _)); cbn [snd]; discriminate.
  - cbn [snd]. intros [= ->]. exact (validate_not_toobig _ _ _ _ _ V eq_refl).
Qed.

Theorem append_toobig st t roll curs : validate st (t_pk t) [] (t_events t) = inl curs ->
  append st t roll true = (st, inr TooBig).
Proof. intros V. unfold append. rewrite V. reflexivity. Qed.

(* an accepted L1 append seals the live segment exactly when [roll] says so *)
Lemma append_sealed st t roll big st' evs' : append st t roll big = (st', inl evs') ->
  sealed st' = if roll then sealed st ++ [live (publish st)] else sealed st.
Proof.
  unfold append. destruct (validate st (t_pk t) [] (t_events t)); [|discriminate].
  destruct big; [discriminate|].
  destruct (negb (check_xseq _ _)); [discriminate|]. destruct (negb (forallb _ _)); [discriminate|].
  intros [= <- _]. destruct roll; reflexivity.
Qed.

(** * the composition *)
(** every ByteLayout outcome against the L1 append taken with the computed oracles, for ANY L1 store and
    transaction: BTooBig <-> big (L1 answers TooBig once validation passes); accepted => big = false, L1 does not
    answer TooBig, the rollover count is roll; BFull (the class [l2_segment_full], the only outcome L1 does not
    have) => big = false and L1 does not refuse for size *)
Theorem l2_refines_l1_oracles st t s evs : bl_wf s -> evs <> [] ->
  let roll := fst (l1_oracles s evs) in
  let big := snd (l1_oracles s evs) in
  (big = true <-> snd (bl_append s evs) = BTooBig) /\
  (roll = true <-> bl_sealed (fst (bl_append s evs)) = bl_sealed s ++ [bl_wo s]) /\
  (roll = false <-> bl_sealed (fst (bl_append s evs)) = bl_sealed s) /\
  (snd (bl_append s evs) = BTooBig ->
     known_c19 (bl_size s) evs /\
     forall curs, validate st (t_pk t) [] (t_events t) = inl curs -> append st t roll big = (st, inr TooBig)) /\
  (forall k offs, snd (bl_append s evs) = BOk k offs ->
     big = false /\ k = (if roll then 1 else 0) /\ snd (append st t roll big) <> inr TooBig) /\
  (snd (bl_append s evs) = BFull <-> l2_segment_full (bl_size s) (bl_comp s) evs) /\
  (snd (bl_append s evs) = BFull -> big = false /\ snd (append st t roll big) <> inr TooBig).
Proof.
  intros W Hne. cbn [l1_oracles fst snd].
  split; [apply oracle_big_iff|]. split; [apply oracle_roll_iff|]. split; [apply oracle_roll_iff|].
  split; [|split; [|split; [apply bl_full_iff; assumption|]]].
  - intros E. split; [apply bl_append_toobig_iff; exact E|]. intros curs V.
    apply oracle_big_iff in E. rewrite E. apply append_toobig with curs. exact V.
  - intros k offs E. destruct (oracle_roll_count s evs k offs E) as [Hk Hb]. rewrite Hb.
    split; [reflexivity|]. split; [exact Hk|apply append_not_toobig].
  - intros E. assert (Hb : l1_big s evs = false).
    { destruct (l1_big s evs) eqn:Hb; [|reflexivity]. apply oracle_big_iff in Hb. congruence. }
    rewrite Hb. split; [reflexivity|apply append_not_toobig].
Qed.

(** "L1 theorem + L2 theorem": a well-formed transaction whose sizes are outside the known class and fit an empty
    segment (the premises of C19_fits), appended to any L1 store satisfying the invariant with the oracles computed
    from any well-formed L2 state: ByteLayout accepts and places it (C19_fits), the L1 append is decided by the
    reference with fits = true (append_sim), and — when the reference accepts — both layers seal the live segment
    together *)
Theorem l2_l1_composed st t s evs st' r :
  Inv st -> wf_txn t -> bl_wf s -> evs <> [] ->
  ~ known_c19 (bl_size s) evs -> fits (bl_size s) (bl_comp s) evs ->
  append st t (fst (l1_oracles s evs)) (snd (l1_oracles s evs)) = (st', r) ->
  snd (l1_oracles s evs) = false /\
  spec_append (abs_all st) t true = (abs_all st', r) /\ Inv st' /\
  exists k offs, snd (bl_append s evs) = BOk k offs /\ landed s (fst (bl_append s evs)) evs k offs /\
                 bl_wf (fst (bl_append s evs)) /\ k = (if fst (l1_oracles s evs) then 1 else 0) /\
                 (forall evs', r = inl evs' ->
                    length (sealed st') = (length (sealed st) + N.to_nat k)%nat /\
                    length (bl_sealed (fst (bl_append s evs))) = (length (bl_sealed s) + N.to_nat k)%nat).
Proof.
  intros I Wt W Hne Hk Hf Ea. cbn [l1_oracles fst snd] in *.
  destruct (bl_append_fits s evs W Hne Hk Hf) as (k & offs & E & Hl & W').
  destruct (oracle_roll_count s evs k offs E) as [Ek Hb]. rewrite Hb in *.
  destruct (append_sim st t _ false st' r I Wt Ea) as (Hs & I' & _).
  split; [reflexivity|]. split; [exact Hs|]. split; [exact I'|].
  exists k, offs. split; [exact E|]. split; [exact Hl|]. split; [exact W'|]. split; [exact Ek|].
  intros evs' ->. rewrite (append_sealed _ _ _ _ _ _ Ea), oracle_roll_sealed.
  destruct (l1_roll s evs); subst k; rewrite ?app_length; cbn; lia.
Qed.

(** * non-vacuity: the three ByteLayout outcomes and the oracles they give *)
Example oracles_examples :
  (* written in place *)
  l1_oracles (mkBL 131072 true [] 128000) [mkBev 2002 2100; mkBev 302 60; mkBev 12 0] = (false, false) /\
  (* estimate-based rollover *)
  l1_oracles (mkBL 131072 true [] 128600) [mkBev 2002 2100; mkBev 302 60; mkBev 12 0] = (true, false) /\
  (* second write after SegmentFull: the estimate (4227) fits the free space, the stored size (4255) does not *)
  l1_oracles (mkBL 131072 true [] 126830) [mkBev 2002 2100; mkBev 2002 2100] = (true, false) /\
  snd (bl_append (mkBL 131072 true [] 126830) [mkBev 2002 2100; mkBev 2002 2100]) = BOk 1 [48; 2157] /\
  (* EventsExceedSegmentSize *)
  l1_oracles (mkBL 131072 true [] 5000) wit_c_txn = (false, true) /\
  (* SegmentFull for good: L1 has big = false *)
  l1_oracles (bl_init 131072 true) wit_b_txn = (false, false) /\
  snd (bl_append (bl_init 131072 true) wit_b_txn) = BFull /\
  l2_segment_full 131072 true wit_b_txn /\
  (* ... and with a rollover that seals a segment for nothing *)
  l1_oracles (mkBL 131072 true [] 5000) wit_b_txn = (true, false) /\
  bl_append (mkBL 131072 true [] 5000) wit_b_txn = (mkBL 131072 true [5000] 48, BFull).
Proof.
  unfold l2_segment_full, known_c19, fits. vm_compute.
  repeat split; try reflexivity; intros H; first [discriminate H|apply H; reflexivity].
Qed.
