(** Well-formedness of record lists, the log-level invariant [good_log] and the store
    invariant [Inv] used by the simulation proof (Proofs/StoreSimProofs.v) between the
    concrete store (Model/Store.v) and the abstract event log (Model/StoreSpec.v).
    Definitions and basic lemmas only. *)
From Coq Require Import NArith List Bool Lia Arith.
From SV Require Import Model.Store.
Import ListNotations.
Open Scope N_scope.

(** * 1. lists *)
Lemma app_eq_len {A} (l1 l2 m1 m2 : list A) :
  l1 ++ l2 = m1 ++ m2 -> length l1 = length m1 -> l1 = m1 /\ l2 = m2.
Proof.
  revert m1; induction l1 as [|x l1 IH]; intros [|y m1] H L; cbn in *; try discriminate.
  - split; [reflexivity|assumption].
  - injection H as -> H. injection L as L. destruct (IH _ H L) as [-> ->]. split; reflexivity.
Qed.

Definition prefix {A} (l1 l2 : list A) : Prop := exists r, l2 = l1 ++ r.

Lemma prefix_refl {A} (l : list A) : prefix l l.
Proof. exists []. rewrite app_nil_r. reflexivity. Qed.
Lemma prefix_trans {A} (a b c : list A) : prefix a b -> prefix b c -> prefix a c.
Proof. intros [r ->] [r' ->]. exists (r ++ r'). rewrite app_assoc. reflexivity. Qed.
Lemma prefix_app {A} (a b c : list A) : prefix b c -> prefix (a ++ b) (a ++ c).
Proof. intros [r ->]. exists r. rewrite app_assoc. reflexivity. Qed.
Lemma prefix_app_r {A} (a b : list A) : prefix a (a ++ b).
Proof. exists b. reflexivity. Qed.
Lemma prefix_concat {A} (a b : list (list A)) : prefix a b -> prefix (concat a) (concat b).
Proof. intros [r ->]. exists (concat r). apply concat_app. Qed.
Lemma prefix_In {A} (a b : list A) x : prefix a b -> In x a -> In x b.
Proof. intros [r ->] H. apply in_or_app. left. assumption. Qed.

Lemma last_map {A B} (f : A -> B) (l : list A) (d : A) : last (map f l) (f d) = f (last l d).
Proof.
  induction l as [|x l IH]; [reflexivity|]. destruct l as [|y l]; [reflexivity|].
  change (last (map f (y :: l)) (f d) = f (last (y :: l) d)). exact IH.
Qed.

Lemma last_cons_cons {A} (x y : A) l d : last (x :: y :: l) d = last (y :: l) d.
Proof. reflexivity. Qed.

Lemma last_cons_default {A} (l : list A) : forall x d, last (x :: l) d = last l x.
Proof.
  induction l as [|z l IH]; intros x d; [reflexivity|].
  rewrite last_cons_cons. rewrite IH. symmetry. apply IH.
Qed.

Lemma last_app_cons {A} (l1 : list A) (x : A) (l2 : list A) (d : A) :
  last (l1 ++ x :: l2) d = last l2 x.
Proof.
  induction l1 as [|y l1 IH]; cbn [app]; [apply last_cons_default|].
  destruct (l1 ++ x :: l2) eqn:E; [destruct l1; discriminate|].
  rewrite last_cons_cons. exact IH.
Qed.

(** * 2. consecutive numbers *)
Fixpoint nseq (a : N) (n : nat) : list N :=
  match n with O => [] | S n => a :: nseq (a + 1) n end.

Lemma nseq_length a n : length (nseq a n) = n.
Proof. revert a; induction n as [|n IH]; intros a; cbn; [reflexivity|]. rewrite IH. reflexivity. Qed.

Lemma nseq_app a n m : nseq a (n + m) = nseq a n ++ nseq (a + N.of_nat n) m.
Proof.
  revert a; induction n as [|n IH]; intros a.
  - cbn [Nat.add nseq app]. replace (a + N.of_nat 0) with a by lia. reflexivity.
  - cbn [Nat.add nseq app]. rewrite IH. do 3 f_equal. lia.
Qed.

Lemma nseq_snoc a n : nseq a (S n) = nseq a n ++ [a + N.of_nat n].
Proof. replace (S n) with (n + 1)%nat by lia. rewrite nseq_app. reflexivity. Qed.

Lemma fold_max_nseq n : forall a d, d <= a -> fold_left N.max (nseq a (S n)) d = a + N.of_nat n.
Proof.
  induction n as [|n IH]; intros a d H.
  - cbn. lia.
  - change (nseq a (S (S n))) with (a :: nseq (a + 1) (S n)). cbn [fold_left].
    rewrite IH by lia. lia.
Qed.

Lemma last_nseq n : forall a, last (nseq (a + 1) n) a = a + N.of_nat n.
Proof.
  induction n as [|n IH]; intros a; [cbn; lia|].
  change (nseq (a + 1) (S n)) with ((a + 1) :: nseq (a + 1 + 1) n).
  rewrite last_cons_default. rewrite IH. lia.
Qed.

Lemma nth_error_nseq n : forall a i, (i < n)%nat -> nth_error (nseq a n) i = Some (a + N.of_nat i).
Proof.
  induction n as [|n IH]; intros a i H; [lia|].
  destruct i as [|i]; cbn [nseq nth_error]; [f_equal; lia|].
  rewrite IH by lia. f_equal. lia.
Qed.

(** * 3. keyed gapless numbering: the [v]-values of the events with the same [k] are 0,1,2,… *)
Section Keyed.
  Variables (k v : event -> N).

  Definition kfilter (x : N) (evs : list event) : list event := filter (fun e => k e =? x) evs.
  Definition knext (evs : list event) (x : N) : N := N.of_nat (length (kfilter x evs)).
  Definition klast (evs : list event) (x : N) : option N :=
    match kfilter x evs with [] => None | y :: r => Some (v (last r y)) end.
  Definition gapless (evs : list event) : Prop :=
    forall x, map v (kfilter x evs) = nseq 0 (length (kfilter x evs)).

  Lemma kfilter_app x a b : kfilter x (a ++ b) = kfilter x a ++ kfilter x b.
  Proof. apply filter_app. Qed.

  Lemma knext_app a b x : knext (a ++ b) x = knext a x + knext b x.
  Proof. unfold knext. rewrite kfilter_app, app_length. lia. Qed.

  Lemma gapless_nil : gapless [].
  Proof. intros x. reflexivity. Qed.

  Lemma gapless_split a b x :
    gapless (a ++ b) ->
    map v (kfilter x a) = nseq 0 (length (kfilter x a)) /\
    map v (kfilter x b) = nseq (knext a x) (length (kfilter x b)).
  Proof.
    intros G. specialize (G x). rewrite kfilter_app, map_app, app_length, nseq_app in G.
    apply app_eq_len in G; [|rewrite map_length, nseq_length; reflexivity].
    destruct G as [G1 G2]. split; [exact G1|]. rewrite G2. unfold knext. f_equal.
  Qed.

  Lemma gapless_app_l a b : gapless (a ++ b) -> gapless a.
  Proof. intros G x. apply (gapless_split a b x G). Qed.

  Lemma gapless_seg a b x :
    gapless (a ++ b) -> map v (kfilter x b) = nseq (knext a x) (length (kfilter x b)).
  Proof. intros G. apply (gapless_split a b x G). Qed.

  Lemma gapless_snoc a e : gapless (a ++ [e]) <-> gapless a /\ v e = knext a (k e).
  Proof.
    split.
    - intros G. split; [exact (gapless_app_l _ _ G)|].
      pose proof (gapless_seg a [e] (k e) G) as H. unfold kfilter in H at 1 2. cbn [filter] in H.
      rewrite N.eqb_refl in H. cbn in H. injection H as H. exact H.
    - intros [G H] x. rewrite kfilter_app, map_app, app_length, nseq_app, G. f_equal.
      unfold kfilter at 1 3. cbn [filter]. destruct (k e =? x) eqn:E; [|reflexivity].
      apply N.eqb_eq in E. subst x. cbn. rewrite H. unfold knext. f_equal.
  Qed.

  Lemma klast_app a b x :
    klast (a ++ b) x = match klast b x with Some q => Some q | None => klast a x end.
  Proof.
    unfold klast. rewrite kfilter_app.
    destruct (kfilter x b) as [|y r]; [rewrite app_nil_r; reflexivity|].
    destruct (kfilter x a) as [|y' r']; [reflexivity|]. cbn [app].
    rewrite last_app_cons. reflexivity.
  Qed.

  Lemma klast_next evs x :
    gapless evs -> knext evs x = match klast evs x with Some q => q + 1 | None => 0 end.
  Proof.
    intros G. specialize (G x). unfold knext, klast.
    destruct (kfilter x evs) as [|y r]; [reflexivity|].
    rewrite <- (last_map v r y). cbn [map length] in G. injection G as Gy Gr.
    rewrite Gy, Gr. change 1 with (0 + 1) at 1. rewrite last_nseq.
    cbn [length]. lia.
  Qed.

  (** the largest value in a segment of the log is that of the segment's last event *)
  Lemma seg_max a b x y r :
    gapless (a ++ b) -> kfilter x b = y :: r ->
    fold_max (map v (y :: r)) (v y) = v (last r y).
  Proof.
    intros G E. pose proof (gapless_seg a b x G) as H. rewrite E in H.
    rewrite <- (last_map v r y). cbn [map length nseq] in H. injection H as Hy Hr.
    cbn [map]. rewrite Hr, Hy.
    change (knext a x :: nseq (knext a x + 1) (length r)) with (nseq (knext a x) (S (length r))).
    unfold fold_max. rewrite fold_max_nseq by lia. rewrite last_nseq. reflexivity.
  Qed.
End Keyed.

(** * 4. the abstract log: [good_log] *)
Lemma stream_state_eq evs sid :
  stream_state evs sid =
  match kfilter e_sid sid evs with
  | [] => None
  | x :: r => Some (e_pk (last r x), e_ver (last r x))
  end.
Proof. reflexivity. Qed.

Lemma partition_last_eq evs pid : partition_last evs pid = klast e_pid e_seq evs pid.
Proof. reflexivity. Qed.

Lemma stream_state_ver evs sid : option_map snd (stream_state evs sid) = klast e_sid e_ver evs sid.
Proof. rewrite stream_state_eq. unfold klast. destruct (kfilter e_sid sid evs); reflexivity. Qed.

Lemma stream_state_app a b sid :
  stream_state (a ++ b) sid =
  match stream_state b sid with Some r => Some r | None => stream_state a sid end.
Proof.
  rewrite !stream_state_eq, kfilter_app.
  destruct (kfilter e_sid sid b) as [|y r]; [rewrite app_nil_r; reflexivity|].
  destruct (kfilter e_sid sid a) as [|y' r']; [reflexivity|]. cbn [app].
  rewrite last_app_cons. reflexivity.
Qed.

Lemma kfilter_In k x evs e : In e (kfilter k x evs) <-> In e evs /\ k e = x.
Proof. unfold kfilter. rewrite filter_In, N.eqb_eq. reflexivity. Qed.

Lemma last_In {A} (l : list A) x : In (last l x) (x :: l).
Proof.
  revert x; induction l as [|y l IH]; intros x; [left; reflexivity|].
  rewrite <- (last_cons_default (y :: l) x x), last_cons_cons, last_cons_default.
  right. apply IH.
Qed.

Lemma stream_state_Some evs sid pk v :
  stream_state evs sid = Some (pk, v) ->
  exists e, In e evs /\ e_sid e = sid /\ e_pk e = pk /\ e_ver e = v.
Proof.
  rewrite stream_state_eq. destruct (kfilter e_sid sid evs) as [|y r] eqn:E; [discriminate|].
  intros H. injection H as <- <-. exists (last r y).
  assert (I : In (last r y) (kfilter e_sid sid evs)) by (rewrite E; apply last_In).
  apply kfilter_In in I. destruct I as [I1 I2]. repeat split; assumption.
Qed.

Lemma stream_state_None evs sid e : stream_state evs sid = None -> In e evs -> e_sid e <> sid.
Proof.
  rewrite stream_state_eq. destruct (kfilter e_sid sid evs) as [|y r] eqn:E; [|discriminate].
  intros _ I S. assert (I' : In e (kfilter e_sid sid evs)) by (apply kfilter_In; split; assumption).
  rewrite E in I'. destruct I'.
Qed.

Definition pk_consistent (evs : list event) : Prop :=
  forall e1 e2, In e1 evs -> In e2 evs -> e_sid e1 = e_sid e2 -> e_pk e1 = e_pk e2.

(** per stream the versions are 0,1,2,… in log order with one partition key;
    per partition the sequences are 0,1,2,… *)
Definition good_events (evs : list event) : Prop :=
  gapless e_sid e_ver evs /\ gapless e_pid e_seq evs /\ pk_consistent evs.

Definition good_group (g : list event) : Prop :=
  g <> [] /\
  (forall e e', In e g -> In e' g ->
     e_pk e = e_pk e' /\ e_pid e = e_pid e' /\ e_tx e = e_tx e' /\ e_flag e = e_flag e') /\
  (forall e, In e g -> e_flag e = true -> length g = 1%nat).

Definition good_log (l : alog) : Prop := Forall good_group l /\ good_events (all_events l).

Lemma good_events_nil : good_events [].
Proof. split; [apply gapless_nil|split; [apply gapless_nil|]]. intros ? ? []. Qed.

Lemma good_log_nil : good_log [].
Proof. split; [constructor|apply good_events_nil]. Qed.

Lemma good_events_app_l a b : good_events (a ++ b) -> good_events a.
Proof.
  intros (G1 & G2 & G3). split; [exact (gapless_app_l _ _ _ _ G1)|split; [exact (gapless_app_l _ _ _ _ G2)|]].
  intros e1 e2 I1 I2. apply G3; apply in_or_app; left; assumption.
Qed.

Lemma good_log_prefix (l1 l2 : alog) : prefix l1 l2 -> good_log l2 -> good_log l1.
Proof.
  intros [r ->] [F G]. split.
  - apply Forall_app in F. apply F.
  - unfold all_events in *. rewrite concat_app in G. exact (good_events_app_l _ _ G).
Qed.

Definition next_seq_of (evs : list event) (pid : N) : N :=
  match partition_last evs pid with Some q => q + 1 | None => 0 end.

Lemma next_seq_of_knext evs pid : good_events evs -> next_seq_of evs pid = knext e_pid evs pid.
Proof. intros (_ & G & _). unfold next_seq_of. rewrite partition_last_eq. symmetry. apply klast_next. exact G. Qed.

Lemma next_version_knext evs sid :
  good_events evs -> next_version (option_map snd (stream_state evs sid)) = knext e_sid evs sid.
Proof.
  intros (G & _ & _). rewrite stream_state_ver. rewrite (klast_next e_sid e_ver evs sid G).
  destruct (klast e_sid e_ver evs sid); reflexivity.
Qed.

Lemma good_events_snoc E e :
  good_events E ->
  e_ver e = next_version (option_map snd (stream_state E (e_sid e))) ->
  (forall pk v, stream_state E (e_sid e) = Some (pk, v) -> pk = e_pk e) ->
  e_seq e = next_seq_of E (e_pid e) ->
  good_events (E ++ [e]).
Proof.
  intros G Hv Hpk Hs. pose proof G as (G1 & G2 & G3). split; [|split].
  - apply gapless_snoc. split; [exact G1|]. rewrite Hv. apply next_version_knext. exact G.
  - apply gapless_snoc. split; [exact G2|]. rewrite Hs. apply next_seq_of_knext. exact G.
  - assert (K : forall e1, In e1 E -> e_sid e1 = e_sid e -> e_pk e1 = e_pk e).
    { intros e1 I1 S. destruct (stream_state E (e_sid e)) as [[pk v]|] eqn:SS.
      - destruct (stream_state_Some _ _ _ _ SS) as (e' & I' & S' & P' & _).
        rewrite <- (Hpk pk v eq_refl), <- P'. apply G3; [assumption|assumption|congruence].
      - exfalso. exact (stream_state_None _ _ _ SS I1 S). }
    intros e1 e2 I1 I2 S. apply in_app_or in I1. apply in_app_or in I2.
    destruct I1 as [I1|[<-|[]]], I2 as [I2|[<-|[]]].
    + apply G3; assumption.
    + apply K; assumption.
    + symmetry. apply K; [assumption|symmetry; assumption].
    + reflexivity.
Qed.

(** what [assign_versions] adds *)
Definition stamped (t : txn) (e : event) : Prop :=
  e_pk e = t_pk t /\ e_pid e = t_pid t /\ e_tx e = t_tx t /\ e_flag e = t_flag t.

Lemma assign_versions_good t news : forall evs seq acc out,
  good_events (evs ++ acc) -> seq = next_seq_of (evs ++ acc) (t_pid t) ->
  assign_versions evs t seq acc news = inl out ->
  good_events (evs ++ out) /\
  exists added, out = acc ++ added /\ Forall (stamped t) added /\
                map e_seq added = nseq seq (length news) /\
                map e_sid added = map n_sid news /\ map e_id added = map n_id news.
Proof.
  induction news as [|n rest IH]; intros evs seq acc out G Hseq H.
  - cbn in H. injection H as <-. split; [exact G|]. exists []. rewrite app_nil_r.
    repeat split; constructor.
  - cbn [assign_versions] in H.
    set (mk := fun v => mkEvent (n_id n) (t_pk t) (t_pid t) (t_tx t) (t_flag t) seq (n_sid n) v) in *.
    assert (STEP : forall v,
      v = next_version (option_map snd (stream_state (evs ++ acc) (n_sid n))) ->
      (forall pk v', stream_state (evs ++ acc) (n_sid n) = Some (pk, v') -> pk = t_pk t) ->
      assign_versions evs t (seq + 1) (acc ++ [mk v]) rest = inl out ->
      good_events (evs ++ out) /\
      exists added, out = acc ++ added /\ Forall (stamped t) added /\
                map e_seq added = nseq seq (length (n :: rest)) /\
                map e_sid added = map n_sid (n :: rest) /\ map e_id added = map n_id (n :: rest)).
    { intros v Hv Hpk H'.
      assert (G' : good_events (evs ++ acc ++ [mk v])).
      { rewrite app_assoc. apply good_events_snoc; [exact G|exact Hv|exact Hpk|exact Hseq]. }
      apply IH in H'; [|exact G'|].
      - destruct H' as (G'' & added & -> & F & S1 & S2 & S3). split; [exact G''|].
        exists (mk v :: added). rewrite <- app_assoc. split; [reflexivity|].
        split; [constructor; [repeat split|exact F]|]. cbn [map length nseq]. rewrite S1, S2, S3.
        repeat split.
      - rewrite app_assoc. unfold next_seq_of. rewrite !partition_last_eq, klast_app.
        unfold klast at 1, kfilter. cbn [filter]. change (e_pid (mk v)) with (t_pid t).
        rewrite N.eqb_refl. cbn [last]. change (e_seq (mk v)) with seq. reflexivity. }
    destruct (stream_state (evs ++ acc) (n_sid n)) as [[pk v]|] eqn:SS.
    + destruct (pk =? t_pk t) eqn:PK; cbn [negb] in H; [|discriminate].
      apply N.eqb_eq in PK. destruct (holds (n_expect n) (Some v)); [|discriminate].
      apply (STEP (v + 1)); [reflexivity| |exact H]. intros pk' v' E. injection E as <- _. exact PK.
    + destruct (holds (n_expect n) None); [|discriminate].
      apply (STEP 0); [reflexivity| |exact H]. intros ? ? E. discriminate E.
Qed.

(** hypothesis on client transactions (Transaction::new): at least one event, and the
    single-event flag only on single-event transactions *)
Definition wf_txn (t : txn) : Prop :=
  t_events t <> [] /\ (t_flag t = true -> length (t_events t) = 1%nat).

Lemma spec_append_reject l t fits l' r : spec_append l t fits = (l', inr r) -> l' = l.
Proof.
  unfold spec_append. destruct (assign_versions _ _ _ _ _); [|intros H; injection H as <- _; reflexivity].
  destruct (negb fits); [intros H; injection H as <- _; reflexivity|].
  destruct (negb (holds _ _)); [intros H; injection H as <- _; reflexivity|].
  destruct (negb (forallb _ _)); [intros H; injection H as <- _; reflexivity|].
  intros H; discriminate H.
Qed.

Lemma spec_append_accept l t fits l' evs :
  good_log l -> wf_txn t -> spec_append l t fits = (l', inl evs) ->
  l' = l ++ [evs] /\ good_log l' /\ Forall (stamped t) evs /\
  map e_seq evs = nseq (next_seq_of (all_events l) (t_pid t)) (length (t_events t)) /\
  map e_sid evs = map n_sid (t_events t) /\ map e_id evs = map n_id (t_events t) /\
  fits = true /\ holds (t_xseq t) (partition_last (all_events l) (t_pid t)) = true /\
  forallb n_ts_ok (t_events t) = true.
Proof.
  intros [GF GE] [W1 W2]. unfold spec_append.
  destruct (assign_versions _ _ _ _ _) as [news|] eqn:AV; [|intros H; discriminate H].
  destruct fits; cbn [negb]; [|intros H; discriminate H].
  destruct (holds _ _); cbn [negb]; [|intros H; discriminate H].
  destruct (forallb _ _); cbn [negb]; [|intros H; discriminate H].
  intros H. injection H as <- <-.
  apply assign_versions_good in AV; [|rewrite app_nil_r; exact GE|rewrite app_nil_r; reflexivity].
  destruct AV as (G & added & E & F & S1 & S2 & S3). cbn [app] in E. subst added.
  split; [reflexivity|]. split; [|repeat split; assumption].
  split.
  - apply Forall_app. split; [exact GF|]. constructor; [|constructor].
    assert (L : length news = length (t_events t)) by (rewrite <- (map_length e_sid), S2, map_length; reflexivity).
    rewrite Forall_forall in F. split; [|split].
    + intros ->. destruct (t_events t); [apply W1; reflexivity|discriminate L].
    + intros e e' I I'. destruct (F _ I) as (-> & -> & -> & ->), (F _ I') as (-> & -> & -> & ->).
      repeat split.
    + intros e I Fl. rewrite L. apply W2. destruct (F _ I) as (_ & _ & _ & <-). exact Fl.
  - unfold all_events. rewrite concat_app. cbn [concat]. rewrite app_nil_r. exact G.
Qed.

(** * 5. record lists made of whole groups *)
Fixpoint rec_events (recs : list rec) : list event :=
  match recs with
  | [] => []
  | REvent e :: r => e :: rec_events r
  | RCommit _ _ :: r => rec_events r
  end.

Lemma rec_events_app a b : rec_events (a ++ b) = rec_events a ++ rec_events b.
Proof. induction a as [|[e|tx c] a IH]; cbn; [reflexivity| |]; rewrite IH; reflexivity. Qed.

Lemma rec_events_map es : rec_events (map REvent es) = es.
Proof. induction es as [|e es IH]; cbn; [reflexivity|]. rewrite IH. reflexivity. Qed.

Lemma hydrate_events recs : forall off, map i_ev (hydrate_from recs off) = rec_events recs.
Proof. induction recs as [|[e|tx c] r IH]; intros off; cbn; [reflexivity| |]; rewrite IH; reflexivity. Qed.

Lemma hydrate_app a : forall b off,
  hydrate_from (a ++ b) off = hydrate_from a off ++ hydrate_from b (off + length a).
Proof.
  induction a as [|[e|tx c] a IH]; intros b off; cbn [app hydrate_from length].
  - rewrite Nat.add_0_r. reflexivity.
  - rewrite IH. cbn [app]. do 3 f_equal. lia.
  - rewrite IH. do 2 f_equal. lia.
Qed.

Lemma hydrate_map es : forall off, hydrate_from (map REvent es) off = entries_from es off.
Proof. induction es as [|e es IH]; intros off; cbn; [reflexivity|]. rewrite IH. reflexivity. Qed.

Lemma entries_events es : forall off, map i_ev (entries_from es off) = es.
Proof. induction es as [|e es IH]; intros off; cbn; [reflexivity|]. rewrite IH. reflexivity. Qed.

(** the records of one committed group: a flagged single event, or unflagged events of one
    transaction followed by its commit record (the count is not checked by any reader) *)
Inductive wf_group : list rec -> list event -> Prop :=
  | wfg_single e : e_flag e = true -> wf_group [REvent e] [e]
  | wfg_multi es tx c :
      es <> [] -> Forall (fun e => e_flag e = false /\ e_tx e = tx) es ->
      wf_group (map REvent es ++ [RCommit tx c]) es.

Inductive wf_recs : list rec -> list (list event) -> Prop :=
  | wfr_nil : wf_recs [] []
  | wfr_cons r g rs gs : wf_group r g -> wf_recs rs gs -> wf_recs (r ++ rs) (g :: gs).

(** events written without their commit record (a torn transaction) *)
Definition torn (recs : list rec) : Prop :=
  exists es, recs = map REvent es /\ Forall (fun e => e_flag e = false) es.

Lemma wf_recs_app r1 g1 r2 g2 : wf_recs r1 g1 -> wf_recs r2 g2 -> wf_recs (r1 ++ r2) (g1 ++ g2).
Proof.
  induction 1 as [|r g rs gs Hg Hr IH]; intros H2; [exact H2|].
  rewrite <- app_assoc. cbn [app]. constructor; [exact Hg|apply IH; exact H2].
Qed.

Lemma wf_recs_one r g : wf_group r g -> wf_recs r [g].
Proof. intros H. rewrite <- (app_nil_r r). constructor; [exact H|constructor]. Qed.

Lemma wf_group_nonempty r g : wf_group r g -> r <> [] /\ g <> [].
Proof.
  destruct 1 as [e F|es tx c NE F]; [split; discriminate|]. split; [|exact NE].
  destruct es; [contradiction|discriminate].
Qed.

Lemma wf_recs_nil_inv r : wf_recs r [] -> r = [].
Proof. inversion 1. reflexivity. Qed.

Lemma wf_group_events r g : wf_group r g -> rec_events r = g.
Proof.
  destruct 1 as [e F|es tx c NE F]; [reflexivity|].
  rewrite rec_events_app, rec_events_map. cbn. apply app_nil_r.
Qed.

Lemma wf_recs_events r gs : wf_recs r gs -> rec_events r = concat gs.
Proof.
  induction 1 as [|r g rs gs Hg Hr IH]; [reflexivity|].
  rewrite rec_events_app, (wf_group_events _ _ Hg), IH. reflexivity.
Qed.

(** ** [groups] on whole groups *)
Lemma groups_loop_events es tx : Forall (fun e => e_flag e = false /\ e_tx e = tx) es ->
  forall rest cur, groups_loop (map REvent es ++ rest) cur (Some tx) = groups_loop rest (cur ++ es) (Some tx).
Proof.
  induction 1 as [|e es [F T] _ IH]; intros rest cur; [rewrite app_nil_r; reflexivity|].
  cbn [map app groups_loop]. rewrite F, T, N.eqb_refl. rewrite IH, <- app_assoc. reflexivity.
Qed.

Lemma groups_loop_group r g rest : wf_group r g ->
  groups_loop (r ++ rest) [] None = g :: groups_loop rest [] None.
Proof.
  destruct 1 as [e F|es tx c NE F].
  - cbn [app groups_loop]. rewrite F. reflexivity.
  - destruct es as [|e es]; [contradiction|]. inversion F as [|? ? [Fe Te] F']; subst.
    cbn [map app groups_loop]. rewrite Fe. rewrite <- app_assoc, groups_loop_events by exact F'.
    cbn [app groups_loop]. rewrite N.eqb_refl. reflexivity.
Qed.

Lemma groups_loop_wf r gs rest : wf_recs r gs ->
  groups_loop (r ++ rest) [] None = gs ++ groups_loop rest [] None.
Proof.
  induction 1 as [|r g rs gs Hg Hr IH]; [reflexivity|].
  rewrite <- app_assoc, (groups_loop_group _ _ _ Hg), IH. reflexivity.
Qed.

Lemma groups_wf r gs : wf_recs r gs -> groups r = gs.
Proof.
  intros H. unfold groups. rewrite <- (app_nil_r r), (groups_loop_wf _ _ _ H). cbn. apply app_nil_r.
Qed.

Lemma groups_loop_torn es : Forall (fun e => e_flag e = false) es ->
  forall cur ptx, groups_loop (map REvent es) cur ptx = [].
Proof.
  induction 1 as [|e es F _ IH]; intros cur ptx; [reflexivity|].
  cbn [map groups_loop]. rewrite F. destruct (match ptx with Some p => e_tx e =? p | None => false end); apply IH.
Qed.

Lemma groups_wf_torn r gs p : wf_recs r gs -> torn p -> groups (r ++ p) = gs.
Proof.
  intros H (es & -> & F). unfold groups. rewrite (groups_loop_wf _ _ _ H), groups_loop_torn by exact F.
  apply app_nil_r.
Qed.

(** ** [complete_prefix] *)
Lemma cp_loop_events es tx : Forall (fun e => e_flag e = false /\ e_tx e = tx) es ->
  forall rest off good n,
    cp_loop (map REvent es ++ rest) off good (Some (tx, n)) =
    cp_loop rest (off + length es) good (Some (tx, (n + length es)%nat)).
Proof.
  induction 1 as [|e es [F T] _ IH]; intros rest off good n.
  - cbn [map app length]. rewrite !Nat.add_0_r. reflexivity.
  - cbn [map app cp_loop length]. rewrite F, T, N.eqb_refl, IH. f_equal; [lia|do 2 f_equal; lia].
Qed.

Lemma cp_loop_group r g rest off good : wf_group r g ->
  cp_loop (r ++ rest) off good None = cp_loop rest (off + length r) (off + length r) None.
Proof.
  destruct 1 as [e F|es tx c NE F].
  - cbn [app cp_loop length]. rewrite F. f_equal; lia.
  - destruct es as [|e es]; [contradiction|]. inversion F as [|? ? [Fe Te] F']; subst.
    assert (L : length (map REvent (e :: es) ++ [RCommit (e_tx e) c]) = S (S (length es)))
      by (rewrite app_length, map_length; cbn [length]; lia).
    rewrite L. clear L.
    cbn [map app cp_loop]. rewrite Fe. rewrite <- app_assoc, cp_loop_events by exact F'.
    cbn [app cp_loop]. rewrite N.eqb_refl. f_equal; lia.
Qed.

Lemma cp_loop_wf r gs : wf_recs r gs -> forall rest off,
  cp_loop (r ++ rest) off off None = cp_loop rest (off + length r) (off + length r) None.
Proof.
  induction 1 as [|r g rs gs Hg Hr IH]; intros rest off.
  - cbn [app length]. rewrite Nat.add_0_r. reflexivity.
  - rewrite <- app_assoc, (cp_loop_group _ _ _ _ _ Hg), IH, app_length. f_equal; lia.
Qed.

Lemma cp_loop_torn es : Forall (fun e => e_flag e = false) es ->
  forall off good o, cp_loop (map REvent es) off good o = good.
Proof.
  induction 1 as [|e es F _ IH]; intros off good o; [reflexivity|].
  cbn [map cp_loop]. rewrite F. destruct o as [[tx n]|]; [destruct (e_tx e =? tx)|]; apply IH.
Qed.

Lemma complete_prefix_wf_torn r gs p : wf_recs r gs -> torn p -> complete_prefix (r ++ p) = length r.
Proof.
  intros H (es & -> & F). unfold complete_prefix. rewrite (cp_loop_wf _ _ H). cbn [Nat.add].
  apply cp_loop_torn. exact F.
Qed.

Lemma complete_prefix_wf r gs : wf_recs r gs -> complete_prefix r = length r.
Proof.
  intros H. rewrite <- (app_nil_r r) at 1. apply (complete_prefix_wf_torn _ _ _ H).
  exists []. split; [reflexivity|constructor].
Qed.

(** ** cutting a well-formed record list: whole groups, then a torn transaction *)
Lemma firstn_map_REvent n es : firstn n (map REvent es) = map REvent (firstn n es).
Proof. revert es; induction n as [|n IH]; intros [|e es]; cbn; try reflexivity. rewrite IH. reflexivity. Qed.

Lemma wf_group_cut r g n : wf_group r g -> (n < length r)%nat -> torn (firstn n r).
Proof.
  destruct 1 as [e F|es tx c NE F]; intros L.
  - cbn in L. replace n with 0%nat by lia. exists []. split; [reflexivity|constructor].
  - rewrite app_length, map_length in L. cbn [length] in L.
    rewrite firstn_app, map_length. replace (n - length es)%nat with 0%nat by lia.
    cbn [firstn]. rewrite app_nil_r, firstn_map_REvent. exists (firstn n es). split; [reflexivity|].
    apply Forall_forall. intros e I. rewrite Forall_forall in F. apply F.
    rewrite <- (firstn_skipn n es). apply in_or_app. left. exact I.
Qed.

Lemma wf_recs_cut r gs : wf_recs r gs -> forall n,
  exists r1 g1 g2 p, firstn n r = r1 ++ p /\ wf_recs r1 g1 /\ torn p /\ gs = g1 ++ g2 /\
                     (length r <= n -> g2 = [])%nat.
Proof.
  induction 1 as [|r g rs gs Hg Hr IH]; intros n.
  - exists [], [], [], []. rewrite firstn_nil. repeat split; try constructor.
    exists []. split; [reflexivity|constructor].
  - destruct (Nat.lt_ge_cases n (length r)) as [L|L].
    + exists [], [], (g :: gs), (firstn n r). rewrite firstn_app. replace (n - length r)%nat with 0%nat by lia.
      cbn [firstn app]. rewrite app_nil_r. repeat split; [constructor|exact (wf_group_cut _ _ _ Hg L)|].
      rewrite app_length. intros. lia.
    + destruct (IH (n - length r)%nat) as (r1 & g1 & g2 & p & E & W & T & -> & Lg).
      exists (r ++ r1), (g :: g1), g2, p. rewrite firstn_app, E, firstn_all2 by exact L.
      rewrite app_assoc. repeat split; [constructor; assumption|exact T|].
      rewrite app_length. intros. apply Lg. lia.
Qed.

(** ** [read_committed] at the offset of an event of a whole group *)
Fixpoint with_offs (off : nat) (es : list event) : list (nat * event) :=
  match es with [] => [] | e :: r => (off, e) :: with_offs (S off) r end.

Lemma with_offs_snd es : forall off, map snd (with_offs off es) = es.
Proof. induction es as [|e es IH]; intros off; cbn; [reflexivity|]. rewrite IH. reflexivity. Qed.

Lemma rc_loop_events es tx : Forall (fun e => e_flag e = false /\ e_tx e = tx) es ->
  forall rest off events,
    rc_loop (map REvent es ++ rest) off events (Some tx) =
    rc_loop rest (off + length es) (events ++ with_offs off es) (Some tx).
Proof.
  induction 1 as [|e es [F T] _ IH]; intros rest off events.
  - cbn [map app length with_offs]. rewrite Nat.add_0_r, app_nil_r. reflexivity.
  - cbn [map app rc_loop length with_offs]. rewrite F, T, N.eqb_refl, IH, <- app_assoc.
    cbn [app]. f_equal. lia.
Qed.

Lemma nth_error_skipn_cons {A} (l : list A) : forall i x,
  nth_error l i = Some x -> exists l', skipn i l = x :: l'.
Proof.
  induction l as [|y l IH]; intros [|i] x H; cbn in H; try discriminate.
  - injection H as ->. exists l. reflexivity.
  - apply IH in H. exact H.
Qed.

Lemma skipn_map_REvent n es : skipn n (map REvent es) = map REvent (skipn n es).
Proof. revert es; induction n as [|n IH]; intros [|e es]; cbn; try reflexivity. apply IH. Qed.

Lemma wf_group_length r g : wf_group r g -> (length g <= length r)%nat.
Proof. destruct 1; [cbn; lia|]. rewrite app_length, map_length. lia. Qed.

Lemma rc_group r g i e off : wf_group r g -> nth_error g i = Some e ->
  exists c, committed_events c = skipn i g /\
            forall rest, fst (rc_loop (skipn i r ++ rest) off [] None) = Some c.
Proof.
  destruct 1 as [e0 F|es tx c NE F]; intros H.
  - destruct i as [|[|i]]; cbn in H; try discriminate. injection H as <-.
    exists (CSingle off e0). split; [reflexivity|]. intros rest. cbn [skipn app rc_loop]. rewrite F. reflexivity.
  - destruct (nth_error_skipn_cons _ _ _ H) as [es' E].
    assert (F' : Forall (fun e => e_flag e = false /\ e_tx e = tx) (e :: es')).
    { rewrite <- E. apply Forall_forall. intros x I. rewrite Forall_forall in F. apply F.
      rewrite <- (firstn_skipn i es). apply in_or_app. right. exact I. }
    inversion F' as [|? ? [Fe Te] F'']; subst.
    exists (CTxn ([(off, e)] ++ with_offs (S off) es') (e_tx e) c). split.
    + cbn [committed_events app map snd]. rewrite with_offs_snd, E. reflexivity.
    + intros rest. assert (L : (i < length es)%nat) by (apply nth_error_Some; congruence).
      rewrite skipn_app, map_length. replace (i - length es)%nat with 0%nat by lia.
      rewrite skipn_map_REvent, E. cbn [skipn map app rc_loop]. rewrite Fe.
      rewrite <- app_assoc, rc_loop_events by exact F''.
      cbn [app rc_loop]. rewrite N.eqb_refl. reflexivity.
Qed.

Lemma read_committed_at A r g R i e : wf_group r g -> nth_error g i = Some e ->
  exists c, committed_events c = skipn i g /\
            forall X, fst (read_committed (A ++ r ++ R ++ X) (length A + i)) = Some c.
Proof.
  intros Hg H. destruct (rc_group r g i e (length A + i) Hg H) as (c & C1 & C2).
  exists c. split; [exact C1|]. intros X. unfold read_committed.
  assert (L : (i < length r)%nat).
  { pose proof (wf_group_length _ _ Hg). assert (i < length g)%nat by (apply nth_error_Some; congruence). lia. }
  rewrite skipn_app, skipn_all2 by lia. replace (length A + i - length A)%nat with i by lia.
  cbn [app]. rewrite skipn_app. replace (i - length r)%nat with 0%nat by lia. cbn [skipn].
  apply C2.
Qed.

(** ** index entries of whole groups *)
Lemma wf_group_hydrate r g off : wf_group r g -> hydrate_from r off = entries_from g off.
Proof.
  destruct 1 as [e F|es tx c NE F]; [reflexivity|].
  rewrite hydrate_app, hydrate_map. cbn. apply app_nil_r.
Qed.

Lemma entries_from_app a : forall b off,
  entries_from (a ++ b) off = entries_from a off ++ entries_from b (off + length a).
Proof.
  induction a as [|e a IH]; intros b off; cbn [app entries_from length].
  - rewrite Nat.add_0_r. reflexivity.
  - rewrite IH. cbn [app]. do 3 f_equal. lia.
Qed.

Lemma entries_from_In es : forall off en, In en (entries_from es off) ->
  exists i, i_off en = (off + i)%nat /\ nth_error es i = Some (i_ev en).
Proof.
  induction es as [|e es IH]; intros off en I; [destruct I|]. destruct I as [<-|I].
  - exists 0%nat. split; [cbn; lia|reflexivity].
  - destruct (IH _ _ I) as (i & O & Nt). exists (S i). split; [lia|exact Nt].
Qed.

(** every index entry of a whole-group record list points into one of its groups *)
Lemma hydrate_locate recs gs : wf_recs recs gs -> forall off0 en, In en (hydrate_from recs off0) ->
  exists A gA r g R gR i,
    recs = A ++ r ++ R /\ wf_recs A gA /\ wf_group r g /\ wf_recs R gR /\ gs = gA ++ g :: gR /\
    i_off en = (off0 + length A + i)%nat /\ nth_error g i = Some (i_ev en).
Proof.
  induction 1 as [|r g rs gs Hg Hr IH]; intros off0 en I; [destruct I|].
  rewrite hydrate_app in I. apply in_app_or in I. destruct I as [I|I].
  - rewrite (wf_group_hydrate _ _ _ Hg) in I. destruct (entries_from_In _ _ _ I) as (i & O & Nt).
    exists [], [], r, g, rs, gs, i. cbn [app length]. repeat split; try assumption; [constructor|lia].
  - destruct (IH _ _ I) as (A & gA & r' & g' & R & gR & i & -> & WA & Wg & WR & -> & O & Nt).
    exists (r ++ A), (g :: gA), r', g', R, gR, i. rewrite <- app_assoc.
    repeat split; try assumption; [constructor; assumption|]. rewrite app_length. lia.
Qed.

Lemma wf_recs_split recs gA g gR : wf_recs recs (gA ++ g :: gR) ->
  exists A r R, recs = A ++ r ++ R /\ wf_recs A gA /\ wf_group r g /\ wf_recs R gR.
Proof.
  revert recs; induction gA as [|g0 gA IH]; intros recs H; cbn [app] in H; inversion H; subst.
  - exists [], r, rs. repeat split; [constructor|assumption|assumption].
  - destruct (IH _ H4) as (A & r' & R & -> & WA & Wg & WR).
    exists (r ++ A), r', R. rewrite <- app_assoc. repeat split; [constructor; assumption|assumption|assumption].
Qed.

(** ** the event index: the last entry wins; with unique ids it is the only one *)
Lemma eidx_get_In idx id off : eidx_get idx id = Some off ->
  exists en, In en idx /\ e_id (i_ev en) = id /\ i_off en = off.
Proof.
  unfold eidx_get. destruct (filter _ idx) as [|x r] eqn:E; [discriminate|]. intros H. injection H as <-.
  assert (I : In (last r x) (filter (fun en => e_id (i_ev en) =? id) idx)) by (rewrite E; apply last_In).
  apply filter_In in I. destruct I as [I1 I2]. apply N.eqb_eq in I2. exists (last r x). repeat split; assumption.
Qed.

Lemma eidx_get_None idx id en : eidx_get idx id = None -> In en idx -> e_id (i_ev en) <> id.
Proof.
  unfold eidx_get. destruct (filter _ idx) as [|x r] eqn:E; [|discriminate]. intros _ I Hid.
  assert (I' : In en (filter (fun en => e_id (i_ev en) =? id) idx)) by (apply filter_In; split; [exact I|apply N.eqb_eq; exact Hid]).
  rewrite E in I'. destruct I'.
Qed.

Lemma filter_none {A} (f : A -> bool) l : (forall x, In x l -> f x = false) -> filter f l = [].
Proof.
  induction l as [|y l IH]; intros H; [reflexivity|]. cbn. rewrite (H y (or_introl eq_refl)).
  apply IH. intros x I. apply H. right. exact I.
Qed.

Lemma eidx_get_unique i1 en i2 :
  NoDup (map (fun en => e_id (i_ev en)) (i1 ++ en :: i2)) ->
  eidx_get (i1 ++ en :: i2) (e_id (i_ev en)) = Some (i_off en).
Proof.
  intros ND. unfold eidx_get. rewrite filter_app. cbn [filter]. rewrite N.eqb_refl.
  rewrite map_app in ND. cbn [map] in ND. pose proof (NoDup_remove_2 _ _ _ ND) as NI.
  rewrite (filter_none _ i1), (filter_none _ i2); [reflexivity| |].
  - intros x I. apply N.eqb_neq. intros E. apply NI. apply in_or_app. right.
    rewrite <- E. apply (in_map (fun en => e_id (i_ev en))). exact I.
  - intros x I. apply N.eqb_neq. intros E. apply NI. apply in_or_app. left.
    rewrite <- E. apply (in_map (fun en => e_id (i_ev en))). exact I.
Qed.

(** * 6. index lookups against the abstract state *)
Lemma filter_map_ev (p : event -> bool) idx :
  map i_ev (filter (fun en => p (i_ev en)) idx) = filter p (map i_ev idx).
Proof. induction idx as [|en idx IH]; [reflexivity|]. cbn. destruct (p (i_ev en)); cbn; rewrite IH; reflexivity. Qed.

Lemma pending_stream_spec p sid : pending_stream p sid = stream_state (map i_ev p) sid.
Proof.
  unfold pending_stream. rewrite stream_state_eq. unfold kfilter.
  rewrite <- (filter_map_ev (fun e => e_sid e =? sid)).
  destruct (filter _ p) as [|x r]; [reflexivity|]. cbn [map]. rewrite last_map. reflexivity.
Qed.

Lemma kidx_max (k v : event -> N) A idx x0 :
  gapless k v (A ++ map i_ev idx) ->
  match filter (fun en => k (i_ev en) =? x0) idx with
  | [] => None
  | x :: r => Some (fold_max (map (fun en => v (i_ev en)) (x :: r)) (v (i_ev x)))
  end = klast k v (map i_ev idx) x0.
Proof.
  intros G. unfold klast.
  pose proof (filter_map_ev (fun e => k e =? x0) idx) as E. fold (kfilter k x0 (map i_ev idx)) in E.
  destruct (filter _ idx) as [|x r]; cbn [map] in E; rewrite <- E; [reflexivity|].
  f_equal. rewrite <- (seg_max k v A (map i_ev idx) x0 (i_ev x) (map i_ev r) G (eq_sym E)).
  cbn [map]. rewrite map_map. reflexivity.
Qed.

Lemma sidx_lookup A idx sid :
  gapless e_sid e_ver (A ++ map i_ev idx) -> pk_consistent (A ++ map i_ev idx) ->
  match sidx_get idx sid with Some k => Some (k_pk k, k_max k) | None => None end
  = stream_state (map i_ev idx) sid.
Proof.
  intros G P. pose proof (kidx_max e_sid e_ver A idx sid G) as M. rewrite <- stream_state_ver in M.
  unfold sidx_get. destruct (filter _ idx) as [|x r] eqn:E.
  - destruct (stream_state (map i_ev idx) sid); [discriminate M|reflexivity].
  - cbn [k_pk k_max]. destruct (stream_state (map i_ev idx) sid) as [[pk v]|] eqn:SS; [|discriminate M].
    cbn [option_map snd] in M.
    apply (f_equal (fun o => match o with Some a => a | None => 0 end)) in M. cbv beta iota in M.
    rewrite M. do 2 f_equal.
    destruct (stream_state_Some _ _ _ _ SS) as (e & I & S & <- & _).
    apply P; [apply in_or_app; right| |].
    + apply in_map. assert (I' : In x (filter (fun en => e_sid (i_ev en) =? sid) idx)) by (rewrite E; left; reflexivity).
      apply filter_In in I'. apply I'.
    + apply in_or_app; right; exact I.
    + assert (I' : In x (filter (fun en => e_sid (i_ev en) =? sid) idx)) by (rewrite E; left; reflexivity).
      apply filter_In in I'. destruct I' as [_ I']. apply N.eqb_eq in I'. congruence.
Qed.

Lemma pidx_lookup A idx pid :
  gapless e_pid e_seq (A ++ map i_ev idx) ->
  match pidx_get idx pid with Some k => Some (k_max k) | None => None end
  = partition_last (map i_ev idx) pid.
Proof.
  intros G. rewrite partition_last_eq, <- (kidx_max e_pid e_seq A idx pid G).
  unfold pidx_get. destruct (filter _ idx); reflexivity.
Qed.

Lemma partition_last_app a b pid :
  partition_last (a ++ b) pid =
  match partition_last b pid with Some q => Some q | None => partition_last a pid end.
Proof. rewrite !partition_last_eq. apply klast_app. Qed.

Lemma newest_first_snoc {A} (f : seg -> option A) segs g :
  newest_first f (rev (segs ++ [g])) =
  match f g with Some a => Some a | None => newest_first f (rev segs) end.
Proof. rewrite rev_app_distr. reflexivity. Qed.

(** * 7. the store invariant *)
Definition seg_events (g : seg) : list event := rec_events (s_recs g).

Definition seg_ok (g : seg) : Prop :=
  (exists gs, wf_recs (s_recs g) gs) /\ s_idx g = hydrate_from (s_recs g) 0.

Definition sealed_groups (s : store) : alog := concat (map (fun g => groups (s_recs g)) (sealed s)).

Lemma sealed_groups_events segs : Forall seg_ok segs ->
  concat (concat (map (fun g => groups (s_recs g)) segs)) = flat_map seg_events segs.
Proof.
  induction 1 as [|g segs [[gs W] _] _ IH]; [reflexivity|].
  cbn [map concat flat_map]. rewrite concat_app, IH, (groups_wf _ _ W). f_equal.
  symmetry. apply wf_recs_events. exact W.
Qed.

Lemma seg_ok_idx_events g : seg_ok g -> map i_ev (s_idx g) = seg_events g.
Proof. intros [_ ->]. apply hydrate_events. Qed.

Lemma sealed_stream sid segs :
  Forall seg_ok segs -> gapless e_sid e_ver (flat_map seg_events segs) ->
  pk_consistent (flat_map seg_events segs) ->
  newest_first (fun g => match sidx_get (s_idx g) sid with
                         | Some k => Some (k_pk k, k_max k) | None => None end) (rev segs)
  = stream_state (flat_map seg_events segs) sid.
Proof.
  induction segs as [|g segs IH] using rev_ind; intros F G P; [reflexivity|].
  apply Forall_app in F. destruct F as [F Fg]. inversion Fg as [|? ? Og _]; subst.
  rewrite newest_first_snoc. rewrite flat_map_app in *. cbn [flat_map] in *. rewrite app_nil_r in *.
  rewrite stream_state_app, <- (seg_ok_idx_events _ Og) in *.
  rewrite (sidx_lookup _ _ sid G P).
  destruct (stream_state (map i_ev (s_idx g)) sid); [reflexivity|].
  apply IH; [exact F|exact (gapless_app_l _ _ _ _ G)|].
  intros e1 e2 I1 I2. apply P; apply in_or_app; left; assumption.
Qed.

Lemma sealed_partition pid segs :
  Forall seg_ok segs -> gapless e_pid e_seq (flat_map seg_events segs) ->
  newest_first (fun g => match pidx_get (s_idx g) pid with
                         | Some k => Some (k_max k) | None => None end) (rev segs)
  = partition_last (flat_map seg_events segs) pid.
Proof.
  induction segs as [|g segs IH] using rev_ind; intros F G; [reflexivity|].
  apply Forall_app in F. destruct F as [F Fg]. inversion Fg as [|? ? Og _]; subst.
  rewrite newest_first_snoc. rewrite flat_map_app in *. cbn [flat_map] in *. rewrite app_nil_r in *.
  rewrite partition_last_app, <- (seg_ok_idx_events _ Og) in *.
  rewrite (pidx_lookup _ _ pid G).
  destruct (partition_last (map i_ev (s_idx g)) pid); [reflexivity|].
  apply IH; [exact F|exact (gapless_app_l _ _ _ _ G)].
Qed.

Record Inv (s : store) : Prop := mkInv {
  (* sealed segments: whole groups, fully indexed *)
  inv_sealed : Forall seg_ok (sealed s);
  (* the live segment: whole groups, and the published offset is a group boundary *)
  inv_pub : exists g1 g2, wf_recs (firstn (published s) (s_recs (live s))) g1 /\
                          wf_recs (skipn (published s) (s_recs (live s))) g2;
  inv_le : (published s <= synced s <= length (s_recs (live s)))%nat;
  (* the live index holds the published records, [pending] the rest *)
  inv_idx : s_idx (live s) = hydrate_from (firstn (published s) (s_recs (live s))) 0;
  inv_pending : pending s = hydrate_from (skipn (published s) (s_recs (live s))) (published s);
  (* the next-sequence cache agrees with the log and covers every partition with pending entries *)
  inv_next : forall pid n, assoc (nextseq s) pid = Some n -> n = next_seq_of (all_events (abs_all s)) pid;
  inv_next_pending : forall en, In en (pending s) -> assoc (nextseq s) (e_pid (i_ev en)) <> None;
  (* the written log is gapless *)
  inv_good : good_log (abs_all s)
}.

(** the abstraction functions through the invariant *)
Lemma Inv_view s : Inv s ->
  exists g1 g2,
    wf_recs (firstn (published s) (s_recs (live s))) g1 /\
    wf_recs (skipn (published s) (s_recs (live s))) g2 /\
    wf_recs (s_recs (live s)) (g1 ++ g2) /\
    abs_all s = sealed_groups s ++ g1 ++ g2 /\ abs_visible s = sealed_groups s ++ g1.
Proof.
  intros I. destruct (inv_pub s I) as (g1 & g2 & W1 & W2).
  assert (W : wf_recs (s_recs (live s)) (g1 ++ g2)).
  { rewrite <- (firstn_skipn (published s) (s_recs (live s))). apply wf_recs_app; assumption. }
  exists g1, g2. repeat split; try assumption.
  - unfold abs_all. rewrite (groups_wf _ _ W). reflexivity.
  - unfold abs_visible. rewrite (groups_wf _ _ W1). reflexivity.
Qed.

Lemma Inv_visible_prefix s : Inv s -> prefix (abs_visible s) (abs_all s).
Proof.
  intros I. destruct (Inv_view s I) as (g1 & g2 & _ & _ & _ & -> & ->). exists g2. rewrite app_assoc. reflexivity.
Qed.

Lemma Inv_events s : Inv s ->
  all_events (abs_visible s) = flat_map seg_events (sealed s) ++ map i_ev (s_idx (live s)) /\
  all_events (abs_all s) = (flat_map seg_events (sealed s) ++ map i_ev (s_idx (live s))) ++ map i_ev (pending s).
Proof.
  intros I. destruct (Inv_view s I) as (g1 & g2 & W1 & W2 & W & -> & ->).
  unfold all_events, sealed_groups. rewrite !concat_app, (sealed_groups_events _ (inv_sealed s I)).
  rewrite (inv_idx s I), (inv_pending s I), !hydrate_events.
  rewrite (wf_recs_events _ _ W1), (wf_recs_events _ _ W2). split; [reflexivity|]. rewrite app_assoc. reflexivity.
Qed.

Lemma Inv_init : Inv store_init.
Proof.
  constructor; cbn.
  - constructor.
  - exists [], []. split; constructor.
  - lia.
  - reflexivity.
  - reflexivity.
  - intros ? ? H; discriminate H.
  - intros ? [].
  - apply good_log_nil.
Qed.
