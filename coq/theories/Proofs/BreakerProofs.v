(** Invariants of the circuit-breaker transition system (Model/Breaker.v). Each invariant is a
    predicate on (atomics, ghost); it is shown to be preserved by every primitive effect, hence by
    one atomic step of an arbitrary thread at an arbitrary program counter with arbitrary
    registers, hence (induction over the step list) by every schedule. *)
From Coq Require Import NArith List Bool Lia ZifyBool ZifyN.
From SV Require Import Model.Breaker.
Import ListNotations.
Open Scope N_scope.

Ltac brk :=
  repeat match goal with
         | H : context [if ?b then _ else _] |- _ => destruct b eqn:?
         | |- context [if ?b then _ else _] => destruct b eqn:?
         end.

Ltac fields :=
  cbn [s_st s_fc s_lft s_lst s_hc s_hs g_admits g_lost g_peak g_kpeak g_wrapped g_panicked g_hist g_opens
       fst snd set_st set_fc set_lft set_lst set_hc set_hs g_panic g_wrap g_ev g_open g_episode g_admit g_lose] in *.

Ltac bools :=
  repeat match goal with
         | H : (_ =? _) = true |- _ => apply N.eqb_eq in H
         | H : (_ =? _) = false |- _ => apply N.eqb_neq in H
         | H : (_ <=? _) = true |- _ => apply N.leb_le in H
         | H : (_ <=? _) = false |- _ => apply N.leb_gt in H
         | H : (_ <? _) = true |- _ => apply N.ltb_lt in H
         | H : (_ <? _) = false |- _ => apply N.ltb_ge in H
         | H : (_ && _) = true |- _ => apply andb_prop in H; destruct H
         | H : (_ || _) = false |- _ => apply orb_false_elim in H; destruct H
         | H : negb _ = true |- _ => apply negb_true_iff in H
         | H : negb _ = false |- _ => apply negb_false_iff in H
         end.

Lemma mod_small_u32 : forall x, x < U32 -> x mod U32 = x.
Proof. intros. apply N.mod_small. assumption. Qed.

Lemma mod_le_u32 : forall x, x mod U32 <= x.
Proof. intros. apply N.mod_le. discriminate. Qed.

Global Opaque U32.

(** expose the primitive effects of one step *)
Ltac open_step H :=
  cbn [op_step] in H;
  repeat match type of H with
         | context [do_reset_calls ?m ?g] =>
             let E := fresh "E" in destruct (do_reset_calls m g) as [? ?] eqn:E
         | context [do_cas ?m ?g] =>
             let E := fresh "E" in destruct (do_cas m g) as [[? ?] ?] eqn:E
         end;
  lazymatch type of H with
  | do_count _ _ _ = _ => idtac
  | _ => brk; inversion H; subst; clear H
  end.

(* ------------------------------------------------------------------ probe bound *)

(** while no u32 counter has wrapped: no episode without a lost reset admitted more than max
    requests, and in the current episode every admitted request is still recorded in
    half_open_call_count *)
Definition inv_probe (c : bcfg) (m : bsh) (g : bgh) : Prop :=
  g_wrapped g = false ->
  g_peak g <= b_max c /\
  (g_lost g = false -> g_admits g <= b_max c /\ (s_st m = 2 -> g_admits g <= s_hc m)).

Section Probe.
  Variable c : bcfg.
  Ltac t := unfold inv_probe; intros; fields; auto.
  Lemma pr_lft : forall v m g, inv_probe c m g -> inv_probe c (set_lft v m) g. Proof. t. Qed.
  Lemma pr_lst : forall v m g, inv_probe c m g -> inv_probe c (set_lst v m) g. Proof. t. Qed.
  Lemma pr_fc : forall v m g, inv_probe c m g -> inv_probe c (set_fc v m) g. Proof. t. Qed.
  Lemma pr_hs : forall v m g, inv_probe c m g -> inv_probe c (set_hs v m) g. Proof. t. Qed.
  Lemma pr_panic : forall m g, inv_probe c m g -> inv_probe c m (g_panic g). Proof. t. Qed.
  Lemma pr_ev : forall e m g, inv_probe c m g -> inv_probe c m (g_ev e g). Proof. t. Qed.
  Lemma pr_open : forall o m g, inv_probe c m g -> inv_probe c m (g_open o g). Proof. t. Qed.
  Lemma pr_wrap : forall b m g, inv_probe c m g -> inv_probe c m (g_wrap b g).
  Proof. t. apply orb_false_elim in H0. destruct H0. auto. Qed.
  Lemma pr_st0 : forall m g, inv_probe c m g -> inv_probe c (set_st 0 m) g.
  Proof. t. destruct (H H0) as [A B]. split; auto. intros L. destruct (B L). split; auto. discriminate. Qed.
  Lemma pr_st1 : forall m g, inv_probe c m g -> inv_probe c (set_st 1 m) g.
  Proof. t. destruct (H H0) as [A B]. split; auto. intros L. destruct (B L). split; auto. discriminate. Qed.
  Lemma pr_cas : forall m g m' g' w, inv_probe c m g -> do_cas m g = (m', g', w) -> inv_probe c m' g'.
  Proof.
    unfold do_cas. intros. brk; inversion H0; subst; auto.
    unfold inv_probe in *; fields. intros W. destruct (H W) as [A _]. split; auto. intros _. split; lia.
  Qed.
  Lemma pr_reset : forall m g m' g', inv_probe c m g -> do_reset_calls m g = (m', g') -> inv_probe c m' g'.
  Proof.
    unfold do_reset_calls. intros. inversion H0; subst; clear H0.
    unfold inv_probe in *; fields. intros W. destruct (H W) as [A B]. split; auto.
    intros L. apply orb_false_elim in L. destruct L as [L1 L2]. destruct (B L1) as [B1 B2]. split; auto.
    intros S. rewrite S in L2. cbn in L2. bools. lia.
  Qed.
  Lemma pr_count : forall m g m' g' a, inv_probe c m g -> do_count c m g = (m', g', a) -> inv_probe c m' g'.
  Proof.
    unfold do_count. intros m g m' g' a H H0. inversion H0; subst; clear H0.
    unfold inv_probe in *.
    destruct (s_hc m <? b_max c) eqn:Q; destruct (s_st m =? 2) eqn:S; cbn [andb]; fields;
      intros W; apply orb_false_elim in W; destruct W as [W1 W2];
      destruct (H W1) as [A B]; bools; rewrite mod_small_u32 by lia.
    - (* admitted while half-open *)
      destruct (g_lost g) eqn:L.
      + split; auto. discriminate.
      + destruct (B eq_refl) as [B1 B2]. specialize (B2 S).
        split; [lia|]. intros _. split; [lia|]. intros _. lia.
    - split; auto. intros L. destruct (B L) as [B1 B2]. split; auto. intros S'. congruence.
    - split; auto. intros L. destruct (B L) as [B1 B2]. split; auto. intros _. specialize (B2 S). lia.
    - split; auto. intros L. destruct (B L) as [B1 B2]. split; auto. intros S'. congruence.
  Qed.
End Probe.

Lemma op_step_probe : forall c p clk m g m' g' a,
  fx_cnt c = true -> inv_probe c m g -> op_step c p clk m g = (m', g', a) -> inv_probe c m' g'.
Proof.
  intros c p clk m g m' g' a Hc I H.
  destruct p; cbn [op_step] in H; rewrite ?Hc in H; open_step H;
    repeat first [ assumption
                 | simple apply pr_lft | simple apply pr_lst | simple apply pr_fc | simple apply pr_hs | simple apply pr_panic | simple apply pr_ev
                 | simple apply pr_open | simple apply pr_wrap | simple apply pr_st0 | simple apply pr_st1
                 | simple eapply pr_count; [| eassumption]
                 | simple eapply pr_reset; [| eassumption]
                 | simple eapply pr_cas; [| eassumption] ].
Qed.

(* ------------------------------------------------------------------ no panic *)

(** with saturating_sub, the only panic left is the `+ 1` after a fetch_add that wrapped *)
Definition inv_panic (m : bsh) (g : bgh) : Prop := g_panicked g = true -> g_wrapped g = true.

Section Panic.
  Ltac t := unfold inv_panic; intros; fields; auto.
  Lemma pa_sh : forall m m' g, inv_panic m g -> inv_panic m' g. Proof. t. Qed.
  Lemma pa_ev : forall e m g, inv_panic m g -> inv_panic m (g_ev e g). Proof. t. Qed.
  Lemma pa_open : forall o m g, inv_panic m g -> inv_panic m (g_open o g). Proof. t. Qed.
  Lemma pa_wrap : forall b m g, inv_panic m g -> inv_panic m (g_wrap b g).
  Proof. t. rewrite (H H0). reflexivity. Qed.
  Lemma pa_panic_w : forall m g, g_wrapped g = true -> inv_panic m (g_panic g).
  Proof. t. Qed.
  Lemma pa_cas : forall m g m' g' w, inv_panic m g -> do_cas m g = (m', g', w) -> inv_panic m' g'.
  Proof. unfold do_cas. intros. brk; inversion H0; subst; auto. Qed.
  Lemma pa_reset : forall m g m' g', inv_panic m g -> do_reset_calls m g = (m', g') -> inv_panic m' g'.
  Proof. unfold do_reset_calls. intros. inversion H0; subst. auto. Qed.
  Lemma pa_count : forall c m g m' g' a, inv_panic m g -> do_count c m g = (m', g', a) -> inv_panic m' g'.
  Proof.
    unfold do_count. intros. inversion H0; subst; clear H0. unfold inv_panic in *.
    brk; fields; intros P; rewrite (H P); reflexivity.
  Qed.
End Panic.

Lemma op_step_panic : forall c p clk m g m' g' a,
  fx_sat c = true -> inv_panic m g -> op_step c p clk m g = (m', g', a) -> inv_panic m' g'.
Proof.
  intros c p clk m g m' g' a Hc I H.
  destruct p; cbn [op_step] in H; rewrite ?Hc in H; cbn [negb andb] in H; open_step H;
    repeat first [ assumption
                 | (simple apply pa_panic_w; fields; apply orb_true_r) | simple apply pa_ev | simple apply pa_open | simple apply pa_wrap
                 | simple eapply pa_count; [| eassumption]
                 | simple eapply pa_reset; [| eassumption]
                 | simple eapply pa_cas; [| eassumption]
                 | simple eapply pa_sh; eassumption ].
Qed.

(* ------------------------------------------------------------------ counters are bounded by the number of steps *)

Definition inv_cnt (n : N) (m : bsh) (g : bgh) : Prop :=
  s_fc m <= n /\ s_hc m <= n /\ s_hs m <= n /\ (n < U32 -> g_wrapped g = false).

Lemma op_step_cnt : forall c p clk m g m' g' a n,
  inv_cnt n m g -> op_step c p clk m g = (m', g', a) -> inv_cnt (n + 1) m' g'.
Proof.
  intros c p clk m g m' g' a n (A & B & C & D) H.
  assert (W : n + 1 < U32 -> g_wrapped g = false) by (intros; apply D; lia).
  destruct p; cbn [op_step] in H; unfold do_count, do_cas, do_reset_calls in H;
    brk; inversion H; subst; clear H; unfold inv_cnt; fields;
    repeat split; try lia;
    try (intros; apply W; assumption);
    try (pose proof (mod_le_u32 (s_hc m + 1)); pose proof (mod_le_u32 (s_hs m + 1));
         pose proof (mod_le_u32 (s_fc m + 1)); lia);
    try (intros Hn; rewrite (W Hn); bools; cbn [orb]; apply N.leb_gt; lia).
Qed.

(* ------------------------------------------------------------------ opens only after threshold *)

Definition snap_ok (c : bcfg) (h : list bev) : Prop := b_thr c <= trailing_failures h.
Definition pc_ok (c : bcfg) (p : bpc) : Prop :=
  match p with PF_ostate (Some h) => snap_ok c h | _ => True end.
Definition arr_ok (c : bcfg) (a : barr) : Prop :=
  match a with AAt q => pc_ok c q | _ => True end.
Definition inv_open (c : bcfg) (m : bsh) (g : bgh) : Prop :=
  s_fc m <= trailing_failures (g_hist g) /\ Forall (snap_ok c) (g_opens g).

Lemma op_step_open : forall c p clk m g m' g' a,
  inv_open c m g -> pc_ok c p -> op_step c p clk m g = (m', g', a) -> inv_open c m' g' /\ arr_ok c a.
Proof.
  intros c p clk m g m' g' a (A & B) P H.
  destruct p; cbn [op_step] in H; unfold do_count, do_cas, do_reset_calls in H;
    brk; inversion H; subst; clear H; unfold inv_open, arr_ok, pc_ok, snap_ok in *; fields;
    cbn [trailing_failures]; repeat split; auto; try lia;
    try (pose proof (mod_le_u32 (s_fc m + 1)); bools; lia).
  - (* PF_ostate (Some h): the snapshot enters the list of opens *)
    destruct snap; auto.
Qed.

(* ------------------------------------------------------------------ lifting to schedules *)

Lemma bexec_inv : forall c (P : bsh -> bgh -> Prop),
  (forall p clk m g m' g' a, P m g -> op_step c p clk m g = (m', g', a) -> P m' g') ->
  forall sched s, P (b_sh s) (b_gh s) -> P (b_sh (bexec c sched s)) (b_gh (bexec c sched s)).
Proof.
  intros c P HP. unfold bexec. induction sched as [| it r IH]; intros s H0; cbn [fold_left]; auto.
  apply IH. unfold bstep.
  match goal with |- context [op_step ?c ?p ?k ?m ?g] => destruct (op_step c p k m g) as [[m' g'] a] eqn:E end.
  cbn [fst b_sh b_gh]. eapply HP; eauto.
Qed.

Lemma inv_probe_init : forall c t0, inv_probe c (b_sh (binit t0)) (b_gh (binit t0)).
Proof. intros. unfold inv_probe. cbn. intros _. split; [lia|]. intros _. split; [lia|]. discriminate. Qed.

(** C26_probe_bound *)
Lemma breaker_probe_bound : forall c t0 sched, fx_cnt c = true ->
  let s := bexec c sched (binit t0) in
  g_wrapped (b_gh s) = false ->
  g_peak (b_gh s) <= b_max c /\ (g_lost (b_gh s) = false -> g_admits (b_gh s) <= b_max c).
Proof.
  intros c t0 sched Hc s W.
  assert (I : inv_probe c (b_sh s) (b_gh s)).
  { apply bexec_inv; [| apply inv_probe_init]. intros. eapply op_step_probe; eauto. }
  destruct (I W) as [A B]. split; auto. intros L. apply (B L).
Qed.

(** C26_no_panic *)
Lemma breaker_no_panic : forall c t0 sched, fx_sat c = true ->
  let s := bexec c sched (binit t0) in
  g_wrapped (b_gh s) = false -> g_panicked (b_gh s) = false.
Proof.
  intros c t0 sched Hc s W.
  assert (I : inv_panic (b_sh s) (b_gh s)).
  { apply (bexec_inv c inv_panic); [| unfold inv_panic; cbn; discriminate].
    intros. eapply op_step_panic; eauto. }
  unfold inv_panic in I. destruct (g_panicked (b_gh s)); auto. rewrite (I eq_refl) in W. discriminate.
Qed.

Lemma bexec_cnt : forall c sched s n, inv_cnt n (b_sh s) (b_gh s) ->
  inv_cnt (n + N.of_nat (length sched)) (b_sh (bexec c sched s)) (b_gh (bexec c sched s)).
Proof.
  intros c. unfold bexec. induction sched as [| it r IH]; intros s n H; cbn [fold_left length].
  - replace (n + N.of_nat 0) with n by lia. exact H.
  - replace (n + N.of_nat (S (length r))) with ((n + 1) + N.of_nat (length r)) by lia.
    apply IH. unfold bstep.
    match goal with |- context [op_step ?c ?p ?k ?m ?g] => destruct (op_step c p k m g) as [[m' g'] a] eqn:E end.
    cbn [fst b_sh b_gh]. eapply op_step_cnt; eauto.
Qed.

(** fewer than 2^32 atomic steps: no u32 counter can have wrapped *)
Lemma breaker_no_wrap_short : forall c t0 sched, N.of_nat (length sched) < U32 ->
  g_wrapped (b_gh (bexec c sched (binit t0))) = false.
Proof.
  intros c t0 sched L.
  assert (I : inv_cnt 0 (b_sh (binit t0)) (b_gh (binit t0))).
  { unfold inv_cnt. cbn. repeat split; try lia. }
  apply (bexec_cnt c sched) in I. destruct I as (_ & _ & _ & D). apply D. lia.
Qed.

(** a panic arrival sets the ghost flag, and the flag is sticky *)
Lemma op_step_panic_arr : forall c p clk m g m' g',
  op_step c p clk m g = (m', g', APanic) -> g_panicked g' = true.
Proof.
  intros c p clk m g m' g' H.
  destruct p; cbn [op_step] in H; unfold do_count, do_cas, do_reset_calls in H;
    brk; inversion H; subst; reflexivity.
Qed.

Lemma op_step_panicked_sticky : forall c p clk m g m' g' a,
  g_panicked g = true -> op_step c p clk m g = (m', g', a) -> g_panicked g' = true.
Proof.
  intros c p clk m g m' g' a P H.
  destruct p; cbn [op_step] in H; unfold do_count, do_cas, do_reset_calls in H;
    brk; inversion H; subst; fields; auto.
Qed.

Definition arrivals (tr : list (barr * N * N * N)) : list barr := map (fun '(a, _, _, _) => a) tr.

Lemma brun_panic_flag : forall c sched s,
  In APanic (arrivals (brun c s sched)) -> g_panicked (b_gh (bexec c sched s)) = true.
Proof.
  intros c. induction sched as [| it r IH]; intros s H; cbn [brun arrivals map] in H; [destruct H|].
  destruct (bstep c s it) as [s' a] eqn:E. cbn [arrivals map In] in H.
  change (bexec c (it :: r) s) with (bexec c r (fst (bstep c s it))). rewrite E. cbn [fst].
  destruct H as [H | H].
  - subst a.
    apply (bexec_inv c (fun _ g => g_panicked g = true)).
    + intros. eapply op_step_panicked_sticky; eauto.
    + unfold bstep in E.
      match type of E with context [op_step ?c ?p ?k ?m ?g] => destruct (op_step c p k m g) as [[m' g'] a'] eqn:E' end.
      inversion E; subst. cbn [b_gh]. eapply op_step_panic_arr; eauto.
  - apply IH. exact H.
Qed.

(** no step of any thread panics *)
Lemma breaker_trace_no_panic : forall c t0 sched, fx_sat c = true ->
  g_wrapped (b_gh (bexec c sched (binit t0))) = false ->
  ~ In APanic (arrivals (brun c (binit t0) sched)).
Proof.
  intros c t0 sched Hc W H. apply brun_panic_flag in H.
  rewrite (breaker_no_panic c t0 sched Hc W) in H. discriminate.
Qed.

(* opens *)
Definition inv_open_s (c : bcfg) (s : bstate) : Prop :=
  inv_open c (b_sh s) (b_gh s) /\ forall t, pc_ok c (b_pcs s t).

Lemma bstep_open : forall c s it, inv_open_s c s -> inv_open_s c (fst (bstep c s it)).
Proof.
  intros c s it [I T]. unfold bstep.
  match goal with |- context [op_step ?c ?p ?k ?m ?g] =>
    assert (P : pc_ok c p); [| destruct (op_step c p k m g) as [[m' g'] a] eqn:E] end.
  { destruct (b_pcs s (i_tid it)) eqn:Q; try (rewrite <- Q; apply T); try exact Logic.I.
    destruct (i_m it) as [[]|]; exact Logic.I. }
  destruct (op_step_open _ _ _ _ _ _ _ _ I P E) as [I' A].
  cbn [fst]. split; cbn [b_sh b_gh b_pcs]; auto.
  intros t. unfold upd_pc. destruct (Nat.eqb t (i_tid it)); [| apply T].
  destruct a; try exact Logic.I. exact A.
Qed.

(** C26_open_after_threshold *)
Lemma breaker_open_after_threshold : forall c t0 sched,
  Forall (fun h => b_thr c <= trailing_failures h) (g_opens (b_gh (bexec c sched (binit t0)))).
Proof.
  intros c t0 sched.
  assert (I : inv_open_s c (bexec c sched (binit t0))).
  { assert (I0 : inv_open_s c (binit t0)).
    { split; [split; cbn; [lia | constructor] | intros t; exact Logic.I]. }
    revert I0. generalize (binit t0). unfold bexec.
    induction sched as [| it r IH]; intros s I0; cbn [fold_left]; auto. apply IH. apply bstep_open. exact I0. }
  destruct I as [[_ F] _]. exact F.
Qed.

Lemma opens_ok_true : forall c t0 sched, opens_ok c (b_gh (bexec c sched (binit t0))) = true.
Proof.
  intros. unfold opens_ok. apply forallb_forall. intros h Hh.
  pose proof (breaker_open_after_threshold c t0 sched) as F. rewrite Forall_forall in F.
  apply N.leb_le. apply F. exact Hh.
Qed.

(* ------------------------------------------------------------------ witnesses *)
Definition St (t : nat) (me : bmethod) : bitem := mkItem t (Some me) 0.
Definition Go (t : nat) : bitem := mkItem t None 0.
Definition GoD (t : nat) (dt : N) : bitem := mkItem t None dt.
Definition StD (t : nat) (me : bmethod) (dt : N) : bitem := mkItem t (Some me) dt.

(** record_failure run to completion by thread t from the Closed state when it opens (7 steps) *)
Definition fail_open (t : nat) : list bitem := St t MFailure :: repeat (Go t) 6.

(** original code: thread 1 reads the clock, thread 2 then records a failure 5 ms later, thread 1
    loads the newer last_failure_time: `now - last_failure` underflows *)
Definition w_orig_panic : list bitem :=
  fail_open 0 ++ [St 1 MAllow; Go 1; StD 2 MFailure 5; Go 2; Go 1].
Definition w_orig_panic_est : list bitem :=
  fail_open 0 ++ [St 1 MEstimate; Go 1; StD 2 MFailure 5; Go 2; Go 1].

(** without the second repair, even one thread gets max + 1 probes: the transitioning request
    is admitted without being counted *)
Definition w_uncounted : list bitem :=
  fail_open 0 ++ (St 0 MAllow :: repeat (Go 0) 5) ++ [St 0 MAllow; Go 0].

(** without the second repair: the loser of the compare_exchange resets the counters *)
Definition w_loser_reset : list bitem :=
  fail_open 0 ++ [St 0 MAllow; Go 0; Go 0; St 1 MAllow; Go 1; Go 1; Go 0; Go 0; Go 0;
                  St 2 MAllow; Go 2; Go 1; Go 1; Go 1; St 2 MAllow; Go 2].

(** repaired code, residual race (known finding): thread 1 is admitted between thread 0's
    successful compare_exchange and thread 0's reset of half_open_call_count *)
Definition w_reset_race : list bitem :=
  fail_open 0 ++ [St 0 MAllow; Go 0; Go 0; Go 0; St 1 MAllow; Go 1; Go 0; Go 0; Go 0].

Lemma orig_panic_refuted :
  g_panicked (b_gh (bexec (mkCfg 1 30000 1 1 false false) w_orig_panic (binit 1000))) = true /\
  g_panicked (b_gh (bexec (mkCfg 1 30000 1 1 false false) w_orig_panic_est (binit 1000))) = true /\
  g_wrapped (b_gh (bexec (mkCfg 1 30000 1 1 false false) w_orig_panic (binit 1000))) = false.
Proof. vm_compute. repeat split. Qed.

Lemma orig_probe_refuted :
  let s := bexec (mkCfg 1 0 1 1 true false) w_uncounted (binit 1000) in
  let s' := bexec (mkCfg 1 0 1 1 true false) w_loser_reset (binit 1000) in
  g_peak (b_gh s) = 2 /\ g_lost (b_gh s) = false /\ g_wrapped (b_gh s) = false /\
  g_admits (b_gh s') = 4 /\ g_kpeak (b_gh s') = 4 /\ g_wrapped (b_gh s') = false.
Proof. vm_compute. repeat split. Qed.

Lemma reset_race_known :
  let s := bexec (mkCfg 1 0 1 1 true true) w_reset_race (binit 1000) in
  g_lost (b_gh s) = true /\ g_kpeak (b_gh s) = 2 /\ g_peak (b_gh s) = 1 /\ g_wrapped (b_gh s) = false.
Proof. vm_compute. repeat split. Qed.

(* ------------------------------------------------------------------ combined statements *)
Lemma breaker_no_panic_full : forall c t0 sched, fx_sat c = true ->
  g_wrapped (b_gh (bexec c sched (binit t0))) = false ->
  g_panicked (b_gh (bexec c sched (binit t0))) = false /\
  ~ In APanic (arrivals (brun c (binit t0) sched)).
Proof.
  intros. split; [apply breaker_no_panic | apply breaker_trace_no_panic]; assumption.
Qed.

Lemma breaker_inv : forall c t0 sched, fx_sat c = true -> fx_cnt c = true ->
  N.of_nat (length sched) < U32 ->
  let s := bexec c sched (binit t0) in
  g_panicked (b_gh s) = false /\ ~ In APanic (arrivals (brun c (binit t0) sched)) /\
  g_peak (b_gh s) <= b_max c /\ (g_lost (b_gh s) = false -> g_admits (b_gh s) <= b_max c) /\
  Forall (fun h => b_thr c <= trailing_failures h) (g_opens (b_gh s)).
Proof.
  intros c t0 sched Hs Hc L s.
  pose proof (breaker_no_wrap_short c t0 sched L) as W.
  destruct (breaker_no_panic_full c t0 sched Hs W) as [A B].
  destruct (breaker_probe_bound c t0 sched Hc W) as [C D].
  repeat split; auto. apply breaker_open_after_threshold.
Qed.
